"""C16 — CouchDB store as a revision-guarded map: Model/Couch.lean vs basyx.aas.backend.couchdb against a fake CouchDB."""
from __future__ import annotations

import gc
import itertools
import json
import random
from typing import Any, Dict, List, Optional, Tuple

from vf import common as C

ID = "C16"
LEAN_MODULE = "Basyx.Props.C16"
LEVEL = "proof"

MANIFEST = {
    "text": "Lean theorems over ALL histories (arbitrary interleavings of SDK calls, each with an arbitrary per-request fault plan, and "
            "an external writer) of a transcription of couchdb.py running against a specification of CouchDB's MVCC document API: "
            "revision-store invariant (known rev <= server rev counter) for every history; no lost update (commit / safe delete from a "
            "replica whose known revision is not the server's current one raises and leaves the document unchanged, also after any "
            "history that follows an external write without re-reading); commit from an up-to-date replica is stored, recorded and "
            "read back; single client without faults refines a persistent map (KeyError on duplicate/missing); error totality of "
            "do_request's classification and of every store call; discard bookkeeping (no phantom); quote is injective/decodable and "
            "URL-safe. Tie: differential run (outcome, request log, full client+server state after every call) against the SDK "
            "talking to a Python transcription of the model's server (itself compared with the Lean server line by line), through a "
            "replaced pool manager and through real sockets on 127.0.0.1."
            " Every urllib.parse.quote call that builds a document name is regenerated from the source and proved to pass safe='' - the quoting the injectivity theorems are about (c16_document_name_quotes_everything).",
    "note": "proof relative to the modelled MVCC rules (no real CouchDB in the sandbox); payload = one Submodel attribute; urllib3/json "
            "trusted; op-level (not request-level) interleaving; documents written by the external writer are SDK-shaped",
    "technique": "Lean 4 proof: invariant by induction over interleaved histories + per-call refinement to an abstract map + decision-table "
                 "totality; differential correspondence with couchdb.py against an in-process fake CouchDB (pool manager stand-in and loopback http.server)",
}
ASSUMPTIONS = [
    "CouchDB's MVCC rules for PUT/GET/HEAD/DELETE doc, _all_docs and db info are as specified in Model/Couch.lean `serve` "
    "(tombstones keep the revision counter; PUT/DELETE with a revision on a deleted document -> 409/404)",
    "the fake server is a Python transcription of `serve`; it is compared with the Lean server on every request of every run",
    "non-2xx JSON responses carry CouchDB's {error, reason} members (otherwise do_request leaks a KeyError: modelled, excluded by hypothesis)",
    "urllib3 / json / WeakValueDictionary behave as documented; dropping the last strong reference removes the cache entry (gc.collect())",
    "interleaving granularity is one SDK call (its requests are not interleaved with the external writer's)",
    "which of the two transcriptions of discard()'s bookkeeping (pinned `del` / patched `pop`) applies is extracted from the source "
    "by ast on every run; the theorems about discard (atomicity, bookkeeping, map refinement) are about the patched one — on the "
    "pinned tree they are contradicted by the recorded known finding (c16_pinned_discard_phantom)",
]

BASE = "http://couch.test:5984"
IDS2 = ["a", "x/y?z#%20 ä"]
IDS_WIDE = IDS2 + ["http://ex.org/sm?a=1&b=2#frag", "%41", "A", "~_.-", "ü€😀", " ", "a/b", "a%2Fb", "+", "a b", "%", "%zz", "a b"]
PLANNED = {"add", "get", "commit", "update", "discard", "contains", "len", "iter"}

STATUS_FAULTS = [["status", c, jt, jb] for c in (401, 404, 409, 412, 500) for (jt, jb) in ((True, True), (False, False), (True, False))] + \
                [["status", 200, True, False], ["status", 200, False, False], ["status", 503, False, True]]
TRANSPORT_FAULTS = [["transport", k] for k in ("timeout", "ssl", "protocol", "other")]
ALL_FAULTS = [f + [p] for f in STATUS_FAULTS + TRANSPORT_FAULTS for p in (False, True)]


_VARIANT: Dict[str, Any] = {}


def detect_variant() -> Tuple[Optional[str], List[str]]:
    """T-gen for the one place where the model has two transcriptions: does `discard`'s bookkeeping use `del d[k]` (pinned tree,
    Model `discardG false`) or `d.pop(k, None)` (fixes/C16-discard-bookkeeping.patch, `discardG true`)?  Read from the source by
    `ast`, never by importing."""
    import ast
    import os
    path = os.path.join(C.REPO, "sdk", "basyx", "aas", "backend", "couchdb.py")
    tree = ast.parse(open(path, encoding="utf-8").read())

    def kind(fn, is_target) -> Optional[str]:
        found = set()
        for n in ast.walk(fn):
            if isinstance(n, ast.Delete):
                for t in n.targets:
                    if isinstance(t, ast.Subscript) and is_target(t.value):
                        found.add("del")
            if isinstance(n, ast.Call) and isinstance(n.func, ast.Attribute) and n.func.attr == "pop" and is_target(n.func.value) \
                    and len(n.args) == 2:
                found.add("pop")
        return found.pop() if len(found) == 1 else None

    rev_fn = next((n for n in tree.body if isinstance(n, ast.FunctionDef) and n.name == "delete_couchdb_revision"), None)
    cls = next((n for n in tree.body if isinstance(n, ast.ClassDef) and n.name == "CouchDBObjectStore"), None)
    dis_fn = next((n for n in (cls.body if cls else []) if isinstance(n, ast.FunctionDef) and n.name == "discard"), None)
    if rev_fn is None or dis_fn is None:
        return None, ["delete_couchdb_revision / CouchDBObjectStore.discard not found in couchdb.py"]
    a = kind(rev_fn, lambda v: isinstance(v, ast.Name) and v.id == "_revision_store")
    b = kind(dis_fn, lambda v: isinstance(v, ast.Attribute) and v.attr == "_object_cache")
    if a == "del" and b == "del":
        return "pinned", []
    if a == "pop" and b == "pop":
        return "fixed", []
    return None, [f"discard bookkeeping has an unrecognised shape (revision store: {a}, object cache: {b}); the model knows "
                  "`del d[k]` in both places (pinned) or `d.pop(k, None)` in both (patched)"]


def variant() -> str:
    if "v" not in _VARIANT:
        v, broken = detect_variant()
        _VARIANT["v"] = v or "fixed"
        _VARIANT["broken"] = broken
    return _VARIANT["v"]


def translate(ctx: C.Ctx) -> List[str]:
    from props import c14
    variant()
    return list(_VARIANT["broken"]) + c14.translate_backends(ctx)


def idb(s: str) -> List[int]:
    return list(s.encode("utf-8"))


# ------------------------------------------------------------------------------------------------- implementation side

class Impl:
    """Drives the real CouchDBObjectStore against the fake server."""

    def __init__(self, mode: str = "pool"):
        from basyx.aas.backend import couchdb
        from props import c16_server as S
        self.S = S
        self.couchdb = couchdb
        self.mode = mode
        self._saved_pm = couchdb._http_pool_manager
        self._shutdown = None
        if mode == "pool":
            self.http = S.Http(BASE)
            couchdb._http_pool_manager = S.FakePoolManager(self.http)
        else:
            self.http, self._shutdown, self._lb = S.start_loopback(lambda base: S.Http(base))
        self.base = self.http.base
        self.reset()

    def reset(self):
        S = self.S
        self.http.server = S.Server()
        self.http.begin([])
        if self.mode != "pool":
            self._lb["absorb"] = None
        with self.couchdb._revision_store_lock:
            self.couchdb._revision_store.clear()
        self.store = self.couchdb.CouchDBObjectStore(self.base, S.DB)
        self.handles: Dict[int, Any] = {}
        self.next = 0

    def close(self):
        self.couchdb._http_pool_manager = self._saved_pm
        with self.couchdb._revision_store_lock:
            self.couchdb._revision_store.clear()
        if self._shutdown:
            self._shutdown()

    # --- helpers
    def exc(self, e: BaseException):
        cd = self.couchdb
        if isinstance(e, KeyError):
            return "KeyError"
        if isinstance(e, cd.CouchDBConflictError):
            return "CouchDBConflictError"
        if isinstance(e, cd.CouchDBServerError):
            return ["CouchDBServerError", e.code]
        if isinstance(e, cd.CouchDBResponseError):
            return "CouchDBResponseError"
        if isinstance(e, cd.CouchDBConnectionError):
            return "CouchDBConnectionError"
        return ["Other", type(e).__name__]

    def handle_of(self, o) -> int:
        for h, x in self.handles.items():
            if x is o:
                return h
        h = self.next
        self.next += 1
        self.handles[h] = o
        return h

    @staticmethod
    def dnum(o):
        s = o.id_short
        return int(s[1:]) if isinstance(s, str) and s.startswith("v") and s[1:].isdigit() else ["opaque", s]

    def src(self, o):
        s = o.source
        if s == "":
            return None
        pre = self.base.replace("http://", "couchdb://") + "/" + self.S.DB + "/"
        return s[len(pre):] if s.startswith(pre) else ["foreign", s]

    def view(self):
        pre = self.base + "/" + self.S.DB + "/"
        revs = sorted([[u[len(pre):] if u.startswith(pre) else u, self.S.rev_num(r)]
                       for u, r in list(self.couchdb._revision_store.items())])
        cache = []
        for i, o in list(self.store._object_cache.items()):
            h = next((h for h, x in self.handles.items() if x is o), -1)
            cache.append([idb(i), h])
        objs = [[h, idb(o.id), self.dnum(o), self.src(o)] for h, o in self.handles.items()]
        return [revs, sorted(cache), sorted(objs), self.http.docs_view()]

    def ext(self, op):
        S = self.S
        i = tuple(idb(op[1]))
        if self.mode == "pool":
            if op[0] == "ext_put":
                self.http.server.ext_put(i, S.submodel_json(i, op[2]))
            else:
                self.http.server.ext_delete(i)
            return
        # loopback: a second HTTP client with its own connection pool (HEAD for the revision, then PUT / DELETE with it)
        import urllib3
        if not hasattr(self, "_ext_pm"):
            self._ext_pm = urllib3.PoolManager()
        url = self.base + "/" + S.DB + "/" + S.quote(i)
        r = self._ext_pm.request("HEAD", url, headers={"X-Ext": "1"})
        rev = r.headers["ETag"][1:-1] if r.status == 200 else None
        if op[0] == "ext_put":
            body: Dict[str, Any] = {"data": S.submodel_json(i, op[2])}
            if rev is not None:
                body["_rev"] = rev
            self._ext_pm.request("PUT", url, body=json.dumps(body).encode(), headers={"X-Ext": "1", "Content-type": "application/json"})
        elif rev is not None:
            self._ext_pm.request("DELETE", url + "?rev=" + rev, headers={"X-Ext": "1"})

    def step(self, op: List[Any]) -> List[Any]:
        k = op[0]
        plan = op[-1] if k in PLANNED else []
        self.http.begin(plan)
        if self.mode != "pool":
            self._lb["absorb"] = None        # retries of a dropped request belong to the call that issued it
        out = self._do(op)
        return [out, self.http.log, self.view()]

    def _do(self, op):
        from basyx.aas import model
        k = op[0]
        st = self.store
        try:
            if k == "mk":
                o = model.Submodel(op[1], [model.Property("p", model.datatypes.Int, 0)], id_short=f"v{op[2]}")
                return ["handle", self.handle_of(o)]
            if k == "ext_put" or k == "ext_delete":
                self.ext(op)
                return ["unit"]
            if k == "get":
                return ["handle", self.handle_of(st.get_identifiable(op[1]))]
            if k == "contains":
                return ["bool", op[1] in st]
            if k == "len":
                return ["nat", len(st)]
            if k == "iter":
                it = iter(st)
                hs: List[int] = []
                stopped = None
                try:
                    for o in it:
                        hs.append(self.handle_of(o))
                except Exception as e:
                    stopped = self.exc(e)
                return ["handles", hs, stopped]
            h = op[1]
            if h not in self.handles:
                return ["bad-handle"]
            o = self.handles[h]
            if k == "modify":
                o.id_short = f"v{op[2]}"
                return ["unit"]
            if k == "drop":
                del self.handles[h]
                del o
                gc.collect()
                return ["unit"]
            if k == "add":
                # every other add is a bulk insertion fed from a one-shot generator (AbstractObjectStore.update)
                if (o.id_short or "v0")[-1] in "13579":
                    st.update(x for x in [o])
                else:
                    st.add(o)
                return ["unit"]
            if k == "commit":
                # committing a contained element commits the document of the stored object it belongs to: every other
                # commit goes through the child (same meaning, another entry point)
                child = o.get_referable("p") if len(o.submodel_element) else None
                if child is not None and (o.id_short or "v0")[-1] in "13579":
                    child.commit()
                else:
                    o.commit()
                return ["unit"]
            if k == "update":
                # refreshing a contained element refreshes the stored object it belongs to: every other update enters there
                child = o.get_referable("p") if len(o.submodel_element) else None
                if child is not None and (o.id_short or "v0")[-1] in "02468":
                    child.update()
                else:
                    o.update()
                return ["unit"]
            if k == "discard":
                st.discard(o, safe_delete=op[2])
                return ["unit"]
        except Exception as e:
            return ["raise", self.exc(e)]
        raise ValueError(op)


def model_line(op: List[Any]) -> List[Any]:
    k = op[0]
    if k in ("mk", "ext_put"):
        return [k, idb(op[1]), op[2]]
    if k in ("get", "contains"):
        return [k, idb(op[1]), op[2]]
    if k == "ext_delete":
        return [k, idb(op[1])]
    return list(op)


def canon_model(r):
    """sort the dict-like parts of the model's view (the implementation side is sorted the same way)"""
    if isinstance(r, list) and len(r) == 3 and isinstance(r[2], list) and len(r[2]) == 4:
        v = r[2]
        return [r[0], r[1], [sorted(v[0]), sorted(v[1]), sorted(v[2]), v[3]]]
    return r


# ------------------------------------------------------------------------------------------------- histories

class Resolver:
    """Turns macro operations ("commit the current replica of id i") into concrete op lines while the implementation runs."""

    def __init__(self, ids: List[str]):
        self.ids = ids
        self.cur: Dict[int, int] = {}
        self.val = 10

    def setup(self) -> List[List[Any]]:
        return [["mk", i, k] for k, i in enumerate(self.ids)]

    def fresh(self) -> int:
        self.val += 1
        return self.val

    def concrete(self, m, plan=None) -> List[List[Any]]:
        plan = plan or []
        k = m[0]
        if k in ("len", "iter"):
            return [[k, plan]]
        i = m[1]
        h = self.cur.get(i, i)
        if k == "add":
            return [["add", h, plan]]
        if k == "get":
            return [["get", self.ids[i], plan]]
        if k == "contains":
            return [["contains", self.ids[i], plan]]
        if k == "mc":
            return [["modify", h, self.fresh()], ["commit", h, plan]]
        if k == "update":
            return [["update", h, plan]]
        if k == "discard":
            return [["discard", h, False, plan]]
        if k == "sdiscard":
            return [["discard", h, True, plan]]
        if k == "mk":
            return [["mk", self.ids[i], self.fresh()]]
        if k == "drop":
            return [["drop", h], ["mk", self.ids[i], self.fresh()]]
        if k == "xput":
            return [["ext_put", self.ids[i], self.fresh()]]
        if k == "xdel":
            return [["ext_delete", self.ids[i]]]
        raise ValueError(m)

    def observe(self, m, op, res):
        if op[0] in ("get", "mk") and res[0][0] == "handle":
            self.cur[m[1]] = res[0][1]


CLIENT_MACROS = ["add", "get", "mc", "update", "discard", "sdiscard"]
EXT_MACROS = ["xput", "xdel"]
OBSERVERS = [("contains", 0), ("contains", 1), ("len",), ("iter",)]


def exhaustive_macros(tier: str, rng: random.Random) -> Tuple[List[List[tuple]], str]:
    one = [(k, 0) for k in CLIENT_MACROS + EXT_MACROS]
    two = [(k, i) for i in (0, 1) for k in CLIENT_MACROS + EXT_MACROS]
    seqs: List[List[tuple]] = []
    if tier == "quick":
        for L in range(1, 5):
            seqs += [list(s) for s in itertools.product(one, repeat=L)]           # 8 + 64 + 512 + 4096
        seqs += [list(s) for s in itertools.product(two, repeat=2) if s[0][1] == 0]
        pool3 = [s for s in itertools.product(two, repeat=3) if s[0][1] == 0 and any(x[1] == 1 for x in s)]
        seqs += [list(s) for s in rng.sample(pool3, 800)]
        desc = ("all interleavings (sequences over 6 SDK calls + 2 external writes) on one id up to length 4 (4680) and on two ids "
                "of length 2, 800 sampled two-id interleavings of length 3")
    else:
        for L in range(1, 7):
            seqs += [list(s) for s in itertools.product(one, repeat=L)]           # 8 + … + 262144 = 299592
        for L in range(2, 5):
            seqs += [list(s) for s in itertools.product(two, repeat=L)
                     if s[0][1] == 0 and any(x[1] == 1 for x in s)]                # first op on id0 (symmetry), both ids used
        # 16^5 / 16^6 two-id interleavings are out of budget: seeded samples
        seqs += [[rng.choice(two) for _ in range(L)] for L in (5, 6) for _ in range(6000)]
        desc = ("ALL interleavings (sequences over 6 SDK calls + 2 external writes) on one id up to length 6 (299592), all on two "
                "ids up to length 4 with the first call on id0 (id symmetry) and both ids used, 12000 sampled two-id interleavings "
                "of length 5 and 6")
    return seqs, desc


def random_fault(rng: random.Random):
    return list(rng.choice(ALL_FAULTS))


def random_plan(rng: random.Random, p: float):
    if rng.random() >= p:
        return []
    r = rng.random()
    if r < 0.6:
        return [random_fault(rng)]
    if r < 0.9:
        return [None, random_fault(rng)]
    return [None, None, random_fault(rng)] if rng.random() < 0.5 else [random_fault(rng), random_fault(rng)]


def random_macros(rng: random.Random, n_ids: int, length: int, pfault: float):
    out = []
    kinds = CLIENT_MACROS * 3 + EXT_MACROS * 3 + ["mk", "drop", "contains", "len", "iter"]
    for _ in range(length):
        k = rng.choice(kinds)
        m = (k,) if k in ("len", "iter") else (k, rng.randrange(n_ids))
        out.append((m, random_plan(rng, pfault)))
    return out


def fault_grid() -> List[List[Tuple[tuple, Any]]]:
    """every fault at every request position of every SDK call, from three pre-states"""
    pres = [[], [("add", 0)], [("add", 0), ("xput", 0)], [("add", 0), ("add", 1), ("xdel", 1)]]
    calls = [(k, 0) for k in CLIENT_MACROS + ["contains"]] + [("len",), ("iter",)]
    seqs = []
    for pre in pres:
        for c in calls:
            for f in ALL_FAULTS:
                for pos in (0, 1, 2):
                    if pos >= 1 and c[0] not in ("discard", "iter"):
                        continue
                    if pos == 2 and c[0] != "iter":
                        continue
                    seqs.append([(m, []) for m in pre] + [(c, [None] * pos + [list(f)])])
    return seqs


def run_history(impl: Impl, ids: List[str], macros: List[Tuple[tuple, Any]], final_observe: bool):
    """Runs macro ops on the implementation; returns (concrete ops, results)."""
    impl.reset()
    rs = Resolver(ids)
    ops: List[List[Any]] = []
    res: List[Any] = []
    for op in rs.setup():
        ops.append(op); res.append(impl.step(op))
    for m, plan in macros:
        for op in rs.concrete(m, plan):
            r = impl.step(op)
            ops.append(op); res.append(r)
            rs.observe(m, op, r)
    if final_observe:
        for m in OBSERVERS:
            if len(m) > 1 and m[1] >= len(ids):
                continue
            for op in rs.concrete(m):
                ops.append(op); res.append(impl.step(op))
    return ops, res


def is_nontrivial(ops) -> bool:
    """an external write between a read/add of the id and a later commit / delete of it, or an injected fault"""
    synced: Dict[str, bool] = {}
    hid: Dict[int, str] = {}
    nxt = 0
    stale = set()
    for op in ops:
        k = op[0]
        if k in PLANNED and any(f is not None for f in op[-1]):
            return True
        if k == "mk":
            hid[nxt] = op[1]; nxt += 1
        elif k == "get":
            synced[op[1]] = True; stale.discard(op[1])
            nxt += 1      # over-approximation of handle numbering is irrelevant here
        elif k == "add" and op[1] in hid:
            synced[hid[op[1]]] = True
        elif k in ("ext_put", "ext_delete") and synced.get(op[1]):
            stale.add(op[1])
        elif k in ("commit", "discard") and hid.get(op[1]) in stale:
            return True
    return False


def gen_histories(ctx: C.Ctx, rng: random.Random):
    """-> list of (ids, macros-with-plans, final_observe)"""
    hist = []
    ex, desc = exhaustive_macros(ctx.tier, rng)
    for s in ex:
        hist.append((IDS2, [(m, []) for m in s], True))
    n_ex = len(hist)
    for s in fault_grid():
        hist.append((IDS2, s, True))
    n_grid = len(hist) - n_ex
    for _ in range(ctx.budget(1000, 12000)):
        n_ids = rng.choice([1, 2, 2, 3])
        ids = rng.sample(IDS_WIDE, n_ids)
        hist.append((ids, random_macros(rng, n_ids, rng.randint(4, 24), rng.choice([0.0, 0.15, 0.4])), rng.random() < 0.5))
    return hist, n_ex, n_grid, desc


def quote_cases(tier: str):
    cases = [[b] for b in range(256)] + [idb(s) for s in IDS_WIDE]
    cases += [[37, a, b] for a in (48, 65, 70, 71, 97, 102, 103, 47) for b in (48, 57, 58, 64, 65, 102)]
    return cases


class Tape:
    """model lines / expected results / index, kept as JSON strings so that the heap the cyclic GC has to walk stays small
    (`drop` needs a full gc.collect() to let the weak cache entry of a Submodel — which is part of a reference cycle — die)."""

    def __init__(self):
        self.lines: List[str] = []
        self.expect: List[str] = []
        self.index: List[Tuple[int, int]] = []
        self.ops: List[str] = []

    def add(self, line, exp, idx):
        self.lines.append(json.dumps(line)); self.expect.append(json.dumps(exp)); self.index.append(idx)

    def history(self, ops, res) -> int:
        hi = len(self.ops)
        self.ops.append(json.dumps(ops))
        self.add(["reset"], ["reset"], (hi, -1))
        self.add(["variant", variant()], ["unit"], (-3, 0))
        for oi, (op, r) in enumerate(zip(ops, res)):
            self.add(model_line(op), r, (hi, oi))
        return hi

    def run(self) -> List[C.Disagreement]:
        out = C.run_model("C16", (json.loads(l) for l in self.lines))
        if len(out) != len(self.expect):
            return [C.Disagreement("driver output length", None, len(out), len(self.expect))]
        dis: List[C.Disagreement] = []
        seen = set()
        for k, (m, rs) in enumerate(zip(out, self.expect)):
            r = json.loads(rs)
            hi, oi = self.index[k]
            if hi >= 0 and oi >= 0:
                m = canon_model(m)
            if m != r and hi not in seen:
                seen.add(hi)
                if hi >= 0:
                    ops = json.loads(self.ops[hi])
                    part = "outcome" if m[0] != r[0] else ("request log" if m[1] != r[1] else "state")
                    dis.append(C.Disagreement(f"{part} after {ops[oi]}", ops[: oi + 1],
                                              m[2] if part == "state" else m[:2], r[2] if part == "state" else r[:2]))
                else:
                    dis.append(C.Disagreement(f"line {self.lines[k]}", ["line", json.loads(self.lines[k])], m, r))
                if len(dis) >= 5:
                    break
        return dis


def _mini_ctx(tier: str, seed: int) -> C.Ctx:
    import time
    return C.Ctx("C16", tier, seed, random.Random(f"C16:{seed}"), time.time(), 1)


def _shard_histories(tier: str, seed: int, k: int, n: int):
    """the k-th of n shards of the (deterministically regenerated) history list, with global indices"""
    ctx = _mini_ctx(tier, seed)
    hist, n_ex, n_grid, desc = gen_histories(ctx, random.Random(f"C16:{seed}"))
    mine = [(gi, h) for gi, h in enumerate(hist) if gi % n == k]
    total = len(hist)
    del hist
    # `drop` needs full gc.collect() calls: park everything allocated so far in the permanent generation so that each
    # collection only walks the objects of the current history
    gc.collect()
    gc.freeze()
    return mine, total, n_ex, n_grid, desc


def _corr_shard(args) -> Dict[str, Any]:
    """worker: runs its shard of histories on the implementation, pipes the same lines through the Lean driver (in chunks,
    so that memory stays bounded) and returns disagreements + coverage counters"""
    tier, seed, k, n = args
    mine, total, n_ex, n_grid, desc = _shard_histories(tier, seed, k, n)
    histo: Dict[str, int] = {}
    nontrivial = set()
    dis: List[Any] = []
    samples: Dict[int, Any] = {}
    want_samples = {n_ex - 1, n_ex + 7, n_ex + n_grid + 3}
    impl = Impl("pool")
    try:
        for c0 in range(0, len(mine), 2500):
            tape = Tape()
            for gi, (ids, macros, fin) in mine[c0: c0 + 2500]:
                ops, res = run_history(impl, ids, macros, fin)
                tape.history(ops, res)
                if gi in want_samples:
                    samples[gi] = ops[:14]
                for op, r in zip(ops, res):
                    key = op[0] + ("!" if r[0][0] == "raise" or (r[0][0] == "handles" and r[0][2]) else "")
                    histo[key] = histo.get(key, 0) + 1
                    if op[0] in PLANNED:
                        for f in op[-1]:
                            if f is not None:
                                histo["fault:" + str(f[1])] = histo.get("fault:" + str(f[1]), 0) + 1
                if is_nontrivial(ops):
                    nontrivial.add(C.sha(ops))
            if len(dis) < 5:
                dis += [d.__dict__ for d in tape.run()]
    finally:
        impl.close()
    return {"evaluations": len(mine), "histogram": histo, "nontrivial": sorted(nontrivial), "dis": dis[:5], "samples": samples,
            "meta": [total, n_ex, n_grid, desc]}


def _loopback_shard(args) -> Dict[str, Any]:
    tier, seed, n_hist = args
    lrng = random.Random(f"C16:lb:{seed}")
    impl = Impl("loopback")
    tape = Tape()
    try:
        realisable = [f for f in ALL_FAULTS if f[0] == "status" or f[1] == "other"]
        for n in range(n_hist):
            n_ids = lrng.choice([1, 2, 3])
            ids = lrng.sample(IDS_WIDE, n_ids)
            macros = random_macros(lrng, n_ids, lrng.randint(3, 14), 0.0)
            if n % 2:
                macros = [(m, ([list(lrng.choice(realisable))] if lrng.random() < 0.25 else [])) for m, p in macros]
            ops, res = run_history(impl, ids, macros, True)
            tape.history(ops, res)
    finally:
        impl.close()
    return {"evaluations": n_hist, "dis": [d.__dict__ for d in tape.run()][:5]}


def _pool(jobs: int):
    import multiprocessing
    from concurrent.futures import ProcessPoolExecutor
    return ProcessPoolExecutor(max_workers=jobs, mp_context=multiprocessing.get_context("fork"))


def n_workers(ctx: C.Ctx) -> int:
    return max(1, min(ctx.jobs, 4 if ctx.tier == "quick" else 10))


def correspond(ctx: C.Ctx, cov: C.Coverage) -> List[C.Disagreement]:
    import urllib.parse
    from props import c16_server as S
    n = n_workers(ctx)
    dis: List[C.Disagreement] = []
    n_lb = 0
    with _pool(n + 1) as ex:
        futs = [ex.submit(_corr_shard, (ctx.tier, ctx.seed, k, n)) for k in range(n)]
        lbf = ex.submit(_loopback_shard, (ctx.tier, ctx.seed, 3000)) if ctx.tier == "thorough" else None
        results = [f.result() for f in futs]
        lb = lbf.result() if lbf else None
    total, n_ex, n_grid, desc = results[0]["meta"]
    samples: Dict[int, Any] = {}
    for r in results:
        cov.evaluations += r["evaluations"]
        for k_, v in r["histogram"].items():
            cov.hit(k_, v)
        cov.nontrivial.update(r["nontrivial"])
        samples.update({int(a): b for a, b in r["samples"].items()})
        dis += [C.Disagreement(**d) for d in r["dis"]]
    if lb:
        n_lb = lb["evaluations"]
        cov.evaluations += n_lb
        cov.hit("loopback-history", n_lb)
        dis += [C.Disagreement("loopback: " + d["where"], d["case"], d["model"], d["impl"]) for d in lb["dis"]]
    cov.rule = (desc + f"; plus {n_grid} single-fault histories (every fault kind x processed/unprocessed at every request position of every "
                "SDK call from 4 pre-states) and seeded random histories (1-3 ids out of a pool with '/', '?', '#', '%', space, non-ASCII; "
                "length <= 24; mk/drop/contains/len/iter included; faults with p in {0, .15, .4}). After every call: outcome, the server's "
                "request log (request + response) and the complete state (revision store, cache, every live object's id/payload/source, "
                "server documents with revision counters) are compared with the model. non-trivial = the history has an external write "
                "between a read/add and a later commit/delete of the same id, or an injected fault; distinct = by concrete op list")
    # quoting: model vs the fake server's transcription (and that vs urllib); classification table: model vs do_request
    tape = Tape()
    qc = quote_cases(ctx.tier)
    for b in qc:
        q = S.quote(tuple(b))
        tape.add(["quote", b], q, (-1, 0))
        tape.add(["unquote", q], list(S.unquote(q)), (-1, 1))
    for s in IDS_WIDE:
        if S.quote(tuple(idb(s))) != urllib.parse.quote(s, safe=""):
            return [C.Disagreement("fake server quote vs urllib.parse.quote", s, S.quote(tuple(idb(s))), urllib.parse.quote(s, safe=""))]
    for raw in ["%zz", "%4", "%", "a%2fb", "%41%", "%%41", "\u00ff", "%C3%A4", "\u0100a"]:
        tape.add(["unquote", raw], list(S.unquote(raw)), (-1, 2))
    ct = classification_cases()
    impl = Impl("pool")
    try:
        for (m, f) in ct:
            tape.add(["classify", m, f[:-1] if f[0] == "status" else ["fail", f[1]]], impl_classify(impl, m, f), (-2, 0))
            cov.hit("classify")
    finally:
        impl.close()
    dis += tape.run()
    cov.extra.update({"discard_variant_extracted_from_source": variant(), "exhaustive_histories": n_ex, "fault_grid_histories": n_grid, "random_histories": total - n_ex - n_grid,
                      "loopback_histories": n_lb, "classification_cases": len(ct), "quote_cases": len(qc),
                      "neutral_zones": NEUTRAL, "workers": n})
    cov.exhaustive = True
    cov.samples = [samples[k_] for k_ in sorted(samples)]
    return dis[:5]


def classification_cases():
    cases = []
    for m in ("GET", "HEAD", "PUT", "DELETE"):
        for f in STATUS_FAULTS + TRANSPORT_FAULTS + [["status", c, jt, jb] for c in (199, 200, 201, 299, 300, 302, 400) for jt in (True, False) for jb in (True, False)]:
            cases.append((m, f + [False]))
    return cases


def impl_classify(impl: Impl, method: str, fault) -> Any:
    impl.http.begin([fault])
    try:
        r = impl.couchdb.CouchDBBackend.do_request(impl.base + "/db/x", method)
    except Exception as e:
        return ["raise", impl.exc(e)]
    if method == "HEAD":
        return ["headers", None]
    return ["ok", ["error"]] if isinstance(r, dict) and "error" in r else ["ok", ["other"]]


NEUTRAL = [
    "commit / safe delete of a replica whose document was deleted on the server: CouchDBConflictError or KeyError both accepted",
    "a 2xx fault answer to a HEAD request (no body to be non-JSON): outcome not judged",
    "which of CouchDBConnectionError / CouchDBResponseError reports a transport failure",
    "iteration order",
    "a commit that overwrites a write made by the same process through another local object of the same id (the revision store is per process)",
]


# ------------------------------------------------------------------------------------------------- oracle (independent of the model)
#
# The property stated directly: an independent reference of what a revision-guarded persistent map does.
#   ref[id]   payload stored under id            (what add/lookup/iteration/discard must agree with)
#   ver[id]   number of writes to id so far, by anyone
#   known[id] the version the SDK process was last told about by a successful answer (None: never / after its own delete)
# Expected outcomes are computed from these three only; the server's actual documents (request log / document table of the
# fake CouchDB) must equal `ref` after every call.

COUCH_ERRORS = ("CouchDBConflictError", "CouchDBResponseError", "CouchDBConnectionError", "CouchDBServerError")


def kind_of(out) -> str:
    if out[0] == "raise":
        e = out[1]
        return "raise:" + (e if isinstance(e, str) else e[0])
    if out[0] == "handles":
        return "handles" if out[2] is None else "handles-stopped:" + (out[2] if isinstance(out[2], str) else out[2][0])
    return out[0]


def fault_allows(k: str, f, out) -> bool:
    """May operation `k` end like `out` when one of its requests was answered with fault `f`?"""
    kd = kind_of(out)
    err = kd.split(":", 1)[1] if ":" in kd else None
    if err in COUCH_ERRORS:
        return True
    status = f[1] if f[0] == "status" else None
    if err == "KeyError":
        return status == 404 or (status == 409 and k == "add")
    if k == "contains" and out == ["bool", False]:
        return status == 404
    return False


def check_ops(ops: List[List[Any]], mode: str = "pool", impl: Optional[Impl] = None) -> Optional[C.Failing]:
    own = impl is None
    impl = impl or Impl(mode)
    try:
        impl.reset()
        ref: Dict[str, Any] = {}
        ver: Dict[str, int] = {}
        known: Dict[str, Optional[int]] = {}
        # (round 8) live[id]: THE replica this store handed out / took in for id and the application still holds; as long as
        # it has not been discarded successfully every retrieval returns this very object - also after a discard that FAILED
        live: Dict[str, Any] = {}

        def write(i, v):
            ver[i] = ver.get(i, 0) + 1
            if v is None:
                ref.pop(i, None)
            else:
                ref[i] = v

        def server_docs():
            return {bytes(d[0]).decode("utf-8", "replace"): d[2] for d in impl.http.docs_view() if d[2] is not None}

        for oi, op in enumerate(ops):
            k = op[0]
            prefix = ops[: oi + 1]
            plan = list(op[-1]) if k in PLANNED else []
            obj = impl.handles.get(op[1]) if k in ("modify", "drop", "add", "commit", "update", "discard") else None
            pre = (obj.id, Impl.dnum(obj), obj.source != "") if obj is not None else None
            docs_before = server_docs()
            r = impl.step(op)
            out, log = r[0], r[1]
            kd = kind_of(out)

            def fail(sig, what, required=None):
                return C.Failing(f"couch:{sig}", what, prefix, {"outcome": out, "requests": len(log)}, required)

            if k == "drop" and obj is not None and live.get(obj.id) is obj:
                del live[obj.id]                           # the application let go of the replica
            if k in ("mk", "modify", "drop"):
                continue
            if k == "ext_put":
                write(op[1], op[2])
            elif k == "ext_delete":
                if op[1] in ref:
                    write(op[1], None)
            elif obj is None and k in ("add", "commit", "update", "discard"):
                continue                                   # not a live object: nothing to judge
            else:
                # ------------------------------------------------ the requests the call is expected to make, and its plan
                if k in ("add", "commit", "update", "discard"):
                    i, v, bound = pre
                else:
                    i, v, bound = (op[1] if k in ("get", "contains") else None), None, True
                if k in ("commit", "update") and not bound:
                    if out != ["unit"] or log:
                        return fail(f"{k}:unbound", f"{k} of an object without source gave {out} with {len(log)} requests", ["unit"])
                    continue
                nreq = len(log)
                fpos = next((n for n, f in enumerate(plan[:nreq]) if f is not None), None)
                f = plan[fpos] if fpos is not None else None
                # neutral zone: a 2xx "fault" on a HEAD request (there is no body that could be non-JSON)
                if f is not None and f[0] == "status" and 200 <= f[1] < 300 and log[fpos][0] == "HEAD":
                    f_neutral = True
                else:
                    f_neutral = False
                present = i in ref if i is not None else None
                fresh = present and known.get(i) == ver.get(i)
                exp: List[Any] = []          # acceptable outcome kinds
                # ------------------------------------------------ expected behaviour
                if k == "add":
                    if f is None:
                        if present:
                            exp = ["raise:KeyError"]
                        else:
                            exp = ["unit"]; write(i, v); known[i] = ver[i]
                    elif f[-1] and not present:
                        write(i, v)
                elif k == "get":
                    if f is None:
                        if present:
                            exp = ["handle"]; known[i] = ver[i]
                        else:
                            exp = ["raise:KeyError"]
                elif k == "update":
                    if f is None:
                        if present:
                            exp = ["unit"]; known[i] = ver[i]
                        else:
                            exp = ["raise:KeyError"]
                elif k == "commit":
                    if known.get(i) is None:
                        exp = ["raise:CouchDBConflictError"]       # nothing to compare with: must be refused without a write
                        f = None if nreq == 0 else f
                    elif f is None:
                        if not present:
                            exp = ["raise:CouchDBConflictError", "raise:KeyError"]
                        elif not fresh:
                            exp = ["raise:CouchDBConflictError"]
                        else:
                            exp = ["unit"]; write(i, v); known[i] = ver[i]
                    elif f[-1] and fresh:
                        write(i, v)
                elif k == "discard":
                    safe = op[2]
                    if safe and known.get(i) is None:
                        exp = ["raise:CouchDBConflictError"]
                        f = None if nreq == 0 else f
                    elif f is None:
                        if not present:
                            exp = ["raise:KeyError"] + (["raise:CouchDBConflictError"] if safe else [])
                        elif safe and not fresh:
                            exp = ["raise:CouchDBConflictError"]
                        else:
                            exp = ["unit"]; write(i, None); known[i] = None
                    else:
                        is_delete = log[fpos][0] == "DELETE"
                        if f[-1] and is_delete and present and (fresh or not safe):
                            write(i, None)
                elif k == "contains":
                    if f is None:
                        exp = ["bool"]
                        if out != ["bool", bool(present)]:
                            return fail("map:contains", f"contains({i!r}) = {out}, the map says {present}", ["bool", bool(present)])
                elif k == "len":
                    if f is None:
                        exp = ["nat"]
                        if out != ["nat", len(ref)]:
                            return fail("map:len", f"len = {out}, the map holds {len(ref)} objects", ["nat", len(ref)])
                elif k == "iter":
                    got = None
                    if out[0] == "handles":
                        got = [(impl.handles[x].id, Impl.dnum(impl.handles[x])) for x in out[1]]
                        for (gi, _) in got:
                            known[gi] = ver.get(gi)
                    if f is None:
                        exp = ["handles"]
                        if got is None or sorted(got) != sorted(ref.items()):
                            return fail("map:iter", f"iteration gave {got if got is not None else out}, the map holds {sorted(ref.items())}",
                                        sorted(ref.items()))
                # ------------------------------------------------ verdict on the outcome
                if f is not None:
                    if not f_neutral:
                        if k == "iter" and out[0] == "handles":
                            if out[2] is None:
                                return fail("fault:iter:swallowed", f"a request of the iteration was answered with {f} but it ended normally",
                                            "a CouchDB error")
                            if not fault_allows(k, f, ["raise", out[2]]):
                                return fail(f"fault:iter:{kind_of(['raise', out[2]])}", f"fault {f} surfaced as {out[2]}", "a CouchDB error type")
                        elif not fault_allows(k, f, out):
                            what = "returned normally" if out[0] != "raise" else f"raised {out[1]}"
                            return fail(f"fault:{k}:{kd}", f"{k}: a request was answered with {f} but the call {what}", "a CouchDB error type")
                elif exp and kd not in exp:
                    if k == "discard" and out[0] == "raise" and i in docs_before and i not in server_docs():
                        return fail("phantom:discard:raised-after-server-delete",
                                    f"discard of {i!r} raised {out[1]} although the document had just been deleted on the server by this call",
                                    ["unit"])
                    if k in ("commit", "discard") and kd == "unit" and "raise:CouchDBConflictError" in exp:
                        return fail(f"lost-update:{k}", f"{k} of {i!r} from a replica whose known version {known.get(i)} is not the "
                                    f"server's {ver.get(i)} was accepted", exp)
                    return fail(f"{k}:expected-{exp[0]}:got-{kd}", f"{op} gave {out}; a revision-guarded map gives {exp}", exp)
                # ------------------------------------------------ post-conditions on the objects
                if f is None and kd in exp:
                    if k == "get" and kd == "handle":
                        o = impl.handles[out[1]]
                        if i in live and o is not live[i]:
                            return fail("identity:get:second-replica", f"get({i!r}) returned another object than the replica the store handed out "
                                        "before and the application still holds: two replicas of one document, the stale one can overwrite "
                                        "what the other one read (lost update)")
                        live[i] = o
                        if o.id != i or Impl.dnum(o) != ref[i]:
                            return fail("map:get:content", f"get({i!r}) returned id={o.id!r} payload {Impl.dnum(o)}; the map holds {ref[i]}", ref[i])
                        if o.source == "":
                            return fail("phantom:get:unbound", f"get({i!r}) returned an object without source")
                    if k == "update" and kd == "unit" and Impl.dnum(obj) != ref[i]:
                        return fail("map:update:content", f"after update() the object holds {Impl.dnum(obj)}; the map holds {ref[i]}", ref[i])
                    if k == "add":
                        if kd == "unit" and obj.source == "":
                            return fail("phantom:add:unbound", "add returned normally but the object has no source")
                        if kd != "unit" and (obj.source != "") != bound:
                            return fail("phantom:add:bound-after-failure", "a rejected add changed the object's source")
                    if k == "add" and kd == "unit":
                        live[i] = obj
                    if k == "discard" and kd == "unit":
                        live.pop(i, None)
                    if k == "discard" and kd == "unit" and obj.source != "":
                        return fail("phantom:discard:source", f"the discarded object keeps source {obj.source!r}")
            # ---------------------------------------------------- the server's documents are exactly the reference map
            docs = server_docs()
            if docs != ref:
                return C.Failing("couch:server-state", f"after {op[0]} the server holds {docs}; a revision-guarded map would hold {ref}",
                                 prefix, docs, ref)
        return None
    finally:
        if own:
            impl.close()


def _oracle_shard(args) -> List[Dict[str, Any]]:
    tier, seed, k, n = args
    out: List[Dict[str, Any]] = []
    sigs = set()
    if k == "loopback":
        lrng = random.Random(f"C16:lb-oracle:{seed}")
        impl = Impl("loopback")
        try:
            for _ in range(1500):
                n_ids = lrng.choice([1, 2, 3])
                ids = lrng.sample(IDS_WIDE, n_ids)
                macros = random_macros(lrng, n_ids, lrng.randint(3, 14), 0.0)
                ops, _r = run_history(impl, ids, macros, True)
                f = check_ops(ops, impl=impl)
                if f and f.sig not in sigs:
                    sigs.add(f.sig)
                    f.what += " (through real sockets on 127.0.0.1)"
                    out.append(f.__dict__)
        finally:
            impl.close()
        return out
    mine, _total, _a, _b, _c = _shard_histories(tier, seed, k, n)
    impl = Impl("pool")
    try:
        # the oracle judges concrete op lists; they are produced by running the macros once
        for _gi, (ids, macros, fin) in mine:
            ops, _r = run_history(impl, ids, macros, fin)
            f = check_ops(ops, impl=impl)
            if f and f.sig not in sigs:
                sigs.add(f.sig)
                f.case = minimise(f, impl)
                out.append(f.__dict__)
    finally:
        impl.close()
    return out


def oracle(ctx: C.Ctx, cov: C.Coverage) -> List[C.Failing]:
    n = n_workers(ctx)
    with _pool(n + 1) as ex:
        futs = [ex.submit(_oracle_shard, (ctx.tier, ctx.seed, k, n)) for k in range(n)]
        if ctx.tier == "thorough":
            futs.append(ex.submit(_oracle_shard, (ctx.tier, ctx.seed, "loopback", n)))
        res = [f.result() for f in futs]
    out: List[C.Failing] = []
    sigs = set()
    for r in res:
        for d in r:
            if d["sig"] not in sigs:
                sigs.add(d["sig"])
                out.append(C.Failing(**d))
    cov.extra["oracle_histories"] = cov.extra.get("exhaustive_histories", 0) + cov.extra.get("fault_grid_histories", 0) + \
        cov.extra.get("random_histories", 0) + (1500 if ctx.tier == "thorough" else 0)
    return out


def minimise(f: C.Failing, impl: Impl) -> List[Any]:
    def fails(ops):
        g = check_ops(ops, impl=impl)
        return g is not None and g.sig == f.sig
    return C.ddmin(f.case, fails, max_tests=150)


def search(ctx: C.Ctx, disagreements, broken) -> List[C.Failing]:
    out = []
    sigs = set()
    for d in disagreements:
        if isinstance(d.case, list) and d.case and isinstance(d.case[0], list) and d.case[0] and d.case[0][0] != "line":
            f = check_ops(d.case)
            if f and f.sig not in sigs:
                sigs.add(f.sig); out.append(f)
    if out:
        return out
    big = C.Ctx(ctx.prop, "thorough", ctx.seed + 1, random.Random(), ctx.t0, ctx.jobs)
    return oracle(big, C.Coverage())


def replay(case) -> Optional[C.Failing]:
    return check_ops(case)
