"""C15 — a failed or interrupted add()/commit() of the local-file store never corrupts or loses a stored object.

Tie by tracing: the I/O and serialisation steps of one add()/commit() are recorded from outside (module attributes of
`basyx.aas.backend.local_file`: open, os, json; the instance's cache and generate_source), compared with the step sequence
of Model/FileStore.lean, and then every fault (exception at step k / death of the process before step k with only a byte
prefix of the file being written surviving) is injected and the resulting directory + bookkeeping compared with the model.
The oracle states the property over the store API (same and freshly opened instance) after every injected fault."""
from __future__ import annotations

import hashlib
import json
import os
import random
import shutil
import tempfile
import weakref
from typing import Any, Dict, List, Optional, Tuple

from vf import common as C

ID = "C15"
LEAN_MODULE = "Basyx.Props.C15"
LEVEL = "proof"

MANIFEST = {
    "text": "Lean theorems over EVERY fault (exception at any I/O or serialisation step, incl. a partially performed write; death of "
            "the process before any step with only an arbitrary byte prefix of the file being written surviving), every payload "
            "(accepted or rejected by the encoder), every directory content: after add()/commit() the document of the identifier is "
            "absent, the complete earlier or the complete new version; every other file is untouched; the listing contains only "
            "complete documents (len/iter/contains cannot fail on them); a failed add leaves the object uncached with empty source; a "
            "fault-free run installs the new document. The theorems are about the step sequence serialise -> open temp -> write -> "
            "close -> os.replace, which the tie extracts from the running code and compares with the model's on every run; for the "
            "pinned sequence (open target for writing first, streaming json.dump) the negation is proved on the mixed-sign-duration "
            "witness."
            " The bulk entry point store.update(iterable) (inherited `for x in other: self.add(x)`) is modelled as addMany and proved to be the history of its adds stopped at the first failure, whose exception is the result - never swallowed - and which leaves no trace (c15_bulk_insertion_reports_first_failure, c15_bulk_insertion_ok_means_all_added); tied by bulk insertions of 2-3 objects in the C14 histories.",
    "note": "partial: os.replace atomicity and 'a crash loses only an unflushed suffix of the file being written' are file-system "
            "assumptions; faults inside the exception handlers themselves (os.remove of the temporary file) are not injected. The "
            "model follows the tree with fixes/C15-atomic-write.patch applied.",
    "technique": "Lean 4 proof by case analysis over all fault points of the I/O step algebra; traced-step correspondence + exhaustive "
                 "fault injection (every step x every byte prefix) against the real store",
}
ASSUMPTIONS = [
    "os.replace is atomic; a process death loses at most a suffix of the data written to the still-unrenamed file (POSIX)",
    "sha256 injective; file content is modelled as 'first n bytes of serialisation d'",
    "the traced calls (open/write/close, os.path.exists/replace/remove, json.dump(s), cache insert, generate_source) are all "
    "the effects of add()/commit() on the directory and the bookkeeping",
    "faults inside exception handlers are not injected",
]

TID = "t/ü#1"
OTHERS = ["o1", "o/2", "ö3"]


class Crash(BaseException):
    """Simulated death of the process."""


class Injected(OSError):
    """Injected I/O failure."""


# (round 8) the failure an I/O step reports is an OSError of SOME errno; the common ones have their own Python classes, and a
# handler that treats one of them specially (FileNotFoundError, FileExistsError, PermissionError, InterruptedError) must still
# report the failure.  A fault is ["raise", step, partial bytes(, errno name)].
class InjectedNoEnt(Injected, FileNotFoundError):
    pass


class InjectedExists(Injected, FileExistsError):
    pass


class InjectedPerm(Injected, PermissionError):
    pass


class InjectedIntr(Injected, InterruptedError):
    pass


ERRNO_KINDS = {"EIO": (Injected, 5), "ENOSPC": (Injected, 28), "ENOENT": (InjectedNoEnt, 2), "EEXIST": (InjectedExists, 17),
               "EACCES": (InjectedPerm, 13), "EINTR": (InjectedIntr, 4)}


def injected(f, default: str, what: str) -> OSError:
    cls, no = ERRNO_KINDS[f[3] if f is not None and len(f) > 3 else default]
    return cls(no, what)


def _sdk():
    from basyx.aas import model
    from basyx.aas.backend import local_file
    return model, local_file


def hash_of(i: str) -> str:
    return hashlib.sha256(i.encode("utf-8")).hexdigest()


def make_obj(i: str, v: int, big: bool = False, bad: bool = False):
    model, _ = _sdk()
    els = [model.Property("v", model.datatypes.Int, v)]
    if big:
        els += [model.Property("p%d" % k, model.datatypes.String, "x" * 40 + str(k)) for k in range(18)]
    sm = model.Submodel(i, submodel_element=els)
    if bad:
        spoil(sm, bad)
    return sm


_MYINT: list = []


def spoil(sm, how: Any = True):
    """Make the encoder reject the object: an xs:duration with mixed signs (ValueError); "badkey": a value type that is an
    application-defined subclass of xs:int, for which the encoder has no name (KeyError - the exception add() also uses for
    "already stored")."""
    import dateutil.relativedelta as rd
    model, _ = _sdk()
    if how == "badkey":
        if not _MYINT:
            _MYINT.append(type("MyInt", (model.datatypes.Int,), {}))
        sm.submodel_element.add(model.Property("zz", _MYINT[0], _MYINT[0](3)))
        return
    sm.submodel_element.add(model.Property("zz", model.datatypes.Duration, rd.relativedelta(months=1, days=-1)))


def ver_of(o) -> Any:
    return o.get_referable("v").value


def translate(ctx: C.Ctx) -> List[str]:
    from props import c14
    return c14.translate_backends(ctx)


# -------------------------------------------------------------------------------------------------------- tracing

class Tracer:
    def __init__(self, lf, directory: str, fault: Optional[List[Any]]):
        self.lf = lf
        self.dir = directory
        self.fault = fault if fault and fault[0] in ("raise", "crash") else None
        self.events: List[Any] = []
        self.n = 0
        self.dead = False
        self.triggered = False
        self.cur: Optional[str] = None
        self.real_files: List[Any] = []
        self.active = False

    # every step of the code under test passes through here *before* it is performed
    def point(self, ev: List[Any]) -> Tuple[bool, int]:
        """returns (perform?, partial-bytes) or raises the injected fault"""
        if not self.active:
            return True, -1
        if self.dead:
            return False, -1
        k = self.n
        self.n += 1
        self.events.append(ev)
        f = self.fault
        if f and (f[1] == k or f[1] == ev[0]) and not self.triggered:
            self.triggered = True
            if f[0] == "crash":
                self.dead = True
                raise Crash()
            if ev[0] == "write":
                return False, f[2]
            raise injected(f, "EIO", "injected fault at step %d" % k)
        return True, -1

    def fname(self, path: str) -> Any:
        return os.path.relpath(path, self.dir) if os.path.isabs(path) else path

    def install(self, store):
        tr = self
        lf = self.lf
        real_os = os

        class PathProxy:
            def __getattr__(self, a):
                return getattr(real_os.path, a)

            def exists(self, p):
                tr.point(["exists", tr.fname(p)])
                return real_os.path.exists(p)

        class OsProxy:
            path = PathProxy()

            def __getattr__(self, a):
                return getattr(real_os, a)

            def replace(self, a, b):
                do, _ = tr.point(["replace", tr.fname(a), tr.fname(b)])
                if do:
                    real_os.replace(a, b)
                    if tr.cur == a:
                        tr.cur = None

            def remove(self, p):
                do, _ = tr.point(["remove", tr.fname(p)])
                if do:
                    real_os.remove(p)

            def unlink(self, p):
                self.remove(p)

        class FileProxy:
            def __init__(self, f, path):
                self.f = f
                self.path = path
                self.closed_ = False

            def write(self, data):
                do, part = tr.point(["write", len(data.encode("utf-8")) if isinstance(data, str) else len(data)])
                if do:
                    return self.f.write(data)
                if part >= 0:
                    self.f.write(data[:part])
                    raise injected(tr.fault, "ENOSPC", "injected fault in write")
                return len(data)

            def close(self):
                if self.closed_:
                    return
                self.closed_ = True
                try:
                    tr.point(["close"])
                finally:
                    self.f.close()

            def flush(self):
                do, _ = tr.point(["flush"])
                if do:
                    self.f.flush()

            def __enter__(self):
                return self

            def __exit__(self, *a):
                self.close()
                return False

            def __getattr__(self, a):
                return getattr(self.f, a)

        def traced_open(path, mode="r", *a, **kw):
            if not tr.active or not any(c in mode for c in "wax+"):
                return open(path, mode, *a, **kw)
            do, _ = tr.point(["open", tr.fname(path)])
            if not do:
                return FileProxy(open(os.devnull, "w"), os.devnull)
            f = open(path, mode, *a, **kw)
            tr.real_files.append(f)
            tr.cur = path
            return FileProxy(f, path)

        real_json = json

        class JsonProxy:
            def __getattr__(self, a):
                return getattr(real_json, a)

            def dumps(self, *a, **kw):
                tr.point(["serialise"])
                return real_json.dumps(*a, **kw)

            def dump(self, *a, **kw):
                tr.point(["serialise"])
                return real_json.dump(*a, **kw)

        class TCache(weakref.WeakValueDictionary):
            def __setitem__(self, k, v):
                tr.point(["cache"])
                return super().__setitem__(k, v)

        self._saved = (lf.__dict__.get("open", None), lf.os, lf.json)
        lf.open = traced_open
        lf.os = OsProxy()
        lf.json = JsonProxy()
        if store is not None:
            old = store._object_cache
            tc = TCache()
            for k, v in list(old.items()):
                weakref.WeakValueDictionary.__setitem__(tc, k, v)
            store._object_cache = tc
            real_gs = store.generate_source

            def gs(x):
                tr.point(["source"])
                return real_gs(x)
            store.generate_source = gs

    def uninstall(self):
        lf = self.lf
        o, os_, json_ = self._saved
        if o is None:
            lf.__dict__.pop("open", None)
        else:
            lf.open = o
        lf.os = os_
        lf.json = json_
        for f in self.real_files:
            try:
                f.close()
            except Exception:
                pass


def canon_event(ev: List[Any], names: Dict[str, Any]) -> List[Any]:
    def nm(p):
        return names.get(p, ["other", p])
    if ev[0] == "exists":
        return ["exists"]
    if ev[0] == "open":
        return ["open", nm(ev[1])]
    if ev[0] == "replace":
        return ["replace", nm(ev[1]), nm(ev[2])]
    if ev[0] == "remove":
        return ["remove", nm(ev[1])]
    return ev


# ------------------------------------------------------------------------------------------------------ scenarios

class Scenario:
    """A directory holding `n_others` other objects, possibly an old version of the target and a stale temporary file."""

    def __init__(self, kind: str, n_others: int, payload: str, stale_tmp: bool, dup: bool = False, via: str = "add"):
        """`via` (oracle only): the entry point of an add - add(x) | update([x]) | update(one-shot iterator) | store |= {x};
        payload "badkey" (oracle only): the encoder rejects the object with a KeyError (a value type it has no name for)"""
        self.kind, self.n_others, self.payload, self.stale_tmp, self.dup = kind, n_others, payload, stale_tmp, dup
        self.via = via
        _, self.lf = _sdk()
        self.dir = tempfile.mkdtemp(prefix="verif-c15-")
        self.docs: Dict[int, bytes] = {}       # tag -> complete serialisation
        self.names: Dict[str, Any] = {}
        for i in OTHERS + [TID]:
            self.names[hash_of(i) + ".json"] = ["doc", i]
            self.names[hash_of(i) + ".json.tmp"] = ["tmp", i]
        st = self.lf.LocalFileObjectStore(self.dir)
        self.other_ver = {}
        for k in range(n_others):
            st.add(make_obj(OTHERS[k], 100 + k))
            self.other_ver[OTHERS[k]] = 100 + k
            self.docs[1 + k] = self.read(hash_of(OTHERS[k]) + ".json")
        self.old_ver: Optional[int] = None
        self.big = payload == "big"
        if kind == "commit" or dup:
            self.old_ver = 7
            st.add(make_obj(TID, 7, big=self.big))
            self.docs[4] = self.read(hash_of(TID) + ".json")
        self.new_ver = 8
        # the complete new document, produced in a scratch directory by the code itself
        if payload not in ("bad", "badkey"):
            self.docs[5] = self._scratch_doc(8)
        # a leftover of an earlier, interrupted write of the same identifier — produced by the code under test itself
        self.docs[6] = self._scratch_doc(6)
        if stale_tmp:
            self._raw_run(6, ["crash", "close", 29])
        self.snapshot = {n: self.read(n) for n in os.listdir(self.dir)}

    def read(self, name: str) -> bytes:
        with open(os.path.join(self.dir, name), "rb") as f:
            return f.read()

    def close(self):
        shutil.rmtree(self.dir, ignore_errors=True)

    def restore(self):
        for n in os.listdir(self.dir):
            if n not in self.snapshot:
                os.remove(os.path.join(self.dir, n))
        for n, b in self.snapshot.items():
            p = os.path.join(self.dir, n)
            if not os.path.exists(p) or self.read(n) != b:
                with open(p, "wb") as f:
                    f.write(b)

    def total(self) -> int:
        return len(self.docs[5]) if 5 in self.docs else 0

    def classify(self, b: bytes) -> Any:
        if len(b) == 0:
            return ["empty"]
        for tag, full in self.docs.items():
            if b == full:
                return ["full", tag]
        for full in self.docs.values():
            if full.startswith(b):
                return ["prefix", len(b)]
        return ["other", len(b)]

    def fs_view(self) -> List[Any]:
        return sorted([self.names.get(n, ["other", n]), self.classify(self.read(n))] for n in os.listdir(self.dir))

    def model_fs(self) -> List[Any]:
        out = []
        for n, b in self.snapshot.items():
            nm = self.names.get(n, ["doc", n])
            tags = [t for t, full in self.docs.items() if full == b]
            out.append([nm, [tags[0], len(b), len(b)] if tags else [6, len(b), len(self.docs[6])]])
        return out

    def describe(self) -> Dict[str, Any]:
        d = {"kind": self.kind, "n_others": self.n_others, "payload": self.payload, "stale_tmp": self.stale_tmp, "dup": self.dup}
        if self.via != "add":
            d["via"] = self.via
        return d

    def _scratch_doc(self, ver: int) -> bytes:
        d2 = tempfile.mkdtemp(prefix="verif-c15s-")
        try:
            s2 = self.lf.LocalFileObjectStore(d2)
            s2.add(make_obj(TID, ver, big=self.big))
            with open(os.path.join(d2, hash_of(TID) + ".json"), "rb") as f:
                return f.read()
        finally:
            shutil.rmtree(d2, ignore_errors=True)

    # one faulted run -------------------------------------------------------------------------------------
    def run(self, fault: Optional[List[Any]]) -> Dict[str, Any]:
        self.restore()
        return self._raw_run(self.new_ver, fault, bad=self.payload if self.payload in ("bad", "badkey") else False)

    def _raw_run(self, ver: int, fault: Optional[List[Any]], bad: bool = False) -> Dict[str, Any]:
        store = self.lf.LocalFileObjectStore(self.dir)
        if self.kind == "add" and not os.path.exists(os.path.join(self.dir, hash_of(TID) + ".json")) or self.dup:
            x = make_obj(TID, ver, big=self.big, bad=bad)
            call = "add"
        elif self.kind == "add":
            x = make_obj(TID, ver, big=self.big, bad=bad)
            call = "add"
        else:
            try:
                x = store.get_identifiable(TID)
            except Exception as e:
                return {"events": [], "raised": "unreadable-before-call:" + type(e).__name__, "cached": False, "bound": False,
                        "store": store, "x": None, "triggered": False}
            x.get_referable("v").value = ver
            if bad:
                spoil(x, bad)
            call = "commit"
        tr = Tracer(self.lf, self.dir, fault)
        tr.install(store)
        raised: Any = None
        tr.active = True
        try:
            try:
                if call == "add":
                    if self.via == "update":
                        store.update([x])
                    elif self.via == "update-iter":
                        store.update(o for o in [x])
                    elif self.via == "ior":
                        store |= {x}
                    else:
                        store.add(x)
                else:
                    x.commit()
            except Crash:
                raised = "crashed"
            except KeyError:
                raised = "KeyError"
            except ValueError:
                raised = "ValueError"
            except OSError:
                raised = "OSError"
            except BaseException as e:
                raised = type(e).__name__
        finally:
            tr.active = False
            tr.uninstall()
        if tr.dead:
            raised = "crashed"      # whatever the dying process' handlers did with the exception
        if tr.dead and tr.cur is not None and os.path.exists(tr.cur):
            with open(tr.cur, "rb") as f:
                b = f.read()
            with open(tr.cur, "wb") as f:
                f.write(b[: min(fault[2], len(b))])
        cached = weakref.WeakValueDictionary.get(store._object_cache, TID) is x
        bound = x.source != ""
        return {"events": [canon_event(e, self.names) for e in tr.events], "raised": raised, "cached": cached, "bound": bound,
                "store": store, "x": x, "triggered": tr.triggered}

    def listing(self) -> Tuple[Optional[List[str]], bool, Any]:
        fresh = self.lf.LocalFileObjectStore(self.dir)
        try:
            ids = sorted(o.id for o in fresh)
            ok = True
        except Exception:
            ids, ok = None, False
        try:
            n = len(fresh)
        except Exception as e:
            n = "raise:" + type(e).__name__
        return ids, ok, n


def scenarios(tier: str) -> List[Tuple[str, int, str, bool, bool]]:
    out = []
    for kind in ("add", "commit"):
        for n in (0, 1, 2, 3):
            for payload in ("ok", "bad", "big"):
                if payload == "big" and n not in (1,):
                    continue
                for stale in (False, True):
                    if stale and not (n == 1 or (tier == "thorough" and payload == "ok")):
                        continue
                    out.append((kind, n, payload, stale, False))
    out.append(("add", 1, "ok", False, True))
    return out


def faults_for(events: List[Any], total: int, tier: str, rng: random.Random) -> List[Optional[List[Any]]]:
    """Every step index x {exception (+ partial write), death before the step x surviving byte prefixes}."""
    out: List[Optional[List[Any]]] = [None]
    written = 0
    cur_open = False
    for k, ev in enumerate(events):
        if ev[0] in ("cache", "source"):
            # in-memory bookkeeping: not a fault point of the property, but the process may still die here
            out.append(["crash", k, 0])
            continue
        out.append(["raise", k, 0])
        out += [["raise", k, 0, e] for e in ("ENOENT", "EEXIST", "EACCES", "EINTR")]
        if ev[0] == "write":
            parts = {1, ev[1] // 2, max(ev[1] - 1, 0)}
            out += [["raise", k, p] for p in sorted(parts) if 0 < p < ev[1]]
        # death before step k: the prefixes of what has been written so far
        if cur_open and written > 0:
            out += [["crash", k, p] for p in prefixes(written, tier, rng)]
        else:
            out.append(["crash", k, 0])
        if ev[0] == "open":
            cur_open, written = True, 0
        if ev[0] == "write":
            written += ev[1]
        if ev[0] == "replace":
            cur_open = False
    return out


def prefixes(n: int, tier: str, rng: random.Random) -> List[int]:
    if tier == "quick":
        base = {0, 1, 2, n // 4, n // 2, n - 2, n - 1, n, n + 5}
        while len(base) < 16 and len(base) < n:
            base.add(rng.randrange(n))
        return sorted(p for p in base if p >= 0)
    if n <= 4096:
        return list(range(0, n + 1))
    return list(range(0, 4097)) + sorted({rng.randrange(4097, n) for _ in range(256)} | {n - 1, n})


def fault_label(events, f) -> str:
    if not f:
        return "none"
    k = f[1]
    step = events[k][0] if k < len(events) else "end"
    return f"{f[0]}@{step}" + (":" + f[3] if len(f) > 3 else "")


# ------------------------------------------------------------------------------------------------ correspondence

def capped(faults, rng: random.Random, cap: int):
    """sequences with hundreds of write calls (streaming encoders): bound the work, keep the first steps and a sample"""
    if len(faults) <= cap:
        return faults
    return faults[:60] + rng.sample(faults[60:], cap - 60)


def correspond(ctx: C.Ctx, cov: C.Coverage) -> List[C.Disagreement]:
    cov.rule = ("per scenario (add|commit x 0-3 other objects x payload accepted/rejected/large x stale temp file x duplicate add): the "
                "traced step sequence of the fault-free call must equal the model's program; then one run per fault = exception at "
                "every I/O/serialisation step (writes also partially performed) and death before every step with "
                + ("16 byte prefixes" if ctx.tier == "quick" else "EVERY byte prefix <= 4 KiB (stratified beyond)")
                + " of the file being written surviving; after each run the directory (name -> empty/prefix n/complete document d), "
                "cached?, source set?, exception kind, listing and 'iteration succeeds' are compared with the model. "
                "non-trivial = the fault hits after the first byte was written, or during serialisation")
    lines: List[Any] = []
    impl_out: List[Any] = []
    cases: List[Any] = []
    rng = ctx.rng
    for spec in scenarios(ctx.tier):
        sc = Scenario(*spec)
        try:
            payload = [5, sc.total(), sc.payload != "bad", []]
            r0 = sc.run(None)
            events = r0["events"]
            # 1. the step sequence
            lines.append(["program", sc.kind, TID, payload])
            impl_out.append(("program", events))
            cases.append({"scenario": sc.describe(), "fault": None})
            for f in capped(faults_for(events, sc.total(), ctx.tier, rng), rng, ctx.budget(300, 20000)):
                r = sc.run(f)
                ids, ok, n = sc.listing()
                lines.append(["write", "fixed", sc.kind, TID, payload, (f[:3] if f else ["none"]), sc.model_fs()])
                impl_out.append(("write", [sc.fs_view(), r["cached"] if sc.kind == "add" else False,
                                           r["bound"] if sc.kind == "add" else False, r["raised"], ids, ok, n]))
                cases.append({"scenario": sc.describe(), "fault": f})
                cov.evaluations += 1
                lab = fault_label(events, f)
                cov.hit(f"{sc.kind}:{lab}")
                if f and ((f[0] == "crash" and f[2] > 0) or events[min(f[1], len(events) - 1)][0] in ("serialise", "write", "close", "replace")):
                    cov.nontrivial.add(C.sha([spec, f]))
        finally:
            sc.close()
    cov.exhaustive = True
    cov.samples = [lines[0], lines[1], lines[min(40, len(lines) - 1)]]
    model_out = C.run_model("C15", lines)
    dis: List[C.Disagreement] = []
    if len(model_out) != len(impl_out):
        return [C.Disagreement("driver output length", None, len(model_out), len(impl_out))]
    for k, (m, (kind, i)) in enumerate(zip(model_out, impl_out)):
        if kind == "program":
            # the code may stop early (rejected payload, duplicate): the trace must be the executed prefix of the program
            ok = i == m[: len(i)] and len(i) >= 1
            if not ok:
                dis.append(C.Disagreement("step sequence of " + lines[k][1], cases[k], m, i))
        else:
            fs, cached, bound, raised, listing, iter_ok = m
            fs = sorted([n, (["prefix", c[2]] if c[0] == "prefix" else c)] for n, c in fs)
            mm = [fs, cached, bound, raised, sorted(listing) if iter_ok else None, iter_ok, len(listing)]
            if mm != i:
                dis.append(C.Disagreement(f"write {lines[k][2]} fault {lines[k][5]} scenario {cases[k]['scenario']}", cases[k], mm, i))
        if len(dis) >= 5:
            break
    return dis


# ------------------------------------------------------------------------------------------------------- oracle

def check_case(case: Dict[str, Any], sc: Optional[Scenario] = None) -> Optional[C.Failing]:
    """The property over the implementation: run the call with the fault, then use the store API."""
    own = sc is None
    d = case["scenario"]
    if own:
        sc = Scenario(d["kind"], d["n_others"], d["payload"], d["stale_tmp"], d.get("dup", False), d.get("via", "add"))
    try:
        f = case.get("fault")
        r0_events = case.get("events")
        r = sc.run(f)
        events = r0_events or r["events"]
        if str(r["raised"]).startswith("unreadable"):
            return C.Failing(f"lfs-write:{d['kind']}:after-interrupted-write:target-unreadable",
                             "after an earlier interrupted write the stored object can no longer be read: " + r["raised"],
                             {"scenario": d, "fault": f})
        lab = fault_label(events, f) if f else ("reject" if d["payload"] in ("bad", "badkey") else "none")
        if d["payload"] == "bad" and f and r["raised"] == "ValueError":
            lab = "reject"
        if d["payload"] == "badkey" and f and r["raised"] == "KeyError":
            lab = "reject"
        if d.get("via", "add") != "add":
            lab = d["via"] + ":" + lab

        def fail(symptom, what, obs=None, req=None):
            return C.Failing(f"lfs-write:{d['kind']}:{lab}:{symptom}", what, {"scenario": d, "fault": f}, obs, req)

        stores = [("fresh", sc.lf.LocalFileObjectStore(sc.dir))]
        if r["raised"] != "crashed":
            stores.append(("same", r["store"]))
        for who, st in stores:
            try:
                n = len(st)
            except Exception as e:
                return fail("len-raises", f"len() of the {who} instance raised {e!r}")
            try:
                objs = list(st)
            except Exception as e:
                return fail("iter-raises", f"iterating the {who} instance raised {type(e).__name__}: {e}")
            ids = sorted(o.id for o in objs)
            for i, v in sc.other_ver.items():
                try:
                    if i not in st:
                        return fail("other-lost", f"other object {i!r} no longer contained ({who} instance)")
                    if ver_of(st.get_identifiable(i)) != v:
                        return fail("other-changed", f"other object {i!r} changed")
                except C.Infra:
                    raise
                except Exception as e:
                    return fail("other-raises", f"other object {i!r}: {e!r}")
            try:
                has = TID in st
            except Exception as e:
                return fail("contains-raises", repr(e))
            if has:
                try:
                    v = ver_of(st.get_identifiable(TID))
                except Exception as e:
                    return fail("target-unreadable", f"the id is reported as contained but reading it raised {type(e).__name__}")
                allowed = {sc.new_ver} | ({sc.old_ver} if sc.old_ver is not None else set())
                if v not in allowed:
                    return fail("target-wrong-version", f"the id holds version {v}, allowed {sorted(allowed)}", v, sorted(allowed))
            else:
                try:
                    st.get_identifiable(TID)
                    return fail("target-phantom", "not contained but retrievable")
                except KeyError:
                    pass
                except Exception as e:
                    return fail("target-get-raises", f"get of the absent id raised {type(e).__name__}")
            want = sorted(list(sc.other_ver) + ([TID] if has else []))
            if ids != want or n != len(want):
                return fail("listing-wrong", f"{who} instance lists {ids} (len {n}), expected {want}", [ids, n], want)
        # the other files are byte-identical
        for name, b in sc.snapshot.items():
            nm = sc.names.get(name, ["other", name])
            if nm[0] == "doc" and nm[1] != TID and (not os.path.exists(os.path.join(sc.dir, name)) or sc.read(name) != b):
                return fail("other-file-touched", f"file of {nm[1]!r} changed")
        if r["raised"] is None:
            # success reported: the new version must be stored (also when a fault was injected and swallowed)
            st = stores[0][1]
            if TID not in st or ver_of(st.get_identifiable(TID)) != sc.new_ver:
                return fail("success-but-not-stored", "the call returned normally but the new version is not stored")
            if d["kind"] == "add" and not (r["bound"] and r["cached"]):
                return fail("success-but-not-marked", "add returned normally but the object is not cached / has no source")
        elif r["raised"] != "crashed" and d["kind"] == "add":
            if r["bound"] or r["cached"]:
                return fail("failed-add-marked", f"add raised {r['raised']} but the object is marked as stored "
                                                 f"(source set: {r['bound']}, cached: {r['cached']})")
        if d.get("dup") and r["raised"] not in ("KeyError", "crashed", "OSError"):
            return fail("duplicate-not-rejected", f"add of a stored id gave {r['raised']}")
        return None
    finally:
        if own:
            sc.close()


def oracle(ctx: C.Ctx, cov: C.Coverage) -> List[C.Failing]:
    out: List[C.Failing] = []
    sigs = set()
    rng = random.Random(f"C15-oracle:{ctx.seed}")
    runs = 0
    # (round 5) the other entry points of an insertion (bulk update with a list / a one-shot iterator, |=) and a payload the
    # encoder rejects with the exception kind that also means "already stored"
    extra = [("add", 1, "badkey", False, False, "add"), ("commit", 1, "badkey", False, False, "add")]
    for via in ("update", "update-iter", "ior"):
        extra += [("add", 1, pl, False, False, via) for pl in ("ok", "bad", "badkey")] + [("add", 1, "ok", False, True, via)]
    for spec in scenarios(ctx.tier) + extra:
        sc = Scenario(*spec)
        try:
            events = sc.run(None)["events"]
            faults = faults_for(events, sc.total(), "quick", rng)
            if ctx.tier == "thorough":
                faults += [f for f in faults_for(events, sc.total(), "thorough", rng) if f and f[0] == "crash" and f[2] % 7 == 3]
            # pinned-style sequences have hundreds of writes: bound the work, keep every step kind
            faults = capped(faults, rng, ctx.budget(300, 1500))
            for f in faults:
                g = check_case({"scenario": sc.describe(), "fault": f, "events": events}, sc)
                runs += 1
                if g and g.sig not in sigs:
                    sigs.add(g.sig)
                    out.append(g)
        finally:
            sc.close()
    cov.extra["oracle_runs"] = runs
    return out


def search(ctx: C.Ctx, disagreements, broken) -> List[C.Failing]:
    out = []
    for d in disagreements:
        if isinstance(d.case, dict) and "scenario" in d.case:
            f = replay(d.case)
            if f:
                out.append(f)
    if out:
        return out
    big = C.Ctx(ctx.prop, "thorough", ctx.seed + 1, random.Random(f"search:{ctx.seed}"), ctx.t0, ctx.jobs)
    return oracle(big, C.Coverage())


def replay(case) -> Optional[C.Failing]:
    return check_case({"scenario": case["scenario"], "fault": case.get("fault")})
