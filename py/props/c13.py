"""C13 — DictObjectStore / ObjectProviderMultiplexer / NamespaceIRIGenerator vs Model/Store.lean."""
from __future__ import annotations

import itertools
import random
from typing import Any, Dict, List, Optional

from vf import common as C

ID = "C13"
LEAN_MODULE = "Basyx.Props.C13"
LEVEL = "proof"

MANIFEST = {
    "text": "Lean theorems for ALL call histories of the DictObjectStore model (add, discard, remove, pop, clear, bulk update, lookups, "
            "membership, len, iteration): every history refines the abstract map Id -> Option Object (relational spec, iteration order "
            "left open), duplicate rejection / frame / exactly-once iteration corollaries, multiplexer = first knowing provider, IRI "
            "generator result lies in the namespace, is unknown to the provider, and its search loop terminates (pigeonhole). Tie: "
            "exhaustive short + random long call sequences on real stores with full view comparison after every call.",
    "note": "CPython dict and collections.abc.MutableSet mix-in semantics as transcribed; object identity = pool index; id not mutated while stored",
    "technique": "Lean 4 proof: refinement of all call histories to an abstract function map; differential correspondence with provider.py / identification.py",
}
ASSUMPTIONS = [
    "CPython dict semantics and collections.abc.MutableSet mix-ins (remove/pop/clear) as transcribed in Model/Store.lean",
    "object identity modelled as a unique number per pool object; Identifiable.id is not mutated while stored (outside the statement)",
    "the provider consulted by the IRI generator is any AbstractObjectProvider; modelled as the finite set of identifiers it knows",
]

IDS = ["id:a", "id:b", "https://x/ä b"]


_FALSY: dict = {}


def falsy_classes():
    """application-defined identifiables that are FALSY objects: a container-like Submodel whose len() is its number of elements
    (empty: falsy), a concept description with an explicit __bool__.  An object's truth value says nothing about whether a
    provider holds it."""
    from basyx.aas import model
    if not _FALSY:
        _FALSY["sm"] = type("SizedSubmodel", (model.Submodel,), {"__len__": lambda self: len(self.submodel_element)})
        _FALSY["cd"] = type("NeverTrueConceptDescription", (model.ConceptDescription,), {"__bool__": lambda self: False})
    return _FALSY


def known_obj(identifier: str, k: int):
    """the object a generator test store holds under an identifier: plain or falsy, by position"""
    from basyx.aas import model
    f = falsy_classes()
    return [model.Submodel, f["sm"], model.ConceptDescription, f["cd"]][k % 4](identifier)


def make_pool():
    from basyx.aas import model
    f = falsy_classes()
    pool = [
        model.Submodel("id:a"), f["sm"]("id:a"),
        model.AssetAdministrationShell(model.AssetInformation(global_asset_id="g"), "id:a"),
        f["cd"]("id:b"), f["sm"]("id:b"),
        model.Submodel("https://x/ä b"),
    ]
    return pool


def jobj(pool, k):
    return [k, pool[k].id]


class Stores(list):
    """the stores of one history, plus the multiplexers the application keeps on them (created once, used all along)"""
    def __init__(self, it):
        super().__init__(it)
        self.muxes: Dict[Any, Any] = {}

    def mux(self, order):
        from basyx.aas import model
        key = tuple(order)
        if key not in self.muxes:
            if len(self.muxes) % 2 == 0:
                self.muxes[key] = model.ObjectProviderMultiplexer([self[j] for j in order])
            else:
                # constructed without an argument and filled afterwards through its public list
                m = model.ObjectProviderMultiplexer()
                for j in order:
                    m.providers.append(self[j])
                self.muxes[key] = m
        return self.muxes[key]


def impl_step(stores, pool, op) -> Any:
    from basyx.aas import model
    k = op[0]
    if k == "view":
        return impl_view(stores, pool, op[1])
    uid = {id(o): i for i, o in enumerate(pool)}
    try:
        if k == "mux":
            mux = stores.mux(op[1])
            return ["obj", uid.get(id(mux.get_identifiable(op[2])), -1)]       # -1: an object that is in none of this history's stores
        st = stores[op[1]]
        if k == "add":
            st.add(pool[op[2]]); return ["unit"]
        if k == "discard":
            st.discard(pool[op[2]]); return ["unit"]
        if k == "remove":
            st.remove(pool[op[2]]); return ["unit"]
        if k == "pop":
            return ["obj", uid[id(st.pop())]]
        if k == "clear":
            st.clear(); return ["unit"]
        if k == "update":
            st.update([pool[j] for j in op[2]]); return ["unit"]
        if k == "update_store":           # bulk insertion from another store object (the argument is any iterable)
            st.update(stores[op[2]]); return ["unit"]
        if k == "update_gen":             # ... from a one-shot generator
            st.update(pool[j] for j in op[2]); return ["unit"]
        if k == "ior":                    # MutableSet.__ior__
            st |= stores[op[2]]; return ["unit"]
        if k == "get":
            return ["obj", uid.get(id(st.get_identifiable(op[2])), -1)]
        if k == "get_default":
            r = st.get(op[2])
            return ["none"] if r is None else ["obj", uid[id(r)]]
        if k == "contains_obj":
            return ["bool", pool[op[2]] in st]
        if k == "contains_id":
            return ["bool", op[2] in st]
        if k == "len":
            return ["nat", len(st)]
        if k == "iter":
            return ["objs", [uid[id(o)] for o in st]]
    except KeyError:
        return ["raise", "KeyError"]
    except Exception as e:
        return ["raise", type(e).__name__]
    raise ValueError(op)


def model_line(pool, op) -> List[Any]:
    k = op[0]
    if k == "view":
        return ["view", op[1], VIEW_IDS, [jobj(pool, j) for j in range(len(pool))]]
    if k == "mux":
        return ["mux", op[1], op[2]]
    if k in ("add", "discard", "remove", "contains_obj"):
        return [k, op[1], jobj(pool, op[2])]
    if k in ("update", "update_gen"):
        return ["update", op[1], [jobj(pool, j) for j in op[2]]]
    if k in ("get", "get_default", "contains_id"):
        return [k, op[1], op[2]]
    return [k, op[1]]


VIEW_IDS = IDS + ["id:zz"]


def observe(nstores) -> List[List[Any]]:
    obs = [["view", s] for s in range(nstores)]
    for i in IDS:
        # two arrangements and a bystander multiplexer that was given no provider at all
        obs += [["mux", [0, 1], i], ["mux", [1, 0], i], ["mux", [], i]]
    return obs


def impl_view(stores, pool, s):
    return [impl_step(stores, pool, ["iter", s]), impl_step(stores, pool, ["len", s]),
            [impl_step(stores, pool, ["get", s, i]) for i in VIEW_IDS],
            [impl_step(stores, pool, ["get_default", s, i]) for i in VIEW_IDS],
            [impl_step(stores, pool, ["contains_id", s, i])[1] for i in VIEW_IDS],
            [impl_step(stores, pool, ["contains_obj", s, k])[1] for k in range(len(pool))]]


def gen_sequences(ctx: C.Ctx, rng: random.Random):
    mut = [["add", 0, k] for k in range(5)] + [["discard", 0, k] for k in range(5)] + [["remove", 0, k] for k in range(3)] + \
          [["pop", 0], ["clear", 0], ["update", 0, [0, 3, 1, 5]], ["update", 0, [4, 5]]]
    # two-store prefixes: fill store 1, then merge it into store 0 in every way
    fills = [[["add", 1, a], ["add", 1, b]] for a in range(6) for b in range(6) if a != b]
    merges = [["update_store", 0, 1], ["ior", 0, 1], ["update_store", 0, 0]]
    depth = 2 if ctx.tier == "quick" else 4
    seqs = [list(s) for L in range(1, depth + 1) for s in itertools.product(mut, repeat=L)]
    seqs += [[["add", 0, k]] + f + [m] for k in range(6) for f in fills for m in merges]
    if ctx.tier == "thorough":
        # length 4 over the full alphabet is 17^4 = 83521; keep all
        pass
    exhaustive_n = len(seqs)
    for _ in range(ctx.budget(1500, 30000)):
        L = rng.randint(3, 30)
        s = []
        for _ in range(L):
            st = rng.randrange(2)
            r = rng.random()
            if r < 0.4:
                s.append(["add", st, rng.randrange(6)])
            elif r < 0.6:
                s.append(["discard", st, rng.randrange(6)])
            elif r < 0.7:
                s.append(["remove", st, rng.randrange(6)])
            elif r < 0.8:
                s.append(["pop", st])
            elif r < 0.85:
                s.append(["clear", st])
            elif r < 0.9:
                s.append([rng.choice(["update", "update_gen"]), st, [rng.randrange(6) for _ in range(rng.randint(0, 4))]])
            else:
                s.append([rng.choice(["update_store", "ior"]), st, rng.randrange(2)])
        seqs.append(s)
    return seqs, exhaustive_n, depth


QUOTE_SAMPLES = ["", "a b", "ä/ö?#", "a:b[c]@d!$'()*+,;", "\x00\x01\x1e\x1f\x7f\x80", '"<>\\^`{|}', "=&%", "😀", "a\tb\nc"]


def gen_cases(rng: random.Random, n: int):
    cases = []
    props = [None, "", "a", "a b", "x:y", "a_0001", "ä", "\x01", "0001", "a\u0308", "\u00e4 b", "A\u030a(1)"]     # composed and decomposed spellings
    for _ in range(n):
        ns = rng.choice(["http://x/", "urn:x#", "a:=", "http://u\u0308/", "http://\u00fc/"])
        calls = []
        known = []
        for _ in range(rng.randint(1, 8)):
            p = rng.choice(props)
            # the provider's contents: earlier results (sometimes), colliding look-alikes
            extra = rng.sample([ns + "a", ns + "a_0001", ns + "a_0002", ns + "0000", ns + "0001", ns + "a%20b", ns + "a_0003",
                                ns + "\u00e4", ns + "a\u0308", ns + "\u00e4%20b", ns + "\u00c5%281%29"], rng.randint(0, 6))
            calls.append((p, list(dict.fromkeys(known + extra))))
            calls[-1] = (p, calls[-1][1], rng.random() < 0.6)
        cases.append((ns, calls))
    return cases


def correspond(ctx: C.Ctx, cov: C.Coverage) -> List[C.Disagreement]:
    from basyx.aas import model
    from basyx.aas.util import identification
    rng = random.Random(f"C13:{ctx.seed}")
    seqs, exhaustive_n, depth = gen_sequences(ctx, rng)
    cov.rule = (f"all sequences up to length {depth} over 17 mutating calls on a pool of 6 identifiables (3 sharing 'id:a', 2 sharing 'id:b'; "
                "all three identifiable kinds), exhaustive, plus seeded random sequences (length<=30) over two stores; after every call "
                "the complete public view of each store and of two multiplexer arrangements is compared with the model; the IRI generator "
                "is compared on generated call sequences and _quote_iri_segment on every code point below U+0300 (all of the BMP in thorough). "
                "non-trivial = sequence contains a rejected duplicate add, a discard/remove of a non-member, or pop/clear; distinct = by sequence")
    pool = make_pool()
    lines: List[Any] = []
    impl: List[Any] = []
    index: List[Any] = []
    obs = observe(2)
    for si, seq in enumerate(seqs):
        lines.append(["reset"]); impl.append(["reset"]); index.append((si, -1))
        stores = Stores([model.DictObjectStore(), model.DictObjectStore(), model.DictObjectStore()])
        nontriv = False
        for oi, op in enumerate(seq):
            mop = op
            if op[0] in ("update_store", "ior"):
                # the model receives the objects the source store yields (its iteration is itself compared at every step)
                uid = {id(o): i for i, o in enumerate(pool)}
                mop = ["update", op[1], [uid[id(o)] for o in stores[op[2]]]]
            r = impl_step(stores, pool, op)
            lines.append(model_line(pool, mop)); impl.append(r); index.append((si, oi))
            if r[0] == "raise" or op[0] in ("pop", "clear"):
                nontriv = True
            cov.hit(op[0] + ("!" if r[0] == "raise" else ""))
            for o in obs:
                lines.append(model_line(pool, o)); impl.append(impl_step(stores, pool, o)); index.append((si, oi))
        if nontriv:
            cov.nontrivial.add(C.sha(seq))
        cov.evaluations += 1
    # quote
    upper = 0x300 if ctx.tier == "quick" else 0x10000
    chars = [chr(c) for c in range(upper) if not 0xD800 <= c <= 0xDFFF]
    for s in chars + QUOTE_SAMPLES:
        lines.append(["quote", s]); impl.append(identification._quote_iri_segment(s)); index.append(("quote", s))
    # generator
    gcases = gen_cases(rng, ctx.budget(300, 5000))
    for gi, (ns, calls) in enumerate(gcases):
        lines.append(["gen_new", ns]); impl.append(["unit"]); index.append(("gen", gi))
        store = model.DictObjectStore()
        g = identification.NamespaceIRIGenerator(ns, store)
        for (p, known, keep) in calls:
            store.clear()
            for kk, k in enumerate(known):
                store.add(known_obj(k, kk + len(p or "")))
            r = g.generate_id(p)
            lines.append(["generate", known, p]); impl.append(["id", r]); index.append(("gen", gi))
            cov.hit("generate")
    cov.extra["generator_cases"] = len(gcases)
    cov.extra["quote_inputs"] = len(chars) + len(QUOTE_SAMPLES)
    cov.extra["exhaustive_sequences"] = exhaustive_n
    cov.exhaustive = True
    cov.samples = [seqs[exhaustive_n - 1], seqs[-1][:10], {"generator": [gcases[0][0], [list(c[:2]) for c in gcases[0][1][:3]]]}]
    out = C.run_model("C13", lines)
    dis: List[C.Disagreement] = []
    if len(out) != len(impl):
        return [C.Disagreement("driver output length", None, len(out), len(impl))]
    for k, (m, i) in enumerate(zip(out, impl)):
        if m != i:
            si, oi = index[k]
            case = seqs[si][: oi + 1] if isinstance(si, int) else [si, oi if si == "quote" else gcases[oi]]
            dis.append(C.Disagreement(f"store line {lines[k]}", case, m, i))
            if len(dis) >= 5:
                break
    return dis


# ----------------------------------------------------------------------------------------------- oracle

def check_sequence(seq) -> Optional[C.Failing]:
    """Reference: a dict id -> pool index, per store."""
    from basyx.aas import model
    pool = make_pool()
    stores = Stores([model.DictObjectStore(), model.DictObjectStore(), model.DictObjectStore()])
    ref = [dict(), dict(), dict()]
    for oi, op in enumerate(seq):
        prefix = seq[: oi + 1]
        r = impl_step(stores, pool, op)
        k = op[0]
        m = ref[op[1]] if k != "mux" else None
        exp = None
        if k == "add":
            x = op[2]; i = pool[x].id
            if i in m and m[i] != x:
                exp = ["raise", "KeyError"]
            else:
                m[i] = x; exp = ["unit"]
        elif k == "discard":
            x = op[2]; i = pool[x].id
            if m.get(i) == x:
                del m[i]
            exp = ["unit"]
        elif k == "remove":
            x = op[2]; i = pool[x].id
            if m.get(i) == x:
                del m[i]; exp = ["unit"]
            else:
                exp = ["raise", "KeyError"]
        elif k == "pop":
            if not m:
                exp = ["raise", "KeyError"]
            else:
                if r[0] != "obj" or pool[r[1]].id not in m or m[pool[r[1]].id] != r[1]:
                    return C.Failing("store:pop:not-a-member", f"pop returned {r}", prefix, r)
                del m[pool[r[1]].id]; exp = r
        elif k == "clear":
            m.clear(); exp = ["unit"]
        elif k in ("update", "update_gen", "update_store", "ior"):
            exp = ["unit"]
            for x in (op[2] if k in ("update", "update_gen") else list(ref[op[2]].values())):
                i = pool[x].id
                if i in m and m[i] != x:
                    exp = ["raise", "KeyError"]; break
                m[i] = x
        if exp is not None and r != exp:
            return C.Failing(f"store:{k}:outcome", f"{op} returned {r}, a map returns {exp}", prefix, r, exp)
        # views
        for s in range(2):
            st = stores[s]
            try:
                it = list(st)
                if len(it) != len(st) or len(it) != len(ref[s]) or {pool.index(o) if False else next(j for j, p in enumerate(pool) if p is o) for o in it} != set(ref[s].values()) or len({id(o) for o in it}) != len(it):
                    return C.Failing("store:view:iteration", f"store {s} iterates {len(it)} objects, map holds {sorted(ref[s].values())}", prefix)
                for i in IDS + ["id:zz"]:
                    if i in ref[s]:
                        if st.get_identifiable(i) is not pool[ref[s][i]] or st.get(i) is not pool[ref[s][i]] or i not in st:
                            return C.Failing("store:view:lookup", f"store {s} lookup of {i!r} is not the stored object", prefix)
                    else:
                        if st.get(i) is not None or st.get(i, pool[0]) is not pool[0] or i in st:
                            return C.Failing("store:view:phantom", f"store {s} knows absent {i!r}", prefix)
                        try:
                            st.get_identifiable(i)
                            return C.Failing("store:view:no-keyerror", f"store {s} get_identifiable({i!r}) did not raise", prefix)
                        except KeyError:
                            pass
                for x in range(6):
                    if (pool[x] in st) != (ref[s].get(pool[x].id) == x):
                        return C.Failing("store:view:membership", f"store {s} membership of object {x}", prefix)
            except Exception as e:
                return C.Failing("store:view:raises", repr(e), prefix)
        for order in ([0, 1], [1, 0], []):
            mux = stores.mux(order)          # a long-lived multiplexer: the answer may not depend on earlier lookups
            for i in IDS:
                want = next((ref[j][i] for j in order if i in ref[j]), None)
                try:
                    got_obj = mux.get_identifiable(i)
                    got = next((j for j, p in enumerate(pool) if p is got_obj), "an object that is in none of the stores")
                except KeyError:
                    got = None
                if (mux.get(i) is None) != (want is None):
                    return C.Failing("store:mux:get-default", f"multiplexer{order}.get({i!r}) disagrees with get_identifiable", prefix)
                if got != want:
                    return C.Failing("store:mux:first-hit", f"multiplexer{order} for {i!r} gave {got}, first knowing provider holds {want}", prefix, got, want)
    return None


def check_generator(case) -> Optional[C.Failing]:
    from basyx.aas import model
    from basyx.aas.util import identification
    ns, calls = case
    store = model.DictObjectStore()
    g = identification.NamespaceIRIGenerator(ns, store)
    for (p, known, keep) in calls:
        store.clear()
        for kk, k in enumerate(known):
            store.add(known_obj(k, kk + len(p or "")))
        r = g.generate_id(p)
        if not r.startswith(ns):
            return C.Failing("gen:outside-namespace", f"generate_id({p!r}) = {r!r} not in {ns!r}", ["gen", case], r)
        if r in known:
            return C.Failing("gen:already-known", f"generate_id({p!r}) = {r!r} is contained in the provider", ["gen", case], r)
    return None


def oracle(ctx: C.Ctx, cov: C.Coverage) -> List[C.Failing]:
    rng = random.Random(f"C13:{ctx.seed}")
    seqs, _, _ = gen_sequences(ctx, rng)
    out, sigs = [], set()
    for s in seqs:
        f = check_sequence(s)
        if f and f.sig not in sigs:
            sigs.add(f.sig)
            f.case = C.ddmin(f.case, lambda ops, f=f: (lambda g: g is not None and g.sig == f.sig)(check_sequence(ops)))
            out.append(f)
    for c in gen_cases(rng, ctx.budget(300, 5000)):
        f = check_generator(c)
        if f and f.sig not in sigs:
            sigs.add(f.sig); out.append(f)
    return out


def search(ctx: C.Ctx, disagreements, broken) -> List[C.Failing]:
    out = []
    for d in disagreements:
        if isinstance(d.case, list) and d.case and isinstance(d.case[0], list):
            f = check_sequence(d.case)
            if f:
                out.append(f)
        elif isinstance(d.case, list) and d.case and d.case[0] == "gen":
            f = check_generator(d.case[1])
            if f:
                out.append(f)
    if out:
        return out
    big = C.Ctx(ctx.prop, "thorough", ctx.seed + 1, random.Random(), ctx.t0, ctx.jobs)
    return oracle(big, C.Coverage())


def replay(case) -> Optional[C.Failing]:
    if case and case[0] == "gen":
        return check_generator(case[1])
    return check_sequence(case)
