"""C05 — wire format vs the official schemas and the specification's mapping, both directions."""
from __future__ import annotations

import copy
import io
import json
import os
import random
import re
from typing import Any, Dict, List, Optional, Tuple

from vf import common as C
from props import c03, c04

ID = "C05"
LEAN_MODULE = "Basyx.Props.C05"
LEVEL = "proof"
MANIFEST = {
    "text": "Kernel-decided obligations over tables REGENERATED on every run from the four adapter modules, _string_constraints/base.py and "
            "the two official schema files shipped in /repo: per class, written member/element names are schema names, what the schema "
            "requires is always written, no empty array/wrapper where the schema demands one item, written literals are schema literals, "
            "XML children are emitted in xs:sequence order; reading direction: every schema member is read, every schema literal is "
            "known (up to the recorded abstract key types), nothing optional is demanded, text length limits of language strings and "
            "decorated string attributes equal the schema's maxLength. With the generic codec theorems (C03/C04) these hold for "
            "documents of every depth. PARTIAL: regex-defined lexical spaces are checked by the schema validators on generated "
            "documents, not proved; the reading direction beyond table level is exercised by an independent specification-driven writer."
            " The emission order of the levelType children (dict order of IEC61360_LEVEL_TYPES) is regenerated and proved equal to the XSD sequence (c05_level_type_sequence)."
            " That the JSON writer leaves ensure_ascii at json's default - the written text is pure ASCII, hence the same document in every ASCII-compatible "
            "stream encoding - is regenerated (every mention of ensure_ascii in json_serialization.py) and decided (c05_json_text_is_ascii); the oracle writes "
            "through caller-opened text streams (ascii, cp1252, utf-8).",
    "note": "schema files in /repo are the specification's; class->definition and attribute->member mapping is the spec side "
            "(py/vf/meta.py + NAME rules in c05.py); jsonschema and lxml.XMLSchema are trusted validators (supporting evidence)",
    "technique": "Lean 4 proof: decide over regenerated code tables vs regenerated schema tables + generic codec theorems; schema validators "
                 "and an independent spec-driven writer as oracle",
}
ASSUMPTIONS = [
    "the schema files under compliance_tool/aas_compliance_tool/schemas are the official Part 1 V3.0 schemas",
    "regular-expression facets (language tags, content types, paths, xs literals, AASd-130) are not modelled in Lean",
    "jsonschema (Draft 2019-09 as declared) and lxml.etree.XMLSchema implement the schema languages",
]

GEN_LEAN = os.path.join(C.LEAN_DIR, "Basyx", "Gen", "Schemas.lean")
GEN_JSON = os.path.join(C.LEAN_DIR, "Basyx", "Gen", "schemas.json")


def translate(ctx: C.Ctx) -> List[str]:
    from translate import schema_tables as S
    from props import c02
    out = c03.translate(ctx) + c04.translate(ctx)
    js, xs = S.json_schema(C.REPO), S.xsd_schema(C.REPO)
    c03.write_if_changed(GEN_LEAN, S.emit_lean(js, xs))
    c03.write_if_changed(GEN_JSON, json.dumps({"json": js, "xsd": xs}, indent=1))
    out += c02.translate(ctx)          # Gen/StrCons.lean (string limits)
    return out


def correspond(ctx: C.Ctx, cov: C.Coverage) -> List[C.Disagreement]:
    """the tables this property reasons about are tied to the adapters exactly as in C03/C04 (reduced budget here)"""
    small = C.Ctx(ctx.prop, "quick", ctx.seed + 5, ctx.rng, ctx.t0, ctx.jobs)
    c3, c4 = C.Coverage(), C.Coverage()
    orig = small.budget
    small.budget = lambda q, t: max(40, q // 3) if ctx.tier == "quick" else q      # type: ignore
    dis = c03.correspond(small, c3) + c04.correspond(small, c4)
    cov.evaluations += c3.evaluations + c4.evaluations
    cov.nontrivial |= c3.nontrivial | c4.nontrivial
    cov.rule = "table tie as C03 + C04 (generated objects through both writers and strict readers vs the generic model); "
    return dis


# ----------------------------------------------------------------------------------------------- validators

_validators: Dict[str, Any] = {}


def validators():
    if not _validators:
        import jsonschema
        from lxml import etree
        d = os.path.join(C.REPO, "compliance_tool/aas_compliance_tool/schemas")
        schema = json.load(open(os.path.join(d, "aasJSONSchema.json"), encoding="utf-8"))
        cls = jsonschema.validators.validator_for(schema)
        _validators["json"] = cls(schema)
        _validators["xml"] = etree.XMLSchema(etree.parse(os.path.join(d, "aasXMLSchema.xsd")))
    return _validators


def spec_objects(seed: int, n: int, depth: int):
    """generated identifiables whose leaves lie in the specification's lexical spaces (no SDK-only xs:normalizedString)"""
    from vf import gen
    out = []
    gz = gen.Gen(random.Random(f"C05zoo:{seed}"), max_depth=depth, falsy_bias=0.3, exclude_types=["NormalizedString"])
    gz.spec_lexical = True
    out.append((-1, gz.zoo_submodel()))     # the deterministic zoo of leaf values (py/vf/gen.py): on every run
    for i in range(n):
        g = gen.Gen(random.Random(f"C05obj:{seed}:{i}"), max_depth=depth, falsy_bias=0.3, exclude_types=["NormalizedString"])
        g.spec_lexical = True
        kind = i % 3
        out.append((i, g.submodel() if kind == 0 else g.shell() if kind == 1 else g.concept_description()))
    return out


def regen(case):
    return dict(spec_objects(case["seed"], max(case["index"], 0) + 1, case.get("depth", 3)))[case["index"]]


# ----------------------------------------------------------------------------------------------- independent writer (spec mapping)

PLURAL = {"qualifier": "qualifiers", "extension": "extensions", "submodel_element": "submodelElements", "statement": "statements",
          "annotation": "annotations", "submodel": "submodels", "supplemental_semantic_id": "supplementalSemanticIds",
          "specific_asset_id": "specificAssetIds", "key": "keys", "input_variable": "inputVariables",
          "output_variable": "outputVariables", "in_output_variable": "inoutputVariables", "level_types": "levelType",
          "type_value_list_element": "typeValueListElement"}
ENUM_WIRE = {"INSTANCE": "Instance", "TEMPLATE": "Template", "TYPE": "Type", "NOT_APPLICABLE": "NotApplicable", "INPUT": "input",
             "OUTPUT": "output", "ON": "on", "OFF": "off"}


def member_name(attr: str) -> str:
    if attr in PLURAL:
        return PLURAL[attr]
    parts = attr.split("_")
    return parts[0] + "".join(p.capitalize() for p in parts[1:])


def enum_wire(member) -> str:
    n = member.name
    t = type(member).__name__
    if t in ("DataTypeIEC61360",):
        return n
    if t == "IEC61360LevelType":
        return n.lower()
    if n in ENUM_WIRE and t in ("ModellingKind", "AssetKind", "Direction", "StateOfEvent"):
        return ENUM_WIRE[n]
    return "".join(p.capitalize() for p in n.split("_"))       # KeyTypes, QualifierKind, EntityType


XSD_NAME = {"int": "integer", "bool": "boolean", "str": "string", "float": "double", "Decimal": "decimal", "datetime": "dateTime", "time": "time",
            "relativedelta": "duration"}


def xsd_name(t) -> str:
    n = t.__name__
    return "xs:" + XSD_NAME.get(n, n[0].lower() + n[1:])


def spec_json(obj, variant: Optional[str] = None) -> Any:
    """JSON per the specification's mapping table, written from the metamodel attributes (vf.meta) — not by the SDK's writer.
    Leaf lexical forms of typed values are taken from xsd_repr (C06's concern)."""
    import base64
    from basyx.aas import model
    from basyx.aas.model import datatypes
    from vf import meta
    cls = meta.class_name(obj)
    out: Dict[str, Any] = {}
    tagged = cls in meta.SUBMODEL_ELEMENT_CLASSES + meta.IDENTIFIABLE_CLASSES
    if tagged:
        out["modelType"] = cls
    if cls == "DataSpecificationIEC61360":
        out["modelType"] = "DataSpecificationIec61360"
    if cls in ("ExternalReference", "ModelReference"):
        out["type"] = cls
    for attr, kind in meta.META[cls]:
        v = getattr(obj, attr)
        name = member_name(attr)
        opt = kind[0] == "o"
        k = kind[1:] if opt else kind
        head, _, arg = k.partition(":")
        head = head.split("=")[0]
        if v is None:
            continue
        if attr == "id_short" and isinstance(getattr(obj, "parent", None), model.SubmodelElementList):
            continue
        if head in ("str", "str0"):
            out[name] = v
        elif head == "bool":
            if not (variant == "defaults-omitted" and attr == "order_relevant" and v is True):
                out[name] = bool(v)
        elif head == "enum":
            if variant == "defaults-omitted" and ((cls == "Qualifier" and attr == "kind" and v.name == "CONCEPT_QUALIFIER") or
                                                  (attr == "kind" and v.name == "INSTANCE" and cls == "Submodel")):
                continue
            if attr == "kind" and cls == "Submodel" and v.name == "INSTANCE" and variant != "explicit-kind":
                continue
            out[name] = enum_wire(v)
        elif head == "xtype":
            out[name] = xsd_name(v)
        elif head == "cls":
            out[name] = v.__name__
        elif head == "typed":
            out[name] = datatypes.xsd_repr(v)
        elif head == "bytes":
            out[name] = base64.b64encode(bytes(v)).decode()
        elif head == "lss":
            out[name] = [{"language": lang, "text": t} for lang, t in v.items()]
        elif head == "node":
            out[name] = spec_json(v, variant)
        elif head in ("list", "list1", "set", "set1"):
            items = list(v)
            if not items and head in ("list", "set"):
                continue
            if cls == "DataSpecificationIEC61360" and attr == "value_list":
                out[name] = {"valueReferencePairs": [spec_json(x, variant) for x in items]}
            else:
                out[name] = [spec_json(x, variant) for x in items]
        elif head == "enumset":
            if v:
                names = {x.name.lower() for x in v}
                out[name] = {n: (n in names) for n in ("min", "nom", "typ", "max")}
        elif head in ("elems", "elems_ordered"):
            items = list(v)
            if items:
                if cls == "Operation":
                    out[name] = [{"value": spec_json(x, variant)} for x in items]
                else:
                    out[name] = [spec_json(x, variant) for x in items]
    if cls == "EmbeddedDataSpecification":
        pass
    return out


VARIANTS = ["plain", "explicit-kind", "defaults-omitted", "long-display-name", "language-tags", "abstract-key-type", "abstract-list-type",
            "unsigned-int", "lexical-forms"]

# SPEC (XML Schema part 2): valid lexical forms that are not the canonical ones the SDK's own writer emits, with the value
# they denote written down as the canonical token of py/vf/canon.py (type name of the Python value, Python-native rendering).
LEXICAL_FORMS = [
    ("xs:decimal", ".5", ["v", "Decimal", "5E-1"]), ("xs:decimal", "3.", ["v", "Decimal", "3E0"]), ("xs:decimal", "+1.50", ["v", "Decimal", "15E-1"]),
    ("xs:decimal", "-.25", ["v", "Decimal", "-25E-2"]), ("xs:decimal", "0012.0", ["v", "Decimal", "12E0"]),
    ("xs:integer", "+5", ["v", "int", "5"]), ("xs:integer", "007", ["v", "int", "7"]), ("xs:integer", "-0", ["v", "int", "0"]),
    ("xs:int", "+2147483647", ["v", "Int", "2147483647"]), ("xs:long", "-009", ["v", "Long", "-9"]), ("xs:short", "+1", ["v", "Short", "1"]),
    ("xs:byte", "-128", ["v", "Byte", "-128"]), ("xs:unsignedByte", "255", ["v", "UnsignedByte", "255"]),
    ("xs:unsignedShort", "065535", ["v", "UnsignedShort", "65535"]), ("xs:unsignedLong", "18446744073709551615", ["v", "UnsignedLong", "18446744073709551615"]),
    ("xs:nonNegativeInteger", "+0", ["v", "NonNegativeInteger", "0"]), ("xs:positiveInteger", "+1", ["v", "PositiveInteger", "1"]),
    ("xs:nonPositiveInteger", "-0", ["v", "NonPositiveInteger", "0"]), ("xs:negativeInteger", "-01", ["v", "NegativeInteger", "-1"]),
    ("xs:boolean", "1", ["v", "bool", "True"]), ("xs:boolean", "0", ["v", "bool", "False"]),
    ("xs:double", "1E3", ["v", "float", "1000.0"]), ("xs:double", "INF", ["v", "float", "inf"]), ("xs:double", "-INF", ["v", "float", "-inf"]),
    ("xs:double", "NaN", ["v", "float", "nan"]), ("xs:double", ".5", ["v", "float", "0.5"]), ("xs:double", "+1.5e-3", ["v", "float", "0.0015"]),
    ("xs:double", "5.", ["v", "float", "5.0"]), ("xs:float", "-1E2", ["v", "Float", "-100.0"]), ("xs:float", "INF", ["v", "Float", "inf"]),
    ("xs:duration", "P1Y", ["v", "relativedelta", [1, 0, 0, 0, 0, 0, 0]]), ("xs:duration", "PT0.5S", ["v", "relativedelta", [0, 0, 0, 0, 0, 0, 500000]]),
    ("xs:duration", "-P1D", ["v", "relativedelta", [0, 0, -1, 0, 0, 0, 0]]),
    ("xs:duration", "P1Y2M3DT4H5M6.7S", ["v", "relativedelta", [1, 2, 3, 4, 5, 6, 700000]]),
    ("xs:dateTime", "2020-01-01T00:00:00Z", ["v", "datetime", "2020-01-01T00:00:00", 0.0]),
    ("xs:dateTime", "2020-01-01T12:30:00.5+01:00", ["v", "datetime", "2020-01-01T12:30:00.500000", 3600.0]),
    ("xs:dateTime", "1999-12-31T23:59:59.999999-14:00", ["v", "datetime", "1999-12-31T23:59:59.999999", -50400.0]),
    ("xs:dateTime", "2020-02-29T01:02:03", ["v", "datetime", "2020-02-29T01:02:03", None]),
    ("xs:date", "2020-01-01Z", ["v", "Date", "2020-01-01", 0.0]), ("xs:date", "2020-01-01+05:30", ["v", "Date", "2020-01-01", 19800.0]),
    ("xs:time", "12:00:00.25Z", ["v", "time", "12:00:00.250000", 0.0]), ("xs:time", "23:59:59", ["v", "time", "23:59:59", None]),
    ("xs:hexBinary", "0aFF", ["v", "HexBinary", "0aff"]), ("xs:hexBinary", "", ["v", "HexBinary", ""]),
    ("xs:base64Binary", "YWJj", ["v", "Base64Binary", "616263"]), ("xs:base64Binary", "YQ==", ["v", "Base64Binary", "61"]),
    ("xs:base64Binary", "YWJj ZGVm", ["v", "Base64Binary", "616263646566"]), ("xs:base64Binary", "YWJj\nZGVm", ["v", "Base64Binary", "616263646566"]),
    ("xs:base64Binary", "YW Jj ZG Vm", ["v", "Base64Binary", "616263646566"]),
    ("xs:gYear", "2020Z", ["v", "GYear", {"year": 2020}, 0.0]), ("xs:gMonth", "--05", ["v", "GMonth", {"month": 5}, None]),
    ("xs:gDay", "---15+02:00", ["v", "GDay", {"day": 15}, 7200.0]), ("xs:gYearMonth", "2020-05", ["v", "GYearMonth", {"year": 2020, "month": 5}, None]),
    ("xs:gMonthDay", "--05-15Z", ["v", "GMonthDay", {"month": 5, "day": 15}, 0.0]),
    ("xs:anyURI", "urn:a b", ["v", "AnyURI", "urn:a b"]), ("xs:string", " x ", ["v", "str", " x "]),
]


def apply_variant(doc: dict, expected: dict, variant: str, rng: random.Random) -> Optional[Tuple[dict, dict]]:
    """spec-valid forms the SDK's own writer never emits; returns (document, expected canonical value)"""
    doc, expected = copy.deepcopy(doc), copy.deepcopy(expected)
    if variant in ("plain", "explicit-kind", "defaults-omitted"):
        return doc, expected
    if variant == "long-display-name":
        text = "N" * rng.choice([65, 100, 128])
        doc["displayName"] = [{"language": "en", "text": text}]
        expected["display_name"] = ["lss", [["en", text]]]
        return doc, expected
    if variant == "language-tags":
        tags = ["de-CH-1996", "x-private", "deu", "EN", "zh-Hant-TW", "en-US", "sl-rozaj-biske"]
        tag = rng.choice(tags)
        doc["description"] = [{"language": tag, "text": "t"}]
        expected["description"] = ["lss", [[tag, "t"]]]
        return doc, expected
    if variant == "abstract-key-type" and doc.get("modelType") == "Submodel":
        kt = rng.choice(["Referable", "Identifiable"])
        keys = [{"type": "Submodel", "value": "urn:x"}, {"type": kt, "value": "p"}] if kt == "Referable" else [{"type": kt, "value": "urn:x"}]
        doc["semanticId"] = {"type": "ModelReference", "keys": keys}
        doc.pop("supplementalSemanticIds", None)
        expected["supplemental_semantic_id"] = ["list", []]
        expected["semantic_id"] = {"_c": "ModelReference", "referred_semantic_id": None,
                                   "key": ["list", [{"_c": "Key", "type": ["e", re.sub(r"(?<!^)(?=[A-Z])", "_", k["type"]).upper()],
                                                     "value": ["s", k["value"]]} for k in keys]]}
        return doc, expected
    if variant == "abstract-list-type" and doc.get("modelType") == "Submodel":
        t = rng.choice(["DataElement", "SubmodelElement", "EventElement"])
        doc.setdefault("submodelElements", []).append({"modelType": "SubmodelElementList", "idShort": "absList", "typeValueListElement": t})
        sml = {"_c": "SubmodelElementList", "type_value_list_element": ["c", t], "order_relevant": ["b", True], "value": ["list", []],
               "semantic_id_list_element": None, "value_type_list_element": None, "id_short": ["s", "absList"], "display_name": None,
               "category": None, "description": None, "qualifier": ["set", []], "semantic_id": None,
               "supplemental_semantic_id": ["list", []], "extension": ["set", []], "embedded_data_specifications": ["list", []]}
        expected["submodel_element"] = ["set", sorted(expected["submodel_element"][1] + [sml], key=lambda x: json.dumps(x, sort_keys=True, default=str))]
        return doc, expected
    if variant == "lexical-forms" and doc.get("modelType") == "Submodel":
        from vf import canon as _canon
        added = []
        for j, (xs, lit, token) in enumerate(rng.sample(LEXICAL_FORMS, 6)):
            ids = f"lex{j}"
            doc.setdefault("submodelElements", []).append({"modelType": "Property", "idShort": ids, "valueType": xs, "value": lit})
            tname = token[1]              # canon names a type by the Python class of its values
            added.append({"_c": "Property", "value_type": ["t", tname], "value": token, "value_id": None,
                          "id_short": ["s", ids], "display_name": None, "category": None, "description": None, "qualifier": ["set", []],
                          "semantic_id": None, "supplemental_semantic_id": ["list", []], "extension": ["set", []],
                          "embedded_data_specifications": ["list", []]})
        expected["submodel_element"] = ["set", sorted(expected["submodel_element"][1] + added, key=lambda x: json.dumps(x, sort_keys=True, default=str))]
        return doc, expected
    if variant == "unsigned-int" and doc.get("modelType") == "Submodel":
        doc.setdefault("submodelElements", []).append({"modelType": "Property", "idShort": "uintProp", "valueType": "xs:unsignedInt", "value": "4294967295"})
        prop = {"_c": "Property", "value_type": ["t", "UnsignedInt"], "value": ["v", "UnsignedInt", "4294967295"], "value_id": None,
                "id_short": ["s", "uintProp"], "display_name": None, "category": None, "description": None, "qualifier": ["set", []],
                "semantic_id": None, "supplemental_semantic_id": ["list", []], "extension": ["set", []], "embedded_data_specifications": ["list", []]}
        expected["submodel_element"] = ["set", sorted(expected["submodel_element"][1] + [prop], key=lambda x: json.dumps(x, sort_keys=True, default=str))]
        return doc, expected
    return None


def check_object(obj, case: dict) -> Optional[C.Failing]:
    fs = check_object_all(obj, case)
    return fs[0] if fs else None


def check_object_all(obj, case: dict, only_variant: Optional[str] = None) -> List[C.Failing]:
    c03._quiet()
    found: List[C.Failing] = []
    from lxml import etree
    from basyx.aas import model
    from basyx.aas.adapter.json import AASToJsonEncoder, StrictAASFromJsonDecoder, read_aas_json_file
    from basyx.aas.adapter.xml import write_aas_xml_file
    from vf import canon
    V = validators()
    store = model.DictObjectStore([obj])
    key = {"Submodel": "submodels", "AssetAdministrationShell": "assetAdministrationShells", "ConceptDescription": "conceptDescriptions"}[type(obj).__name__]
    # ---- writing direction: SDK documents are schema-valid
    sdk_doc = {key: [json.loads(json.dumps(obj, cls=AASToJsonEncoder))]}
    errs = sorted(V["json"].iter_errors(sdk_doc), key=lambda e: list(e.absolute_path))
    if errs:
        e = errs[0]
        where = ".".join(str(p) for p in e.absolute_path if not isinstance(p, int))
        return [C.Failing(f"write:json:schema-invalid:{where.split('.')[-1] if where else 'root'}:{e.validator}",
                          f"SDK JSON for {type(obj).__name__} violates the schema at {where}: {e.message[:140]}", dict(case, dir="write"))]
    # (round 8) the file-level writer into a text stream the CALLER opened, in the encodings platforms hand out by default: the
    # write succeeds, and the file it leaves is the same JSON document for every consumer that follows the interchange rule
    # (RFC 8259: UTF-8) - in particular for the SDK's own reader given the path
    if case.get("index", 0) % 6 == 0:
        from basyx.aas.adapter.json import write_aas_json_file
        import tempfile, shutil
        d_ = tempfile.mkdtemp(prefix="verif-c05-")
        try:
            for enc_ in ("ascii", "cp1252", "utf-8"):
                p_ = os.path.join(d_, enc_ + ".json")
                try:
                    with open(p_, "w", encoding=enc_) as f_:
                        write_aas_json_file(f_, store)
                except Exception as e:
                    return [C.Failing(f"write:json:text-stream:{enc_}:raises:{type(e).__name__}", f"write_aas_json_file into a text stream opened with "
                                      f"encoding={enc_!r} raised {e!r}"[:240], dict(case, dir="write"))]
                try:
                    raw_doc = json.loads(open(p_, "rb").read().decode("utf-8"))
                    back = list(read_aas_json_file(p_, failsafe=False))
                except Exception as e:
                    return [C.Failing(f"write:json:text-stream:{enc_}:not-utf8-json:{type(e).__name__}", f"the file write_aas_json_file left through a text "
                                      f"stream opened with encoding={enc_!r} is not a UTF-8 JSON document any more: {e!r}"[:240], dict(case, dir="write"))]
                if raw_doc.get(key) != sdk_doc[key] or len(back) != 1 or canon.diff(canon.canon(obj), canon.canon(back[0])):
                    return [C.Failing(f"write:json:text-stream:{enc_}:other-document", f"the file written through a text stream (encoding={enc_!r}) holds "
                                      "another document than the encoder produces", dict(case, dir="write"))]
        finally:
            shutil.rmtree(d_, ignore_errors=True)
    buf = io.BytesIO()
    write_aas_xml_file(buf, store)
    xml_doc = etree.fromstring(buf.getvalue())
    if not V["xml"].validate(xml_doc):
        err = V["xml"].error_log[0]
        m = re.search(r"Element '\{[^}]*\}(\w+)'", err.message)
        return [C.Failing(f"write:xml:schema-invalid:{m.group(1) if m else 'unknown'}:{err.type_name}",
                          f"SDK XML for {type(obj).__name__} violates the XSD: {err.message[:200]}", dict(case, dir="write"))]
    # ---- the mapping: the SDK's JSON equals the document an independent mapping-driven writer produces
    mine = spec_json(obj)
    theirs = sdk_doc[key][0]
    d = json_diff(mine, theirs)
    if d:
        return [C.Failing(f"write:json:mapping:{d[0]}", f"SDK JSON differs from the specification's mapping for {type(obj).__name__}: {d[1][:200]}",
                          dict(case, dir="write"))]
    # ---- transcoding: what was read from one format is written schema-valid in the other (and denotes the same data)
    if only_variant is None:
        f = transcode_check(obj, key, V, sdk_doc, buf.getvalue(), case)
        if f:
            return [f]
    # ---- instances of application-defined subclasses are written under the metamodel class they specialise
    if only_variant is None:
        f = subclass_check(obj, key, V, sdk_doc, buf.getvalue(), case)
        if f:
            return [f]
    # ---- reading direction: spec-valid forms are accepted and yield the prescribed data
    rng = random.Random(f"C05variant:{case['seed']}:{case['index']}")
    exp0 = canon.canon(obj)
    if only_variant is None or only_variant.startswith("xml-"):
        for f in xml_surface_checks(buf.getvalue(), exp0, V, rng, case, only_variant):
            found.append(f)
    for variant in VARIANTS:
        if only_variant is not None and variant != only_variant:
            continue
        base = spec_json(obj, variant)
        r = apply_variant(base, exp0, variant, rng)
        if r is None:
            continue
        doc, expected = r
        full = {key: [doc]}
        verrs = list(V["json"].iter_errors(full))
        if verrs:
            # our own spec writer must produce valid documents; if not, the variant is not judged
            continue
        try:
            got = list(read_aas_json_file(io.StringIO(json.dumps(full)), failsafe=False))
        except Exception as e:
            found.append(C.Failing(f"read:json:rejected:{variant}", f"strict reader rejects a schema-valid document ({variant}): "
                                   f"{type(e).__name__}: {str(e)[:160]}", dict(case, dir="read", variant=variant)))
            continue
        if len(got) != 1:
            found.append(C.Failing(f"read:json:count:{variant}", f"{len(got)} identifiables read", dict(case, dir="read", variant=variant)))
            continue
        dd = canon.diff(expected, canon.canon(got[0]))
        if dd:
            found.append(C.Failing(f"read:json:differs:{variant}", f"data read from a spec-written document differs ({variant}): {dd[:200]}",
                                   dict(case, dir="read", variant=variant)))
    return found


def transcode_check(obj, key, V, sdk_doc, sdk_xml: bytes, case) -> Optional[C.Failing]:
    """JSON document -> strict reader -> XML writer -> XSD, and XML document -> strict reader -> JSON writer -> JSON schema; the
    objects a reader builds must be as good as the application's own for the OTHER writer; also: the reader's results are
    independent objects (the first result is edited in place, then the document is read again)"""
    from lxml import etree
    from basyx.aas import model
    from basyx.aas.adapter.json import AASToJsonEncoder, read_aas_json_file
    from basyx.aas.adapter.xml import write_aas_xml_file, read_aas_xml_file
    from vf import canon
    from props import c03
    want = canon.canon(obj)
    try:
        from_json = list(read_aas_json_file(io.StringIO(json.dumps(sdk_doc)), failsafe=False))
        from_xml = list(read_aas_xml_file(io.BytesIO(sdk_xml), failsafe=False))
        if len(from_json) != 1 or len(from_xml) != 1:
            return None                                  # round trips are C03 / C04's business
        b = io.BytesIO()
        write_aas_xml_file(b, model.DictObjectStore(from_json))
        x = etree.fromstring(b.getvalue())
        if not V["xml"].validate(x):
            err = V["xml"].error_log[0]
            m = re.search(r"Element '\{[^}]*\}(\w+)'", err.message)
            return C.Failing(f"write:xml:schema-invalid-after-json-read:{m.group(1) if m else 'unknown'}",
                             f"XML written from objects that were read from JSON violates the XSD: {err.message[:200]}", dict(case, dir="write"))
        j = {key: [json.loads(json.dumps(from_xml[0], cls=AASToJsonEncoder))]}
        errs = sorted(V["json"].iter_errors(j), key=lambda e: list(e.absolute_path))
        if errs:
            e = errs[0]
            where = ".".join(str(p) for p in e.absolute_path if not isinstance(p, int))
            return C.Failing(f"write:json:schema-invalid-after-xml-read:{where.split('.')[-1] if where else 'root'}",
                             f"JSON written from objects that were read from XML violates the schema at {where}: {e.message[:140]}", dict(case, dir="write"))
        # independence of the reader's results
        for fmt, first, again in (("json", from_json[0], lambda: list(read_aas_json_file(io.StringIO(json.dumps(sdk_doc)), failsafe=False))),
                                  ("xml", from_xml[0], lambda: list(read_aas_xml_file(io.BytesIO(sdk_xml), failsafe=False)))):
            if c03.scribble(first):
                second = again()
                d = canon.diff(want, canon.canon(second[0])) if len(second) == 1 else "count"
                if d:
                    return C.Failing(f"read:{fmt}:second-read-sees-edits-of-first", f"the {fmt} document read again after the first result was "
                                     f"edited in place: {d[:200]}", dict(case, dir="read"))
    except Exception as e:
        return C.Failing(f"transcode:raises:{type(e).__name__}", f"{type(obj).__name__}: {e!r}"[:250], dict(case, dir="write"))
    return None


def subclass_check(obj, key, V, sdk_doc, sdk_xml: bytes, case) -> Optional[C.Failing]:
    """re-class every element of the tree as an instance of a fresh subclass of its class (what an application does that
    derives its own element classes) — the documents written must be the same, byte for byte"""
    from basyx.aas import model
    from basyx.aas.adapter.json import AASToJsonEncoder
    from basyx.aas.adapter.xml import write_aas_xml_file
    touched = []

    def walk(o):
        if isinstance(o, model.Referable):
            touched.append((o, o.__class__))
            try:
                o.__class__ = type("App" + type(o).__name__, (type(o),), {})
            except TypeError:
                touched.pop()
            if isinstance(o, model.UniqueIdShortNamespace):
                for ch in o:
                    walk(ch)
    walk(obj)
    try:
        doc = {key: [json.loads(json.dumps(obj, cls=AASToJsonEncoder))]}
        buf = io.BytesIO()
        write_aas_xml_file(buf, model.DictObjectStore([obj]))
        xml = buf.getvalue()
    except Exception as e:
        return C.Failing(f"write:subclass:raises:{type(e).__name__}", f"writing a tree of subclass instances raised {e!r}"[:250], dict(case, dir="write"))
    finally:
        for o, c in touched:
            o.__class__ = c
    if doc != sdk_doc:
        d = json_diff(sdk_doc[key][0], doc[key][0]) or ("?", "documents differ")
        return C.Failing(f"write:json:subclass:{d[0]}", f"JSON written for instances of application-defined subclasses differs: {d[1][:200]}",
                         dict(case, dir="write"))
    if xml != sdk_xml:
        return C.Failing("write:xml:subclass", "XML written for instances of application-defined subclasses differs", dict(case, dir="write"))
    return None


def entity_char(ch: str) -> str:
    """one character inside an entity's replacement text: a character reference is expanded when the entity is DECLARED, so '&' and
    '<' would be parsed again when the entity is included — they need a second level of escaping"""
    return f"&#38;#{ord(ch)};" if ch in "&<" else f"&#x{ord(ch):X};"


XML_SURFACES = ["xml-cdata", "xml-charref", "xml-entity", "xml-comment", "xml-b64wrap"]


def xml_surface_checks(sdk_xml: bytes, expected, V, rng: random.Random, case, only: Optional[str]) -> List[C.Failing]:
    """the same XML infoset in other lexical clothes (CDATA section, numeric character references, an internal general entity,
    comments between elements): schema-valid like the original, and the strict reader must yield the same data"""
    from lxml import etree
    from basyx.aas.adapter.xml import read_aas_xml_file
    from vf import canon
    out: List[C.Failing] = []
    root = etree.fromstring(sdk_xml)
    leaves = [e for e in root.iter() if isinstance(e.tag, str) and len(e) == 0 and e.text and "]]>" not in e.text]
    if not leaves:
        return out
    for surface in XML_SURFACES:
        if only is not None and surface != only:
            continue
        r2 = etree.fromstring(sdk_xml)
        l2 = [e for e in r2.iter() if isinstance(e.tag, str) and len(e) == 0 and e.text and "]]>" not in e.text]
        tgt = l2[rng.randrange(len(l2))]
        text = tgt.text
        doctype = ""
        if surface == "xml-b64wrap":
            # xs:base64Binary allows white space: a Blob value wrapped over several lines is the same value
            blobs = [e for e in r2.iter() if isinstance(e.tag, str) and etree.QName(e).localname == "value" and e.text
                     and etree.QName(e.getparent()).localname == "blob"]
            if not blobs:
                continue
            for e in blobs:
                e.text = "\n    " + "\n    ".join(e.text[j:j + 4] for j in range(0, len(e.text), 4)) + "\n  "
            data = etree.tostring(r2, xml_declaration=True, encoding="utf-8")
        elif surface == "xml-comment":
            tgt.getparent().insert(0, etree.Comment(" note "))
            data = etree.tostring(r2, xml_declaration=True, encoding="utf-8")
        else:
            tgt.text = "@@VFTOKEN@@"
            raw = etree.tostring(r2, encoding="unicode")
            if surface == "xml-cdata":
                if "\r" in text:
                    continue                           # a CDATA section cannot carry a carriage return (line-end normalisation)
                rep = "<![CDATA[" + text + "]]>"
            elif surface == "xml-charref":
                rep = "".join(f"&#x{ord(ch):X};" for ch in text)
            else:
                if "\r" in text:
                    continue                           # a carriage return in an entity's replacement text is normalised on inclusion
                k = rng.randint(0, len(text))
                part = text[k:]
                esc = "".join(entity_char(ch) for ch in part)
                doctype = f'<!DOCTYPE x [<!ENTITY vf "{esc}">]>'
                rep = "".join(f"&#x{ord(ch):X};" for ch in text[:k]) + "&vf;"
            data = ('<?xml version="1.0" encoding="utf-8"?>' + doctype + raw.replace("@@VFTOKEN@@", rep)).encode("utf-8")
        try:
            doc = etree.fromstring(data)
        except etree.XMLSyntaxError:
            continue                                   # our own rewriting produced something lxml does not take: not judged
        if surface != "xml-entity" and not V["xml"].validate(doc):
            continue
        try:
            got = list(read_aas_xml_file(io.BytesIO(data), failsafe=False))
        except Exception as e:
            out.append(C.Failing(f"read:xml:rejected:{surface}", f"strict XML reader rejects an equivalent document ({surface}): "
                                 f"{type(e).__name__}: {str(e)[:160]}", dict(case, dir="read", variant=surface)))
            continue
        if len(got) != 1:
            out.append(C.Failing(f"read:xml:count:{surface}", f"{len(got)} identifiables read", dict(case, dir="read", variant=surface)))
            continue
        dd = canon.diff(expected, canon.canon(got[0]))
        if dd:
            out.append(C.Failing(f"read:xml:differs:{surface}", f"data read from an equivalent XML document differs ({surface}): {dd[:200]}",
                                 dict(case, dir="read", variant=surface)))
    return out


def json_diff(a, b, path="") -> Optional[Tuple[str, str]]:
    if isinstance(a, dict) and isinstance(b, dict):
        for k in sorted(set(a) | set(b)):
            if k not in a or k not in b:
                return (k, f"{path}/{k}: only in {'SDK' if k in b else 'spec writer'} output")
            d = json_diff(a[k], b[k], f"{path}/{k}")
            if d:
                return d
        return None
    if isinstance(a, list) and isinstance(b, list):
        if len(a) != len(b):
            return (path.split("/")[-1], f"{path}: {len(a)} vs {len(b)} items")
        # unordered collections: compare as multisets of canonical JSON
        sa, sb = sorted(json.dumps(x, sort_keys=True) for x in a), sorted(json.dumps(x, sort_keys=True) for x in b)
        if sa == sb:
            return None
        for x, y in zip(a, b):
            d = json_diff(x, y, path + "[]")
            if d:
                return d
        return (path.split("/")[-1], f"{path}: lists differ")
    return None if a == b else (path.split("/")[-1], f"{path}: spec {a!r} vs SDK {b!r}")


def oracle(ctx: C.Ctx, cov: C.Coverage, n: Optional[int] = None, seed: Optional[int] = None) -> List[C.Failing]:
    out, sigs = [], set()
    seed = ctx.seed if seed is None else seed
    depth = 3 if ctx.tier == "quick" else 4
    for i, obj in spec_objects(seed, n or ctx.budget(55, 700), depth):
        cov.hit("oracle-object")
        for f in check_object_all(obj, {"seed": seed, "index": i, "depth": depth}):
            if f.sig not in sigs:
                sigs.add(f.sig); out.append(f)
    return out


def search(ctx: C.Ctx, disagreements, broken) -> List[C.Failing]:
    return oracle(ctx, C.Coverage(), n=1200, seed=ctx.seed + 7919)


def replay(case) -> Optional[C.Failing]:
    fs = check_object_all(regen(case), {k: v for k, v in case.items() if k not in ("dir", "variant")}, case.get("variant"))
    want = case.get("variant")
    for f in fs:
        if want is None or f.case.get("variant") == want:
            return f
    return None
