"""C12 — Referable.update_from / NamespaceSet.update_nss_from vs Model/Update.lean.

Cases are pairs of *specs* (plain dicts) from which real SDK trees are built: `live`, `new` (= a seeded edit script applied
to a deep copy of live's spec, or an unrelated spec of the same root class), the `update_source` flag and an optional holder
(a Submodel or SubmodelElementList that contains the live root).  Tie: the vars()-level state of both trees is extracted,
sent to the Lean model, and the model's predicted post-state (structure, identities, parents, keys, attribute contents,
value-object identities, hook owners, detached objects) is compared with the real post-state.  Oracle: the property stated
over public attributes only (independent canonicalisation, id() map, parents, namespace consistency, source).
"""
from __future__ import annotations

import copy
import json
import random
from typing import Any, Dict, List, Optional, Tuple

from vf import common as C

ID = "C12"
LEAN_MODULE = "Basyx.Props.C12"
LEVEL = "proof"

MANIFEST = {
    "text": "Lean theorems for ALL pairs of object trees (any depth, any branching) of the update_from/update_nss_from model "
            "(tree with fixes/C12-update-nss-complete.patch): the root keeps identity/parent/class; its source changes iff asked; "
            "every other attribute of the root becomes the copy's (same value object: aliasing proved as a fact); every object "
            "removed at any depth ends detached (mutual structural induction); every member of every merged NamespaceSet is "
            "either the live object stored under the same key - same identity, and it IS the recursive update from the copy's "
            "object with that key and class (so the statement iterates to every depth) - or an adopted object of the copy with "
            "parent = live namespace and a fresh non-None key, or an untouched live member; a matched Qualifier/Extension "
            "becomes canon-equal and keeps identity (the fix). PARTIAL: equality of the whole tree at every depth and 'a valid "
            "copy never raises' are NOT proved in general (decide-checked on concrete 3-level trees; negation witness for "
            "Operation variables moved between sets); they are covered by the tie and the oracle. Tie: seeded edit scripts and "
            "unrelated pairs over 7 root classes built from real SDK objects, full vars()-level state + id() map + detached "
            "objects + exception compared with the model after every update."
            " Ordered lists: when no object of the copy's set has a namesake in the live set (generated list item names are fresh per list object) the refreshed set holds exactly the copy's objects in the copy's order, for any number of items (c12_list_refreshed_in_copy_order).",
    "note": "partial: deep canon equality and the assembled namespace invariant are exercised by correspondence/oracle, not proved "
            "for all trees; SubmodelElementList add-hook constraints not modelled; dict order of unordered NamespaceSets and the "
            "plain/sets interleaving abstracted (only visible in the partial state after a raise, compared structurally)",
    "technique": "Lean 4 proof by mutual structural induction on object trees; differential correspondence with model/base.py",
}
ASSUMPTIONS = [
    "requires fixes/C12-update-nss-complete.patch (matched Qualifier/Extension updated in place, removals before additions, "
    "class-changed child replaced); the model transcribes the patched code",
    "generated list id_shorts (uuid1) are unique; modelled as gen(uid of the child)",
    "objects of one class have the same vars() names (set in __init__); the harness checks this on every generated tree",
    "SubmodelElementList add hook (AASd-107/108/109/114) is not modelled; the harness asserts the vars() order that makes it "
    "unobservable for valid copies (_value comes after the four list attributes)",
    "iteration order of unordered NamespaceSets (CPython dict order) is not part of the metamodel; compared sorted by key",
]

SIG_MOVED = "raise:AASCV22:variable-moved-to-earlier-set"
SIG_ROOT_RENAMED = "inv:contained-root-renamed:parent-index-stale"
SIG_ROOT_LISTITEM = "inv:list-item-root:generated-id-short-overwritten"
SIG_ALIAS_HOOKS = "alias:constrained-list-hooks-bound-to-copy"
SIG_ALIAS_MUTABLE = "alias:mutable-attribute-shared-with-copy"

LEAVES = ["Property", "MultiLanguageProperty", "Range", "File", "Blob", "ReferenceElement", "Capability",
          "RelationshipElement"]
DATA_ELEMENTS = ["Property", "MultiLanguageProperty", "Range", "File", "Blob", "ReferenceElement"]
CONTAINERS = ["SubmodelElementCollection", "SubmodelElementList", "Entity", "Operation", "AnnotatedRelationshipElement"]
ROOTS = ["Submodel", "SubmodelElementCollection", "SubmodelElementList", "Entity", "Operation",
         "AnnotatedRelationshipElement", "AssetAdministrationShell"]
KID_SETS = {"Submodel": ["submodel_element"], "SubmodelElementCollection": ["value"], "SubmodelElementList": ["value"],
            "Entity": ["statement"], "Operation": ["input_variable", "output_variable", "in_output_variable"],
            "AnnotatedRelationshipElement": ["annotation"]}
NAMES = ["a", "b", "c", "d", "e1", "f_2", "Ab", "aB", "zz"]
SEMS = ["urn:s:1", "urn:s:2", "urn:s:3"]
VTS = ["Int", "String", "Boolean", "Double"]


# ------------------------------------------------------------------------------------------- spec generation

def _val(rng, vt):
    if vt == "Int":
        return rng.choice([0, 1, -7, 123456])
    if vt == "String":
        return rng.choice(["", "x", "häß", " a b "])
    if vt == "Boolean":
        return rng.choice([True, False])
    return rng.choice([0.0, 1.5, -2.25])


def gen_qual(rng, t):
    vt = rng.choice(VTS)
    return {"t": t, "vt": vt, "v": rng.choice([None, _val(rng, vt)]), "kind": rng.choice(["CONCEPT_QUALIFIER", "VALUE_QUALIFIER"]),
            "sem": rng.choice([None] + SEMS), "vid": rng.choice([None, "urn:v:1"])}


def gen_ext(rng, n):
    vt = rng.choice([None] + VTS)
    return {"n": n, "vt": vt, "v": None if vt is None else rng.choice([None, _val(rng, vt)]),
            "sem": rng.choice([None] + SEMS), "refers": rng.sample(["r1", "r2"], rng.randint(0, 2))}


# embedded data specifications: [data specification id, preferred name (en), unit] - content that hangs BELOW an attribute value
EDS_POOL = [None, None, None, ["urn:ds:1", "pn1", None], ["urn:ds:1", "pn2", "m"], ["urn:ds:2", "pn1", None]]


def gen_adm(rng):
    """administration: version, revision and (third component) its own embedded data specifications - the SDK's
    AdministrativeInformation.__eq__ does not look at those, so two administrations that differ only there compare =="""
    return rng.choice([None, ["1", "2"], ["3", None], ["1", "2", ["urn:ds:1", "pn1", None]], ["1", "2", ["urn:ds:1", "pn2", "m"]]])


def gen_common(rng, spec):
    spec["cat"] = rng.choice([None, None, "PARAMETER", "CONSTANT", "VARIABLE"])
    spec["desc"] = rng.choice([None, {"en": "d"}, {"en": "d", "de": "ä"}])
    spec["dn"] = rng.choice([None, None, {"en": "n"}])
    spec["sem"] = rng.choice([None] + SEMS)
    spec["supp"] = rng.sample(SEMS, rng.randint(0, 2)) if spec["sem"] else []
    spec["src"] = rng.choice(["", "", "mock://a"])
    spec["eds"] = rng.choice(EDS_POOL)
    spec["e"] = [gen_ext(rng, n) for n in rng.sample(["ex", "ey", "ez"], rng.choice([0, 0, 1, 2]))]
    if spec["c"] != "AssetAdministrationShell":
        spec["q"] = [gen_qual(rng, t) for t in rng.sample(["qa", "qb", "qc"], rng.choice([0, 0, 1, 2]))]


def gen_leaf_attrs(rng, spec, vt=None):
    c = spec["c"]
    a = spec["a"] = {}
    if c == "Property":
        a["vt"] = vt or rng.choice(VTS)
        a["v"] = rng.choice([None, _val(rng, a["vt"])])
        a["vid"] = rng.choice([None, "urn:v:2"])
    elif c == "MultiLanguageProperty":
        a["v"] = rng.choice([None, {"en": "t"}, {"de": "u", "en": "t"}])
    elif c == "Range":
        a["vt"] = vt or rng.choice(["Int", "Double"])
        a["min"] = rng.choice([None, _val(rng, a["vt"])])
        a["max"] = rng.choice([None, _val(rng, a["vt"])])
    elif c == "File":
        a["ct"] = rng.choice(["text/plain", "application/pdf"])
        a["v"] = rng.choice([None, "/f/a.txt"])
    elif c == "Blob":
        a["ct"] = "application/octet-stream"
        a["v"] = rng.choice([None, "00ff", ""])
    elif c == "ReferenceElement":
        a["v"] = rng.choice([None, "urn:r:1", "urn:r:2"])
    elif c in ("RelationshipElement", "AnnotatedRelationshipElement"):
        a["first"] = rng.choice(["urn:r:1", "urn:r:2"])
        a["second"] = rng.choice(["urn:r:1", "urn:r:3"])
    elif c == "Entity":
        a["et"] = rng.choice(["CO_MANAGED_ENTITY", "SELF_MANAGED_ENTITY"])
        if a["et"] == "SELF_MANAGED_ENTITY":
            a["gid"] = rng.choice(["urn:g:1", None])
            a["sids"] = [["n1", "v1"]] if a["gid"] is None or rng.random() < 0.4 else []
        else:
            a["gid"] = None
            a["sids"] = []
    elif c == "Submodel":
        a["id"] = "urn:sm:1"
        a["kind"] = rng.choice(["INSTANCE", "TEMPLATE"])
        a["adm"] = gen_adm(rng)
    elif c == "AssetAdministrationShell":
        a["id"] = "urn:aas:1"
        a["adm"] = gen_adm(rng)
        a["ak"] = rng.choice(["INSTANCE", "TYPE"])
        a["gid"] = rng.choice(["urn:g:1", "urn:g:2"])
        a["sids"] = rng.choice([[], [["n1", "v1"]]])
        a["at"] = rng.choice([None, "urn:t:1"])
        a["sms"] = rng.sample(["urn:sm:1", "urn:sm:2", "urn:sm:3"], rng.randint(0, 2))
        a["df"] = rng.choice([None, "urn:aas:0"])


def gen_node(rng, cls, depth, idn, in_list=False, vt=None, sem="*") -> Dict[str, Any]:
    spec: Dict[str, Any] = {"c": cls, "id": None if in_list else idn}
    gen_common(rng, spec)
    if sem != "*":           # list children: semantic id dictated by the list
        spec["sem"] = sem
        if sem is None:
            spec["supp"] = []
    gen_leaf_attrs(rng, spec, vt)
    kids = spec["kids"] = {}
    if cls == "SubmodelElementList":
        tv = rng.choice(LEAVES + (CONTAINERS if depth > 0 else []))
        a = spec["a"]
        a["tv"] = tv
        a["vtle"] = rng.choice(["Int", "Double"]) if tv in ("Property", "Range") else rng.choice([None, "Int"])
        a["or"] = rng.choice([True, False])
        lsem = rng.choice([None] + SEMS)
        a["semle"] = rng.choice([None, lsem])
        n = rng.choice([0, 1, 2, 3]) if depth > 0 else rng.choice([0, 1, 2])
        kids["value"] = [gen_node(rng, tv, depth - 1, None, True, a["vtle"] if tv in ("Property", "Range") else None,
                                  rng.choice([None, lsem])) for _ in range(n)]
    elif cls in KID_SETS:
        names = rng.sample(NAMES, rng.choice([0, 1, 2, 3, 4]) if depth > 0 else rng.choice([0, 1]))
        for s in KID_SETS[cls]:
            kids[s] = []
        for nm in names:
            s = rng.choice(KID_SETS[cls])
            pool = DATA_ELEMENTS if cls == "AnnotatedRelationshipElement" else LEAVES + (CONTAINERS if depth > 1 else [])
            kids[s].append(gen_node(rng, rng.choice(pool), depth - 1, nm))
    return spec


# ------------------------------------------------------------------------------------------- building SDK objects

def build(spec, hist=False):
    from basyx.aas import model
    from basyx.aas.model import datatypes as dt

    def ref(s):
        return None if s is None else model.ExternalReference((model.Key(model.KeyTypes.GLOBAL_REFERENCE, s),))

    def mref(s):
        return model.ModelReference((model.Key(model.KeyTypes.SUBMODEL, s),), model.Submodel)

    def tp(n):
        return None if n is None else getattr(dt, n)

    def lang(cls, d):
        return None if d is None else cls(dict(d))

    def qual(q):
        return model.Qualifier(q["t"], tp(q["vt"]), q["v"], ref(q["vid"]), model.QualifierKind[q["kind"]], ref(q["sem"]))

    def ext(e):
        return model.Extension(e["n"], tp(e["vt"]), e["v"], [mref(r) for r in e["refers"]], ref(e["sem"]))

    def eds(e):
        if e is None:
            return ()
        return [model.EmbeddedDataSpecification(ref(e[0]), model.DataSpecificationIEC61360(
            model.PreferredNameTypeIEC61360({"en": e[1]}), unit=e[2]))]

    def adm_of(x):
        if x is None:
            return None
        return model.AdministrativeInformation(version=x[0], revision=x[1], embedded_data_specifications=eds(x[2] if len(x) > 2 else None))

    c = spec["c"]
    a = spec.get("a", {})
    common = dict(embedded_data_specifications=eds(spec.get("eds")), display_name=lang(model.MultiLanguageNameType, spec["dn"]), category=spec["cat"],
                  description=lang(model.MultiLanguageTextType, spec["desc"]), extension=[ext(e) for e in spec["e"]])
    if c != "AssetAdministrationShell":
        common.update(semantic_id=ref(spec["sem"]), supplemental_semantic_id=[ref(s) for s in spec["supp"]],
                      qualifier=[qual(q) for q in spec["q"]])
    kids = {s: [build(k, hist) for k in ks] for s, ks in spec.get("kids", {}).items()}
    i = spec["id"]
    if c == "Property":
        o = model.Property(i, tp(a["vt"]), a["v"], ref(a["vid"]), **common)
    elif c == "MultiLanguageProperty":
        o = model.MultiLanguageProperty(i, lang(model.MultiLanguageTextType, a["v"]), **common)
    elif c == "Range":
        o = model.Range(i, tp(a["vt"]), a["min"], a["max"], **common)
    elif c == "File":
        o = model.File(i, a["ct"], a["v"], **common)
    elif c == "Blob":
        o = model.Blob(i, a["ct"], None if a["v"] is None else bytes.fromhex(a["v"]), **common)
    elif c == "ReferenceElement":
        o = model.ReferenceElement(i, ref(a["v"]), **common)
    elif c == "Capability":
        o = model.Capability(i, **common)
    elif c == "RelationshipElement":
        o = model.RelationshipElement(i, ref(a["first"]), ref(a["second"]), **common)
    elif c == "AnnotatedRelationshipElement":
        o = model.AnnotatedRelationshipElement(i, ref(a["first"]), ref(a["second"]), annotation=kids["annotation"], **common)
    elif c == "SubmodelElementCollection":
        o = model.SubmodelElementCollection(i, kids["value"], **common)
    elif c == "SubmodelElementList":
        if hist and len(kids["value"]) >= 2:
            # the live application object got its items through a history other than appending: the first item was put in
            # front last (same content and order; creation order differs)
            o = model.SubmodelElementList(i, getattr(model, a["tv"]), kids["value"][1:], ref(a["semle"]), tp(a["vtle"]), a["or"], **common)
            o.value.insert(0, kids["value"][0])
        else:
            o = model.SubmodelElementList(i, getattr(model, a["tv"]), kids["value"], ref(a["semle"]), tp(a["vtle"]), a["or"], **common)
    elif c == "Entity":
        o = model.Entity(i, model.EntityType[a["et"]], kids["statement"], a["gid"],
                         [model.SpecificAssetId(n, v) for n, v in a["sids"]], **common)
    elif c == "Operation":
        o = model.Operation(i, kids["input_variable"], kids["output_variable"], kids["in_output_variable"], **common)
    elif c == "Submodel":
        adm = adm_of(a["adm"])
        o = model.Submodel(a["id"], kids["submodel_element"], id_short=i, administration=adm, kind=model.ModellingKind[a["kind"]],
                           **common)
    elif c == "AssetAdministrationShell":
        adm = adm_of(a["adm"])
        ai = model.AssetInformation(model.AssetKind[a["ak"]], a["gid"], [model.SpecificAssetId(n, v) for n, v in a["sids"]], a["at"])
        o = model.AssetAdministrationShell(ai, a["id"], id_short=i, administration=adm, submodel={mref(s) for s in a["sms"]},
                                           derived_from=None if a["df"] is None else model.ModelReference(
                                               (model.Key(model.KeyTypes.ASSET_ADMINISTRATION_SHELL, a["df"]),),
                                               model.AssetAdministrationShell), **common)
    else:
        raise ValueError(c)
    o.source = spec["src"]
    return o


def build_case(case):
    """-> (live, new, holder|None).  Raises if a spec is not constructible (generator retries)."""
    from basyx.aas import model
    live = build(case["live"], case.get("hist", False))
    new = build(case["new"])
    # where the "freshly loaded copy" comes from: built in this process, or handed over by value (another process, a cache)
    if case.get("via") == "pickle":
        import pickle
        new = pickle.loads(pickle.dumps(new))
    elif case.get("via") == "deepcopy":
        new = copy.deepcopy(new)
    holder = None
    h = case.get("holder")
    if h == "Submodel":
        holder = model.Submodel("urn:holder", [live, model.Capability("sibling")])
    elif h == "SubmodelElementList":
        from basyx.aas.model import datatypes as dt
        a = case["live"].get("a", {})
        holder = model.SubmodelElementList("holder", type(live), [live], value_type_list_element=getattr(dt, a["vt"])
                                           if case["live"]["c"] in ("Property", "Range") else None)
    return live, new, holder


# ------------------------------------------------------------------------------------------- edit scripts

def _nodes(spec, path=()):
    yield spec, path
    for s, ks in spec.get("kids", {}).items():
        for k in ks:
            yield from _nodes(k, path + (s,))


def edit(rng, spec, depth) -> List[str]:
    """Apply one random edit to `spec` in place; returns its tags."""
    nodes = list(_nodes(spec))
    node, path = rng.choice(nodes)
    r = rng.random()
    if r >= 0.55 and node["c"] not in KID_SETS:
        conts = [x for x in nodes if x[0]["c"] in KID_SETS]
        if conts:
            node, path = rng.choice(conts)
    nested = len(path) > 0
    tag = []
    c = node["c"]
    if r < 0.2:
        f = rng.choice(["cat", "desc", "dn", "sem", "leaf", "src", "eds", "adm-eds"])
        if f == "eds":
            node["eds"] = rng.choice([x for x in EDS_POOL if x != node.get("eds")])
            tag.append("eds")
        elif f == "adm-eds":
            adm = node.get("a", {}).get("adm")
            if adm is not None:
                # ONLY the data specifications below the administration change: old and new administration compare == in Python
                node["a"]["adm"] = adm[:2] + [rng.choice([x for x in EDS_POOL[2:] if x != (adm[2] if len(adm) > 2 else None)])]
                tag.append("adm-eds-only")
        elif f == "cat":
            node["cat"] = rng.choice([None, "PARAMETER", "CONSTANT", "VARIABLE"])
        elif f == "desc":
            node["desc"] = rng.choice([None, {"en": "changed"}, {"fr": "x"}])
        elif f == "dn":
            node["dn"] = rng.choice([None, {"en": "nn"}])
        elif f == "sem":
            node["sem"] = rng.choice([None] + SEMS)
            node["supp"] = rng.sample(SEMS, rng.randint(0, 2)) if node["sem"] else []
        elif f == "src":
            node["src"] = rng.choice(["", "mock://b"])
        else:
            vt = node.get("a", {}).get("vt") if path and path[-1] == "value" else None
            keep = {k: node["a"][k] for k in ("id", "tv", "vtle", "or", "semle") if k in node.get("a", {})}
            gen_leaf_attrs(rng, node, vt if c in ("Property", "Range") else None)
            node["a"].update(keep)
        tag.append("attr" + ("-nested" if nested else ""))
    elif r < 0.4 and c != "AssetAdministrationShell":
        qs = node["q"]
        k = rng.random()
        if qs and k < 0.5:
            q = rng.choice(qs)
            q.update({kk: vv for kk, vv in gen_qual(rng, q["t"]).items()})
            tag.append("qualifier-value")
        elif qs and k < 0.7:
            qs.remove(rng.choice(qs)); tag.append("qualifier-removed")
        else:
            free = [t for t in ["qa", "qb", "qc", "qd"] if t not in [q["t"] for q in qs]]
            if free:
                qs.insert(rng.randint(0, len(qs)), gen_qual(rng, rng.choice(free))); tag.append("qualifier-added")
    elif r < 0.55:
        es = node["e"]
        k = rng.random()
        if es and k < 0.5:
            e = rng.choice(es)
            e.update(gen_ext(rng, e["n"])); tag.append("extension-value")
        elif es and k < 0.7:
            es.remove(rng.choice(es)); tag.append("extension-removed")
        else:
            free = [t for t in ["ex", "ey", "ez", "ew"] if t not in [e["n"] for e in es]]
            if free:
                es.append(gen_ext(rng, rng.choice(free))); tag.append("extension-added")
    elif c == "SubmodelElementList":
        ks = node["kids"]["value"]
        a = node["a"]
        k = rng.random()
        if ks and k < 0.3:
            rng.shuffle(ks); tag.append("list-reordered")
        elif ks and k < 0.5:
            ks.remove(rng.choice(ks)); tag.append("list-shrunk")
        elif k < 0.8:
            sems = [x["sem"] for x in ks if x["sem"]] + ([a["semle"]] if a["semle"] else [])
            ks.insert(rng.randint(0, len(ks)), gen_node(rng, a["tv"], depth - 1, None, True, a["vtle"] if a["tv"] in ("Property", "Range") else None,
                                                         rng.choice([None] + sems[:1])))
            tag.append("list-grown")
        else:
            s = rng.choice(SEMS)          # change the semantic id of all children consistently
            for x in ks:
                if x["sem"]:
                    x["sem"] = s
            if a["semle"]:
                a["semle"] = s
            tag.append("list-semantic-id")
    elif c in KID_SETS:
        sets = KID_SETS[c]
        allk = [(s, x) for s in sets for x in node["kids"][s]]
        used = [x["id"] for _, x in allk]
        pool = DATA_ELEMENTS if c == "AnnotatedRelationshipElement" else LEAVES + CONTAINERS
        k = rng.random()
        if allk and k < 0.2:
            s, x = rng.choice(allk); node["kids"][s].remove(x); tag.append("child-removed")
        elif allk and k < 0.4:
            s, x = rng.choice(allk)
            free = [n for n in NAMES if n not in used]
            if free:
                x["id"] = rng.choice(free); tag.append("child-renamed")
        elif allk and k < 0.6:
            s, x = rng.choice(allk)
            nc = rng.choice([p for p in pool if p != x["c"]])
            node["kids"][s][node["kids"][s].index(x)] = gen_node(rng, nc, 1, x["id"]); tag.append("child-retyped")
        elif allk and k < 0.7 and len(sets) > 1:
            s, x = rng.choice(allk)
            s2 = rng.choice([t for t in sets if t != s])
            node["kids"][s].remove(x); node["kids"][s2].append(x)
            tag.append("child-moved-earlier" if sets.index(s2) < sets.index(s) else "child-moved-later")
        else:
            free = [n for n in NAMES if n not in used]
            if free:
                s = rng.choice(sets)
                node["kids"][s].insert(rng.randint(0, len(node["kids"][s])), gen_node(rng, rng.choice(pool), max(depth - 1, 0), rng.choice(free)))
                tag.append("child-added")
    if tag and nested and not tag[0].endswith("-nested"):
        tag[0] += "@nested"
    return tag


def gen_case(rng: random.Random) -> Dict[str, Any]:
    while True:
        rootc = rng.choice(ROOTS)
        depth = rng.choice([1, 2, 2, 3])
        holder = None
        if rootc not in ("Submodel", "AssetAdministrationShell") and rng.random() < 0.3:
            holder = rng.choice(["Submodel", "SubmodelElementList"])
        in_list = holder == "SubmodelElementList"
        live = gen_node(rng, rootc, depth, "root", in_list)
        tags: List[str] = []
        if rng.random() < 0.15:
            new = gen_node(rng, rootc, depth, "root", in_list)
            if in_list and rootc in ("Property", "Range"):
                new["a"]["vt"] = live["a"]["vt"]
            tags = ["unrelated"]
        else:
            new = copy.deepcopy(live)
            for _ in range(rng.choice([0, 1, 1, 2, 3, 5])):
                tags += edit(rng, new, depth)
            if not in_list and rootc not in ("Submodel", "AssetAdministrationShell") and rng.random() < 0.15:
                new["id"] = rng.choice(["root2", "sibling"]) if holder else "root2"
                tags.append("root-renamed")
        case = {"live": live, "new": new, "us": rng.random() < 0.4, "holder": holder, "tags": tags, "hist": rng.random() < 0.35,
                "via": rng.choice(["build", "build", "build", "pickle", "pickle", "deepcopy"])}
        try:
            build_case(case)
        except Exception:
            continue
        return case


# ------------------------------------------------------------------------------------------- value canonicalisation

def cval(v) -> Any:
    """Canonical JSON-able content of an attribute value (never via SDK serialisers)."""
    import enum
    from basyx.aas import model
    if v is None:
        return None
    if isinstance(v, bool):
        return ["bool", v]
    if isinstance(v, enum.Enum):
        return ["enum", type(v).__name__, v.name]
    if isinstance(v, type):
        return ["type", v.__name__]
    if isinstance(v, (int, float, str)):
        return [type(v).__name__, repr(v)]
    if isinstance(v, (bytes, bytearray)):
        return ["bytes", bytes(v).hex()]
    if isinstance(v, model.Reference):
        return ["ref", type(v).__name__, [[k.type.name, k.value] for k in v.key], cval(v.referred_semantic_id),
                getattr(getattr(v, "type", None), "__name__", None)]
    if isinstance(v, model.LangStringSet):
        return ["lang", type(v).__name__, sorted([k, v[k]] for k in v)]
    if isinstance(v, model.ConstrainedList) or isinstance(v, (list, tuple)):
        return ["list", [cval(x) for x in v]]
    if isinstance(v, (set, frozenset)):
        return ["set", sorted((cval(x) for x in v), key=lambda x: json.dumps(x, sort_keys=True))]
    if isinstance(v, dict):
        return ["dict", sorted(([cval(k), cval(x)] for k, x in v.items()), key=lambda x: json.dumps(x))]
    if isinstance(v, model.SpecificAssetId):
        return ["said", v.name, v.value, cval(v.external_subject_id), cval(v.semantic_id), cval(v.supplemental_semantic_id)]
    if isinstance(v, model.AdministrativeInformation):
        return ["adm", v.version, v.revision, cval(v.creator), v.template_id, cval(v.embedded_data_specifications)]
    if isinstance(v, model.AssetInformation):
        return ["ai", cval(v.asset_kind), v.global_asset_id, cval(v.specific_asset_id), v.asset_type, cval(v.default_thumbnail)]
    if isinstance(v, model.Resource):
        return ["res", v.path, v.content_type]
    if isinstance(v, model.EmbeddedDataSpecification):
        return ["eds", cval(v.data_specification), cval(v.data_specification_content)]
    if isinstance(v, model.DataSpecificationIEC61360):
        return ["iec61360"] + [cval(getattr(v, a)) for a in ("preferred_name", "data_type", "definition", "short_name", "unit", "unit_id",
                                                              "source_of_definition", "symbol", "value_format", "value_list", "value", "level_types")]
    return [type(v).__name__, str(v)]


def is_mutable(v) -> bool:
    from basyx.aas import model
    return isinstance(v, (list, set, dict, bytearray, model.ConstrainedList, model.LangStringSet, model.AdministrativeInformation,
                          model.AssetInformation, model.Resource))


GEN_PREFIX = "generated_submodel_list_hack_"


class Reg:
    """identity registry: Python object -> small number (objects are kept alive, so id() is never recycled)"""
    def __init__(self):
        self.objs: Dict[int, int] = {}
        self.keep: List[Any] = []
        self.vals: Dict[int, int] = {}
        self.gen: Dict[str, int] = {}

    def uid(self, o) -> int:
        if id(o) not in self.objs:
            self.objs[id(o)] = len(self.objs) + 1
            self.keep.append(o)
        return self.objs[id(o)]

    def ref(self, v) -> int:
        if not is_mutable(v):
            return 0
        if id(v) not in self.vals:
            self.vals[id(v)] = len(self.vals) + 1
            self.keep.append(v)
        return self.vals[id(v)]


KEYVAR = {"r": "_id_short", "q": "_type", "e": "_name"}


def kind_of(o) -> str:
    from basyx.aas import model
    return "r" if isinstance(o, model.Referable) else "q" if isinstance(o, model.Qualifier) else "e" if isinstance(o, model.Extension) else "o"


def jkey(reg: Reg, k) -> Any:
    if k is None:
        return None
    if isinstance(k, str) and k.startswith(GEN_PREFIX):
        return ["g", reg.gen[k]] if k in reg.gen else ["s", k]
    return ["s", str(k)]


def scan_gen(reg: Reg, o):
    """register generated id_shorts by the object that currently carries them"""
    from basyx.aas import model
    ids = vars(o).get("_id_short")
    if isinstance(ids, str) and ids.startswith(GEN_PREFIX):
        reg.gen[ids] = reg.uid(o)
    for var in vars(o).values():
        if isinstance(var, model.NamespaceSet):
            for ch in var:
                scan_gen(reg, ch)


def extract(reg: Reg, o) -> List[Any]:
    """vars()-level state of an object tree in the model's node format"""
    from basyx.aas import model
    kind = kind_of(o)
    plain, sets = [], []
    for name, var in vars(o).items():
        if name in ("parent", "namespace_element_sets", "_uuid_seq") or name == KEYVAR.get(kind):
            continue      # _uuid_seq: SubmodelElementList's private counter for generated id_shorts (no metamodel attribute)
        if isinstance(var, model.NamespaceSet):
            attr, (backend, _cs) = next(iter(var._backend.items()))
            inv = {id(ch): k for k, ch in backend.items()}
            order = list(var)
            if len(var._backend) != 1 or sorted(map(id, order)) != sorted(inv):
                raise AssertionError("backend/order mismatch in " + name)
            sets.append([name, attr, var._item_id_set_hook is not None,
                         [[jkey(reg, inv[id(ch)]), extract(reg, ch)] for ch in order]])
        else:
            owner = None
            if isinstance(var, model.ConstrainedList):
                for h in (var._item_add_hook, var._item_set_hook, var._item_del_hook):
                    if h is not None and getattr(h, "__self__", None) is not None:
                        owner = reg.uid(h.__self__)
            plain.append([name, reg.ref(var), owner, json.dumps(cval(var), sort_keys=True)])
    par = getattr(o, "parent", None)
    return [reg.uid(o), type(o).__name__, kind, None if par is None else reg.uid(par),
            jkey(reg, vars(o).get(KEYVAR.get(kind, ""))), plain, sets]


def normalise(node, strip_plain=False):
    """unordered sets sorted by key (dict order is not part of the metamodel)"""
    u, c, k, p, key, plain, sets = node
    out_sets = []
    for name, attr, is_list, items in sets:
        its = [[kk, normalise(n, strip_plain)] for kk, n in items]
        if not is_list:
            its.sort(key=lambda x: json.dumps(x[0]))
        out_sets.append([name, attr, is_list, its])
    return [u, c, k, p, key, [] if strip_plain else plain, out_sets]


def all_nodes(node):
    yield node
    for s in node[6]:
        for _, n in s[3]:
            yield from all_nodes(n)


def exc_json(e) -> List[Any]:
    from basyx.aas import model
    if isinstance(e, model.AASConstraintViolation):
        return ["raise", "AASCV", e.constraint_id]
    return ["raise", type(e).__name__]


def impl_run(case) -> Tuple[List[Any], Any, Dict[str, Any]]:
    """-> (model line, implementation view, info)"""
    live, new, holder = build_case(case)
    reg = Reg()
    if holder is not None:
        reg.uid(holder)
    scan_gen(reg, live)
    scan_gen(reg, new)
    pre_live = extract(reg, live)
    pre_new = extract(reg, new)
    shapes = {}
    for n in list(all_nodes(pre_live)) + list(all_nodes(pre_new)):
        sh = ([p[0] for p in n[5]], [s[:3] for s in n[6]])
        if shapes.setdefault(n[1], sh) != sh:
            raise AssertionError("objects of class %s differ in vars() names" % n[1])
    line = ["update", pre_live, pre_new, case["us"]]
    err = None
    try:
        live.update_from(new, case["us"])
    except Exception as e:   # noqa
        err = exc_json(e)
    scan_gen(reg, live)
    post = extract(reg, live)
    reach = {n[0] for n in all_nodes(post)}
    det = []
    for n in all_nodes(pre_live):
        if n[0] not in reach:
            o = reg.keep[[i for i, x in enumerate(reg.keep) if reg.objs.get(id(x)) == n[0]][0]]
            par = getattr(o, "parent", None)
            if par is not None and reg.uid(par) in reach | {x[0] for x in det}:
                continue      # still attached to a detached/reachable object: reported through that object
            if not any(n[0] in {m[0] for m in all_nodes(d)} for d in det):
                det.append(extract(reg, o))
    hkey = None
    if holder is not None:
        hs = holder.submodel_element if hasattr(holder, "submodel_element") else holder.value
        for k, ch in next(iter(hs._backend.values()))[0].items():
            if ch is live:
                hkey = jkey(reg, k)
    else:
        hkey = pre_live[4]
    view = [err, normalise(post, err is not None), sorted((normalise(d, err is not None) for d in det), key=lambda d: d[0]), hkey]
    return line, view, {"pre_live": pre_live, "pre_new": pre_new}


def norm_model(out):
    err, live, det, hkey = out
    top = {d[0] for d in det}
    # the model lists every removed object; nested removed objects of a removed object do not occur (removal is not recursive)
    return [err, normalise(live, err is not None), sorted((normalise(d, err is not None) for d in det), key=lambda d: d[0]), hkey]


def nontrivial(case) -> bool:
    return any("nested" in t or "qualifier" in t or "extension" in t or t.startswith("child") or t.startswith("list") for t in case["tags"])


def correspond(ctx: C.Ctx, cov: C.Coverage) -> List[C.Disagreement]:
    rng = random.Random(f"C12:{ctx.seed}")
    n = ctx.budget(400, 12000)
    cases = [gen_case(rng) for _ in range(n)] + [copy.deepcopy(c) for c in DIRECTED]
    cov.rule = ("a case is a pair of SDK trees (live, new) + update_source flag + optional holder; new = seeded edit script on a deep copy "
                "of live's spec (attribute / qualifier / extension / child add-remove-rename-retype-move / list reorder-resize-semantic "
                "id) or an unrelated tree of the same root class; non-trivial = the script changes a nested child or a qualifier/"
                "extension or the child structure; distinct = by case hash")
    lines, views, idx = [], [], []
    # vars() order that makes the unmodelled list add hook unobservable for valid copies
    from basyx.aas import model
    from basyx.aas.model import datatypes as dt
    names = list(vars(model.SubmodelElementList("l", model.Property, value_type_list_element=dt.Int)))
    dis: List[C.Disagreement] = []
    if not all(names.index("_value") > names.index(x) for x in ("_type_value_list_element", "_semantic_id_list_element",
                                                               "_value_type_list_element")):
        dis.append(C.Disagreement("vars() order of SubmodelElementList", None, "list attributes before _value", names))
    for ci, case in enumerate(cases):
        try:
            line, view, _ = impl_run(case)
        except AssertionError as e:
            dis.append(C.Disagreement("harness precondition: " + str(e), case, None, None))
            continue
        lines.append(["reset"]); views.append(["reset"]); idx.append(ci)
        lines.append(line); views.append(view); idx.append(ci)
        cov.evaluations += 1
        for t in case["tags"] or ["identical"]:
            cov.hit(t)
        cov.hit("root:" + case["live"]["c"])
        cov.hit("outcome:" + ("ok" if view[0] is None else "raise:" + ":".join(map(str, view[0][1:]))))
        if case["holder"]:
            cov.hit("holder:" + case["holder"])
        if nontrivial(case):
            cov.nontrivial.add(C.sha(case))
    cov.samples = [{"tags": c["tags"], "root": c["live"]["c"], "holder": c["holder"], "us": c["us"]} for c in cases[:6]]
    out = C.run_model("C12", lines)
    if len(out) != len(views):
        return dis + [C.Disagreement("driver output length", None, len(out), len(views))]
    for k, (m, v) in enumerate(zip(out, views)):
        if v == ["reset"]:
            continue
        mm = norm_model(m)
        if mm != v:
            where = "error" if mm[0] != v[0] else "live tree" if mm[1] != v[1] else "detached" if mm[2] != v[2] else "holder key"
            dis.append(C.Disagreement(f"update_from: {where} (tags {cases[idx[k]]['tags']})", cases[idx[k]], mm[0] if where == "error" else _first_diff(mm, v),
                                      v[0] if where == "error" else _first_diff(v, mm)))
            if len(dis) >= 5:
                break
    return dis


def _first_diff(a, b, path=""):
    if type(a) is not type(b) or not isinstance(a, list):
        return [path, a] if a != b else None
    if len(a) != len(b):
        return [path + "/len", len(a), a if len(json.dumps(a)) < 300 else "…"]
    for i, (x, y) in enumerate(zip(a, b)):
        d = _first_diff(x, y, f"{path}/{i}")
        if d is not None:
            return d
    return None


# ------------------------------------------------------------------------------------------- oracle (independent of the model)

PUB_COMMON = ["display_name", "category", "description"]
PUB = {
    "Property": ["value_type", "value", "value_id"], "MultiLanguageProperty": ["value", "value_id"],
    "Range": ["value_type", "min", "max"], "File": ["content_type", "value"], "Blob": ["content_type", "value"],
    "ReferenceElement": ["value"], "Capability": [], "RelationshipElement": ["first", "second"],
    "AnnotatedRelationshipElement": ["first", "second"], "SubmodelElementCollection": [],
    "SubmodelElementList": ["type_value_list_element", "value_type_list_element", "semantic_id_list_element", "order_relevant"],
    "Entity": ["entity_type", "global_asset_id", "specific_asset_id"], "Operation": [],
    "Submodel": ["id", "kind", "administration"],
    "AssetAdministrationShell": ["id", "administration", "asset_information", "derived_from", "submodel"],
}
PUB_Q = ["type", "value_type", "value", "value_id", "kind", "semantic_id", "supplemental_semantic_id"]
PUB_E = ["name", "value_type", "value", "refers_to", "semantic_id", "supplemental_semantic_id"]


def pub_canon(o, in_list=False) -> Dict[str, Any]:
    """Every metamodel attribute at every depth, read through public attributes only."""
    c = type(o).__name__
    d: Dict[str, Any] = {"class": c}
    if not in_list:
        d["id_short"] = o.id_short
    for a in PUB_COMMON + PUB[c]:
        d[a] = cval(getattr(o, a))
    if c != "AssetAdministrationShell":
        d["semantic_id"] = cval(o.semantic_id)
        d["supplemental_semantic_id"] = cval(o.supplemental_semantic_id)
        d["qualifier"] = {q.type: {a: cval(getattr(q, a)) for a in PUB_Q} for q in o.qualifier}
    d["embedded_data_specifications"] = cval(o.embedded_data_specifications)
    d["extension"] = {e.name: {a: cval(getattr(e, a)) for a in PUB_E} for e in o.extension}
    for s in KID_SETS.get(c, []):
        ns = getattr(o, s)
        if c == "SubmodelElementList":
            d[s] = [pub_canon(ch, True) for ch in ns]
        else:
            d[s] = {ch.id_short: pub_canon(ch) for ch in ns}
    return d


def canon_diff(a, b, path="") -> Optional[str]:
    """class/attribute name of the first difference (a stable signature component), or None"""
    if isinstance(a, dict) and isinstance(b, dict) and "class" in a and "class" in b:
        if a["class"] != b["class"]:
            return "class"
        for k in a:
            if k not in b:
                return a["class"] + "." + k
            if k in ("qualifier", "extension"):
                if sorted(a[k]) != sorted(b[k]):
                    return a["class"] + "." + k + ":members"
                for n in a[k]:
                    for f in a[k][n]:
                        if a[k][n][f] != b[k][n][f]:
                            return ("Qualifier." if k == "qualifier" else "Extension.") + f
            elif isinstance(a[k], dict):
                if sorted(map(str, a[k])) != sorted(map(str, b[k])):
                    return a["class"] + "." + k + ":members"
                for n in a[k]:
                    d = canon_diff(a[k][n], b[k][n])
                    if d:
                        return d
            elif isinstance(a[k], list) and a[k] and isinstance(a[k][0], dict) or isinstance(b.get(k), list) and b[k] and isinstance(b[k][0], dict):
                if len(a[k]) != len(b[k]):
                    return a["class"] + "." + k + ":length"
                for x, y in zip(a[k], b[k]):
                    d = canon_diff(x, y)
                    if d:
                        return d
            elif a[k] != b[k]:
                return a["class"] + "." + k
        return None
    return None if a == b else "value"


def id_map(o, path=(), in_list=False, out=None) -> Dict[Tuple, Any]:
    """path (set name, identifying attribute)… -> object, for Referables outside lists, qualifiers and extensions"""
    out = {} if out is None else out
    out[path] = o
    c = type(o).__name__
    if hasattr(o, "qualifier"):
        for q in o.qualifier:
            out[path + (("qualifier", q.type),)] = q
    for e in o.extension:
        out[path + (("extension", e.name),)] = e
    for s in KID_SETS.get(c, []):
        if c == "SubmodelElementList":
            continue      # generated id_shorts: children of a list have no identifying attribute (neutral zone)
        for ch in getattr(o, s):
            id_map(ch, path + ((s, ch.id_short),), False, out)
    return out


def moved_earlier(live_spec, new_spec) -> bool:
    """is there, in a pair of nodes matched by path and class, a child id_short that `new` holds in a set that comes before
    the set in which `live` holds it?  (computed from the inputs only)"""
    if live_spec["c"] != new_spec["c"]:
        return False
    sets = KID_SETS.get(live_spec["c"], [])
    if live_spec["c"] == "SubmodelElementList":
        return False
    for i, s in enumerate(sets):
        for later in sets[i + 1:]:
            if {k["id"] for k in new_spec["kids"][s]} & {k["id"] for k in live_spec["kids"][later]}:
                return True
    for s in sets:
        for k in new_spec["kids"][s]:
            for l in live_spec["kids"][s]:
                if l["id"] == k["id"] and moved_earlier(l, k):
                    return True
    return False


def ns_consistent(o, path="") -> Optional[str]:
    """C01's invariant, locally, through the public API: key uniqueness, lookup by current attribute, parent ⇔ membership"""
    for ns in o.namespace_element_sets:
        attr = ns.get_attribute_name_list()[0]
        items = list(ns)
        if len(items) != len(ns) or len({id(x) for x in items}) != len(items):
            return "iteration"
        keys = [getattr(x, attr) for x in items]
        if len(set(keys)) != len(keys):
            return "duplicate-key"
        for x in items:
            if x.parent is not o:
                return "parent-of-member"
            if x not in ns:
                return "membership"
            try:
                if ns.get_object_by_attribute(attr, getattr(x, attr)) is not x:
                    return "lookup-by-attribute"
            except KeyError:
                return "lookup-by-attribute"
            if attr == "id_short":
                r = ns_consistent(x)
                if r:
                    return r
    return None


def check_case(case, probes=True) -> List[C.Failing]:
    """The property, stated over the implementation's public API."""
    from basyx.aas import model
    try:
        live, new, holder = build_case(case)
    except Exception:
        return []
    out: List[C.Failing] = []
    small = {"live": case["live"], "new": case["new"], "us": case["us"], "holder": case.get("holder"), "tags": case.get("tags", []),
             "hist": case.get("hist", False), "via": case.get("via", "build")}

    def fail(sig, what, obs=None, req=None):
        out.append(C.Failing(sig, what, small, obs, req))

    want = pub_canon(new, case.get("holder") == "SubmodelElementList")
    new_ids = id_map(new)
    live_ids = id_map(live)
    pre_source, new_source, pre_parent = live.source, new.source, live.parent
    pre_new_classes = {p: type(o) for p, o in new_ids.items()}
    try:
        live.update_from(new, case["us"])
    except Exception as e:   # noqa
        ej = exc_json(e)
        if ej == ["raise", "AASCV", 22] and moved_earlier(case["live"], case["new"]):
            fail(SIG_MOVED, "update_from raises AASd-022 when a child moved to a set that is merged before the set it leaves "
                            "(Operation variables); the live tree is left half-updated", ej, "update succeeds")
        else:
            fail("raise:" + ":".join(map(str, ej[1:])), f"update_from raised {e!r}", ej, "update succeeds")
        return out
    in_list = case.get("holder") == "SubmodelElementList"
    got = pub_canon(live, in_list)
    d = canon_diff(want, got)
    if d:
        fail("unequal:" + d, f"after update_from the live tree differs from the copy at {d}", None, None)
    # identity of survivors
    post_ids = id_map(live)
    for p, o in live_ids.items():
        survives = p in pre_new_classes and all(
            (p[:i] in pre_new_classes and type(live_ids[p[:i]]) is pre_new_classes[p[:i]]) for i in range(len(p) + 1))
        if survives:
            if post_ids.get(p) is not o:
                fail("identity:" + type(o).__name__, f"object at {p} was replaced although it survives", None, None)
                break
        elif len(p) and getattr(o, "parent", None) is not None and all(
                (p[:i] in pre_new_classes and type(live_ids[p[:i]]) is pre_new_classes[p[:i]]) for i in range(len(p))):
            # vanished (or retyped) child of a surviving namespace
            fail("detached:parent-kept:" + type(o).__name__, f"removed object at {p} still has a parent", None, None)
            break
    r = ns_consistent(live)
    if r:
        fail("inv:" + r, "namespace of the live tree inconsistent after update_from: " + r)
    if live.parent is not pre_parent:
        fail("inv:root-parent-changed", "the root's parent changed")
    if holder is not None:
        hr = ns_consistent(holder)
        if hr:
            if in_list:
                fail(SIG_ROOT_LISTITEM, "update_from on an element of a SubmodelElementList overwrites its generated id_short with the "
                                        "copy's (None): the list can no longer find/remove the element", hr)
            elif live_ids[()].id_short != case["live"]["id"] or case["new"]["id"] != case["live"]["id"]:
                fail(SIG_ROOT_RENAMED, "update_from on a contained element whose id_short changed leaves the parent's index under "
                                       "the old id_short", hr)
            else:
                fail("inv:holder:" + hr, "holder namespace inconsistent after update_from")
    exp_source = new_source if case["us"] else pre_source
    if live.source != exp_source:
        fail("source:" + ("not-updated" if case["us"] else "changed-unasked"), f"root source {live.source!r}, expected {exp_source!r}")
    if probes and not out:
        out += alias_probes(live, new, small)
    return out


def alias_probes(live, new, small) -> List[C.Failing]:
    """Separate findings (not part of the equality judgement): what the live tree shares with the discarded copy."""
    from basyx.aas import model
    out = []
    ref = model.ExternalReference((model.Key(model.KeyTypes.GLOBAL_REFERENCE, "urn:probe"),))
    # (1) hooks: mutate only the LIVE object; a fresh equal object would reject the second step
    if hasattr(live, "semantic_id") and live.semantic_id is not None and len(live.supplemental_semantic_id) == 0 \
            and getattr(new, "semantic_id", None) is not None:
        try:
            live.semantic_id = None
            try:
                live.supplemental_semantic_id.append(ref)
                out.append(C.Failing(SIG_ALIAS_HOOKS, "after update_from the live object's supplemental_semantic_id list carries the hooks "
                                                      "of the discarded copy: with semantic_id=None a supplemental id is accepted (AASd-118)", small))
                live.supplemental_semantic_id.clear()
            except model.AASConstraintViolation:
                pass
        except Exception:
            pass
    # (2) shared mutable value: a later mutation of the discarded copy shows in the live tree
    if not out and isinstance(getattr(new, "description", None), model.LangStringSet):
        try:
            new.description["en"] = "mutated-after-update"
            if live.description is not None and live.description.get("en") == "mutated-after-update":
                out.append(C.Failing(SIG_ALIAS_MUTABLE, "after update_from, live.description is the copy's object: mutating the discarded "
                                                        "copy changes the live tree", small))
        except Exception:
            pass
    return out


def oracle(ctx: C.Ctx, cov: C.Coverage) -> List[C.Failing]:
    rng = random.Random(f"C12:{ctx.seed}")
    n = ctx.budget(400, 12000)
    cases = [gen_case(rng) for _ in range(n)] + [copy.deepcopy(c) for c in DIRECTED]
    out, sigs = [], set()
    for case in cases:
        for f in check_case(case):
            if f.sig not in sigs:
                sigs.add(f.sig)
                out.append(f)
    cov.extra["oracle_cases"] = len(cases)
    cov.extra["neutral_zones"] = ["iteration order of unordered NamespaceSets", "identity of SubmodelElementList children (generated id_shorts)",
                                  "source of nested children (always copied)", "state of the discarded copy"]
    return out


def search(ctx: C.Ctx, disagreements, broken) -> List[C.Failing]:
    out = []
    for d in disagreements:
        if isinstance(d.case, dict) and "live" in d.case:
            out += check_case(d.case)
    if out:
        return out
    big = C.Ctx(ctx.prop, "thorough", ctx.seed + 1, random.Random(), ctx.t0, ctx.jobs)
    return oracle(big, C.Coverage())


def replay(case) -> Optional[C.Failing]:
    want = case.get("expect_sig")
    fs = check_case(case)
    if want:
        for f in fs:
            if f.sig == want:
                return f
    return fs[0] if fs else None


# ------------------------------------------------------------------------------------------- directed cases

def _leaf(c, i, **a):
    return {"c": c, "id": i, "cat": None, "desc": None, "dn": None, "sem": None, "supp": [], "src": "", "e": [], "q": [], "a": a,
            "kids": {}}


def _op(**kids):
    d = _leaf("Operation", "root")
    d["kids"] = {"input_variable": [], "output_variable": [], "in_output_variable": []}
    d["kids"].update(kids)
    return d


P = lambda i, v=1: _leaf("Property", i, vt="Int", v=v, vid=None)   # noqa
DIRECTED = [
    {"live": _op(output_variable=[P("v")]), "new": _op(input_variable=[P("v")]), "us": False, "holder": None, "tags": ["child-moved-earlier"]},
    {"live": _op(input_variable=[P("v")]), "new": _op(output_variable=[P("v")]), "us": False, "holder": None, "tags": ["child-moved-later"]},
    {"live": P("root"), "new": P("root2", 2), "us": False, "holder": "Submodel", "tags": ["root-renamed"]},
    {"live": P(None), "new": P(None, 2), "us": True, "holder": "SubmodelElementList", "tags": ["attr"]},
    {"live": dict(_leaf("SubmodelElementCollection", "root"), kids={"value": [dict(P("x"), q=[{"t": "qa", "vt": "Int", "v": 0, "kind": "CONCEPT_QUALIFIER", "sem": None, "vid": None}])]}),
     "new": dict(_leaf("SubmodelElementCollection", "root"), kids={"value": [dict(P("x"), q=[{"t": "qa", "vt": "Int", "v": 5, "kind": "VALUE_QUALIFIER", "sem": "urn:s:1", "vid": None}])]}),
     "us": False, "holder": None, "tags": ["qualifier-value@nested"]},
]


def _retypes():
    """Directed: a surviving idShort changes its class, for EVERY ordered pair of element classes (sub- and superclasses of
    each other included), directly below the root and one level deeper."""
    rng = random.Random("C12:retype")
    out = []
    pool = LEAVES + CONTAINERS
    for c1 in pool:
        for c2 in pool:
            if c1 == c2:
                continue
            for nested in (False, True):
                a, b = gen_node(rng, c1, 1, "x"), gen_node(rng, c2, 1, "x")
                def wrap(k):
                    inner = dict(_leaf("SubmodelElementCollection", "mid"), kids={"value": [k]}) if nested else k
                    return dict(_leaf("SubmodelElementCollection", "root"), kids={"value": [inner]})
                case = {"live": wrap(a), "new": wrap(b), "us": False, "holder": None,
                        "tags": ["child-retyped" + ("@nested" if nested else "")]}
                try:
                    build_case(copy.deepcopy(case))
                except Exception:
                    continue
                out.append(case)
    return out


DIRECTED += _retypes()


def _sm(adm, eds=None, kids=()):
    d = _leaf("Submodel", "root", id="urn:sm:1", kind="INSTANCE", adm=adm)
    d["eds"] = eds
    d["kids"] = {"submodel_element": list(kids)}
    return d


# directed: the copy differs from the live object ONLY in content that hangs below an attribute value whose Python `==` does
# not look at it (the data specifications of an administration), resp. only in a node's own data specifications
DIRECTED += [
    {"live": _sm(["1", "2", ["urn:ds:1", "pn1", None]]), "new": _sm(["1", "2", ["urn:ds:1", "pn2", "m"]]), "us": False, "holder": None, "tags": ["adm-eds-only"]},
    {"live": _sm(["1", "2"]), "new": _sm(["1", "2", ["urn:ds:1", "pn1", None]]), "us": False, "holder": None, "tags": ["adm-eds-only"]},
    {"live": _sm(["1", "2", ["urn:ds:1", "pn1", None]]), "new": _sm(["1", "2"]), "us": True, "holder": None, "tags": ["adm-eds-only"]},
    {"live": _sm(None, ["urn:ds:1", "pn1", None], [dict(P("x"), eds=["urn:ds:1", "pn1", None])]),
     "new": _sm(None, ["urn:ds:1", "pn2", None], [dict(P("x"), eds=["urn:ds:2", "pn1", None])]), "us": False, "holder": None, "tags": ["eds"]},
]
