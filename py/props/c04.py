"""C04 — XML round trip: translator (T-gen) + generic codec model (T-corr) + round-trip oracle on the implementation."""
from __future__ import annotations

import io
import json
import os
import random
import re
from typing import Any, List, Optional

from vf import common as C
from props import c03

ID = "C04"
LEAN_MODULE = "Basyx.Props.C04"
LEVEL = "proof"
MANIFEST = {
    "text": "Lean theorem for values of ANY depth/width: strict reading of what the XML writer produced returns the value (generic "
            "codec theorem), given the kernel-decided obligation c04_tables_wf over the member table REGENERATED from "
            "xml_serialization.py / xml_deserialization.py on every run (guards lossless, reader finds every child the writer emits, "
            "empty-preserving text helper wherever the domain contains '', item tags agree, strip flags); plus decide-obligations "
            "that the reader's tag dispatch inverts the writer's tags, that every class reaches its own serialiser through "
            "object_to_xml_element's isinstance chain and its constructor through read_aas_xml_element. Tie: differential run of "
            "writer output (after a real serialise/parse cycle through lxml) and strict reader result vs. the model."
            " Also regenerated and proved: the store-level sorting of the XML writer is an isinstance chain, so instances of application-defined subclasses are sorted like their metamodel class (c04_class_dispatch, c04_subclass_instances_sorted_alike).",
    "note": "lxml/libxml2 parse∘serialise modelled as identity on leaf text except '' ≡ no text (assumption, re-checked on stress pools "
            "every run); leaf lexical forms are C06's; translator + spec table trusted, validated by the tie",
    "technique": "Lean 4 proof: generic codec round-trip theorem + kernel-decided well-formedness of tables regenerated from source; "
                 "differential correspondence; round-trip oracle",
}
ASSUMPTIONS = [
    "lxml (remove_blank_text, remove_comments) keeps leaf text unchanged incl. whitespace-only text, CR (as character reference), LF, TAB, "
    "'<', '&', ']]>' and astral characters; an empty text is read back as None — exercised by the stress pools, not proved",
    "leaf tokens: xsd_repr/from_xsd/base64 are property C06",
    "spec-side metamodel table py/vf/meta.py and the translator py/translate/xml_tables.py",
]

GEN_JSON = os.path.join(C.LEAN_DIR, "Basyx", "Gen", "xml_table.json")
GEN_LEAN = os.path.join(C.LEAN_DIR, "Basyx", "Gen", "XmlTable.lean")
SNAKE = re.compile(r"(?<!^)(?=[A-Z])")


def translate(ctx: C.Ctx) -> List[str]:
    from translate import xml_tables as X
    data = X.build(C.REPO)
    c03.write_if_changed(GEN_LEAN, X.emit_lean(data))
    c03.write_if_changed(GEN_JSON, json.dumps(data, indent=1))
    return [f"unrecognised source construct: {u}" for u in data["unrecognised"]] + [f"table problem: {p}" for p in data["problems"]] \
        + c03.translate_dispatch(ctx)


def constructable(obj):
    from basyx.aas.adapter.xml import XMLConstructables
    from vf import meta
    name = SNAKE.sub("_", meta.class_name(obj)).upper().replace("I_E_C61360", "IEC61360")
    return getattr(XMLConstructables, name)


def xml_bytes(obj) -> bytes:
    from lxml import etree
    from basyx.aas.adapter.xml import xml_serialization
    from basyx.aas.adapter import _generic
    el = xml_serialization.object_to_xml_element(obj)
    # single elements carry their own namespace declaration (as write_aas_xml_element does)
    return etree.tostring(el, encoding="UTF-8", xml_declaration=True)


def gen_objects(seed, n, tier, falsy_bias=0.35, stress=True):
    out = []
    zoo, zstats = _make(seed, -1, 3, falsy_bias, stress)
    out.append((-1, zoo, zstats))          # the deterministic zoo of leaf values (py/vf/gen.py): on every run
    for i in range(n):
        obj, stats = _make(seed, i, 3 if tier == "quick" else 4, falsy_bias, stress)
        out.append((i, obj, stats))
    return out


def _make(seed, i, depth, falsy_bias, stress=True):
    from vf import gen, meta
    g = gen.Gen(random.Random(f"C04obj:{seed}:{i}"), max_depth=depth, falsy_bias=falsy_bias, stress=stress)
    if i == -1:
        return g.zoo_submodel(), g.stats
    kind = i % 5
    if kind == 0:
        obj = g.submodel()
    elif kind == 1:
        obj = g.shell()
    elif kind == 2:
        obj = g.concept_description()
    else:
        classes = meta.SUBMODEL_ELEMENT_CLASSES
        obj = g.element(1, classes[(i // 5 * 2 + kind) % len(classes)])
    return obj, g.stats


def regen(case):
    return _make(case["seed"], case["index"], case.get("depth", 3), case.get("falsy_bias", 0.35), case.get("stress", True))[0]


def correspond(ctx: C.Ctx, cov: C.Coverage) -> List[C.Disagreement]:
    c03._quiet()
    from lxml import etree
    from basyx.aas.adapter.xml import read_aas_xml_element
    from vf import codec, meta
    T = codec.load_table(GEN_JSON)
    n = ctx.budget(150, 4000)
    objs = gen_objects(ctx.seed, n, ctx.tier)
    cov.rule = ("generator as C03 plus XML lexical stress strings (leading/trailing/only whitespace, CR, LF, TAB, '<', '&', ']]>', astral); "
                "per object: writer output after serialise+parse vs model enc; strict single-element reader vs model dec. "
                "non-trivial = object has >=1 falsy leaf or depth>=2 or a stress string; distinct = by canonical value")
    poly = ["poly", meta.IDENTIFIABLE_CLASSES + meta.SUBMODEL_ELEMENT_CLASSES]
    lines, expect, index = [], [], []
    # the adapter has been used in every other mode before (first thing in this process): see interfere()
    objs = list(objs)
    for _, o_, _ in objs[:4]:
        interfere(o_)
    for i, obj, stats in objs:
        v = T.to_val(obj)
        data = xml_bytes(obj)
        el = etree.fromstring(data, etree.XMLParser(remove_blank_text=True, remove_comments=True))
        w_sdk = T.wire_of_xml_item(poly, el)
        lines.append(["enc", False, v]); expect.append(("enc", w_sdk)); index.append(i)
        try:
            obj2 = read_aas_xml_element(io.BytesIO(data), constructable(obj), failsafe=False)
            r = ["ok", T.sort_unordered(T.to_val(obj2))]
        except Exception as e:
            r = ["err", type(e).__name__]
        lines.append(["dec", False, poly, None]); expect.append(("dec", r)); index.append(i)
        cov.nontrivial.add(C.sha(v))
        cov.evaluations += 1
        for k, c in stats.items():
            if k.startswith("class:"):
                cov.hit(k, c)
    enc_out = C.run_model("C04", [l for l in lines if l[0] == "enc"])
    it = iter(enc_out)
    full, last = [], None
    for l in lines:
        if l[0] == "enc":
            last = next(it); full.append(l)
        else:
            full.append(["dec", False, l[2], last])
    out = C.run_model("C04", full)
    dis: List[C.Disagreement] = []
    for k, (m, (what, exp)) in enumerate(zip(out, expect)):
        if what == "enc":
            mm, ee = T.erase_flags(m), T.erase_flags(exp)
        else:
            mm = ["ok", T.sort_unordered(m[1])] if m and m[0] == "ok" else m[:2]
            ee = exp
        if mm != ee:
            i = index[k]
            dis.append(C.Disagreement(f"xml {what} of generated object #{i} ({type(objs[i][1]).__name__})",
                                      {"seed": ctx.seed, "index": i, "depth": 3 if ctx.tier == "quick" else 4},
                                      c03._first_diff(mm, ee), "see model"))
            if len(dis) >= 5:
                break
    cov.samples = [{"document": xml_bytes(objs[0][1]).decode()[:1500]}]
    return dis


# ----------------------------------------------------------------------------------------------- oracle

def interfere(obj) -> None:
    """other uses of the XML adapter in the same process before the round trip under test (see c03.interfere)"""
    from basyx.aas import model
    from basyx.aas.adapter.xml import xml_deserialization as D, write_aas_xml_file
    # a bare data element read in stripped mode first (the HTTP adapter's level=core does this): reaches the data element
    # constructors, which a stripped read of a whole identifiable never does
    warm = model.Property("warm", model.datatypes.String, "v", qualifier=[model.Qualifier("q", model.datatypes.String, "x")])
    for failsafe in (True, False):
        D.read_aas_xml_element(io.BytesIO(xml_bytes(warm)), D.XMLConstructables.SUBMODEL_ELEMENT, failsafe=failsafe, stripped=True)
        D.read_aas_xml_element(io.BytesIO(xml_bytes(warm)), D.XMLConstructables.PROPERTY, failsafe=failsafe, stripped=True)
    store = model.DictObjectStore([obj]) if isinstance(obj, model.Identifiable) else model.DictObjectStore()
    buf = io.BytesIO(); write_aas_xml_file(buf, store); full = buf.getvalue()
    single = xml_bytes(obj)
    for stripped in (True, False):
        for failsafe in (True, False):
            for dec in (None, D.AASFromXmlDecoder, D.StrictAASFromXmlDecoder, D.StrippedAASFromXmlDecoder, D.StrictStrippedAASFromXmlDecoder):
                D.read_aas_xml_file(io.BytesIO(full), failsafe=failsafe, stripped=stripped, decoder=dec)
                D.read_aas_xml_element(io.BytesIO(single), constructable(obj), failsafe=failsafe, stripped=stripped, decoder=dec)


def check_object(obj, case) -> Optional[C.Failing]:
    c03._quiet()
    from basyx.aas import model
    from basyx.aas.adapter.xml import write_aas_xml_file, read_aas_xml_file, read_aas_xml_element
    from vf import canon
    c1 = canon.canon(obj)
    try:
        if case.get("mix", True):
            interfere(obj)
        o2 = read_aas_xml_element(io.BytesIO(xml_bytes(obj)), constructable(obj), failsafe=False)
        d = canon.diff(c1, canon.canon(o2)) if o2 is not None else "reader returned None"
        if d:
            return C.Failing(c03.sig_of(d, "xml", c1), f"{type(obj).__name__} via single-element writer/reader: {d[:200]}", case, d)
        if isinstance(obj, model.Identifiable):
            buf = io.BytesIO()
            write_aas_xml_file(buf, model.DictObjectStore([obj]))
            buf.seek(0)
            objs2 = list(read_aas_xml_file(buf, failsafe=False))
            if len(objs2) != 1 or type(objs2[0]) is not type(obj):
                return C.Failing("xml:roundtrip:store:identifiables", f"store with one {type(obj).__name__} read back as "
                                 f"{[type(o).__name__ for o in objs2]}", case)
            d = canon.diff(c1, canon.canon(objs2[0]))
            if d:
                return C.Failing(c03.sig_of(d, "xml", c1), f"{type(obj).__name__} via store document: {d[:200]}", case, d)
            if c03.scribble(objs2[0]):
                buf.seek(0)
                objs3 = list(read_aas_xml_file(buf, failsafe=False))
                d = canon.diff(c1, canon.canon(objs3[0])) if len(objs3) == 1 else "count"
                if d:
                    return C.Failing("xml:roundtrip:second-read-sees-edits-of-first", f"{type(obj).__name__} via store document, read again "
                                     f"after the first result was edited in place: {d[:200]}", case, d)
            if not (case.get("index", 0) < 200 or case.get("index", 0) % 8 == 0):    # every object of a quick run, every eighth beyond
                return None
            # (round 6) instances of application-defined subclasses of every class hold the same model
            touched = c03.reclass_tree(obj)
            try:
                buf = io.BytesIO()
                write_aas_xml_file(buf, model.DictObjectStore([obj]))
                buf.seek(0)
                objs4 = list(read_aas_xml_file(buf, failsafe=False))
            finally:
                for o, c in touched:
                    o.__class__ = c
            d = canon.diff(c1, canon.canon(objs4[0])) if len(objs4) == 1 else f"{len(objs4)} objects read"
            if d:
                return C.Failing("xml:roundtrip:subclass-instances:" + c03.sig_of(d, "xml", c1).split(":", 2)[-1],
                                 f"a store of instances of application-defined subclasses ({type(obj).__name__}): {d[:200]}", case, d)
            # (round 6) a write that fails half-way leaves the caller's stream usable
            import gc
            import dateutil.relativedelta as rd
            bad = model.Submodel("urn:vf:rejected", [model.Property("d", model.datatypes.Duration, rd.relativedelta(months=1, days=-1))])
            buf = io.BytesIO()
            try:
                write_aas_xml_file(buf, model.DictObjectStore([obj, bad]))
                failed = False
            except Exception:
                failed = True
            if failed:
                gc.collect()
                try:
                    buf.seek(0); buf.truncate()
                    write_aas_xml_file(buf, model.DictObjectStore([obj]))
                    buf.seek(0)
                    objs5 = list(read_aas_xml_file(buf, failsafe=False))
                except Exception as e:
                    return C.Failing(f"xml:roundtrip:stream-unusable-after-failed-write:{type(e).__name__}", f"after a write that raised half-way the "
                                     f"caller's stream no longer takes a valid store: {e!r}"[:300], case)
                d = canon.diff(c1, canon.canon(objs5[0])) if len(objs5) == 1 else "count"
                if d:
                    return C.Failing("xml:roundtrip:after-failed-write", f"{type(obj).__name__} written after a failed write: {d[:200]}", case, d)
    except Exception as e:
        return C.Failing(f"xml:roundtrip:raises:{type(e).__name__}", f"{type(obj).__name__}: {e!r}"[:300], case)
    return None


def oracle(ctx: C.Ctx, cov: C.Coverage, falsy_bias=0.35, n=None, seed=None) -> List[C.Failing]:
    out, sigs = [], set()
    seed = ctx.seed if seed is None else seed
    depth = 3 if ctx.tier == "quick" else 4
    for i, obj, _ in gen_objects(seed, n or ctx.budget(240, 6000), ctx.tier, falsy_bias):
        f = check_object(obj, {"seed": seed, "index": i, "depth": depth, "falsy_bias": falsy_bias})
        if f and f.sig not in sigs:
            sigs.add(f.sig); out.append(f)
    for case, group in c03.batches(seed, min(n or ctx.budget(240, 6000), 400), ctx.tier, falsy_bias):
        f = c03.check_batch(group, case, "xml")
        if f and f.sig not in sigs:
            sigs.add(f.sig); out.append(f)
    return out


def search(ctx: C.Ctx, disagreements, broken) -> List[C.Failing]:
    found = []
    for d in disagreements:
        if isinstance(d.case, dict) and "index" in d.case:
            f = check_object(regen(d.case), d.case)
            if f:
                found.append(f)
    if found:
        return found
    return oracle(ctx, C.Coverage(), falsy_bias=0.95, n=800, seed=ctx.seed + 7919) or \
        oracle(ctx, C.Coverage(), falsy_bias=0.5, n=3000, seed=ctx.seed + 104729)


def replay(case) -> Optional[C.Failing]:
    if "batch" in case:
        return c03.replay_batch(case, "xml")
    return check_object(regen(case), case)
