"""C19 — DictSupplementaryFileContainer: correspondence with Model/Files.lean, oracle on the implementation."""
from __future__ import annotations

import hashlib
import io
import itertools
from typing import Any, List, Optional

from vf import common as C

ID = "C19"
LEAN_MODULE = "Basyx.Props.C19"
LEVEL = "proof"

MANIFEST = {
    "text": "Lean theorems for ALL add/delete histories of the container model: bookkeeping invariant (refcounts = number of names per "
            "content, no content dropped while named), refinement of every history to the abstract map name -> (bytes, content type) "
            "with identical outputs, fresh-name/no-disturbance laws, termination of the conflict loop (pigeonhole over the injective "
            "_NNNN suffix). The model is tied to the code by an exhaustive (short) + random (long) differential run after every call.",
    "note": "sha256 assumed injective (modelled as identity); CPython dict semantics; harness/generators trusted; contents ASCII in the tie",
    "technique": "Lean 4 proof: invariant by induction over operations + refinement to an abstract map; differential correspondence with the Python class",
}
ASSUMPTIONS = [
    "sha256 is injective on the contents used (modelled as the identity on content)",
    "CPython dict semantics (insertion order, in-place update) as modelled by Basyx.AList",
    "file contents are modelled as character lists; the harness uses ASCII byte strings",
]

NAMES = ["a.pdf", "a_0001.pdf", "d/a", "x.tar.gz"]
EXTRA_NAMES = ["", ".", "a.", ".a", "a/b.c/d", "a..b", "/", "a/", "a_0001_0001.pdf", "ü/ö.é", "a.pdf/", "..", "a_0002.pdf"]
# (round 8) OTHER names that some normalisation would fold onto a stored one (percent-encoding, letter case, a blank at the
# end, Unicode composition): for the container they are different names - unknown until they are added themselves
ALIASES = [("a.pdf", "a%2Epdf"), ("a.pdf", "A.PDF"), ("a.pdf", "a.pdf "), ("d/a", "d%2Fa"), ("a b.pdf", "a%20b.pdf"),
           ("ü/ö.é", "u\u0308/o\u0308.e\u0301"), ("ü/ö.é", "%C3%BC/%C3%B6.%C3%A9")]
EXTRA_NAMES += [x for pair in ALIASES for x in pair if x not in NAMES and x not in EXTRA_NAMES]
DATA = ["X", "Y"]
CTS = ["t/1", "t/1;a=b"]      # content types are compared as whole strings: parameters, case and blanks all count
MORE_CTS = CTS + ["t/2", "t/1; a=b", "T/1", "t/1 ", "", "t/1;a=c"]


class _Pair:
    """the container under test plus a NEIGHBOUR container living in the same process: whatever is added to the first is also
    added to the neighbour (under another name) and removed from it again two calls later.  Containers are independent objects;
    what the neighbour does must never show in the first."""
    def __init__(self):
        from basyx.aas.adapter.aasx import DictSupplementaryFileContainer
        self.c = DictSupplementaryFileContainer()
        self.n = DictSupplementaryFileContainer()
        self.pending: List[str] = []

    def neighbour(self, op):
        try:
            if op[0] == "add":
                self.pending.append(self.n.add_file("/n/" + op[1].strip("/"), io.BytesIO(op[2].encode()), op[3]))
            if len(self.pending) > 2 or op[0] == "delete":
                if self.pending:
                    self.n.delete_file(self.pending.pop(0))
        except Exception:
            pass                      # the neighbour's own fate is not what is being observed


def _container():
    return _Pair()


def impl_step(c, op: List[Any]) -> Any:
    if isinstance(c, _Pair):
        if op[0] in ("add", "delete"):
            r = impl_step(c.c, op)
            c.neighbour(op)
            return r
        return impl_step(c.c, op)
    k = op[0]
    if k == "view":
        return [impl_step(c, ["iter"]), [[impl_step(c, ["contains", n]), impl_step(c, ["ctype", n]),
                                          impl_step(c, ["write", n]), impl_step(c, ["sha", n])] for n in op[1]]]
    try:
        if k == "add":
            return ["name", c.add_file(op[1], io.BytesIO(op[2].encode()), op[3])]
        if k == "delete":
            c.delete_file(op[1])
            return ["unit"]
        if k == "ctype":
            return ["ctype", c.get_content_type(op[1])]
        if k == "sha":
            return ["hash", c.get_sha256(op[1]).hex()]
        if k == "write":
            b = io.BytesIO()
            c.write_file(op[1], b)
            return ["content", b.getvalue().decode()]
        if k == "contains":
            return ["bool", op[1] in c]
        if k == "iter":
            return ["names", list(c)]
    except KeyError:
        return ["raise", "KeyError"]
    except Exception as e:  # anything else is reported verbatim
        return ["raise", type(e).__name__]
    raise ValueError(op)


def observe_ops(names) -> List[List[Any]]:
    return [["view", list(names)]]


def canon_model(out):
    if isinstance(out, list):
        if len(out) == 2 and out[0] == "hash" and isinstance(out[1], str):
            return ["hash", hashlib.sha256(out[1].encode()).hexdigest()]
        return [canon_model(x) for x in out]
    return out


def gen_sequences(ctx: C.Ctx):
    adds = [["add", n, d, c] for n in NAMES for d in DATA for c in CTS]
    dels = [["delete", n] for n in NAMES]
    alphabet = adds + dels
    depth = 2 if ctx.tier == "quick" else 3
    seqs = []
    for L in range(1, depth + 1):
        for s in itertools.product(alphabet, repeat=L):
            seqs.append(list(s))
    exhaustive_n = len(seqs)
    rng = ctx.rng
    pool = NAMES + EXTRA_NAMES
    for _ in range(ctx.budget(1500, 25000)):
        L = rng.randint(3, 60 if ctx.tier == "thorough" else 25)
        s = []
        handed = []
        for _ in range(L):
            r = rng.random()
            if r < 0.6:
                n = rng.choice(pool if rng.random() < 0.5 else NAMES[:2])
                s.append(["add", n, rng.choice(DATA + ["", "Z"]), rng.choice(MORE_CTS)])
            elif r < 0.9:
                s.append(["delete", rng.choice(pool if rng.random() < 0.3 else NAMES + ["a_0001_0001.pdf", "a_0002.pdf"])])
            else:
                s.append(["delete", rng.choice(NAMES)])
        seqs.append(s)
    # directed: a stored name, then its alias spelling deleted / added / deleted again, with a second name sharing the content
    for n, al in ALIASES:
        for d in DATA[:2]:
            seqs.append([["add", n, d, CTS[0]], ["delete", al], ["delete", n]])
            seqs.append([["add", n, d, CTS[0]], ["add", "x.tar.gz", d, CTS[0]], ["delete", al], ["delete", "x.tar.gz"], ["delete", n]])
            seqs.append([["add", n, d, CTS[0]], ["add", al, DATA[-1], CTS[-1]], ["delete", al], ["delete", al], ["delete", n]])
    return seqs, exhaustive_n, depth


def names_of(seq) -> List[str]:
    ns = []
    for op in seq:
        if op[1] not in ns:
            ns.append(op[1])
    return ns


def correspond(ctx: C.Ctx, cov: C.Coverage) -> List[C.Disagreement]:
    seqs, exhaustive_n, depth = gen_sequences(ctx)
    cov.rule = (f"all add/delete sequences up to length {depth} over {len(NAMES)} names x {len(DATA)} contents x {len(CTS)} "
                "content types (exhaustive), plus seeded random sequences up to length 60 over look-alike names; after every call "
                "the whole public view (iter, contains, content type, bytes, sha256 of each name) is compared with the model. "
                "non-trivial = contains a name conflict, a same-content re-add, or a delete of shared content; distinct = by op sequence")
    lines: List[Any] = []
    impl_out: List[Any] = []
    index: List[tuple] = []
    # _append_counter itself
    ac_cases = [(n, i) for n in NAMES + EXTRA_NAMES for i in (1, 2, 9, 10, 999, 9999, 10000, 123456)]
    from basyx.aas.adapter.aasx import DictSupplementaryFileContainer as D
    for n, i in ac_cases:
        lines.append(["append_counter", n, i])
        impl_out.append(D._append_counter(n, i))
        index.append(("append_counter", (n, i)))
    for si, seq in enumerate(seqs):
        lines.append(["reset"])
        impl_out.append(["reset"])
        index.append((si, -1))
        c = _container()
        seen: List[str] = []
        conflict = shared = same = False
        for oi, op in enumerate(seq):
            if op[1] not in seen:
                seen.append(op[1])
            full = [op] + observe_ops(seen)
            for j, o in enumerate(full):
                lines.append(o)
                r = impl_step(c, o)
                if j == 0 and r[0] == "name" and r[1] not in seen:
                    seen.append(r[1])
                    conflict = True
                if j == 0 and o[0] == "add" and r[0] == "name" and r[1] == o[1] and sum(1 for p in seq[:oi] if p == o):
                    same = True
                impl_out.append(r)
                index.append((si, oi))
            cov.hit(op[0])
        if conflict:
            cov.hit("seq-with-conflict")
        if conflict or same:
            cov.nontrivial.add(C.sha(seq))
        cov.evaluations += 1
    cov.exhaustive = True
    cov.extra["exhaustive_sequences"] = exhaustive_n
    cov.extra["append_counter_cases"] = len(ac_cases)
    cov.samples = [seqs[exhaustive_n - 1], seqs[-1][:12]]
    model_out = C.run_model("C19", lines)
    dis: List[C.Disagreement] = []
    if len(model_out) != len(impl_out):
        dis.append(C.Disagreement("driver output length", None, len(model_out), len(impl_out)))
        return dis
    for k, (m, i) in enumerate(zip(model_out, impl_out)):
        if canon_model(m) != i:
            si, oi = index[k]
            case = seqs[si][: oi + 1] if isinstance(si, int) else list(oi)
            dis.append(C.Disagreement(f"files line {lines[k]}", case, m, i))
            if len(dis) >= 5:
                break
    return dis


# ----------------------------------------------------------------------------------------------- oracle

def check_sequence(seq) -> Optional[C.Failing]:
    """The property, stated over the implementation: reference map name -> (bytes, content type)."""
    pair = _container()
    c = pair.c
    exp = {}
    for oi, op in enumerate(seq):
        prefix = seq[: oi + 1]
        if oi:
            pair.neighbour(seq[oi - 1])
        if op[0] == "add":
            _, n, d, ct = op
            try:
                r = c.add_file(n, io.BytesIO(d.encode()), ct)
            except Exception as e:
                return C.Failing("files:add:raises:" + type(e).__name__, f"add_file raised {e!r}", prefix)
            if n not in exp or exp[n] == (d, ct):
                if r != n:
                    return C.Failing("files:add:renamed-without-conflict", f"add_file({n!r}) returned {r!r}", prefix, r, n)
            else:
                if r == n or (r in exp and exp[r] != (d, ct)):
                    return C.Failing("files:add:conflict-name-in-use", f"add_file({n!r}) returned in-use name {r!r}", prefix, r)
            exp[r] = (d, ct)
        else:
            n = op[1]
            try:
                c.delete_file(n)
                raised = False
            except KeyError:
                raised = True
            except Exception as e:
                return C.Failing("files:delete:raises:" + type(e).__name__, f"delete_file raised {e!r}", prefix)
            if raised != (n not in exp):
                return C.Failing("files:delete:keyerror-mismatch", f"delete_file({n!r}) raised={raised}", prefix, raised, n not in exp)
            exp.pop(n, None)
        # full view
        try:
            listed = list(c)
        except Exception as e:
            return C.Failing("files:iter:raises", repr(e), prefix)
        if sorted(listed) != sorted(exp) or len(set(listed)) != len(listed):
            return C.Failing("files:view:names", f"listed {sorted(listed)} expected {sorted(exp)}", prefix, listed, sorted(exp))
        for n, (d, ct) in exp.items():
            try:
                b = io.BytesIO()
                c.write_file(n, b)
                got = (b.getvalue(), c.get_content_type(n), c.get_sha256(n), n in c)
            except Exception as e:
                return C.Failing("files:view:lookup-raises", f"{n!r}: {e!r}", prefix)
            want = (d.encode(), ct, hashlib.sha256(d.encode()).digest(), True)
            if got != want:
                return C.Failing("files:view:content", f"name {n!r} yields {got[:2]} expected {want[:2]}", prefix, str(got), str(want))
        for n in set(NAMES + EXTRA_NAMES) - set(exp):
            if n in c:
                return C.Failing("files:view:phantom", f"{n!r} reported as contained", prefix)
            for fn in (c.get_content_type, c.get_sha256, lambda x: c.write_file(x, io.BytesIO())):
                try:
                    fn(n)
                    return C.Failing("files:unknown:no-keyerror", f"query of unknown {n!r} did not raise", prefix)
                except KeyError:
                    pass
                except Exception as e:
                    return C.Failing("files:unknown:wrong-exception", f"{n!r}: {e!r}", prefix)
    return None


def oracle(ctx: C.Ctx, cov: C.Coverage) -> List[C.Failing]:
    seqs, _, _ = gen_sequences(C.Ctx(ctx.prop, ctx.tier, ctx.seed, __import__("random").Random(f"{ctx.prop}:{ctx.seed}"), ctx.t0, ctx.jobs))
    out: List[C.Failing] = []
    sigs = set()
    for s in seqs:
        f = check_sequence(s)
        if f and f.sig not in sigs:
            sigs.add(f.sig)
            f.case = C.ddmin(f.case, lambda ops: (lambda g: g is not None and g.sig == f.sig)(check_sequence(ops)))
            out.append(f)
    return out


def search(ctx: C.Ctx, disagreements, broken) -> List[C.Failing]:
    out = []
    for d in disagreements:
        if isinstance(d.case, list) and d.case and isinstance(d.case[0], list):
            f = check_sequence(d.case)
            if f:
                out.append(f)
    if out:
        return out
    big = C.Ctx(ctx.prop, "thorough", ctx.seed + 1, __import__("random").Random(f"search:{ctx.seed}"), ctx.t0, ctx.jobs)
    return oracle(big, C.Coverage())


def replay(case) -> Optional[C.Failing]:
    return check_sequence(case)
