"""C09 — failsafe/strict readers on damaged documents: catch tuples + recover points (T-gen), propagation model (T-corr),
oracle 'failsafe never raises, undamaged identifiables survive unchanged, strict raises only documented kinds'."""
from __future__ import annotations

import copy
import io
import json
import os
import random
from typing import Any, Dict, List, Optional, Tuple

from vf import common as C
from props import c03, c04

ID = "C09"
LEAN_MODULE = "Basyx.Props.C09"
LEVEL = "proof"
MANIFEST = {
    "text": "Lean theorems for EVERY document tree with any number of damaged positions whose conversions raise documented kinds (explicit hypothesis `noOtherL`; `c09_errors_documented`: the readers add no undocumented kind of their own; `c09_undocumented_escapes`: an undocumented kind does escape, so the hypothesis is needed — the correspondence and the oracle report such a conversion): the failsafe JSON and XML readers never raise "
            "and return exactly the identifiables that can be read, each on its own (isolation, damaged item dropped, nothing else "
            "changes); undamaged identifiables are returned unchanged in every mode; whatever strict accepts failsafe returns "
            "identically, otherwise strict ends in one of the four documented kinds. The obligation re-checked in the kernel on every "
            "run is catch coverage: the except tuples REGENERATED from object_hook / _failsafe_construct contain every raisable kind. "
            "Tie: differential run on single-damage documents (JSON and XML) of the readers vs. the propagation model with the "
            "regenerated recover points; the leaf's exception kind is taken from the strict reader's root cause."
            " Also regenerated and proved: the decision table of _select_decoder and the failsafe/stripped flags of the decoder classes (attribute lookup along the MRO): the class selected for (failsafe, stripped) has exactly these modes (c09_mode_selection).",
    "note": "partial for non-well-formed bytes: 'syntax error or empty result' concerns json/lxml and is exercised by the oracle, not "
            "proved; duplicate-id and wrong-list handling are checked by the oracle only; which exception a damaged leaf raises is "
            "observed (root cause in strict mode), the model decides where it is caught",
    "technique": "Lean 4 proof: exception-propagation model over damaged documents (totality, isolation, strict⊑failsafe) + decide on "
                 "regenerated catch tuples; differential correspondence; damage-operator oracle",
}
ASSUMPTIONS = c03.ASSUMPTIONS + [
    "the kinds of exception a leaf conversion can raise are KeyError, TypeError, ValueError, AASConstraintViolation (spec list `raisable`)",
    "json.loads / lxml behave as documented on non-well-formed input (JSONDecodeError / XMLSyntaxError)",
]
DOCUMENTED = ("KeyError", "ValueError", "TypeError", "AASConstraintViolation")


GEN_SELECT = os.path.join(C.LEAN_DIR, "Basyx", "Gen", "Select.lean")


def translate_select(ctx: C.Ctx) -> List[str]:
    """the decision table of `_select_decoder` / `_select_encoder` and the mode flags of the decoder / encoder classes"""
    from translate import select_tables as S
    data = S.build(C.REPO)
    c03.write_if_changed(GEN_SELECT, S.emit_lean(data))
    return [f"unrecognised source construct: {u}" for u in data["unrecognised"]]


def translate(ctx: C.Ctx) -> List[str]:
    return c03.translate(ctx) + c04.translate(ctx) + translate_select(ctx)


# ----------------------------------------------------------------------------------------------- JSON damage

def json_paths(j: Any, path=()) -> List[Tuple]:
    out = []
    if isinstance(j, dict):
        for k, v in j.items():
            out.append(path + (k,))
            out += json_paths(v, path + (k,))
    elif isinstance(j, list):
        for i, v in enumerate(j):
            out.append(path + (i,))
            out += json_paths(v, path + (i,))
    return out


def jget(j, path):
    for p in path:
        j = j[p]
    return j


def jget_safe(j, path):
    try:
        return jget(j, path)
    except Exception:
        return None


def jset(j, path, v):
    for p in path[:-1]:
        j = j[p]
    j[path[-1]] = v


def jdel(j, path):
    for p in path[:-1]:
        j = j[p]
    del j[path[-1]]


JSON_OPS = ["delete", "null", "wrongtype", "badenum", "empty", "toolong", "forbidden", "badliteral", "badbase64", "unknowntype", "hugeliteral"]
# out of the representable range at parse time (huge year/day counts are accepted by relativedelta and only fail when written:
# that is C06's known finding about fields >= 2^53, not a reader matter)
HUGE = ["PT" + "9" * 400 + "S", "-PT" + "9" * 400 + ".5S"]
# (value type, literal): lexically fine, but outside (or at the very edge of) what the type / its Python class can hold
OUT_OF_RANGE = [("xs:duration", h) for h in HUGE] + [
    ("xs:float", "3.5e38"), ("xs:float", "-2.5E+300"), ("xs:float", "1e39"), ("xs:double", "1e999"), ("xs:double", "-1E400"),
    ("xs:int", "2147483648"), ("xs:long", "-9223372036854775809"), ("xs:short", "40000"), ("xs:byte", "-129"),
    ("xs:unsignedByte", "256"), ("xs:unsignedLong", "18446744073709551616"), ("xs:positiveInteger", "0"),
    ("xs:negativeInteger", "0"), ("xs:nonNegativeInteger", "-1"), ("xs:integer", "9" * 5000), ("xs:decimal", "9" * 5000 + ".5"),
    ("xs:dateTime", "9999-12-31T23:59:59.999999-14:00"), ("xs:date", "0000-01-01"), ("xs:gYear", "0000"),
    ("xs:time", "24:00:00"), ("xs:dateTime", "2020-02-30T00:00:00"), ("xs:gMonthDay", "--02-30")]


ORACLE_JSON_OPS = JSON_OPS + ["emptylist", "emptyobj", "dupitem"]      # judged by the oracle only (the model has no non-emptiness rules)


STRUCT_SWEEP_OPS = ["dupitem", "emptylist"]
JSON_SWEEP_OPS = ["delete", "null", "wrongtype", "empty", "emptylist", "emptyobj", "forbidden", "dupitem"]


def damage_json(doc: dict, rng: random.Random, ops: Optional[List[str]] = None, sweep=None) -> Optional[Tuple[str, Tuple]]:
    """apply one damage operator in place; returns (operator, path) — the first path element selects the identifiable.
    `sweep = (k, op)`: apply `op` at the k-th position (document order) instead of drawing both at random"""
    paths = [p for p in json_paths(doc) if len(p) >= 3]
    if sweep is not None:
        if sweep[0] >= len(paths):
            return None
        paths = [paths[sweep[0]]]
    else:
        rng.shuffle(paths)
    for path in paths[:40]:
        v = jget(doc, path)
        op = sweep[1] if sweep is not None else rng.choice(ops or JSON_OPS)
        last = path[-1]
        if op == "emptylist":
            if isinstance(v, list) and v:
                jset(doc, path, []); return op, path
            continue
        if op == "emptyobj":
            if isinstance(v, dict) and v and last != "modelType":
                jset(doc, path, {}); return op, path
            continue
        if op == "dupitem":
            if isinstance(v, list) and v:
                v.append(copy.deepcopy(v[0])); return op, path          # two members with one identifying attribute
            continue
        if op == "delete" and isinstance(last, str):
            jdel(doc, path); return op, path
        if op == "null":
            jset(doc, path, None); return op, path
        if op == "wrongtype":
            jset(doc, path, 12345 if isinstance(v, (str, dict, list)) else "x"); return op, path
        if op == "unknowntype" and last == "modelType":
            jset(doc, path, "NoSuchClass"); return op, path
        if isinstance(v, str) and last != "modelType":
            if op == "badenum" and last in ("type", "kind", "assetKind", "entityType", "direction", "state", "valueType", "typeValueListElement", "dataType"):
                jset(doc, path, "NoSuchLiteral"); return op, path
            if op == "empty":
                jset(doc, path, ""); return op, path
            if op == "toolong" and last in ("id", "idShort", "category", "contentType", "version", "language"):
                jset(doc, path, "x" * 5000); return op, path
            if op == "forbidden" and last in ("id", "idShort", "text", "value"):
                jset(doc, path, "a\x00￾b"); return op, path
            if op == "badliteral" and last in ("value", "min", "max", "lastUpdate", "minInterval", "maxInterval"):
                jset(doc, path, "12:99:xx!"); return op, path
            if op == "badbase64" and last == "value":
                jset(doc, path, "!!!notbase64!!!"); return op, path
            if op == "hugeliteral" and last in ("value", "min", "max") and "valueType" in jget(doc, path[:-1]):
                # out-of-range value of a type whose lexical space is unbounded
                vt_, lit_ = rng.choice(OUT_OF_RANGE)
                jget(doc, path[:-1])["valueType"] = vt_
                jset(doc, path, lit_); return op, path
    return None


CTOR_CLASS = {"_construct_lang_string_set": "LangString", "_construct_value_list": "ValueList", "_construct_operation_variable": "OperationVariable",
              "_construct_data_specification_iec61360": "DataSpecificationIEC61360", "_construct_external_reference": "ExternalReference",
              "_construct_model_reference": "ModelReference"}


def raising_class(e: BaseException) -> Optional[str]:
    """class whose reader constructor was innermost on the stack when the root-cause exception was raised"""
    while e.__cause__ is not None:
        e = e.__cause__
    tb = e.__traceback__
    name = None
    while tb is not None:
        fn = tb.tb_frame.f_code.co_name
        if fn.startswith("_construct_") and fn != "_construct_reference":
            name = fn
        tb = tb.tb_next
    if name is None:
        return None
    return CTOR_CLASS.get(name) or "".join(w.capitalize() for w in name[len("_construct_"):].split("_"))


def constructs_alone(sub: dict) -> bool:
    from basyx.aas.adapter.json import StrictAASFromJsonDecoder
    try:
        json.loads(json.dumps(sub), cls=StrictAASFromJsonDecoder)
        return True
    except Exception:
        return False


def is_constraint(e: BaseException) -> bool:
    """the root cause is a metamodel constraint violation: raised by a constructor AFTER its arguments were converted"""
    while e.__cause__ is not None:
        e = e.__cause__
    return any(c.__name__ == "AASConstraintViolation" for c in type(e).__mro__)


def classes_along(T, kind, j, path):
    """[(prefix length, class)] for every object on `path` inside JSON value j (table-directed, like wire_of_json)"""
    out = []
    cur, k = j, kind
    for depth in range(len(path) + 1):
        if isinstance(cur, dict) and k != "leaf" and k[0] in ("node", "poly"):
            if k[0] == "node":
                cls = k[1]
            else:
                tag = cur.get("modelType") if "modelType" in cur else cur.get("type")
                cls = T.tag_to_cls.get(tag)
            out.append((depth, cls))
            if depth == len(path) or cls not in T.classes:
                break
            row = next((r for r in T.rows(cls) if r["member"] == path[depth]), None)
            if row is None or not isinstance(cur, dict) or path[depth] not in cur:
                break
            cur, k = cur[path[depth]], row["kind"]
        elif isinstance(cur, list) and k != "leaf" and k[0] == "list":
            if depth == len(path) or not isinstance(path[depth], int) or path[depth] >= len(cur):
                break
            cur, k = cur[path[depth]], k[1]
        else:
            break
    return out


def root_cause(e: BaseException) -> str:
    """kind of the exception at its origin: the deepest exception of the `raise ... from` chain that is of a documented kind
    (the readers re-raise with the same kind and more context); an undocumented kind counts only if nothing translated it"""
    chain = [e]
    while chain[-1].__cause__ is not None:
        chain.append(chain[-1].__cause__)
    for x in reversed(chain):
        for k in DOCUMENTED:
            if any(c.__name__ == k for c in type(x).__mro__):
                return k
    return type(chain[-1]).__name__


_DOCS: Dict[Any, Any] = {}


def make_doc(seed: int, i: int, depth: int):
    """a store document with 3 identifiables; returns (objects, json dict) — objects are never modified by the harness and are
    shared between calls, the JSON document is a fresh copy"""
    key = (seed, i, depth)
    if key not in _DOCS:
        if len(_DOCS) > 64:
            _DOCS.clear()
        objs, doc = _make_doc(seed, i, depth)
        _DOCS[key] = (objs, json.dumps(doc))
    objs, text = _DOCS[key]
    return objs, json.loads(text)


def _make_doc(seed: int, i: int, depth: int):
    from basyx.aas import model
    from basyx.aas.adapter.json import AASToJsonEncoder
    if i == -2:
        # the structural zoo (every container class holding every element class) next to two ordinary identifiables
        from vf import gen
        g = gen.Gen(random.Random(f"C09structures:{seed}"), max_depth=depth)
        objs = [g.zoo_structures(), c03._make(seed, 1, depth, 0.35)[0], c03._make(seed, 2, depth, 0.35)[0]]
    else:
        objs = [c03._make(seed, 5 * (3 * i + k) + (k % 3), depth, 0.35)[0] for k in range(3)]
    for k, o in enumerate(objs):
        o.id = f"urn:doc:{k}:{o.id}"
    # kinds 0,1,2 -> submodel, shell, concept description
    doc: Dict[str, list] = {}
    for o in objs:
        key = {"Submodel": "submodels", "AssetAdministrationShell": "assetAdministrationShells",
               "ConceptDescription": "conceptDescriptions"}[type(o).__name__]
        doc.setdefault(key, []).append(json.loads(json.dumps(o, cls=AASToJsonEncoder)))
    return objs, doc


def read_json(doc: dict, failsafe: bool):
    from basyx.aas.adapter.json import read_aas_json_file
    return list(read_aas_json_file(io.StringIO(json.dumps(doc)), failsafe=failsafe))


def correspond(ctx: C.Ctx, cov: C.Coverage) -> List[C.Disagreement]:
    c03._quiet()
    from vf import codec, meta
    T = codec.load_table(c03.GEN_JSON)
    n = ctx.budget(150, 4000)
    rng = random.Random(f"C09:{ctx.seed}")
    poly = ["poly", meta.IDENTIFIABLE_CLASSES]
    lines, expect, cases = [], [], []
    cov.rule = ("per case: a JSON store document of 3 generated identifiables, one damage operator (delete, null, wrong JSON type, bad "
                "enum literal, empty / over-long / forbidden-character string, malformed xs literal, bad base64, unknown modelType) at "
                "a random position of one of them; failsafe reader result (survivors, as values) and strict outcome vs the model; the "
                "kind raised at the damaged leaf is the strict reader's root cause. non-trivial = damage at depth >= 1 below the "
                "identifiable or in a required member; distinct = (class of identifiable, member, operator)")
    depth = 3 if ctx.tier == "quick" else 4
    undocumented: List[C.Disagreement] = []
    only = [int(x) for x in os.environ.get("VERIF_C09_ONLY", "").split(",") if x]       # development aid: these indices only
    for i in (only or range(n)):
        rng = random.Random(f"C09:{ctx.seed}:{i}")        # per case: a disagreement replays from (seed, index, depth) alone
        objs, doc = make_doc(ctx.seed, i, depth)
        dmg = damage_json(doc, rng)
        if dmg is None:
            continue
        op, path = dmg
        # neutral zone: damage inside the ONLY entry of a language string set empties the set, whose constructor then raises;
        # the model does not carry the non-emptiness check of LangStringSet (see design notes)
        if any(isinstance(p, int) and isinstance(path[i - 1], str) and path[i - 1] in LSS_MEMBERS and lss_len(doc, path[:i]) <= 1
               for i, p in enumerate(path) if i > 0):
            continue
        # neutral zone: 'revision' is only read when 'version' is present (AASd-005 nesting, see C03 note)
        if path[-1] == "version" and isinstance(jget_safe(doc, path[:-1]), dict) and "revision" in jget_safe(doc, path[:-1]):
            continue
        # exception kind at the damaged position: strict read of the damaged identifiable alone
        listname, idx = path[0], path[1]
        single = {listname: [doc[listname][idx]]}
        rcls = None
        constraint = False
        try:
            read_json(single, False)
            k = None
        except Exception as e:
            k = root_cause(e)
            rcls = raising_class(e)
            constraint = is_constraint(e)
        if op == "hugeliteral" and k is None:
            continue          # the literal is inside what the SDK's class for the type holds (xs:float is a Python float): no damage
        if k is not None and k not in DOCUMENTED:
            # outside the model's SPEC assumption (`raisable`: conversions raise one of the four documented kinds)
            undocumented.append(C.Disagreement(f"damaged json document ({op} at {list(path)}): the conversion raises an undocumented kind",
                                               {"seed": ctx.seed, "index": i, "op": op, "path": list(path), "fmt": "json"},
                                               "one of " + "/".join(sorted(DOCUMENTED)), k))
            cov.hit("json:undocumented-kind")
            # the model carries such a kind as `.other` (caught by no handler): the comparison below still runs
        # wire of the damaged document, with the damaged position marked
        def build(mark_path):
            items_ = []
            for ln in ("assetAdministrationShells", "submodels", "conceptDescriptions"):
                for j, it in enumerate(doc.get(ln, [])):
                    w = T.wire_of_json(poly, it) if isinstance(it, dict) else ["b", "TypeError"]
                    if (ln, j) == (listname, idx) and k is not None and mark_path is not None:
                        w = mark_bad(w, it, mark_path, k, T)
                    items_.append(w)
            return items_
        items = build(path[2:] if op not in ("delete", "unknowntype") else None)
        # variant B: the exception is raised inside the constructor named by the traceback (e.g. AASd-117 when the parent adds
        # the element): mark the deepest object of that class on the path
        rel = tuple(path[2:])
        on_path = classes_along(T, poly, doc[listname][idx], rel)
        cands = [d for d, c in on_path if c == rcls or (rcls == "LangString" and str(c).startswith("LangString"))]
        fallback = tuple(path[2:-1])
        if op == "delete" and rel and rel[-1] == "idShort":
            # an object without idShort constructs; the constructor that raises (AASd-117) belongs to a PROPER ancestor
            own = len(rel) - 1
            cands = [d for d in cands if d < own]
            above = [d for d, _ in on_path if d < own]
            fallback = rel[:above[-1]] if above else ()
        # several objects of the raising class on the path (a list inside a list, an entity inside an entity): the raising one
        # is the deepest that does not construct on its own
        hit_b = None
        for d in reversed(cands):
            sub = jget_safe(doc[listname][idx], rel[:d])
            if isinstance(sub, dict) and "modelType" in sub and constructs_alone(sub):
                continue
            hit_b = d
            break
        if cands and hit_b is None:
            hit_b = cands[0]
        items_b = build(rel[:hit_b] if cands else fallback)
        try:
            got = read_json(doc, True)
            r = ["ok", sorted((T.sort_unordered(T.erase_flags(T.to_val(o)), None, True) for o in got), key=json.dumps)]
        except Exception as e:
            r = ["err", root_cause(e)]
        case = {"seed": ctx.seed, "index": i, "op": op, "path": list(path), "fmt": "json", "_constraint": constraint and bool(cands)}
        try:
            read_json(doc, False); rs = "ok"
        except Exception as e:
            rs = "err"
        for variant in (items, items_b):
            lines.append(["top", "json", True, variant]); expect.append(r); cases.append(case)
            lines.append(["top", "json", False, variant]); expect.append(["strict", rs]); cases.append(case)
        cov.evaluations += 1
        cov.hit("json:" + op)
        cov.nontrivial.add(f"{listname}:{path[-1] if isinstance(path[-1], str) else 'item'}:{op}")
    out_all = C.run_model("C09", lines)
    # choose per case: variant A unless the model accepts the document strictly while the implementation raises (then the
    # failure comes from a cross-attribute constraint of the enclosing object: variant B)
    out, expect2, cases2 = [], [], []
    for q in range(0, len(out_all), 4):
        a_f, a_s, b_f, b_s = out_all[q:q + 4]
        # ... or the root cause is a constraint violation (AASd-...): the leaf converted, an enclosing constructor raised
        use_b = (a_s[0] == "ok" and expect[q + 1][1] == "err") or cases[q].get("_constraint", False)
        out += [b_f, b_s] if use_b else [a_f, a_s]
        expect2 += [expect[q], expect[q + 1]]
        cases2 += [cases[q], cases[q + 1]]
    expect, cases = expect2, cases2
    dis: List[C.Disagreement] = []
    for m, e, case in zip(out, expect, cases):
        if e[0] == "strict":
            ok = (m[0] == "ok") == (e[1] == "ok")
            mm = m[0]
        elif m[0] == "ok":
            mm = ["ok", sorted((T.sort_unordered(T.erase_flags(v), None, True) for v in m[1]), key=json.dumps)]
            ok = mm == e
        else:
            mm = m
            ok = e[0] == "err"          # both escape; the kind is not compared
        if not ok and only:
            import sys
            print("MODEL", json.dumps(mm), file=sys.stderr)
            print("IMPL ", json.dumps(e), file=sys.stderr)
        if not ok:
            dis.append(C.Disagreement(f"damaged json document ({case['op']} at {case['path']}) {'strict' if e[0] == 'strict' else 'failsafe'}",
                                      case, c03._first_diff(mm, e) if isinstance(mm, list) else mm, e if e[0] != "ok" else "see model"))
            if len(dis) >= 5:
                break
    cov.samples = [cases[0]] if cases else []
    return dis + undocumented[:3]


LSS_MEMBERS = ("displayName", "description", "preferredName", "shortName", "definition", "value")


def lss_len(doc, path) -> int:
    try:
        v = jget(doc, path)
        return len(v) if isinstance(v, list) and all(isinstance(x, dict) and ("language" in x or "text" in x) for x in v if isinstance(x, dict)) else 99
    except Exception:
        return 99


def mark_bad(w, j, path, k, T):
    """replace the wire node that corresponds to JSON path `path` (relative to the identifiable) by ["b", k]"""
    if not path:
        return ["b", k]
    if w[0] == "o" and isinstance(j, dict):
        name = path[0]
        for m in w[2]:
            if m[0] == name:
                m[1] = mark_bad(m[1], j.get(name), path[1:], k, T)
                return w
        if name in ("modelType", "type"):
            return ["b", k]
        w[2].append([name, ["b", k]])          # member not present in the normal form (null): the failing conversion
        return w
    if w[0] == "a" and isinstance(j, list) and isinstance(path[0], int) and path[0] < len(w[1]):
        w[1][path[0]] = mark_bad(w[1][path[0]], j[path[0]], path[1:], k, T)
        return w
    if w[0] == "a" and isinstance(j, dict):       # levelType dict normalised to a list
        return ["b", k]
    return ["b", k]


# ----------------------------------------------------------------------------------------------- oracle

def check_case(case: dict) -> Optional[C.Failing]:
    """property statement on the implementation, JSON and XML: failsafe never raises; identifiables that contain no damage are
    returned unchanged; strict returns the same as failsafe or raises a documented kind."""
    c03._quiet()
    from vf import canon
    rng = random.Random(f"C09case:{case['seed']}:{case['index']}")
    fmt = case.get("fmt", "json")
    depth = case.get("depth", 3)
    objs, doc = make_doc(case["seed"], case["index"], depth)
    wkey = ("want", case["seed"], case["index"], depth)
    if wkey not in _DOCS:
        _DOCS[wkey] = {o.id: canon.canon(o) for o in objs}
    want = _DOCS[wkey]
    if fmt == "json":
        if "sweep" in case:
            dmg = damage_json(doc, rng, ORACLE_JSON_OPS, tuple(case["sweep"]))
        else:
            dmg = damage_json(doc, rng, ORACLE_JSON_OPS) if "path" not in case else _redo_json(doc, case)
        if dmg is None:
            return None
        op, path = dmg
        hit = doc[path[0]][path[1]].get("id") if isinstance(doc[path[0]][path[1]], dict) else None
        damaged_id = objs_id_at(objs, path)
        text = json.dumps(doc)
        reader = lambda fs: read_json(json.loads(text), fs)  # noqa: E731
        from basyx.aas.adapter.json import read_aas_json_file as _rj
        reader_s = lambda fs: list(_rj(io.StringIO(text), failsafe=fs, stripped=True))  # noqa: E731
    else:
        from lxml import etree
        root, damaged_id, op = damage_xml(objs, rng, tuple(case["sweep"]) if "sweep" in case else None)
        if root is None:
            return None
        root, surface = xml_surface(root, rng)
        op = f"{op}/{surface}"
        data = root.data if isinstance(root, _Raw) else etree.tostring(root)
        path = []
        from basyx.aas.adapter.xml import read_aas_xml_file
        reader = lambda fs: list(read_aas_xml_file(io.BytesIO(data), failsafe=fs))  # noqa: E731
        reader_s = lambda fs: list(read_aas_xml_file(io.BytesIO(data), failsafe=fs, stripped=True))  # noqa: E731
    tag = f"{fmt}:{op}"
    try:
        got = reader(True)
    except Exception as e:
        return C.Failing(f"failsafe:{fmt}:raises:{root_cause(e)}", f"failsafe {fmt} reader raised {type(e).__name__} on a document damaged by "
                         f"'{op}' at {path}: {str(e)[:120]}", dict(case, op=op, path=list(path)))
    light = "sweep" in case           # per-position sweeps: the (large) damaged identifiable itself is not canonicalised
    got_c = {o.id: (None if light and o.id == damaged_id else canon.canon(o)) for o in got}
    for oid, c in want.items():
        if oid == damaged_id:
            continue
        if oid not in got_c:
            return C.Failing(f"failsafe:{fmt}:undamaged-lost", f"undamaged identifiable {oid!r} missing after '{op}' on {damaged_id!r}",
                             dict(case, op=op, path=list(path)))
        d = canon.diff(c, got_c[oid])
        if d and op.startswith("pi-after-blank-text"):
            return C.Failing(BLANK_SIG, f"undamaged identifiable {oid!r} changed: {d[:160]}", dict(case, op=op, path=list(path)))
        if d:
            return C.Failing(f"failsafe:{fmt}:undamaged-changed", f"undamaged identifiable {oid!r} changed: {d[:160]}", dict(case, op=op, path=list(path)))
    try:
        strict = reader(False)
        sc = {o.id: (None if light and o.id == damaged_id else canon.canon(o)) for o in strict}
        if json.dumps(sc, sort_keys=True, default=str) != json.dumps(got_c, sort_keys=True, default=str):
            return C.Failing(f"strict:{fmt}:differs-from-failsafe", f"strict and failsafe results differ after '{op}' at {path}",
                             dict(case, op=op, path=list(path)))
    except Exception as e:
        if not any(c.__name__ in DOCUMENTED for c in type(e).__mro__):
            return C.Failing(f"strict:{fmt}:undocumented:{type(e).__name__}", f"strict {fmt} reader raised {type(e).__name__} ('{op}' at {path})",
                             dict(case, op=op, path=list(path)))
    # (round 6) the same two clauses for the readers of stripped objects: `failsafe=` means the same whatever `stripped=` is
    try:
        got_s = reader_s(True)
    except Exception as e:
        return C.Failing(f"failsafe:{fmt}:stripped:raises:{root_cause(e)}", f"failsafe {fmt} reader with stripped=True raised {type(e).__name__} on a "
                         f"document damaged by '{op}' at {path}: {str(e)[:120]}", dict(case, op=op, path=list(path)))
    ids_s = {o.id for o in got_s}
    for oid in want:
        if oid != damaged_id and oid not in ids_s:
            return C.Failing(f"failsafe:{fmt}:stripped:undamaged-lost", f"undamaged identifiable {oid!r} missing from the stripped failsafe read after "
                             f"'{op}' on {damaged_id!r}", dict(case, op=op, path=list(path)))
    try:
        strict_s = reader_s(False)
        if sorted(o.id for o in strict_s) != sorted(ids_s):
            return C.Failing(f"strict:{fmt}:stripped:differs-from-failsafe", f"strict and failsafe stripped reads return different identifiables after "
                             f"'{op}' at {path}", dict(case, op=op, path=list(path)))
    except Exception as e:
        if not any(c.__name__ in DOCUMENTED for c in type(e).__mro__):
            return C.Failing(f"strict:{fmt}:stripped:undocumented:{type(e).__name__}", f"strict stripped {fmt} reader raised {type(e).__name__} ('{op}' at {path})",
                             dict(case, op=op, path=list(path)))
    return None


def _redo_json(doc, case):
    """re-apply a recorded damage (replay)"""
    rng = random.Random(f"C09case:{case['seed']}:{case['index']}")
    return damage_json(doc, rng, ORACLE_JSON_OPS)


def objs_id_at(objs, path):
    key = {"submodels": "Submodel", "assetAdministrationShells": "AssetAdministrationShell", "conceptDescriptions": "ConceptDescription"}[path[0]]
    same = [o for o in objs if type(o).__name__ == key]
    return same[path[1]].id if path[1] < len(same) else None


XML_OPS = ["delete", "emptytext", "badtext", "unknowntag", "toolong", "wronglist", "hugeliteral", "toplist", "topunknown", "pi",
           "emptychildren", "retagchildren", "nonamespace", "topnonamespace", "dupchild"]
AASNS = "https://admin-shell.io/aas/3/0"


def entity_char(ch: str) -> str:
    """one character inside an entity's replacement text: a character reference is expanded when the entity is DECLARED, so '&' and
    '<' would be parsed again when the entity is included — they need a second level of escaping"""
    return f"&#38;#{ord(ch)};" if ch in "&<" else f"&#x{ord(ch):X};"


class _Raw:
    """a document that has to be handed over as bytes (it carries a DOCTYPE)"""
    def __init__(self, data: bytes):
        self.data = data


def xml_surface(root, rng: random.Random):
    """the same infoset in another surface form: the AAS namespace bound as the default namespace or to another prefix"""
    from lxml import etree
    how = rng.choice(["aas", "aas", "default", "other", "entity"])
    if how == "aas":
        return root, how
    if how == "entity":
        # an internal general entity stands for (part of) one text: the same infoset, nothing is damaged by it
        leaves = [e for e in root.iter() if isinstance(e.tag, str) and len(e) == 0 and e.text and "\r" not in e.text and "]]>" not in e.text]
        if not leaves:
            return root, "aas"
        tgt = leaves[rng.randrange(len(leaves))]
        text = tgt.text
        tgt.text = "@@VFENT@@"
        raw = etree.tostring(root, encoding="unicode")
        esc = "".join(entity_char(ch) for ch in text)
        data = ('<?xml version="1.0"?><!DOCTYPE x [<!ENTITY vf "' + esc + '">]>' + raw.replace("@@VFENT@@", "&vf;")).encode("utf-8")
        return _Raw(data), how
    new = etree.Element(root.tag, nsmap={None if how == "default" else "x": AASNS})
    for ch in list(root):
        new.append(ch)
    etree.cleanup_namespaces(new)
    return etree.fromstring(etree.tostring(new)), how


SWEEP_OPS = ["emptychildren", "retagchildren", "delete", "emptytext", "nonamespace"]


def damage_xml(objs, rng: random.Random, sweep=None):
    """one damage operator on the XML document of `objs`; `sweep = (k, op)` applies `op` to the k-th element below the identifiables
    (document order) instead of drawing both at random"""
    from lxml import etree
    from basyx.aas import model
    from basyx.aas.adapter.xml import xml_serialization
    xkey = ("xml", tuple(id(o) for o in objs))
    if xkey not in _DOCS:
        _DOCS[xkey] = etree.tostring(xml_serialization.object_store_to_xml_element(model.DictObjectStore(objs)))
    root = etree.fromstring(_DOCS[xkey])
    idents = [el for lst in root for el in lst]
    ns = "{https://admin-shell.io/aas/3/0}"
    if sweep is not None:
        allnodes = [(t, e) for t in idents for e in t.iter() if isinstance(e.tag, str) and e is not t]
        if sweep[0] >= len(allnodes):
            return None, None, None
        target, e0 = allnodes[sweep[0]]
        nodes, forced = [e0], sweep[1]
    else:
        target = rng.choice(idents)
        nodes = [e for e in target.iter() if isinstance(e.tag, str) and e is not target]
        rng.shuffle(nodes)
        forced = None
    damaged_id = target.findtext(ns + "id")
    for e in nodes[:40]:
        op = forced or rng.choice(XML_OPS)
        if op == "pi":
            # a processing instruction is not damage: everything must come back
            where = rng.choice([root, target.getparent(), target, e])
            at = rng.randint(0, len(where))
            where.insert(at, etree.ProcessingInstruction("vf", "noise"))
            if at == 0 and where.text and not where.text.strip():
                op = "pi-after-blank-text"       # own signature: see blank_text_check()
            return root, None, op
        if op == "toplist":
            others = [lst for lst in root if lst is not target.getparent()]
            if others:
                rng.choice(others).append(target); return root, damaged_id, op
            continue
        if op == "topunknown":
            target.tag = ns + "noSuchIdentifiable"; return root, damaged_id, op
        if op == "nonamespace":
            e.tag = etree.QName(e).localname; return root, damaged_id, op          # same name, but in no namespace at all
        if op == "topnonamespace":
            target.tag = etree.QName(target).localname; return root, damaged_id, op
        if op == "emptychildren":
            if len(e) > 0:
                for ch in list(e):
                    e.remove(ch)
                return root, damaged_id, op
            continue
        if op == "dupchild":
            if len(e) > 0:
                e.append(copy.deepcopy(e[0])); return root, damaged_id, op         # two members with one identifying attribute
            continue
        if op == "retagchildren":
            if len(e) > 0:
                for ch in list(e):
                    if isinstance(ch.tag, str):
                        ch.tag = ns + "noSuchMember"
                return root, damaged_id, op
            continue
        if op == "hugeliteral":
            vt = e.getparent().find(ns + "valueType")
            if etree.QName(e).localname in ("value", "min", "max") and vt is not None and len(e) == 0:
                vt.text, e.text = rng.choice(OUT_OF_RANGE); return root, damaged_id, op
            continue
        if op == "delete":
            e.getparent().remove(e); return root, damaged_id, op
        if op == "emptytext" and len(e) == 0 and e.text:
            e.text = None; return root, damaged_id, op
        if op == "badtext" and len(e) == 0 and e.text:
            e.text = "12:99:xx!\x7f"; return root, damaged_id, op
        if op == "toolong" and len(e) == 0 and e.text:
            e.text = "x" * 5000; return root, damaged_id, op
        if op == "unknowntag":
            e.tag = ns + "noSuchElement"; return root, damaged_id, op
        if op == "wronglist" and len(e) > 0:
            e.append(etree.Element(ns + "property")); return root, damaged_id, op
    return None, None, None


def text_stream_declaration_check() -> List[C.Failing]:
    """(round 8, named by a seeding agent) a well-formed XML document handed over as a TEXT stream (the readers take paths and
    file objects, text or binary - the JSON reader documents both) that starts with an XML declaration naming an encoding:
    lxml refuses str input with an encoding declaration with ValueError, which leaves the reader in failsafe mode too."""
    c03._quiet()
    from basyx.aas.adapter.xml import read_aas_xml_file
    out: List[C.Failing] = []
    doc = ('<?xml version="1.0" encoding="UTF-8"?><aas:environment xmlns:aas="https://admin-shell.io/aas/3/0"><aas:submodels><aas:submodel>'
           '<aas:id>urn:ts</aas:id></aas:submodel></aas:submodels></aas:environment>')
    for failsafe in (True, False):
        try:
            got = list(read_aas_xml_file(io.StringIO(doc), failsafe=failsafe))
            if len(got) != 1:
                out.append(C.Failing("xml:text-stream-with-declaration:lost", f"failsafe={failsafe}: {len(got)} objects read", {"text_stream_declaration": failsafe}))
        except Exception as e:   # noqa
            if failsafe:
                out.append(C.Failing(f"failsafe:xml:text-stream-with-declaration:raises:{type(e).__name__}", "a well-formed XML document given as a text "
                                     f"stream that begins with an XML declaration naming an encoding: the failsafe reader raised {type(e).__name__} ({str(e)[:80]})",
                                     {"text_stream_declaration": True}))
    return out


def invalid_bytes_file_check() -> List[C.Failing]:
    """(session 6, found by C20's thorough tier) an XML FILE with a byte that is invalid in the document's encoding: reading from a
    file (path or open file object) lxml reports it as an I/O error (OSError), not as XMLSyntaxError - it leaves the failsafe reader."""
    c03._quiet()
    import tempfile, shutil
    from basyx.aas.adapter.xml import read_aas_xml_file
    out: List[C.Failing] = []
    d = tempfile.mkdtemp(prefix="verif-c09-")
    try:
        p = os.path.join(d, "x.xml")
        open(p, "wb").write(b'<aas:environment xmlns:aas="https://admin-shell.io/aas/3/0"><aas:submodels><aas:submodel><aas:id>urn:\xff</aas:id>'
                            b"</aas:submodel></aas:submodels></aas:environment>")
        try:
            list(read_aas_xml_file(p, failsafe=True))
        except Exception as e:   # noqa
            out.append(C.Failing(f"failsafe:xml:file-with-invalid-bytes:raises:{type(e).__name__}", "an XML file with a byte that is invalid in its encoding, "
                                 f"read from its path: the failsafe reader raised {type(e).__name__}", {"invalid_bytes_file": True}))
    finally:
        shutil.rmtree(d, ignore_errors=True)
    return out


def deep_nesting_check() -> List[C.Failing]:
    """(round 8, named by a seeding agent) a WELL-FORMED document may be nested deeper than the interpreter follows (collections
    within collections; XML has no such limit in lxml's parser, JSON has): failsafe reading does not raise, strict reading raises a
    documented kind.  Documents are built as text (the standard encoder itself gives up at these depths)."""
    c03._quiet()
    from basyx.aas.adapter.json import read_aas_json_file
    out: List[C.Failing] = []
    leaf = '{"modelType": "Property", "idShort": "p", "valueType": "xs:int", "value": "1"}'
    for depth in (900, 5000, 200000):
        doc = ('{"submodels": [{"modelType": "Submodel", "id": "urn:deep", "submodelElements": ['
               + '{"modelType": "SubmodelElementCollection", "idShort": "c", "value": [' * depth + leaf + "]}" * depth + "]}]}")
        for failsafe in (True, False):
            case = {"deep_nesting": depth, "failsafe": failsafe}
            try:
                list(read_aas_json_file(io.StringIO(doc), failsafe=failsafe))
                continue
            except (KeyError, ValueError, TypeError) as e:
                if not failsafe:
                    continue
                kind = type(e).__name__
            except BaseException as e:   # noqa
                kind = type(e).__name__
            out.append(C.Failing(f"{'failsafe' if failsafe else 'strict'}:json:deep-nesting:raises:{kind}",
                                 f"a well-formed JSON document with {depth} collections inside one another: the {'failsafe' if failsafe else 'strict'} "
                                 f"reader raised {kind}" + ("" if failsafe else " (not a documented kind)"), case))
    seen, uniq = set(), []
    for f in out:
        if f.sig not in seen:
            seen.add(f.sig); uniq.append(f)
    return uniq


def oracle(ctx: C.Ctx, cov: C.Coverage, n: Optional[int] = None, seed: Optional[int] = None) -> List[C.Failing]:
    out, sigs = [], set()
    seed = ctx.seed if seed is None else seed
    depth = 3 if ctx.tier == "quick" else 4
    for i in range(n or ctx.budget(120, 6000)):
        for fmt in ("json", "xml"):
            f = check_case({"seed": seed, "index": i, "fmt": fmt, "depth": depth})
            cov.hit("oracle:" + fmt)
            if f and f.sig not in sigs:
                sigs.add(f.sig); out.append(f)
    # directed: structural damage at EVERY element of a few documents (containers emptied, members renamed / removed / blanked)
    from basyx.aas import model as _m
    from basyx.aas.adapter.xml import xml_serialization as _xs
    from lxml import etree as _et
    chosen = []
    for i in range(60):            # documents that exercise the IEC 61360 content (mandatory language string sets, value lists)
        objs_, _ = make_doc(seed, i, depth)
        if b"dataSpecificationIec61360" in _et.tostring(_xs.object_store_to_xml_element(_m.DictObjectStore(objs_))):
            chosen.append(i)
        if len(chosen) >= (1 if ctx.tier == "quick" else 12):
            break
    for i in [-2] + (chosen[:6] if ctx.tier != "quick" else []):
        _, doc_ = make_doc(seed, i, depth)
        paths_ = [p for p in json_paths(doc_) if len(p) >= 3]
        for k in range(len(paths_)):
            is_list = isinstance(jget(doc_, paths_[k]), list)
            for op in JSON_SWEEP_OPS:
                if ctx.tier == "quick" and not ((is_list and op in STRUCT_SWEEP_OPS) or k % 30 == (seed % 30)):
                    continue          # quick: structural damage at every list, everything else at every 30th position
                f = check_case({"seed": seed, "index": i, "fmt": "json", "depth": depth, "sweep": [k, op]})
                cov.hit("oracle:json-sweep")
                if f and f.sig not in sigs:
                    sigs.add(f.sig); out.append(f)
    for i in [-2] + (chosen if ctx.tier != "quick" else []):
        objs_, _ = make_doc(seed, i, depth)
        root_ = _xs.object_store_to_xml_element(_m.DictObjectStore(objs_))
        nnodes = sum(1 for lst in root_ for t in lst for e in t.iter() if isinstance(e.tag, str) and e is not t)
        flat_ = [e for lst in root_ for t in lst for e in t.iter() if isinstance(e.tag, str) and e is not t]
        for k in range(nnodes):
            for op in SWEEP_OPS + ["dupchild"]:
                if ctx.tier == "quick" and not ((len(flat_[k]) > 0 and op in ("dupchild", "emptychildren")) or k % 30 == (seed % 30)):
                    continue
                f = check_case({"seed": seed, "index": i, "fmt": "xml", "depth": depth, "sweep": [k, op]})
                cov.hit("oracle:xml-sweep")
                if f and f.sig not in sigs:
                    sigs.add(f.sig); out.append(f)
    # not well-formed / non-AAS input: documented syntax error or empty result
    out += [f for f in garbage_checks(seed) if f.sig not in sigs]
    out += [f for f in foreign_forms_check() if f.sig not in sigs and f.sig not in {g.sig for g in out}]
    out += [f for f in duplicate_id_check() if f.sig not in {g.sig for g in out}]
    out += [f for f in blank_text_check() if f.sig not in {g.sig for g in out}]
    out += [f for f in deep_nesting_check() if f.sig not in {g.sig for g in out}]
    out += [f for f in text_stream_declaration_check() if f.sig not in {g.sig for g in out}]
    out += [f for f in invalid_bytes_file_check() if f.sig not in {g.sig for g in out}]
    return out


def foreign_forms_check() -> List[C.Failing]:
    """An undamaged identifiable written by ANOTHER tool — every valid lexical form of the typed values, not only the ones this
    SDK writes (table: c05.LEXICAL_FORMS) — next to a damaged one: it comes back complete, in both formats and both modes."""
    from props import c05
    from vf import canon
    from basyx.aas.adapter.json import read_aas_json_file
    from basyx.aas.adapter.xml import read_aas_xml_file
    out: List[C.Failing] = []
    forms = c05.LEXICAL_FORMS
    good = {"modelType": "Submodel", "id": "urn:forms", "submodelElements": [
        {"modelType": "Property", "idShort": f"f{j}", "valueType": xs, "value": lit} for j, (xs, lit, _) in enumerate(forms)]}
    bad = {"modelType": "Submodel", "id": "urn:damaged", "submodelElements": [
        {"modelType": "Property", "idShort": "p", "valueType": "xs:int", "value": "12x"}]}
    ns = "https://admin-shell.io/aas/3/0"

    def x(sm):
        els = "".join(f"<aas:property><aas:idShort>{e['idShort']}</aas:idShort><aas:valueType>{e['valueType']}</aas:valueType>"
                      f"<aas:value>{e['value']}</aas:value></aas:property>" for e in sm["submodelElements"])
        return f"<aas:submodel><aas:id>{sm['id']}</aas:id><aas:submodelElements>{els}</aas:submodelElements></aas:submodel>"
    xml = (f'<?xml version="1.0"?><aas:environment xmlns:aas="{ns}"><aas:submodels>{x(good)}{x(bad)}</aas:submodels>'
           f'</aas:environment>').encode()
    readers = {"json": lambda fs: list(read_aas_json_file(io.StringIO(json.dumps({"submodels": [good, bad]})), failsafe=fs)),
               "xml": lambda fs: list(read_aas_xml_file(io.BytesIO(xml), failsafe=fs))}
    for fmt, rd in readers.items():
        try:
            got = {o.id: o for o in rd(True)}
        except Exception as e:
            out.append(C.Failing(f"failsafe:{fmt}:raises:{root_cause(e)}", f"failsafe {fmt} reader raised on the foreign-forms document: {e!r}"[:200],
                                 {"foreign_forms": fmt}))
            continue
        sm = got.get("urn:forms")
        if sm is None:
            out.append(C.Failing(f"failsafe:{fmt}:undamaged-lost", "the undamaged submodel written with foreign lexical forms is missing",
                                 {"foreign_forms": fmt}))
            continue
        for j, (xs, lit, token) in enumerate(forms):
            try:
                v = sm.get_referable(f"f{j}").value
            except Exception:
                out.append(C.Failing(f"failsafe:{fmt}:undamaged-changed", f"property with the valid {xs} literal {lit!r} was dropped from an "
                                     f"undamaged submodel", {"foreign_forms": fmt}))
                break
            if canon.native(v) != token and not (token[2] == "nan" and canon.native(v)[2] == "nan"):
                out.append(C.Failing(f"failsafe:{fmt}:undamaged-changed", f"{xs} literal {lit!r} read as {canon.native(v)}, denotes {token}",
                                     {"foreign_forms": fmt}))
                break
    return out


BLANK_SIG = "failsafe:xml:blank-text-before-pi-or-comment:lost"


def blank_text_check() -> List[C.Failing]:
    """A text that consists of white space only, followed by a processing instruction or a comment inside the same element: the
    same infoset as without the noise (directed form of the 'pi' operator hitting such a leaf)."""
    from basyx.aas.adapter.xml import read_aas_xml_file
    c03._quiet()
    out: List[C.Failing] = []
    ns = "https://admin-shell.io/aas/3/0"
    for name, noise in (("pi", "<?vf noise?>"), ("comment", "<!-- note -->")):
        for text in ("  ", "\n", " \t "):
            xml = (f'<?xml version="1.0"?><aas:environment xmlns:aas="{ns}"><aas:submodels><aas:submodel><aas:displayName>'
                   f'<aas:langStringNameType><aas:language>en</aas:language><aas:text>{text}{noise}</aas:text></aas:langStringNameType>'
                   f'</aas:displayName><aas:id>urn:blank</aas:id></aas:submodel><aas:submodel><aas:id>urn:second</aas:id></aas:submodel>'
                   f'</aas:submodels></aas:environment>').encode()
            case = {"blank_text": [name, text]}
            try:
                got = {o.id: o for o in read_aas_xml_file(io.BytesIO(xml), failsafe=True)}
            except Exception as e:
                out.append(C.Failing(f"failsafe:xml:raises:{root_cause(e)}", f"failsafe xml reader raised on a blank text followed by a {name}: {e!r}"[:200], case))
                continue
            sm = got.get("urn:blank")
            dn = None if sm is None or sm.display_name is None else dict(sm.display_name)
            if "urn:second" not in got:
                out.append(C.Failing("failsafe:xml:undamaged-lost", f"second submodel missing next to a blank text followed by a {name}", case))
            elif dn != {"en": text}:
                out.append(C.Failing(BLANK_SIG, f"<aas:text>{text!r}{noise}</aas:text> (white-space-only text followed by a {name}) read as "
                                     f"{'a missing submodel' if sm is None else 'display_name ' + repr(dn)}, denotes {{'en': {text!r}}}", case))
    return out


def duplicate_id_check() -> List[C.Failing]:
    """two identifiables with one identifier in a document ("duplicate identifier" damage), for every combination of the readers'
    store parameters: failsafe keeps the FIRST (or what the store held, when told to ignore existing objects), returns the
    undamaged third one, and never raises; strict raises a documented kind"""
    import itertools
    from basyx.aas import model
    from basyx.aas.adapter.json import read_aas_json_file_into
    from basyx.aas.adapter.xml import read_aas_xml_file_into
    out: List[C.Failing] = []
    ns = "https://admin-shell.io/aas/3/0"
    jdoc = json.dumps({"submodels": [{"modelType": "Submodel", "id": "urn:d", "idShort": "first"},
                                     {"modelType": "Submodel", "id": "urn:d", "idShort": "second"},
                                     {"modelType": "Submodel", "id": "urn:other", "idShort": "third"}]})
    xdoc = (f'<?xml version="1.0"?><aas:environment xmlns:aas="{ns}"><aas:submodels>'
            + "".join(f"<aas:submodel><aas:idShort>{n}</aas:idShort><aas:id>{i}</aas:id></aas:submodel>"
                      for n, i in (("first", "urn:d"), ("second", "urn:d"), ("third", "urn:other")))
            + "</aas:submodels></aas:environment>").encode()
    for fmt, rep, ign, fs, pre in itertools.product(("json", "xml"), (False, True), (False, True), (True, False), (False, True)):
        if pre and not (rep or ign):
            continue        # a collision with the receiving store and neither flag set: documented KeyError in every mode
        st = model.DictObjectStore()
        if pre:
            st.add(model.Submodel("urn:d", id_short="pre"))
        case = {"duplicate_id": [fmt, rep, ign, fs, pre]}
        try:
            if fmt == "json":
                read_aas_json_file_into(st, io.StringIO(jdoc), replace_existing=rep, ignore_existing=ign, failsafe=fs)
            else:
                read_aas_xml_file_into(st, io.BytesIO(xdoc), replace_existing=rep, ignore_existing=ign, failsafe=fs)
        except Exception as e:
            if fs:
                out.append(C.Failing(f"failsafe:{fmt}:raises:{root_cause(e)}", f"failsafe {fmt} reader raised {type(e).__name__} on a document "
                                     f"with a duplicate identifier (replace_existing={rep}, ignore_existing={ign})", case))
            elif not any(c.__name__ in DOCUMENTED for c in type(e).__mro__):
                out.append(C.Failing(f"strict:{fmt}:undocumented:{type(e).__name__}", "duplicate identifier", case))
            continue
        if not fs and pre and ign and not rep:
            pass            # both copies are ignored in favour of the object the store holds: nothing was read twice
        elif not fs:
            out.append(C.Failing(f"strict:{fmt}:differs-from-failsafe", f"strict {fmt} reader accepted a document with a duplicate identifier "
                                 f"(replace_existing={rep}, ignore_existing={ign}, pre-populated={pre})", case))
            continue
        if not fs and not (pre and ign and not rep):
            continue
        want = "pre" if (pre and not rep and ign) else "first"
        got = st.get("urn:d")
        if got is None or got.id_short != want or st.get("urn:other") is None:
            out.append(C.Failing(f"failsafe:{fmt}:undamaged-lost" if got is None or st.get("urn:other") is None else f"failsafe:{fmt}:undamaged-changed",
                                 f"duplicate identifier (replace_existing={rep}, ignore_existing={ign}, pre-populated={pre}): the store holds "
                                 f"{getattr(got, 'id_short', None)!r} under the id, the {'object it held before' if want == 'pre' else 'first (undamaged) one'} "
                                 f"should be there", case))
    return out


def garbage_checks(seed: int) -> List[C.Failing]:
    from basyx.aas.adapter.json import read_aas_json_file
    from basyx.aas.adapter.xml import read_aas_xml_file
    from lxml import etree
    rng = random.Random(f"C09garbage:{seed}")
    out = []
    samples = [b"", b"{", b"[1,2", b'{"submodels": 3}', b'{"a": {"b": [1, {"modelType": 5}]}}', b"<a>", b"<a/>", b"\xff\xfe\x00",
               b'<?xml version="1.0"?><x xmlns="https://admin-shell.io/aas/3/0"><submodels>text</submodels></x>',
               bytes(rng.randrange(256) for _ in range(40)), b'[]', b'"str"', b'null', b'{"submodels": [null, 1, "x", [], {}]}']
    for s in samples:
        for failsafe in (True, False):
            try:
                try:
                    text = s.decode("utf-8")
                except UnicodeDecodeError:
                    text = None
                if text is not None:
                    list(read_aas_json_file(io.StringIO(text), failsafe=failsafe))
            except json.JSONDecodeError:
                pass
            except Exception as e:
                if failsafe or not any(c.__name__ in DOCUMENTED for c in type(e).__mro__):
                    out.append(C.Failing(f"garbage:json:{'failsafe' if failsafe else 'strict'}:{type(e).__name__}",
                                         f"JSON reader raised {type(e).__name__} on {s[:40]!r}", {"garbage": s.decode('latin-1'), "fmt": "json", "failsafe": failsafe}))
            try:
                list(read_aas_xml_file(io.BytesIO(s), failsafe=failsafe))
            except etree.XMLSyntaxError:
                if failsafe:
                    out.append(C.Failing("garbage:xml:failsafe:XMLSyntaxError", f"failsafe XML reader raised on {s[:40]!r}",
                                         {"garbage": s.decode('latin-1'), "fmt": "xml", "failsafe": True}))
            except Exception as e:
                if failsafe or not any(c.__name__ in DOCUMENTED for c in type(e).__mro__):
                    out.append(C.Failing(f"garbage:xml:{'failsafe' if failsafe else 'strict'}:{type(e).__name__}",
                                         f"XML reader raised {type(e).__name__} on {s[:40]!r}", {"garbage": s.decode('latin-1'), "fmt": "xml", "failsafe": failsafe}))
    seen, uniq = set(), []
    for f in out:
        if f.sig not in seen:
            seen.add(f.sig); uniq.append(f)
    return uniq


def search(ctx: C.Ctx, disagreements, broken) -> List[C.Failing]:
    found = []
    for d in disagreements:
        if isinstance(d.case, dict) and "index" in d.case:
            f = check_case(d.case)
            if f:
                found.append(f)
    return found or oracle(ctx, C.Coverage(), n=2500, seed=ctx.seed + 7919)


def replay(case) -> Optional[C.Failing]:
    if isinstance(case, dict) and "invalid_bytes_file" in case:
        return (invalid_bytes_file_check() or [None])[0]
    if isinstance(case, dict) and "text_stream_declaration" in case:
        fs_ = [f for f in text_stream_declaration_check() if f.case == case]
        return fs_[0] if fs_ else None
    if isinstance(case, dict) and "deep_nesting" in case:
        fs_ = [f for f in deep_nesting_check() if f.case.get("failsafe") == case["failsafe"]]
        return fs_[0] if fs_ else None
    if isinstance(case, dict) and "duplicate_id" in case:
        fs_ = [f for f in duplicate_id_check() if f.case.get("duplicate_id") == case["duplicate_id"]]
        return fs_[0] if fs_ else None
    if isinstance(case, dict) and "blank_text" in case:
        fs_ = [f for f in blank_text_check() if f.case.get("blank_text") == case["blank_text"]]
        return fs_[0] if fs_ else None
    if isinstance(case, dict) and "foreign_forms" in case:
        fs = [f for f in foreign_forms_check() if f.case.get("foreign_forms") == case["foreign_forms"]]
        return fs[0] if fs else None
    if "garbage" in case:
        fs = [f for f in garbage_checks(0) if f.case.get("garbage") == case["garbage"] and f.case.get("fmt") == case["fmt"]
              and f.case.get("failsafe") == case["failsafe"]]
        return fs[0] if fs else None
    return check_case({k: v for k, v in case.items() if k not in ("op", "path")})
