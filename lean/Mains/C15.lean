import Basyx.Driver.Loop
import Basyx.Driver.FileStore
def main : IO Unit := Basyx.Driver.runMain Basyx.FileStore.init Basyx.Driver.FileStore.handle
