import Basyx.Driver.Loop
import Basyx.Driver.Repo
def main : IO Unit := Basyx.Driver.runMain ({} : Basyx.Repo.St) Basyx.Driver.Repo.handle
