import Basyx.Driver.Loop
import Basyx.Driver.Codec
import Basyx.Gen.XmlTable
def main : IO Unit := Basyx.Driver.runMain () (Basyx.Driver.Codec.handle Basyx.Gen.Xml.xmlTable)
