import Basyx.Driver.Loop
import Basyx.Driver.Store
def main : IO Unit := Basyx.Driver.runMain ({} : Basyx.Driver.Store.W) Basyx.Driver.Store.handle
