import Basyx.Driver.Loop
import Basyx.Driver.Lex
def main : IO Unit := Basyx.Driver.runMain () Basyx.Driver.Lex.handle
