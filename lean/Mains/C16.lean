import Basyx.Driver.Loop
import Basyx.Driver.Couch
def main : IO Unit := Basyx.Driver.runMain ({} : Basyx.Driver.Couch.St) Basyx.Driver.Couch.handle
