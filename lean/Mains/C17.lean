import Basyx.Driver.Loop
import Basyx.Driver.Tree
def main : IO Unit := Basyx.Driver.runMain ({} : Basyx.Driver.Tree.W) Basyx.Driver.Tree.handle
