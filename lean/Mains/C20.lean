import Basyx.Driver.Loop
import Basyx.Driver.Compliance
def main : IO Unit := Basyx.Driver.runMain () Basyx.Driver.Compliance.handle
