import Basyx.Driver.Loop
import Basyx.Driver.Aasx
def main : IO Unit := Basyx.Driver.runMain () Basyx.Driver.Aasx.handle
