import Basyx.Driver.Loop
import Basyx.Driver.Failsafe
def main : IO Unit := Basyx.Driver.runMain () Basyx.Driver.Failsafe.handle
