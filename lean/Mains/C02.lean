import Basyx.Driver.Loop
import Basyx.Driver.Constraints
def main : IO Unit := Basyx.Driver.runMain Basyx.Driver.Constraints.init Basyx.Driver.Constraints.handle
