import Basyx.Driver.Loop
import Basyx.Driver.Update
def main : IO Unit := Basyx.Driver.runMain () Basyx.Driver.Update.handle
