import Basyx.Driver.Loop
import Basyx.Driver.Files
def main : IO Unit := Basyx.Driver.runMain Basyx.Files.init Basyx.Driver.Files.handle
