import Basyx.Driver.Loop
import Basyx.Driver.Ns
def main : IO Unit := Basyx.Driver.runMain Basyx.Ns.init Basyx.Driver.Ns.handle
