/-
  Line-protocol driver.  One JSON array per input line: ["<model>", "<op>", args...]; ["reset","<model>"]
  starts a new history for that model.  One JSON value per output line.
  Run:  lake env lean --run Main.lean < ops.jsonl
-/
import Basyx.Driver.All
open Lean Basyx.Driver

structure World where
  files : Basyx.Files.St := Basyx.Files.init

def dispatch (w : World) (j : Json) : World × Json :=
  match jarr j with
  | .str "reset" :: .str m :: _ =>
    match m with
    | "files" => ({ w with files := Basyx.Files.init }, Json.arr #["reset"])
    | _ => (w, Json.arr #["bad-model"])
  | .str "files" :: .str op :: args =>
    let (s, o) := Files.handle w.files op args; ({ w with files := s }, o)
  | _ => (w, Json.arr #["bad-line"])

partial def loop (h : IO.FS.Stream) (out : IO.FS.Stream) (w : World) : IO Unit := do
  let line ← h.getLine
  if line.isEmpty then return ()
  match Json.parse line with
  | .error e => out.putStrLn (Json.arr #["parse-error", e]).compress; loop h out w
  | .ok j =>
    let (w', o) := dispatch w j
    out.putStrLn o.compress
    loop h out w'

def main : IO Unit := do
  let out ← IO.getStdout
  loop (← IO.getStdin) out {}
