import Basyx.Model.AList
import Basyx.Model.Files
import Basyx.Lemmas.Files
import Basyx.Props.C19
import Basyx.Driver.All
