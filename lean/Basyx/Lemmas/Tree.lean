/- Helper lemmas for the tree model (C07, C17). -/
import Basyx.Model.Tree
namespace Basyx.Tree

/-- decidable equality of results, for the `decide` examples in the Props files -/
instance instDecEqExcept {ε α : Type} [DecidableEq ε] [DecidableEq α] : DecidableEq (Except ε α)
  | .ok a, .ok b => if h : a = b then isTrue (by rw [h]) else isFalse (by intro h'; cases h'; exact h rfl)
  | .error a, .error b => if h : a = b then isTrue (by rw [h]) else isFalse (by intro h'; cases h'; exact h rfl)
  | .ok _, .error _ => isFalse (by intro h; cases h)
  | .error _, .ok _ => isFalse (by intro h; cases h)

/-! ### strings -/

theorem dropWhile_of_head {p : Char → Bool} {c : Char} {l : List Char} (h : p c = false) :
    (c :: l).dropWhile p = c :: l := by simp [List.dropWhile, h]

theorem isDigit_bounds {c : Char} (h : c.isDigit = true) : 48 ≤ c.toNat ∧ c.toNat ≤ 57 := by
  simp only [Char.isDigit, Bool.and_eq_true, decide_eq_true_eq] at h
  exact ⟨UInt32.le_iff_toNat_le.1 h.1, UInt32.le_iff_toNat_le.1 h.2⟩

theorem isDigit_not_space {c : Char} (h : c.isDigit = true) : isSpace c = false := by
  have hb := isDigit_bounds h
  have hne : c ≠ ' ' := by intro hc; subst hc; exact absurd hb.1 (by decide)
  simp only [isSpace, Bool.or_eq_false_iff, Bool.and_eq_false_iff, decide_eq_false_iff_not, Nat.not_le]
  exact ⟨⟨hne, by omega⟩, by omega⟩

theorem isDigit_props {c : Char} (h : c.isDigit = true) : c ≠ '-' ∧ c ≠ '+' ∧ c ≠ '_' := by
  have hb := isDigit_bounds h
  refine ⟨?_, ?_, ?_⟩ <;> (intro hc; subst hc; exact absurd hb (by decide))

theorem digitVal_of_isDigit {c : Char} (h : c.isDigit = true) : digitVal c = some (c.toNat - 48) := by
  simp [digitVal, h]

theorem parseDigits_digits : ∀ (l : Str) (acc : Nat) (prev : Bool), (∀ c ∈ l, c.isDigit = true) →
    (l ≠ [] ∨ prev = true) → parseDigits l acc prev = some (Nat.ofDigitChars 10 l acc)
  | [], acc, prev, _, hne => by
    rcases hne with h | h
    · exact absurd rfl h
    · simp [parseDigits, h]
  | c :: cs, acc, prev, hd, _ => by
    have hc : c.isDigit = true := hd c (by simp)
    have := parseDigits_digits cs (10 * acc + (c.toNat - 48)) true (fun x hx => hd x (by simp [hx])) (Or.inr rfl)
    simp [parseDigits, (isDigit_props hc).2.2, digitVal_of_isDigit hc, this, Nat.ofDigitChars_cons]

theorem natStr_isDigit {i : Nat} {c : Char} (h : c ∈ natStr i) : c.isDigit = true :=
  Nat.isDigit_of_mem_toDigits (by decide) (by decide) h

theorem natStr_ne_nil (i : Nat) : natStr i ≠ [] := Nat.toDigits_ne_nil

theorem strip_digits {l : Str} (hd : ∀ c ∈ l, c.isDigit = true) : strip l = l := by
  unfold strip
  cases l with
  | nil => rfl
  | cons c cs =>
    rw [dropWhile_of_head (isDigit_not_space (hd c (by simp)))]
    cases hr : (c :: cs).reverse with
    | nil => simp at hr
    | cons d ds =>
      have hdm : d ∈ c :: cs := by
        have : d ∈ (c :: cs).reverse := by rw [hr]; simp
        exact List.mem_reverse.1 this
      rw [dropWhile_of_head (isDigit_not_space (hd d hdm)), ← hr, List.reverse_reverse]

theorem pyInt_natStr (i : Nat) : pyInt (natStr i) = some (i : Int) := by
  have hd : ∀ c ∈ natStr i, c.isDigit = true := fun c h => natStr_isDigit h
  unfold pyInt
  rw [strip_digits hd]
  cases h : natStr i with
  | nil => exact absurd h (natStr_ne_nil i)
  | cons c r =>
    have hc : c.isDigit = true := hd c (by rw [h]; simp)
    have hp := parseDigits_digits (c :: r) 0 false (by rw [← h]; exact hd) (Or.inl (by simp))
    have hv : Nat.ofDigitChars 10 (c :: r) 0 = i := by rw [← h]; exact Nat.ofDigitChars_ten_toDigits
    simp [(isDigit_props hc).1, (isDigit_props hc).2.1, hp, hv]

theorem isNumeric_natStr (i : Nat) : isNumeric (natStr i) = true := by
  have hne := natStr_ne_nil i
  simp only [isNumeric, Bool.and_eq_true, Bool.not_eq_true', List.all_eq_true]
  refine ⟨by cases h : natStr i <;> simp_all, ?_⟩
  intro c hc
  simp [isNumericChar, digitVal_of_isDigit (natStr_isDigit hc)]

theorem aasd130_of_isDigit {c : Char} (h : c.isDigit = true) : aasd130Char c = true := by
  have hb := isDigit_bounds h
  simp only [aasd130Char, Bool.or_eq_true, Bool.and_eq_true, decide_eq_true_eq]
  omega

theorem validIdentifier_natStr {i : Nat} (h : i < 10 ^ 2000) : validIdentifier (natStr i) = true := by
  have hl : (natStr i).length ≤ 2000 := (Nat.length_toDigits_le_iff (by decide) (by decide)).2 h
  have hp : 1 ≤ (natStr i).length := Nat.length_toDigits_pos
  simp only [validIdentifier, Bool.and_eq_true, decide_eq_true_eq, List.all_eq_true]
  exact ⟨⟨hp, hl⟩, fun c hc => aasd130_of_isDigit (natStr_isDigit hc)⟩


/-! ### well-formed trees (specification side) -/

/-- what the SDK's containers guarantee locally for a node (AASd-117/022/120, NamespaceSet uniqueness) -/
def NodeOK (t : Tree) : Prop :=
  (t.children ≠ [] → isNamespace t.kind = true)
  ∧ (∀ c ∈ t.children, isIdentifiable c.kind = false)
  ∧ (t.kind ≠ .list → (∀ c ∈ t.children, ∃ s, c.idShort = some s ∧ validIdentifier s = true)
      ∧ (t.children.map (·.idShort)).Nodup)
  ∧ (natStr t.children.length).length ≤ 2000

instance (t : Tree) : Decidable (NodeOK t) := by unfold NodeOK; infer_instance

/-- every node of the subtree is locally fine -/
def WFSub (t : Tree) : Prop := ∀ p n, sub t p = some n → NodeOK n

/-- a well-formed identifiable with everything below it -/
def WF (root : Tree) : Prop :=
  isIdentifiable root.kind = true ∧ validIdentifier root.ident = true ∧ WFSub root

theorem sub_cons {t c : Tree} {i : Nat} (h : t.children[i]? = some c) (p : Path) : sub t (i :: p) = sub c p := by
  simp [sub, h]

theorem sub_cons_none {t : Tree} {i : Nat} (h : t.children[i]? = none) (p : Path) : sub t (i :: p) = none := by
  simp [sub, h]

theorem sub_append : ∀ (p q : Path) (t : Tree), sub t (p ++ q) = (sub t p).bind (fun n => sub n q)
  | [], q, t => by simp [sub]
  | i :: p, q, t => by
    cases h : t.children[i]? with
    | none => simp [sub, h]
    | some c => simp [sub, h, sub_append p q c]

theorem WFSub.node {t : Tree} (h : WFSub t) : NodeOK t := h [] t rfl

theorem WFSub.child {t c : Tree} {i : Nat} (h : WFSub t) (hc : t.children[i]? = some c) : WFSub c :=
  fun p n hn => h (i :: p) n (by rw [sub_cons hc]; exact hn)

theorem WFSub.sub {t n : Tree} (h : WFSub t) {p : Path} (hn : sub t p = some n) : WFSub n :=
  fun q m hm => h (p ++ q) m (by rw [sub_append, hn]; exact hm)

/-- canonical segment for the step from `t` to its `i`-th child `c`: `str(i)` under a list, the id_short otherwise -/
def stepSeg (t : Tree) (i : Nat) (c : Tree) : Option Str :=
  if t.kind = .list then some (natStr i) else c.idShort

/-- the canonical idShort/index path of the node at `p` below `t` -/
def segsAlong : Tree → Path → Option (List Str)
  | _, [] => some []
  | t, i :: p => match t.children[i]? with
    | none => none
    | some c => match stepSeg t i c, segsAlong c p with
      | some s, some r => some (s :: r)
      | _, _ => none

/-- the step `s` taken at `t` leads to child `i` (`c`): what "the key denotes this element" means -/
def StepOK (t : Tree) (s : Str) (i : Nat) (c : Tree) : Prop :=
  t.children[i]? = some c ∧ isNamespace t.kind = true ∧
    (if t.kind = .list then pyInt s = some (i : Int) else c.idShort = some s)

/-- `segs` leads from `t` to the node at `p`, step by step -/
def StepsMatch : Tree → Path → List Str → Prop
  | _, [], [] => True
  | t, i :: p, s :: segs => ∃ c, StepOK t s i c ∧ StepsMatch c p segs
  | _, _, _ => False

theorem findChild_of_nodup {cs : List Tree} {i : Nat} {c : Tree} {s : Str}
    (hn : (cs.map (·.idShort)).Nodup) (hc : cs[i]? = some c) (hs : c.idShort = some s) :
    findChild cs s = some i := by
  have hi : i < cs.length := by
    rcases List.getElem?_eq_some_iff.1 hc with ⟨h, _⟩; exact h
  have hci : cs[i] = c := by
    rcases List.getElem?_eq_some_iff.1 hc with ⟨_, h⟩; exact h
  unfold findChild
  rw [List.findIdx?_eq_some_iff_getElem]
  refine ⟨hi, by simp [hci, hs], ?_⟩
  intro j hji hp
  have hj : j < cs.length := Nat.lt_trans hji hi
  have hjs : cs[j].idShort = some s := by simpa using hp
  have : (cs.map (·.idShort))[j]'(by simpa using hj) = (cs.map (·.idShort))[i]'(by simpa using hi) := by
    simp [hjs, hci, hs]
  have := (List.getElem_inj hn).1 this
  omega

theorem findChild_some {cs : List Tree} {s : Str} {k : Nat} (h : findChild cs s = some k) :
    ∃ c, cs[k]? = some c ∧ c.idShort = some s := by
  unfold findChild at h
  rw [List.findIdx?_eq_some_iff_getElem] at h
  rcases h with ⟨hk, hp, _⟩
  exact ⟨cs[k], by simp [hk], by simpa using hp⟩

theorem findChild_none {cs : List Tree} {s : Str} (h : findChild cs s = none) :
    ∀ c ∈ cs, c.idShort ≠ some s := by
  unfold findChild at h
  rw [List.findIdx?_eq_none_iff] at h
  intro c hc; simpa using h c hc

@[simp] theorem isNamespace_list : isNamespace Kind.list = true := by decide

/-- one successful step of `get_referable` -/
theorem getReferable_step {t c : Tree} {s : Str} {i : Nat} (rest : List Str)
    (hok : StepOK t s i c) (huniq : t.kind ≠ .list → findChild t.children s = some i) :
    getReferable t (s :: rest) = (getReferable c rest).map (i :: ·) := by
  rcases hok with ⟨hc, hns, hstep⟩
  by_cases hl : t.kind = .list
  · simp only [hl, if_true] at hstep
    have hns' : isNamespace Kind.list = true := by decide
    have hneg : ¬ ((i : Int) < 0) := by omega
    simp [getReferable, hns', hl, hstep, hc, hneg]
  · simp only [hl, if_false] at hstep
    simp [getReferable, hns, hl, huniq hl, hc]


/-- under a non-list parent of a well-formed tree the id_short determines the child -/
theorem stepOK_findChild {t c : Tree} {s : Str} {i : Nat} (hw : NodeOK t) (hok : StepOK t s i c) :
    t.kind ≠ .list → findChild t.children s = some i := by
  intro hl
  rcases hok with ⟨hc, _, hstep⟩
  simp only [hl, if_false] at hstep
  exact findChild_of_nodup (hw.2.2.1 hl).2 hc hstep

/-- completeness of `get_referable`: a matching chain of steps is found -/
theorem getReferable_complete : ∀ (segs : List Str) (t : Tree) (p : Path), WFSub t → StepsMatch t p segs →
    getReferable t segs = .ok p
  | [], t, [], _, _ => by simp [getReferable]
  | [], _, _ :: _, _, h => by simp [StepsMatch] at h
  | _ :: _, _, [], _, h => by simp [StepsMatch] at h
  | s :: segs, t, i :: p, hw, h => by
    rcases h with ⟨c, hok, hrest⟩
    rw [getReferable_step segs hok (stepOK_findChild hw.node hok),
      getReferable_complete segs c p (hw.child hok.1) hrest]
    rfl

/-- soundness of `get_referable` (any tree): what it returns is reached by steps that match the segments -/
theorem getReferable_sound : ∀ (segs : List Str) (t : Tree) (p : Path), getReferable t segs = .ok p →
    StepsMatch t p segs
  | [], t, p, h => by
    simp [getReferable] at h; subst h; simp [StepsMatch]
  | s :: rest, t, p, h => by
    unfold getReferable at h
    by_cases hns : isNamespace t.kind = true
    · simp only [hns, Bool.not_true, Bool.false_eq_true, if_false] at h
      by_cases hl : t.kind = .list
      · simp only [hl, if_true] at h
        cases hi : pyInt s with
        | none => simp [hi] at h
        | some i =>
          simp only [hi] at h
          by_cases hneg : i < 0
          · simp [hneg] at h
          · simp only [hneg, if_false] at h
            cases hc : t.children[i.toNat]? with
            | none => simp [hc] at h
            | some c =>
              simp only [hc] at h
              cases hr : getReferable c rest with
              | error e => simp [hr, Except.map] at h
              | ok q =>
                simp only [hr, Except.map, Except.ok.injEq] at h
                subst h
                have hii : ((i.toNat : Nat) : Int) = i := by omega
                exact ⟨c, ⟨hc, hns, by simp [hl, hi, hii]⟩, getReferable_sound rest c q hr⟩
      · simp only [hl, if_false] at h
        cases hf : findChild t.children s with
        | none => simp [hf] at h
        | some k =>
          simp only [hf] at h
          cases hc : t.children[k]? with
          | none => simp [hc] at h
          | some c =>
            simp only [hc] at h
            cases hr : getReferable c rest with
            | error e => simp [hr, Except.map] at h
            | ok q =>
              simp only [hr, Except.map, Except.ok.injEq] at h
              subst h
              rcases findChild_some hf with ⟨c', hc', hs'⟩
              have : c' = c := by rw [hc] at hc'; exact (Option.some.inj hc').symm
              subst this
              exact ⟨c', ⟨hc, hns, by simp [hl, hs']⟩, getReferable_sound rest c' q hr⟩
    · simp [hns] at h

/-- a chain of matching steps ends at a node of the tree -/
theorem StepsMatch.sub_some : ∀ (segs : List Str) (t : Tree) (p : Path), StepsMatch t p segs → ∃ n, sub t p = some n
  | [], t, [], _ => ⟨t, rfl⟩
  | [], _, _ :: _, h => by simp [StepsMatch] at h
  | _ :: _, _, [], h => by simp [StepsMatch] at h
  | _ :: segs, t, i :: p, h => by
    rcases h with ⟨c, hok, hrest⟩
    rcases StepsMatch.sub_some segs c p hrest with ⟨n, hn⟩
    exact ⟨n, by rw [sub_cons hok.1]; exact hn⟩

/-- in a well-formed tree a segment list denotes at most one element -/
theorem StepsMatch.unique {t : Tree} {p q : Path} {segs : List Str} (hw : WFSub t)
    (hp : StepsMatch t p segs) (hq : StepsMatch t q segs) : p = q := by
  have h1 := getReferable_complete segs t p hw hp
  have h2 := getReferable_complete segs t q hw hq
  rw [h1] at h2
  exact Except.ok.inj h2

/-- the canonical path of a node matches, step by step -/
theorem segsAlong_matches : ∀ (p : Path) (t n : Tree), WFSub t → sub t p = some n →
    ∃ segs, segsAlong t p = some segs ∧ StepsMatch t p segs
  | [], t, n, _, _ => ⟨[], rfl, by simp [StepsMatch]⟩
  | i :: p, t, n, hw, hn => by
    cases hc : t.children[i]? with
    | none => rw [sub_cons_none hc] at hn; cases hn
    | some c =>
      rw [sub_cons hc] at hn
      rcases segsAlong_matches p c n (hw.child hc) hn with ⟨r, hr, hm⟩
      have hne : t.children ≠ [] := by intro h; rw [h] at hc; simp at hc
      have hns := hw.node.1 hne
      by_cases hl : t.kind = .list
      · refine ⟨natStr i :: r, by simp [segsAlong, hc, stepSeg, hl, hr], c, ⟨hc, hns, ?_⟩, hm⟩
        simp [hl, pyInt_natStr]
      · have hmem : c ∈ t.children := List.mem_of_getElem? hc
        rcases (hw.node.2.2.1 hl).1 c hmem with ⟨s, hs, _⟩
        refine ⟨s :: r, by simp [segsAlong, hc, stepSeg, hl, hr, hs], c, ⟨hc, hns, ?_⟩, hm⟩
        simp [hl, hs]

/-- why a lookup fails -/
inductive Fails : Tree → List Str → Err → Prop
  | notNamespace {t s rest} : isNamespace t.kind = false → Fails t (s :: rest) .typeError
  | notAnInteger {t s rest} : isNamespace t.kind = true → t.kind = .list → pyInt s = none → Fails t (s :: rest) .valueError
  | noSuchPosition {t s rest} (i : Int) : isNamespace t.kind = true → t.kind = .list → pyInt s = some i →
      (i < 0 ∨ t.children.length ≤ i.toNat) → Fails t (s :: rest) .keyError
  | unknownIdShort {t s rest} : isNamespace t.kind = true → t.kind ≠ .list → (∀ c ∈ t.children, c.idShort ≠ some s) →
      Fails t (s :: rest) .keyError
  | deeper {t s rest e} (i : Nat) (c : Tree) : StepOK t s i c → Fails c rest e → Fails t (s :: rest) e

theorem getReferable_fails : ∀ (segs : List Str) (t : Tree) (e : Err), getReferable t segs = .error e → Fails t segs e
  | [], t, e, h => by simp [getReferable] at h
  | s :: rest, t, e, h => by
    unfold getReferable at h
    by_cases hns : isNamespace t.kind = true
    · simp only [hns, Bool.not_true, Bool.false_eq_true, if_false] at h
      by_cases hl : t.kind = .list
      · simp only [hl, if_true] at h
        cases hi : pyInt s with
        | none => simp only [hi, Except.error.injEq] at h; subst h; exact .notAnInteger hns hl hi
        | some i =>
          simp only [hi] at h
          by_cases hneg : i < 0
          · simp only [hneg, if_true, Except.error.injEq] at h; subst h
            exact .noSuchPosition i hns hl hi (Or.inl hneg)
          · simp only [hneg, if_false] at h
            cases hc : t.children[i.toNat]? with
            | none =>
              simp only [hc, Except.error.injEq] at h; subst h
              exact .noSuchPosition i hns hl hi (Or.inr (by simpa using hc))
            | some c =>
              simp only [hc] at h
              cases hr : getReferable c rest with
              | ok q => simp [hr, Except.map] at h
              | error e' =>
                simp only [hr, Except.map, Except.error.injEq] at h; subst h
                have hii : ((i.toNat : Nat) : Int) = i := by omega
                exact .deeper i.toNat c ⟨hc, hns, by simp [hl, hi, hii]⟩ (getReferable_fails rest c _ hr)
      · simp only [hl, if_false] at h
        cases hf : findChild t.children s with
        | none =>
          simp only [hf, Except.error.injEq] at h; subst h
          exact .unknownIdShort hns hl (findChild_none hf)
        | some k =>
          simp only [hf] at h
          rcases findChild_some hf with ⟨c, hc, hs⟩
          simp only [hc] at h
          cases hr : getReferable c rest with
          | ok q => simp [hr, Except.map] at h
          | error e' =>
            simp only [hr, Except.map, Except.error.injEq] at h; subst h
            exact .deeper k c ⟨hc, hns, by simp [hl, hs]⟩ (getReferable_fails rest c _ hr)
    · have hns' : isNamespace t.kind = false := by simpa using hns
      simp only [hns', Bool.not_false, if_true, Except.error.injEq] at h; subst h
      exact .notNamespace hns'

/-- conversely, in a well-formed tree each reason produces exactly that error -/
theorem fails_getReferable {t : Tree} {segs : List Str} {e : Err} (hw : WFSub t) (h : Fails t segs e) :
    getReferable t segs = .error e := by
  induction h with
  | notNamespace hns => simp [getReferable, hns]
  | notAnInteger hns hl hi => simp [getReferable, hns, hl, hi]
  | noSuchPosition i hns hl hi hbad =>
    rcases hbad with hneg | hlen
    · simp [getReferable, hns, hl, hi, hneg]
    · by_cases hneg : i < 0
      · simp [getReferable, hns, hl, hi, hneg]
      · simp [getReferable, hns, hl, hi, hneg, List.getElem?_eq_none hlen]
  | @unknownIdShort t s rest hns hl hnone =>
    have : findChild t.children s = none := by
      unfold findChild; rw [List.findIdx?_eq_none_iff]; intro c hc; simpa using hnone c hc
    simp [getReferable, hns, hl, this]
  | deeper i c hok _ ih =>
    rw [getReferable_step _ hok (stepOK_findChild hw.node hok), ih (hw.child hok.1)]
    rfl


/-! ### from_referable -/

/-- the keys below `t` along `p` (specification side, descending) -/
def stepKeysBelow : Tree → Path → Option (List Key)
  | _, [] => some []
  | t, i :: p => match t.children[i]? with
    | none => none
    | some c => match stepSeg t i c, stepKeysBelow c p with
      | some s, some r => some (⟨keyTypeOf c.kind, s⟩ :: r)
      | _, _ => none

theorem stepKeysBelow_values : ∀ (p : Path) (t : Tree) (ks : List Key), stepKeysBelow t p = some ks →
    segsAlong t p = some (ks.map (·.value))
  | [], _, ks, h => by simp [stepKeysBelow] at h; subst h; rfl
  | i :: p, t, ks, h => by
    unfold stepKeysBelow at h
    cases hc : t.children[i]? with
    | none => simp [hc] at h
    | some c =>
      simp only [hc] at h
      cases hs : stepSeg t i c with
      | none => simp [hs] at h
      | some s =>
        cases hr : stepKeysBelow c p with
        | none => simp [hs, hr] at h
        | some r =>
          simp only [hs, hr, Option.some.injEq] at h; subst h
          simp [segsAlong, hc, hs, stepKeysBelow_values p c r hr]

theorem segsAlong_stepKeysBelow : ∀ (p : Path) (t : Tree) (segs : List Str), segsAlong t p = some segs →
    ∃ ks, stepKeysBelow t p = some ks ∧ ks.map (·.value) = segs
  | [], _, segs, h => by simp [segsAlong] at h; subst h; exact ⟨[], rfl, rfl⟩
  | i :: p, t, segs, h => by
    unfold segsAlong at h
    cases hc : t.children[i]? with
    | none => simp [hc] at h
    | some c =>
      simp only [hc] at h
      cases hs : stepSeg t i c with
      | none => simp [hs] at h
      | some s =>
        cases hr : segsAlong c p with
        | none => simp [hs, hr] at h
        | some r =>
          simp only [hs, hr, Option.some.injEq] at h; subst h
          rcases segsAlong_stepKeysBelow p c r hr with ⟨ks, hk, hv⟩
          exact ⟨⟨keyTypeOf c.kind, s⟩ :: ks, by simp [stepKeysBelow, hc, hs, hk], by simp [hv]⟩

/-- `Key.from_referable` of a non-root node of a well-formed tree -/
theorem keyOf_child {t c : Tree} {i : Nat} {s : Str} (here : Path) (hw : NodeOK t) (hc : t.children[i]? = some c)
    (hs : stepSeg t i c = some s) : keyOf ⟨some (t, i), c, here⟩ = .ok ⟨keyTypeOf c.kind, s⟩ := by
  have hmem : c ∈ t.children := List.mem_of_getElem? hc
  have hni : isIdentifiable c.kind = false := hw.2.1 c hmem
  have hi : i < t.children.length := (List.getElem?_eq_some_iff.1 hc).1
  unfold keyOf
  simp only [hni, Bool.false_eq_true, if_false]
  by_cases hl : t.kind = .list
  · simp only [stepSeg, hl, if_true, Option.some.injEq] at hs
    subst hs
    have hlen : t.children.length < 10 ^ 2000 := (Nat.length_toDigits_le_iff (by decide) (by decide)).1 hw.2.2.2
    have : validIdentifier (natStr i) = true := validIdentifier_natStr (Nat.lt_trans hi hlen)
    simp [hl, mkKey, this]
  · simp only [stepSeg, hl, if_false] at hs
    rcases (hw.2.2.1 hl).1 c hmem with ⟨s', hs', hv⟩
    rw [hs] at hs'; cases hs'
    simp [hl, hs, mkKey, hv]

/-- the upward walk of `from_referable` collects exactly the keys below `t`, then continues at `t` -/
theorem walkUp_chainUp : ∀ (p : Path) (par : Option (Tree × Nat)) (t : Tree) (here : Path) (acc : List Link)
    (ks ks0 : List Key) (n : Tree), WFSub t → sub t p = some n → stepKeysBelow t p = some ks →
    ∃ l up, chainUp par t here p acc = some (l :: up) ∧ l.node = n ∧ l.path = here ++ p ∧
      walkUp (l :: up) ks0 = walkUp (⟨par, t, here⟩ :: acc) (ks ++ ks0)
  | [], par, t, here, acc, ks, ks0, n, _, hn, hk => by
    simp [sub] at hn; simp [stepKeysBelow] at hk; subst hn; subst hk
    exact ⟨⟨par, t, here⟩, acc, rfl, rfl, by simp, rfl⟩
  | i :: p, par, t, here, acc, ks, ks0, n, hw, hn, hk => by
    cases hc : t.children[i]? with
    | none => rw [sub_cons_none hc] at hn; cases hn
    | some c =>
      rw [sub_cons hc] at hn
      unfold stepKeysBelow at hk
      simp only [hc] at hk
      cases hs : stepSeg t i c with
      | none => simp [hs] at hk
      | some s =>
        cases hr : stepKeysBelow c p with
        | none => simp [hs, hr] at hk
        | some r =>
          simp only [hs, hr, Option.some.injEq] at hk; subst hk
          rcases walkUp_chainUp p (some (t, i)) c (here ++ [i]) (⟨par, t, here⟩ :: acc) r ks0 n (hw.child hc) hn hr
            with ⟨l, up, hch, hl, hp, hwalk⟩
          refine ⟨l, up, by simp [chainUp, hc, hch], hl, by simp [hp], ?_⟩
          rw [hwalk]
          have hni : isIdentifiable c.kind = false := hw.node.2.1 c (List.mem_of_getElem? hc)
          simp [walkUp, keyOf_child (here ++ [i]) hw.node hc hs, hni]

theorem keyTypeOf_identifiable {k : Kind} (h : isIdentifiable k = true) : (keyTypeOf k).isAasIdentifiable = true := by
  cases k <;> first | rfl | (exact absurd h (by decide))

theorem keyTypeOf_element {k : Kind} (h : isIdentifiable k = false) :
    (keyTypeOf k).isAasSubmodelElement = true ∧ (keyTypeOf k).isGenericFragmentKey = false := by
  cases k <;> first | exact ⟨rfl, rfl⟩ | (exact absurd h (by decide))

theorem keyTypeOf_ne_fragment (k : Kind) : keyTypeOf k ≠ .fragmentReference := by cases k <;> decide

theorem keyTypeOf_list {k : Kind} (h : keyTypeOf k = .submodelElementList) : k = .list := by
  cases k <;> first | rfl | (exact absurd h (by decide))

/-- all keys below the root are submodel-element keys -/
theorem stepKeysBelow_types : ∀ (p : Path) (t : Tree) (ks : List Key), WFSub t → stepKeysBelow t p = some ks →
    ∀ k ∈ ks, k.type.isAasSubmodelElement = true ∧ k.type.isGenericFragmentKey = false
  | [], _, ks, _, h => by simp [stepKeysBelow] at h; subst h; simp
  | i :: p, t, ks, hw, h => by
    unfold stepKeysBelow at h
    cases hc : t.children[i]? with
    | none => simp [hc] at h
    | some c =>
      simp only [hc] at h
      cases hs : stepSeg t i c with
      | none => simp [hs] at h
      | some s =>
        cases hr : stepKeysBelow c p with
        | none => simp [hs, hr] at h
        | some r =>
          simp only [hs, hr, Option.some.injEq] at h; subst h
          intro k hk
          rcases List.mem_cons.1 hk with rfl | hk
          · exact keyTypeOf_element (hw.node.2.1 c (List.mem_of_getElem? hc))
          · exact stepKeysBelow_types p c r (hw.child hc) hr k hk

/-- the AASd-127/128 loop passes on the chain of a node -/
theorem checkPairs_stepKeys : ∀ (p : Path) (t : Tree) (v : Str) (ks : List Key), stepKeysBelow t p = some ks →
    checkPairs (⟨keyTypeOf t.kind, v⟩ :: ks) = none
  | [], _, v, ks, h => by simp [stepKeysBelow] at h; subst h; simp [checkPairs]
  | i :: p, t, v, ks, h => by
    unfold stepKeysBelow at h
    cases hc : t.children[i]? with
    | none => simp [hc] at h
    | some c =>
      simp only [hc] at h
      cases hs : stepSeg t i c with
      | none => simp [hs] at h
      | some s =>
        cases hr : stepKeysBelow c p with
        | none => simp [hs, hr] at h
        | some r =>
          simp only [hs, hr, Option.some.injEq] at h; subst h
          have ih := checkPairs_stepKeys p c s r hr
          have h128 : ¬ (keyTypeOf t.kind = .submodelElementList ∧ (!isNumeric s) = true) := by
            rintro ⟨hl, hnum⟩
            have hl' := keyTypeOf_list hl
            simp only [stepSeg, hl', if_true, Option.some.injEq] at hs
            subst hs
            simp [isNumeric_natStr] at hnum
          simp only [checkPairs, keyTypeOf_ne_fragment c.kind, false_and, if_false, h128, ih]


/-! ### enumeration of the nodes of a tree (pre-order) -/

mutual
/-- paths of all nodes of `t`, the root (`[]`) first -/
def allPaths : Tree → List Path
  | .node _ _ _ _ cs => [] :: allPathsL cs 0
/-- paths into the siblings `cs`, the first of which has position `k` -/
def allPathsL : List Tree → Nat → List Path
  | [], _ => []
  | c :: cs, k => (allPaths c).map (k :: ·) ++ allPathsL cs (k + 1)
end

theorem allPaths_eq (t : Tree) : allPaths t = [] :: allPathsL t.children 0 := by
  cases t; simp [allPaths, Tree.children]

theorem mem_allPathsL : ∀ (cs : List Tree) (k j : Nat) (c : Tree) (q : Path), cs[j]? = some c → q ∈ allPaths c →
    (k + j) :: q ∈ allPathsL cs k
  | [], _, _, _, _, h, _ => by simp at h
  | d :: ds, k, 0, c, q, h, hq => by
    simp at h; subst h
    simp [allPathsL, hq]
  | d :: ds, k, j + 1, c, q, h, hq => by
    have := mem_allPathsL ds (k + 1) j c q (by simpa using h) hq
    simp only [allPathsL, List.mem_append]
    right
    have e : k + (j + 1) = k + 1 + j := by omega
    rw [e]; exact this

theorem mem_allPaths_of_sub : ∀ (p : Path) (t n : Tree), sub t p = some n → p ∈ allPaths t
  | [], t, _, _ => by rw [allPaths_eq]; simp
  | i :: q, t, n, h => by
    cases hc : t.children[i]? with
    | none => rw [sub_cons_none hc] at h; cases h
    | some c =>
      rw [sub_cons hc] at h
      rw [allPaths_eq]
      have := mem_allPathsL t.children 0 i c q hc (mem_allPaths_of_sub q c n h)
      simp only [Nat.zero_add] at this
      exact List.mem_cons_of_mem _ this

/-- executable well-formedness check (for concrete trees): every enumerated node is locally fine -/
def wfb (root : Tree) : Bool :=
  isIdentifiable root.kind && validIdentifier root.ident &&
    (allPaths root).all (fun p => match sub root p with | some n => decide (NodeOK n) | none => false)

theorem wfb_sound {root : Tree} (h : wfb root = true) : WF root := by
  simp only [wfb, Bool.and_eq_true, List.all_eq_true] at h
  refine ⟨h.1.1, h.1.2, ?_⟩
  intro p n hn
  have := h.2 p (mem_allPaths_of_sub p root n hn)
  simpa [hn] using this


/-! ### update() / commit() -/

/-- canonical segments from `t` down to the node at `p` as the walks record them (`None` for a missing id_short) -/
def optSegs : Tree → Path → List (Option Str)
  | _, [] => []
  | t, i :: p => match t.children[i]? with
    | none => []
    | some c => stepSeg t i c :: optSegs c p

theorem optSegs_of_segsAlong : ∀ (p : Path) (t : Tree) (segs : List Str), segsAlong t p = some segs →
    optSegs t p = segs.map some
  | [], _, segs, h => by simp [segsAlong] at h; subst h; rfl
  | i :: p, t, segs, h => by
    unfold segsAlong at h
    cases hc : t.children[i]? with
    | none => simp [hc] at h
    | some c =>
      simp only [hc] at h
      cases hs : stepSeg t i c with
      | none => simp [hs] at h
      | some s =>
        cases hr : segsAlong c p with
        | none => simp [hs, hr] at h
        | some r =>
          simp only [hs, hr, Option.some.injEq] at h; subst h
          simp [optSegs, hc, hs, optSegs_of_segsAlong p c r hr]

theorem segOf_child (t : Tree) (i : Nat) (c : Tree) (here : Path) : segOf ⟨some (t, i), c, here⟩ = stepSeg t i c := rfl

/-- specification of the ancestor loop of `commit()`: one call per sourced node from `t` (at `here`) down to the
    parent of the target (at `here ++ p`), nearest first, each with the segments between it and the target -/
def upCalls (obj : Path) : Tree → Path → Path → List Call
  | _, _, [] => []
  | t, here, i :: p => match t.children[i]? with
    | none => []
    | some c => upCalls obj c (here ++ [i]) p
        ++ (if t.source ≠ [] then [⟨t.source, here, obj, optSegs t (i :: p)⟩] else [])

theorem commitUp_chainUp (obj : Path) : ∀ (p : Path) (par : Option (Tree × Nat)) (t : Tree) (here : Path)
    (acc : List Link) (n : Tree), sub t p = some n →
    ∃ l up, chainUp par t here p acc = some (l :: up) ∧ l.node = n ∧ l.path = here ++ p ∧
      commitUp obj up [segOf l] = upCalls obj t here p ++ commitUp obj acc (segOf ⟨par, t, here⟩ :: optSegs t p)
  | [], par, t, here, acc, n, hn => by
    simp [sub] at hn; subst hn
    exact ⟨⟨par, t, here⟩, acc, rfl, rfl, by simp, by simp [upCalls, optSegs]⟩
  | i :: p, par, t, here, acc, n, hn => by
    cases hc : t.children[i]? with
    | none => rw [sub_cons_none hc] at hn; cases hn
    | some c =>
      rw [sub_cons hc] at hn
      rcases commitUp_chainUp obj p (some (t, i)) c (here ++ [i]) (⟨par, t, here⟩ :: acc) n hn with ⟨l, up, hch, hl, hp, hcu⟩
      refine ⟨l, up, by simp [chainUp, hc, hch], hl, by simp [hp], ?_⟩
      rw [hcu, segOf_child]
      simp [upCalls, hc, optSegs, commitUp, List.append_assoc]

/-- specification of `find_source()`: the nearest sourced node, searching from the target (at `here ++ p`) up to `t` -/
def nearestCall (obj : Path) : Option (Tree × Nat) → Tree → Path → Path → Option Call
  | par, t, here, [] => if t.source ≠ [] then some ⟨t.source, here, obj, [segOf ⟨par, t, here⟩]⟩ else none
  | par, t, here, i :: p => match t.children[i]? with
    | none => none
    | some c => match nearestCall obj (some (t, i)) c (here ++ [i]) p with
      | some call => some call
      | none => if t.source ≠ [] then some ⟨t.source, here, obj, segOf ⟨par, t, here⟩ :: optSegs t (i :: p)⟩ else none

def toCall (obj : Path) (x : Link × List (Option Str)) : Call := ⟨x.1.node.source, x.1.path, obj, x.2⟩

theorem findSourceUp_chainUp (obj : Path) : ∀ (p : Path) (par : Option (Tree × Nat)) (t : Tree) (here : Path)
    (acc : List Link) (n : Tree), sub t p = some n →
    ∃ l up, chainUp par t here p acc = some (l :: up) ∧ l.node = n ∧ l.path = here ++ p ∧
      (findSourceUp (l :: up) []).map (toCall obj) =
        ((nearestCall obj par t here p).or ((findSourceUp acc (segOf ⟨par, t, here⟩ :: optSegs t p)).map (toCall obj)))
  | [], par, t, here, acc, n, hn => by
    simp [sub] at hn; subst hn
    refine ⟨⟨par, t, here⟩, acc, rfl, rfl, by simp, ?_⟩
    by_cases hs : t.source = []
    · simp [findSourceUp, nearestCall, hs, optSegs]
    · simp [findSourceUp, nearestCall, hs, toCall]
  | i :: p, par, t, here, acc, n, hn => by
    cases hc : t.children[i]? with
    | none => rw [sub_cons_none hc] at hn; cases hn
    | some c =>
      rw [sub_cons hc] at hn
      rcases findSourceUp_chainUp obj p (some (t, i)) c (here ++ [i]) (⟨par, t, here⟩ :: acc) n hn with ⟨l, up, hch, hl, hp, hf⟩
      refine ⟨l, up, by simp [chainUp, hc, hch], hl, by simp [hp], ?_⟩
      rw [hf, segOf_child]
      cases hnc : nearestCall obj (some (t, i)) c (here ++ [i]) p with
      | some call => simp [nearestCall, hc, hnc]
      | none =>
        by_cases hs : t.source = []
        · simp [nearestCall, hc, hnc, findSourceUp, hs, optSegs]
        · simp [nearestCall, hc, hnc, findSourceUp, hs, optSegs, toCall]

/-- `c` is the call for a sourced node `d` below (or at) the node where the walk started (`here`) -/
def IsDirectCall (t : Tree) (here : Path) (c : Call) : Prop :=
  ∃ q d, sub t q = some d ∧ d.source ≠ [] ∧ c = ⟨d.source, here ++ q, here ++ q, []⟩

mutual
/-- the recursive walk calls exactly the sourced nodes of the subtree … -/
theorem mem_directWalk : ∀ (t : Tree) (here : Path) (c : Call), WFSub t → (c ∈ directWalk t here ↔ IsDirectCall t here c)
  | .node k id ids src cs, here, c, hw => by
    have hkids : ∀ x ∈ cs, WFSub x := fun x hx => by
      rcases List.getElem?_of_mem hx with ⟨j, hj⟩
      exact hw.child (t := .node k id ids src cs) (by simpa [Tree.children] using hj)
    have hL := mem_directWalkL cs here 0 c hkids
    have hns : cs ≠ [] → isNamespace k = true := by simpa [NodeOK, Tree.children, Tree.kind] using hw.node.1
    simp only [directWalk, List.mem_append]
    constructor
    · rintro (h | h)
      · by_cases hs : src = []
        · simp [hs] at h
        · simp only [hs, ne_eq, not_false_eq_true, if_true, List.mem_singleton] at h
          exact ⟨[], .node k id ids src cs, rfl, by simpa [Tree.source] using hs, by simp [h, Tree.source]⟩
      · by_cases hk : isNamespace k = true
        · simp only [hk, if_true] at h
          rcases hL.1 h with ⟨j, x, q, d, hx, hd, hsrc, hc⟩
          exact ⟨j :: q, d, by rw [sub_cons (t := .node k id ids src cs) (by simpa [Tree.children] using hx)]; exact hd,
            hsrc, by simpa using hc⟩
        · simp [hk] at h
    · rintro ⟨q, d, hd, hsrc, hc⟩
      cases q with
      | nil =>
        simp [sub] at hd; subst hd
        left
        have : src ≠ [] := by simpa [Tree.source] using hsrc
        simp [this, hc, Tree.source]
      | cons j q =>
        right
        cases hx : cs[j]? with
        | none => rw [sub_cons_none (t := .node k id ids src cs) (by simpa [Tree.children] using hx)] at hd; cases hd
        | some x =>
          rw [sub_cons (t := .node k id ids src cs) (by simpa [Tree.children] using hx)] at hd
          have hne : cs ≠ [] := by intro h; rw [h] at hx; simp at hx
          simp only [hns hne, if_true]
          exact hL.2 ⟨j, x, q, d, hx, hd, hsrc, by simpa using hc⟩
theorem mem_directWalkL : ∀ (cs : List Tree) (here : Path) (k : Nat) (c : Call), (∀ x ∈ cs, WFSub x) →
    (c ∈ directWalkL cs here k ↔ ∃ j x q d, cs[j]? = some x ∧ sub x q = some d ∧ d.source ≠ [] ∧
      c = ⟨d.source, here ++ (k + j) :: q, here ++ (k + j) :: q, []⟩)
  | [], here, k, c, _ => by simp [directWalkL]
  | y :: ys, here, k, c, hw => by
    have h1 := mem_directWalk y (here ++ [k]) c (hw y (by simp))
    have h2 := mem_directWalkL ys here (k + 1) c (fun x hx => hw x (by simp [hx]))
    simp only [directWalkL, List.mem_append]
    constructor
    · rintro (h | h)
      · rcases h1.1 h with ⟨q, d, hd, hsrc, hc⟩
        exact ⟨0, y, q, d, by simp, hd, hsrc, by simpa [List.append_assoc] using hc⟩
      · rcases h2.1 h with ⟨j, x, q, d, hx, hd, hsrc, hc⟩
        exact ⟨j + 1, x, q, d, by simpa using hx, hd, hsrc, by
          have e : k + (j + 1) = k + 1 + j := by omega
          rw [e]; exact hc⟩
    · rintro ⟨j, x, q, d, hx, hd, hsrc, hc⟩
      cases j with
      | zero =>
        left
        simp at hx; subst hx
        exact h1.2 ⟨q, d, hd, hsrc, by simpa [List.append_assoc] using hc⟩
      | succ j =>
        right
        exact h2.2 ⟨j, x, q, d, by simpa using hx, hd, hsrc, by
          have e : k + 1 + j = k + (j + 1) := by omega
          rw [e]; exact hc⟩
end

theorem isDirectCall_store {t : Tree} {here : Path} {c : Call} (h : IsDirectCall t here c) :
    ∃ q, c.store = here ++ q ∧ c.obj = here ++ q ∧ c.rel = [] := by
  rcases h with ⟨q, d, _, _, hc⟩; exact ⟨q, by simp [hc], by simp [hc], by simp [hc]⟩

mutual
/-- … and calls each of them once -/
theorem nodup_directWalk : ∀ (t : Tree) (here : Path), WFSub t → (directWalk t here).Nodup
  | .node k id ids src cs, here, hw => by
    have hkids : ∀ x ∈ cs, WFSub x := fun x hx => by
      rcases List.getElem?_of_mem hx with ⟨j, hj⟩
      exact hw.child (t := .node k id ids src cs) (by simpa [Tree.children] using hj)
    have hL := nodup_directWalkL cs here 0 hkids
    simp only [directWalk]
    rw [List.nodup_append]
    refine ⟨by split <;> simp, by split <;> simp [hL], ?_⟩
    intro a ha b hb
    by_cases hs : src = []
    · simp [hs] at ha
    · simp only [hs, ne_eq, not_false_eq_true, if_true, List.mem_singleton] at ha
      by_cases hk : isNamespace k = true
      · simp only [hk, if_true] at hb
        rcases (mem_directWalkL cs here 0 b hkids).1 hb with ⟨j, x, q, d, _, _, _, hc⟩
        intro hab
        have : a.store = b.store := by rw [hab]
        rw [ha, hc] at this
        have := congrArg List.length this
        simp at this
      · simp [hk] at hb
theorem nodup_directWalkL : ∀ (cs : List Tree) (here : Path) (k : Nat), (∀ x ∈ cs, WFSub x) →
    (directWalkL cs here k).Nodup
  | [], _, _, _ => by simp [directWalkL]
  | y :: ys, here, k, hw => by
    have hy : WFSub y := hw y (by simp)
    have hys : ∀ x ∈ ys, WFSub x := fun x hx => hw x (by simp [hx])
    simp only [directWalkL]
    rw [List.nodup_append]
    refine ⟨nodup_directWalk y (here ++ [k]) hy, nodup_directWalkL ys here (k + 1) hys, ?_⟩
    intro a ha b hb hab
    rcases isDirectCall_store ((mem_directWalk y (here ++ [k]) a hy).1 ha) with ⟨q, hq, _, _⟩
    rcases (mem_directWalkL ys here (k + 1) b hys).1 hb with ⟨j, x, q', d, _, _, _, hc⟩
    have : a.store = b.store := by rw [hab]
    rw [hq, hc] at this
    simp only [List.append_assoc, List.append_cancel_left_eq, List.singleton_append, List.cons.injEq] at this
    omega
end

theorem mem_upCalls (obj : Path) : ∀ (p : Path) (t : Tree) (here : Path) (n : Tree) (c : Call), sub t p = some n →
    (c ∈ upCalls obj t here p ↔ ∃ q r a, p = q ++ r ∧ r ≠ [] ∧ sub t q = some a ∧ a.source ≠ [] ∧
      c = ⟨a.source, here ++ q, obj, optSegs a r⟩)
  | [], t, here, n, c, _ => by
    simp only [upCalls, List.not_mem_nil, false_iff]
    rintro ⟨q, r, a, hp, hr, _⟩
    have : r = [] := (List.append_eq_nil_iff.1 hp.symm).2
    exact hr this
  | i :: p, t, here, n, c, hn => by
    cases hc : t.children[i]? with
    | none => rw [sub_cons_none hc] at hn; cases hn
    | some x =>
      rw [sub_cons hc] at hn
      have ih := mem_upCalls obj p x (here ++ [i]) n c hn
      simp only [upCalls, hc, List.mem_append]
      constructor
      · rintro (h | h)
        · rcases ih.1 h with ⟨q, r, a, hp, hr, ha, hs, hcc⟩
          exact ⟨i :: q, r, a, by simp [hp], hr, by rw [sub_cons hc]; exact ha, hs, by simpa using hcc⟩
        · by_cases hs : t.source = []
          · simp [hs] at h
          · simp only [hs, ne_eq, not_false_eq_true, if_true, List.mem_singleton] at h
            exact ⟨[], i :: p, t, rfl, by simp, rfl, hs, by simpa using h⟩
      · rintro ⟨q, r, a, hp, hr, ha, hs, hcc⟩
        cases q with
        | nil =>
          simp [sub] at ha; subst ha
          simp only [List.nil_append] at hp; subst hp
          right; simp [hs, hcc]
        | cons j q =>
          simp only [List.cons_append, List.cons.injEq] at hp
          obtain ⟨rfl, hp⟩ := hp
          rw [sub_cons hc] at ha
          left
          exact ih.2 ⟨q, r, a, hp, hr, ha, hs, by simpa using hcc⟩

theorem nodup_upCalls (obj : Path) : ∀ (p : Path) (t : Tree) (here : Path) (n : Tree), sub t p = some n →
    (upCalls obj t here p).Nodup
  | [], _, _, _, _ => by simp [upCalls]
  | i :: p, t, here, n, hn => by
    cases hc : t.children[i]? with
    | none => rw [sub_cons_none hc] at hn; cases hn
    | some x =>
      rw [sub_cons hc] at hn
      simp only [upCalls, hc]
      rw [List.nodup_append]
      refine ⟨nodup_upCalls obj p x (here ++ [i]) n hn, by split <;> simp, ?_⟩
      intro a ha b hb hab
      rcases (mem_upCalls obj p x (here ++ [i]) n a hn).1 ha with ⟨q, r, a', _, _, _, _, hca⟩
      by_cases hs : t.source = []
      · simp [hs] at hb
      · simp only [hs, ne_eq, not_false_eq_true, if_true, List.mem_singleton] at hb
        have : a.store = b.store := by rw [hab]
        rw [hca, hb] at this
        have := congrArg List.length this
        simp at this

/-- what `find_source()` finds: a sourced node on the way up, none nearer; its path = own segment, then the way down -/
theorem nearestCall_some (obj : Path) : ∀ (p : Path) (par : Option (Tree × Nat)) (t : Tree) (here : Path) (n : Tree)
    (c : Call), sub t p = some n → nearestCall obj par t here p = some c →
    ∃ q r a s0, p = q ++ r ∧ sub t q = some a ∧ a.source ≠ [] ∧ c = ⟨a.source, here ++ q, obj, s0 :: optSegs a r⟩
      ∧ (q = [] → s0 = segOf ⟨par, t, here⟩)
      ∧ ∀ q2 r2 b, p = q2 ++ r2 → q.length < q2.length → sub t q2 = some b → b.source = []
  | [], par, t, here, n, c, _, h => by
    by_cases hs : t.source = []
    · simp [nearestCall, hs] at h
    · simp only [nearestCall, hs, ne_eq, not_false_eq_true, if_true, Option.some.injEq] at h
      refine ⟨[], [], t, segOf ⟨par, t, here⟩, rfl, rfl, hs, by simp [← h, optSegs], fun _ => rfl, ?_⟩
      intro q2 r2 b hp hl _
      have : q2 = [] := (List.append_eq_nil_iff.1 hp.symm).1
      subst this; simp at hl
  | i :: p, par, t, here, n, c, hn, h => by
    cases hc : t.children[i]? with
    | none => rw [sub_cons_none hc] at hn; cases hn
    | some x =>
      rw [sub_cons hc] at hn
      simp only [nearestCall, hc] at h
      cases hnc : nearestCall obj (some (t, i)) x (here ++ [i]) p with
      | some call =>
        simp only [hnc, Option.some.injEq] at h; subst h
        rcases nearestCall_some obj p (some (t, i)) x (here ++ [i]) n call hn hnc with ⟨q, r, a, s0, hp, ha, hs, hcc, _, hnear⟩
        refine ⟨i :: q, r, a, s0, by simp [hp], by rw [sub_cons hc]; exact ha, hs, by simpa using hcc, by simp, ?_⟩
        intro q2 r2 b hp2 hl hb
        cases q2 with
        | nil => simp at hl
        | cons j q2 =>
          simp only [List.cons_append, List.cons.injEq] at hp2
          obtain ⟨rfl, hp2⟩ := hp2
          rw [sub_cons hc] at hb
          exact hnear q2 r2 b hp2 (by simpa using hl) hb
      | none =>
        simp only [hnc] at h
        by_cases hs : t.source = []
        · simp [hs] at h
        · simp only [hs, ne_eq, not_false_eq_true, if_true, Option.some.injEq] at h
          refine ⟨[], i :: p, t, segOf ⟨par, t, here⟩, rfl, rfl, hs, by simp [← h], fun _ => rfl, ?_⟩
          intro q2 r2 b hp2 hl hb
          cases q2 with
          | nil => simp at hl
          | cons j q2 =>
            simp only [List.cons_append, List.cons.injEq] at hp2
            obtain ⟨rfl, hp2⟩ := hp2
            rw [sub_cons hc] at hb
            exact nearestCall_none obj p (some (t, i)) x (here ++ [i]) n hn hnc q2 r2 b hp2 hb
where
  nearestCall_none (obj : Path) : ∀ (p : Path) (par : Option (Tree × Nat)) (t : Tree) (here : Path) (n : Tree),
      sub t p = some n → nearestCall obj par t here p = none →
      ∀ q r b, p = q ++ r → sub t q = some b → b.source = []
    | [], par, t, here, n, _, h => by
      intro q r b hp hb
      have : q = [] := (List.append_eq_nil_iff.1 hp.symm).1
      subst this
      simp [sub] at hb; subst hb
      by_cases hs : t.source = []
      · exact hs
      · simp [nearestCall, hs] at h
    | i :: p, par, t, here, n, hn, h => by
      cases hc : t.children[i]? with
      | none => rw [sub_cons_none hc] at hn; cases hn
      | some x =>
        rw [sub_cons hc] at hn
        simp only [nearestCall, hc] at h
        cases hnc : nearestCall obj (some (t, i)) x (here ++ [i]) p with
        | some call => simp [hnc] at h
        | none =>
          simp only [hnc] at h
          intro q r b hp hb
          cases q with
          | nil =>
            simp [sub] at hb; subst hb
            by_cases hs : t.source = []
            · exact hs
            · simp [hs] at h
          | cons j q =>
            simp only [List.cons_append, List.cons.injEq] at hp
            obtain ⟨rfl, hp⟩ := hp
            rw [sub_cons hc] at hb
            exact nearestCall_none obj p (some (t, i)) x (here ++ [i]) n hn hnc q r b hp hb

/-! ### argument forms of `get_referable`, stepwise following -/

/-- the child position the first segment selects -/
def firstStep (t : Tree) (s : Str) : Except Err Nat :=
  if !isNamespace t.kind then .error .typeError
  else if t.kind = .list then
    match pyInt s with
    | none => .error .valueError
    | some i => if i < 0 then .error .keyError else
      match t.children[i.toNat]? with
      | none => .error .keyError
      | some _ => .ok i.toNat
  else match findChild t.children s with
    | none => .error .keyError
    | some k => match t.children[k]? with
      | none => .error .keyError
      | some _ => .ok k

theorem getReferable_cons (t : Tree) (s : Str) (rest : List Str) :
    getReferable t (s :: rest) = match firstStep t s with
      | .error e => .error e
      | .ok k => match t.children[k]? with
        | none => .error .keyError
        | some c => (getReferable c rest).map (k :: ·) := by
  conv => lhs; unfold getReferable
  unfold firstStep
  by_cases h1 : (!isNamespace t.kind) = true
  · simp [h1]
  · by_cases h2 : t.kind = .list
    · simp only [h2, if_true]
      cases pyInt s with
      | none => simp
      | some i =>
        by_cases h3 : i < 0
        · simp [h3]
        · simp only [h3]
          cases h4 : t.children[i.toNat]? <;> simp [h4]
    · simp only [h1, h2]
      cases findChild t.children s with
      | none => simp
      | some k => cases h4 : t.children[k]? <;> simp [h4]

theorem followStepwise_eq : ∀ (segs : List Str) (t : Tree), followStepwise t segs = getReferable t segs
  | [], t => by simp [followStepwise, getReferable]
  | s :: rest, t => by
    have ih := followStepwise_eq rest
    simp only [followStepwise, getReferableArg]
    rw [getReferable_cons t s [], getReferable_cons t s rest]
    cases firstStep t s with
    | error e => rfl
    | ok k =>
      cases h4 : t.children[k]? with
      | none => simp [h4]
      | some c =>
        simp [getReferable, Except.map, sub, h4, ih]

end Basyx.Tree
