/- C02 — helper lemmas relating the constraint model to the specification predicates. -/
import Basyx.Model.Constraints
import Basyx.Spec.Constraints
namespace Basyx.Constraints
open Basyx.Gen

/-! ## strings -/

theorem inRanges_iff (c : Nat) : inRanges StrCons.aasd130Ranges c = true ↔ Spec.aasd130Char c := by
  simp only [inRanges, StrCons.aasd130Ranges, Spec.aasd130Char, List.any_cons, List.any_nil, Bool.or_false, Bool.or_eq_true,
    Bool.and_eq_true, decide_eq_true_eq]
  omega

theorem aasd130_iff (s : Str) : aasd130 s = true ↔ ∀ c ∈ s, Spec.aasd130Char c := by
  simp [aasd130, List.all_eq_true, inRanges_iff]

theorem isDigit_iff (c : Nat) : isDigit c = true ↔ Spec.digit c := by
  simp [isDigit, Spec.digit]

theorem versionMatch_iff (s : Str) : versionMatch s = true ↔ Spec.VersionPattern s := by
  match s with
  | [] => simp [versionMatch, Spec.VersionPattern]
  | [c] => simp [versionMatch, Spec.VersionPattern, isDigit_iff]
  | c :: d :: r =>
    simp only [versionMatch, Spec.VersionPattern, Bool.and_eq_true, isDigit_iff, List.all_eq_true, bne_iff_ne, ne_eq,
      List.mem_cons, forall_eq_or_imp, List.length_cons, List.head?_cons, Option.some.injEq, reduceCtorEq, not_false_eq_true, true_and]
    constructor
    · rintro ⟨⟨h1, h2⟩, h3, h4⟩
      exact ⟨⟨h1, h3, h4⟩, Or.inr h2⟩
    · rintro ⟨⟨h1, h2, h3⟩, h4⟩
      refine ⟨⟨h1, ?_⟩, h2, h3⟩
      rcases h4 with h4 | h4
      · omega
      · exact h4

theorem check_plain_iff (s : Str) (mn mx : Nat) : check s mn mx "" = .ok () ↔ Spec.StrOk mn mx s := by
  unfold check Spec.StrOk
  have hp : patternMatch "" s = true := by simp [patternMatch]
  by_cases h1 : s.length < mn
  · simp [h1]; omega
  · by_cases h2 : s.length > mx
    · simp [h1, h2]; omega
    · by_cases h3 : aasd130 s = true
      · simp [h1, h2, hp, h3]
        exact ⟨by omega, by omega, (aasd130_iff s).1 h3⟩
      · simp only [h1, h2, hp, h3, ↓reduceIte, Bool.not_true, Bool.false_eq_true, Bool.not_false, reduceCtorEq, false_iff]
        intro ⟨_, _, h⟩
        exact h3 ((aasd130_iff s).2 h)

theorem check_version_iff (s : Str) (mn mx : Nat) :
    check s mn mx "([0-9]|[1-9][0-9]*)" = .ok () ↔ Spec.StrOk mn mx s ∧ Spec.VersionPattern s := by
  unfold check Spec.StrOk
  have hp : patternMatch "([0-9]|[1-9][0-9]*)" s = versionMatch s := by simp [patternMatch]
  by_cases h1 : s.length < mn
  · simp [h1]; omega
  · by_cases h2 : s.length > mx
    · simp [h1, h2]; omega
    · by_cases h4 : versionMatch s = true
      · by_cases h3 : aasd130 s = true
        · simp [h1, h2, hp, h3, h4]
          exact ⟨⟨by omega, by omega, (aasd130_iff s).1 h3⟩, (versionMatch_iff s).1 h4⟩
        · simp only [h1, h2, hp, h3, h4, ↓reduceIte, Bool.not_true, Bool.false_eq_true, Bool.not_false, reduceCtorEq, false_iff]
          intro ⟨⟨_, _, h⟩, _⟩
          exact absurd ((aasd130_iff s).2 h) h3
      · simp only [h1, h2, hp, h4, ↓reduceIte, Bool.not_true, Bool.false_eq_true, Bool.not_false, reduceCtorEq, false_iff]
        intro ⟨_, h⟩
        exact h4 ((versionMatch_iff s).2 h)

/-- `check` never raises anything but ValueError -/
theorem check_err (s : Str) (mn mx : Nat) (p : String) (e : Err) : check s mn mx p = .error e → e = .valueError := by
  unfold check
  repeat' split
  all_goals (intro h; cases h <;> rfl)

theorem checkNamed_identifier (s : Str) : checkNamed "identifier" s = check s 1 2000 "" := rfl
theorem checkNamed_name (s : Str) : checkNamed "name_type" s = check s 1 128 "" := rfl
theorem checkNamed_version (s : Str) : checkNamed "version_type" s = check s 1 4 "([0-9]|[1-9][0-9]*)" := rfl
theorem checkNamed_revision (s : Str) : checkNamed "revision_type" s = check s 1 4 "([0-9]|[1-9][0-9]*)" := rfl
theorem checkNamed_topic (s : Str) : checkNamed "message_topic_type" s = check s 1 255 "" := rfl

theorem checkOpt_identifier_iff (v : Option Str) : checkOpt "identifier" v = .ok () ↔ Spec.optStr 1 2000 v := by
  cases v with
  | none => simp [checkOpt, Spec.optStr]
  | some s => simp [checkOpt, Spec.optStr, checkNamed_identifier, check_plain_iff]

theorem checkOpt_topic_iff (v : Option Str) : checkOpt "message_topic_type" v = .ok () ↔ Spec.optStr 1 255 v := by
  cases v with
  | none => simp [checkOpt, Spec.optStr]
  | some s => simp [checkOpt, Spec.optStr, checkNamed_topic, check_plain_iff]

theorem checkOpt_err (n : String) (v : Option Str) (e : Err) (hn : n = "identifier" ∨ n = "message_topic_type" ∨ n = "version_type" ∨ n = "revision_type") :
    checkOpt n v = .error e → e = .valueError := by
  cases v with
  | none => simp [checkOpt]
  | some s =>
    rcases hn with h | h | h | h <;> subst h
    · simpa [checkOpt, checkNamed_identifier] using check_err s 1 2000 "" e
    · simpa [checkOpt, checkNamed_topic] using check_err s 1 255 "" e
    · simpa [checkOpt, checkNamed_version] using check_err s 1 4 _ e
    · simpa [checkOpt, checkNamed_revision] using check_err s 1 4 _ e

theorem andThen_ok {α : Type} (r : Res Unit) (k : Res α) (a : α) : andThen r k = .ok a ↔ r = .ok () ∧ k = .ok a := by
  cases r with
  | ok u => cases u; simp [andThen]
  | error e => simp [andThen]

theorem andThen_error {α : Type} (r : Res Unit) (k : Res α) (e : Err) :
    andThen r k = .error e ↔ r = .error e ∨ (r = .ok () ∧ k = .error e) := by
  cases r with
  | ok u => cases u; simp [andThen]
  | error e' => simp [andThen]

/-! ## key-type tables: the regenerated classification functions are the specification's enumerations -/

theorem kt_identifiable (k : KT) : k.is_aas_identifiable = true ↔ k ∈ Spec.aasIdentifiables := by
  cases k <;> decide
theorem kt_ggi (k : KT) : k.is_generic_globally_identifiable = true ↔ k ∈ Spec.genericGloballyIdentifiables := by
  cases k <;> decide
theorem kt_gfk (k : KT) : k.is_generic_fragment_key = true ↔ k ∈ Spec.genericFragmentKeys := by
  cases k <;> decide
theorem kt_sme (k : KT) : k.is_aas_submodel_element = true ↔ k ∈ Spec.aasSubmodelElements := by
  cases k <;> decide
theorem kt_rni (k : KT) : k.is_aas_referable_non_identifiable = true ↔ k ∈ Spec.aasReferableNonIdentifiables := by
  cases k <;> decide
theorem kt_fke (k : KT) : k.is_fragment_key_element = true ↔ k ∈ Spec.fragmentKeys := by
  cases k <;> decide
theorem kt_gi (k : KT) : k.is_globally_identifiable = true ↔ k ∈ Spec.globallyIdentifiables := by
  cases k <;> decide

/-! ## references -/

/-- a property of every adjacent pair, stated by decomposition of the chain -/
def AdjAll (P : Key → Key → Prop) (ks : List Key) : Prop := ∀ p a k q, ks = p ++ a :: k :: q → P a k

theorem adjAll_nil (P : Key → Key → Prop) : AdjAll P [] := by
  intro p a k q h
  cases p <;> simp at h

theorem adjAll_single (P : Key → Key → Prop) (x : Key) : AdjAll P [x] := by
  intro p a k q h
  cases p with
  | nil => simp at h
  | cons y p' => cases p' <;> simp at h

theorem adjAll_cons2 (P : Key → Key → Prop) (a b : Key) (r : List Key) :
    AdjAll P (a :: b :: r) ↔ P a b ∧ AdjAll P (b :: r) := by
  constructor
  · intro h
    refine ⟨h [] a b r rfl, ?_⟩
    intro p a' k q hq
    exact h (a :: p) a' k q (by rw [hq]; rfl)
  · rintro ⟨h1, h2⟩ p a' k q hq
    cases p with
    | nil =>
      simp only [List.nil_append, List.cons.injEq] at hq
      obtain ⟨rfl, rfl, _⟩ := hq
      exact h1
    | cons x p' =>
      simp only [List.cons_append, List.cons.injEq] at hq
      exact h2 p' a' k q hq.2

def P127 (a k : Key) : Prop := k.type = .FRAGMENT_REFERENCE → (a.type = .FILE ∨ a.type = .BLOB)
def P128 (a k : Key) : Prop := a.type = .SUBMODEL_ELEMENT_LIST → k.isInt = true

theorem aasd127_eq (ks : List Key) : Spec.aasd127 ks ↔ AdjAll P127 ks := Iff.rfl
theorem aasd128_eq (ks : List Key) : Spec.aasd128 ks ↔ AdjAll P128 ks := Iff.rfl

theorem pair127 (a k : Key) :
    (k.type == KT.FRAGMENT_REFERENCE && !(a.type == KT.BLOB || a.type == KT.FILE)) = true ↔ ¬ P127 a k := by
  unfold P127
  simp only [Bool.and_eq_true, beq_iff_eq, Bool.not_eq_true', Bool.or_eq_false_iff, beq_eq_false_iff_ne, ne_eq]
  constructor
  · rintro ⟨h1, h2, h3⟩ h
    rcases h h1 with h | h
    · exact h3 h
    · exact h2 h
  · intro h
    by_cases h1 : k.type = .FRAGMENT_REFERENCE
    · refine ⟨h1, ?_, ?_⟩
      · intro hb; exact h (fun _ => Or.inr hb)
      · intro hf; exact h (fun _ => Or.inl hf)
    · exact absurd (fun h' => absurd h' h1) h

theorem pair128 (a k : Key) : (a.type == KT.SUBMODEL_ELEMENT_LIST && !k.isInt) = true ↔ ¬ P128 a k := by
  unfold P128
  simp only [Bool.and_eq_true, beq_iff_eq, Bool.not_eq_true', Classical.not_imp, Bool.not_eq_true]

/-- what `pairLoop` returns, completely -/
theorem pairLoop_spec : ∀ ks : List Key,
    (pairLoop ks = .ok () ∧ AdjAll P127 ks ∧ AdjAll P128 ks) ∨
    (pairLoop ks = .error (.aascv 127) ∧ ¬ AdjAll P127 ks) ∨
    (pairLoop ks = .error (.aascv 128) ∧ ¬ AdjAll P128 ks)
  | [] => Or.inl ⟨rfl, adjAll_nil _, adjAll_nil _⟩
  | [x] => Or.inl ⟨rfl, adjAll_single _ x, adjAll_single _ x⟩
  | a :: b :: r => by
    rw [adjAll_cons2, adjAll_cons2]
    unfold pairLoop
    by_cases h1 : (b.type == KT.FRAGMENT_REFERENCE && !(a.type == KT.BLOB || a.type == KT.FILE)) = true
    · rw [if_pos h1]
      exact Or.inr (Or.inl ⟨rfl, fun h => (pair127 a b).1 h1 h.1⟩)
    · rw [if_neg h1]
      have p1 : P127 a b := Classical.not_not.1 (fun h => h1 ((pair127 a b).2 h))
      by_cases h2 : (a.type == KT.SUBMODEL_ELEMENT_LIST && !b.isInt) = true
      · rw [if_pos h2]
        exact Or.inr (Or.inr ⟨rfl, fun h => (pair128 a b).1 h2 h.1⟩)
      · rw [if_neg h2]
        have p2 : P128 a b := Classical.not_not.1 (fun h => h2 ((pair128 a b).2 h))
        rcases pairLoop_spec (b :: r) with ⟨h, h3, h4⟩ | ⟨h, h3⟩ | ⟨h, h3⟩
        · exact Or.inl ⟨h, ⟨p1, h3⟩, ⟨p2, h4⟩⟩
        · exact Or.inr (Or.inl ⟨h, fun x => h3 x.2⟩)
        · exact Or.inr (Or.inr ⟨h, fun x => h3 x.2⟩)

theorem mem_dropLast_iff {k : Key} : ∀ ks : List Key, k ∈ ks.dropLast ↔ ∃ p q, ks = p ++ k :: q ∧ q ≠ []
  | [] => by
    simp only [List.dropLast_nil, List.not_mem_nil, false_iff]
    rintro ⟨p, q, h, _⟩
    cases p <;> simp at h
  | [x] => by
    simp only [List.dropLast_singleton, List.not_mem_nil, false_iff]
    rintro ⟨p, q, h, hq⟩
    cases p with
    | nil => simp at h; exact hq h.2
    | cons y p' => cases p' <;> simp at h
  | a :: b :: r => by
    rw [List.dropLast_cons₂, List.mem_cons, mem_dropLast_iff (b :: r)]
    constructor
    · rintro (rfl | ⟨p, q, h, hq⟩)
      · exact ⟨[], b :: r, rfl, by simp⟩
      · exact ⟨a :: p, q, by rw [h]; rfl, hq⟩
    · rintro ⟨p, q, h, hq⟩
      cases p with
      | nil =>
        simp only [List.nil_append, List.cons.injEq] at h
        exact Or.inl h.1.symm
      | cons x p' =>
        simp only [List.cons_append, List.cons.injEq] at h
        exact Or.inr ⟨p', q, h.2, hq⟩

theorem aasd126_iff (ks : List Key) :
    ks.dropLast.any (fun k => k.type.is_generic_fragment_key) = false ↔ Spec.aasd126 ks := by
  rw [List.any_eq_false]
  unfold Spec.aasd126
  constructor
  · intro h p k q hk hg
    by_cases hq : q = []
    · exact hq
    · exact absurd ((kt_gfk k.type).2 hg) (h k ((mem_dropLast_iff ks).2 ⟨p, q, hk, hq⟩))
  · intro h k hk hg
    obtain ⟨p, q, hks, hq⟩ := (mem_dropLast_iff ks).1 hk
    exact hq (h p k q hks ((kt_gfk k.type).1 hg))

theorem aasd125_iff (k0 : Key) (rest : List Key) :
    rest.any (fun k => !k.type.is_fragment_key_element) = false ↔ Spec.aasd125 (k0 :: rest) := by
  rw [List.any_eq_false]
  unfold Spec.aasd125
  constructor
  · intro h a r heq k hk
    simp only [List.cons.injEq] at heq
    obtain ⟨_, rfl⟩ := heq
    have := h k hk
    simp only [Bool.not_eq_true', Bool.not_eq_false] at this
    exact (kt_fke k.type).1 this
  · intro h k hk
    simp only [Bool.not_eq_true', Bool.not_eq_false]
    exact (kt_fke k.type).2 (h k0 rest rfl k hk)

theorem aasd123_iff (k0 : Key) (rest : List Key) : k0.type.is_aas_identifiable = true ↔ Spec.aasd123 (k0 :: rest) := by
  unfold Spec.aasd123
  constructor
  · intro h; exact ⟨k0, rest, rfl, (kt_identifiable _).1 h⟩
  · rintro ⟨k, r, heq, hk⟩
    simp only [List.cons.injEq] at heq
    obtain ⟨rfl, _⟩ := heq
    exact (kt_identifiable _).2 hk

/-- complete description of `ModelReference.__init__`'s checks on a non-empty chain -/
theorem modelRefCheck_spec (k0 : Key) (rest : List Key) :
    (modelRefCheck (k0 :: rest) = .ok () ∧ Spec.ModelRefOk (k0 :: rest)) ∨
    (modelRefCheck (k0 :: rest) = .error (.aascv 123) ∧ ¬ Spec.aasd123 (k0 :: rest)) ∨
    (modelRefCheck (k0 :: rest) = .error (.aascv 125) ∧ ¬ Spec.aasd125 (k0 :: rest)) ∨
    (modelRefCheck (k0 :: rest) = .error (.aascv 126) ∧ ¬ Spec.aasd126 (k0 :: rest)) ∨
    (modelRefCheck (k0 :: rest) = .error (.aascv 127) ∧ ¬ Spec.aasd127 (k0 :: rest)) ∨
    (modelRefCheck (k0 :: rest) = .error (.aascv 128) ∧ ¬ Spec.aasd128 (k0 :: rest)) := by
  unfold modelRefCheck
  by_cases h1 : k0.type.is_aas_identifiable = true
  · have s1 := (aasd123_iff k0 rest).1 h1
    simp only [h1, Bool.not_true, Bool.false_eq_true, ↓reduceIte]
    by_cases h2 : rest.any (fun k => !k.type.is_fragment_key_element) = true
    · simp only [h2, ↓reduceIte]
      refine Or.inr (Or.inr (Or.inl ⟨by trivial, fun h => ?_⟩))
      have := (aasd125_iff k0 rest).2 h
      rw [this] at h2; exact absurd h2 (by simp)
    · have h2' : rest.any (fun k => !k.type.is_fragment_key_element) = false := by simpa using h2
      have s2 := (aasd125_iff k0 rest).1 h2'
      simp only [h2', Bool.false_eq_true, ↓reduceIte]
      by_cases h3 : (k0 :: rest).dropLast.any (fun k => k.type.is_generic_fragment_key) = true
      · simp only [h3, ↓reduceIte]
        refine Or.inr (Or.inr (Or.inr (Or.inl ⟨by trivial, fun h => ?_⟩)))
        have := (aasd126_iff (k0 :: rest)).2 h
        rw [this] at h3; exact absurd h3 (by simp)
      · have h3' : (k0 :: rest).dropLast.any (fun k => k.type.is_generic_fragment_key) = false := by simpa using h3
        have s3 := (aasd126_iff (k0 :: rest)).1 h3'
        simp only [h3', Bool.false_eq_true, ↓reduceIte]
        rcases pairLoop_spec (k0 :: rest) with ⟨h, h4, h5⟩ | ⟨h, h4⟩ | ⟨h, h4⟩
        · exact Or.inl ⟨h, s1, s2, s3, h4, h5⟩
        · exact Or.inr (Or.inr (Or.inr (Or.inr (Or.inl ⟨h, h4⟩))))
        · exact Or.inr (Or.inr (Or.inr (Or.inr (Or.inr ⟨h, h4⟩))))
  · have h1' : k0.type.is_aas_identifiable = false := by simpa using h1
    simp only [h1', Bool.not_false, ↓reduceIte]
    exact Or.inr (Or.inl ⟨by trivial, fun h => h1 ((aasd123_iff k0 rest).2 h)⟩)

theorem extRefCheck_spec (k0 : Key) (rest : List Key) :
    (extRefCheck (k0 :: rest) = .ok () ∧ Spec.ExtRefOk (k0 :: rest)) ∨
    (extRefCheck (k0 :: rest) = .error (.aascv 122) ∧ ¬ Spec.aasd122 (k0 :: rest)) ∨
    (extRefCheck (k0 :: rest) = .error (.aascv 124) ∧ ¬ Spec.aasd124 (k0 :: rest)) := by
  have hl : ∃ kl, (k0 :: rest).getLast? = some kl := by
    cases h : (k0 :: rest).getLast? with
    | none => simp at h
    | some kl => exact ⟨kl, rfl⟩
  obtain ⟨kl, hkl⟩ := hl
  obtain ⟨ys, hys⟩ := List.getLast?_eq_some_iff.1 hkl
  unfold extRefCheck
  simp only [hkl]
  by_cases h1 : k0.type.is_generic_globally_identifiable = true
  · have s1 : Spec.aasd122 (k0 :: rest) := ⟨k0, rest, rfl, (kt_ggi _).1 h1⟩
    simp only [h1, Bool.not_true, Bool.false_eq_true, ↓reduceIte]
    by_cases h2 : (!kl.type.is_generic_globally_identifiable && !kl.type.is_generic_fragment_key) = true
    · simp only [h2, ↓reduceIte]
      refine Or.inr (Or.inr ⟨by trivial, ?_⟩)
      rintro ⟨p, k, hk, hor⟩
      have : k = kl := by
        have := hys ▸ hk
        exact ((List.append_inj' this rfl).2 ▸ rfl : [kl] = [k]) |> fun h => (List.cons.inj h).1.symm
      subst this
      simp only [Bool.and_eq_true, Bool.not_eq_true'] at h2
      rcases hor with h | h
      · have := (kt_ggi _).2 h; rw [h2.1] at this; exact absurd this (by simp)
      · have := (kt_gfk _).2 h; rw [h2.2] at this; exact absurd this (by simp)
    · simp only [h2, Bool.false_eq_true, ↓reduceIte]
      refine Or.inl ⟨by trivial, s1, ys, kl, hys, ?_⟩
      simp only [Bool.and_eq_true, Bool.not_eq_true', not_and, Bool.not_eq_false] at h2
      by_cases hg : kl.type.is_generic_globally_identifiable = true
      · exact Or.inl ((kt_ggi _).1 hg)
      · exact Or.inr ((kt_gfk _).1 (h2 (by simpa using hg)))
  · have h1' : k0.type.is_generic_globally_identifiable = false := by simpa using h1
    simp only [h1', Bool.not_false, ↓reduceIte]
    refine Or.inr (Or.inl ⟨by trivial, ?_⟩)
    rintro ⟨k, r, heq, hk⟩
    simp only [List.cons.injEq] at heq
    obtain ⟨rfl, _⟩ := heq
    exact h1 ((kt_ggi _).2 hk)

/-! ## ConstrainedList: hooks only veto; what passes is the plain list operation -/

def noHooks : Hooks := ⟨.ok (), fun _ _ _ => .ok (), fun _ => .ok ()⟩

/-- the plain Python list semantics of an op (= a `ConstrainedList` without hooks) -/
def listEffect (xs : List Nat) (op : LOp) : Res (List Nat) := listStep noHooks xs op

theorem clampIdx_le (i : Int) (n : Nat) : clampIdx i n ≤ n := by
  unfold clampIdx; split <;> omega

theorem sliceBounds_le (a b : Option Int) (n : Nat) :
    (sliceBounds a b n).1 ≤ (sliceBounds a b n).2 ∧ (sliceBounds a b n).2 ≤ n := by
  cases a with
  | none =>
    cases b with
    | none => simp [sliceBounds]
    | some j => have := clampIdx_le j n; simp [sliceBounds]; omega
  | some i =>
    have hi := clampIdx_le i n
    cases b with
    | none => simp [sliceBounds]; omega
    | some j => have := clampIdx_le j n; simp [sliceBounds]; omega

theorem normIdx_lt {i : Int} {n j : Nat} (h : normIdx i n = some j) : j < n := by
  unfold normIdx at h
  split at h <;> split at h <;> first | (cases h; omega) | cases h

theorem addAll_noHooks (ys : List Nat) : addAll noHooks ys = .ok () := by
  induction ys with
  | nil => rfl
  | cons y r ih => simp [addAll, andThen, noHooks] at *; exact ih

theorem delDryRun_noHooks (len k : Nat) : delDryRun noHooks len k = .ok () := by
  induction k generalizing len with
  | zero => rfl
  | succ k ih => simp [delDryRun, andThen, noHooks] at *; exact ih _

/-- refinement: an op accepted under any hooks does exactly what the plain list op does -/
theorem listStep_refines (h : Hooks) (xs : List Nat) (op : LOp) (ys : List Nat) :
    listStep h xs op = .ok ys → listEffect xs op = .ok ys := by
  unfold listEffect
  cases op <;>
    simp only [listStep, setSliceStep, delSliceStep, delIdxStep, andThen_ok, addAll_noHooks, delDryRun_noHooks] <;>
    (try (intro hh; first
      | exact ⟨rfl, hh.2⟩
      | (split at hh <;> simp_all [andThen_ok, noHooks])))
  all_goals (try (intro hh; simp_all [noHooks]))

/-- what an owner needs from its hooks for soundness: `P b` = "the owner's cross-attribute rule holds when the
    list is non-empty iff `b`" -/
structure HookSound (h : Hooks) (P : Bool → Prop) : Prop where
  add : h.add = .ok () → P true
  set : ∀ o r n, r ≤ o → P (decide (o > 0)) → h.set o r n = .ok () → P (decide (o - r + n > 0))
  del : ∀ o, P (decide (o > 0)) → h.del o = .ok () → P (decide (o > 1))

theorem addAll_ok (h : Hooks) (ys : List Nat) : addAll h ys = .ok () → ys = [] ∨ h.add = .ok () := by
  cases ys with
  | nil => intro _; exact Or.inl rfl
  | cons y r => intro hh; rw [addAll, andThen_ok] at hh; exact Or.inr hh.1

theorem delDryRun_sound (h : Hooks) (P : Bool → Prop) (hs : HookSound h P) :
    ∀ k len, k ≤ len → P (decide (len > 0)) → delDryRun h len k = .ok () → P (decide (len - k > 0))
  | 0, len, _, hp, _ => by simpa using hp
  | k + 1, len, hk, hp, hd => by
    rw [delDryRun, andThen_ok] at hd
    have h1 := hs.del len hp hd.1
    have h2 : decide (len > 1) = decide (len - 1 > 0) := by
      by_cases hl : len > 1 <;> simp [hl] <;> omega
    rw [h2] at h1
    have := delDryRun_sound h P hs k (len - 1) (by omega) h1 hd.2
    have h3 : len - 1 - k = len - (k + 1) := by omega
    rw [h3] at this; exact this

theorem decide_pos_congr {a b : Nat} (h : (a > 0) ↔ (b > 0)) : decide (a > 0) = decide (b > 0) := by
  by_cases ha : a > 0
  · have hb := h.1 ha; simp [ha, hb]
  · have hb : ¬ b > 0 := fun hb => ha (h.2 hb)
    simp [ha, hb]

/-- soundness of every list op w.r.t. the owner's rule -/
theorem listStep_sound (h : Hooks) (P : Bool → Prop) (hs : HookSound h P) (xs : List Nat) (op : LOp) (ys : List Nat)
    (hp : P (decide (xs.length > 0))) (hok : listStep h xs op = .ok ys) : P (decide (ys.length > 0)) := by
  have hslice : ∀ a b zs, setSliceStep h xs a b zs = .ok ys → P (decide (ys.length > 0)) := by
    intro a b zs hh
    unfold setSliceStep at hh
    simp only [andThen_ok] at hh
    obtain ⟨h1, h2⟩ := hh
    have hb := sliceBounds_le a b xs.length
    have := hs.set _ _ _ (by omega) hp h1
    cases h2
    rw [decide_pos_congr (b := xs.length - ((sliceBounds a b xs.length).2 - (sliceBounds a b xs.length).1) + zs.length)]
    · exact this
    · simp only [List.length_append, List.length_take, List.length_drop]; omega
  have hdslice : ∀ a b, delSliceStep h xs a b = .ok ys → P (decide (ys.length > 0)) := by
    intro a b hh
    unfold delSliceStep at hh
    simp only [andThen_ok] at hh
    obtain ⟨h1, h2⟩ := hh
    have hb := sliceBounds_le a b xs.length
    have := delDryRun_sound h P hs _ _ (by omega) hp h1
    cases h2
    rw [decide_pos_congr (b := xs.length - ((sliceBounds a b xs.length).2 - (sliceBounds a b xs.length).1))]
    · exact this
    · simp only [List.length_append, List.length_take, List.length_drop]; omega
  have hdidx : ∀ i, delIdxStep h xs i = .ok ys → P (decide (ys.length > 0)) := by
    intro i hh
    unfold delIdxStep at hh
    split at hh
    · cases hh
    · rename_i j hj
      have hlt := normIdx_lt hj
      simp only [andThen_ok] at hh
      obtain ⟨h1, h2⟩ := hh
      have := hs.del _ hp h1
      cases h2
      rw [decide_pos_congr (b := xs.length - 1)]
      · have h2 : decide (xs.length > 1) = decide (xs.length - 1 > 0) := by
          by_cases hl : xs.length > 1 <;> simp [hl] <;> omega
        rw [← h2]; exact this
      · simp only [List.length_eraseIdx, hlt, ↓reduceIte]
  cases op with
  | insert i x =>
    simp only [listStep, andThen_ok] at hok
    obtain ⟨h1, h2⟩ := hok
    cases h2
    have : decide ((List.take (clampIdx i xs.length) xs ++ x :: List.drop (clampIdx i xs.length) xs).length > 0) = true := by
      simp; omega
    rw [this]; exact hs.add h1
  | append x =>
    simp only [listStep, andThen_ok] at hok
    obtain ⟨h1, h2⟩ := hok
    cases h2
    have : decide ((xs ++ [x]).length > 0) = true := by simp
    rw [this]; exact hs.add h1
  | extend zs =>
    simp only [listStep, andThen_ok] at hok
    obtain ⟨h1, h2⟩ := hok
    cases h2
    rcases addAll_ok h zs h1 with rfl | h3
    · simpa using hp
    · cases zs with
      | nil => simpa using hp
      | cons z r =>
        have : decide ((xs ++ z :: r).length > 0) = true := by simp; omega
        rw [this]; exact hs.add h3
  | setItem i x =>
    simp only [listStep] at hok
    split at hok
    · cases hok
    · rename_i j hj
      have hlt := normIdx_lt hj
      simp only [andThen_ok] at hok
      obtain ⟨h1, h2⟩ := hok
      have := hs.set _ 1 1 (by omega) hp h1
      cases h2
      rw [decide_pos_congr (b := xs.length - 1 + 1)]
      · exact this
      · simp only [List.length_set]; omega
  | setSlice a b zs => exact hslice a b zs hok
  | delItem i => exact hdidx i hok
  | delSlice a b => exact hdslice a b hok
  | pop i => exact hdidx _ hok
  | clear => exact hdslice none none hok
  | remove x =>
    simp only [listStep] at hok
    split at hok
    · cases hok
    · rename_i j hj
      have hlt : j < xs.length := by
        have := List.idxOf?_eq_some_iff.1 hj
        exact this.1
      simp only [andThen_ok] at hok
      obtain ⟨h1, h2⟩ := hok
      have := hs.del _ hp h1
      cases h2
      rw [decide_pos_congr (b := xs.length - 1)]
      · have h2 : decide (xs.length > 1) = decide (xs.length - 1 > 0) := by
          by_cases hl : xs.length > 1 <;> simp [hl] <;> omega
        rw [← h2]; exact this
      · simp only [List.length_eraseIdx, hlt, ↓reduceIte]
  | assign zs => exact hslice none none zs hok

/-- what an owner needs from its hooks for completeness: they raise only `e`, and do raise it whenever the
    owner's rule would be broken by the list the op would produce -/
structure HookComplete (h : Hooks) (P : Bool → Prop) (e : Err) : Prop where
  addK : h.add = .ok () ∨ h.add = .error e
  delK : ∀ o, h.del o = .ok () ∨ h.del o = .error e
  add : ¬ P true → h.add = .error e
  set : ∀ o r n, r ≤ o → P (decide (o > 0)) → ¬ P (decide (o - r + n > 0)) → h.set o r n = .error e
  del : ∀ o, P (decide (o > 0)) → ¬ P (decide (o > 1)) → h.del o = .error e

theorem delDryRun_complete (h : Hooks) (P : Bool → Prop) (e : Err) (hs : HookSound h P) (hc : HookComplete h P e) :
    ∀ k len, k ≤ len → P (decide (len > 0)) → ¬ P (decide (len - k > 0)) → delDryRun h len k = .error e
  | 0, len, _, hp, hb => by exact absurd (by simpa using hp) hb
  | k + 1, len, hk, hp, hb => by
    rw [delDryRun]
    rcases hc.delK len with h1 | h1
    · rw [h1]
      have h2 := hs.del len hp h1
      have h3 : decide (len > 1) = decide (len - 1 > 0) := by
        by_cases hl : len > 1 <;> simp [hl] <;> omega
      rw [h3] at h2
      have h4 : len - (k + 1) = len - 1 - k := by omega
      rw [h4] at hb
      simpa [andThen] using delDryRun_complete h P e hs hc k (len - 1) (by omega) h2 hb
    · rw [h1]; rfl

/-- completeness of every list op: if the plain list op would produce a list that breaks the owner's rule,
    the hooks raise the owner's error -/
theorem listStep_complete (h : Hooks) (P : Bool → Prop) (e : Err) (hs : HookSound h P) (hc : HookComplete h P e)
    (xs : List Nat) (op : LOp) (zs : List Nat) (hp : P (decide (xs.length > 0)))
    (heff : listEffect xs op = .ok zs) (hbad : ¬ P (decide (zs.length > 0))) : listStep h xs op = .error e := by
  unfold listEffect at heff
  have hslice : ∀ a b ys, setSliceStep noHooks xs a b ys = .ok zs → setSliceStep h xs a b ys = .error e := by
    intro a b ys hh
    unfold setSliceStep at hh ⊢
    simp only [andThen_ok] at hh
    dsimp only
    have hb := sliceBounds_le a b xs.length
    have hz := hh.2
    cases hz
    rw [decide_pos_congr (b := xs.length - ((sliceBounds a b xs.length).2 - (sliceBounds a b xs.length).1) + ys.length)] at hbad
    · rw [hc.set _ _ _ (by omega) hp hbad]; rfl
    · simp only [List.length_append, List.length_take, List.length_drop]; omega
  have hdslice : ∀ a b, delSliceStep noHooks xs a b = .ok zs → delSliceStep h xs a b = .error e := by
    intro a b hh
    unfold delSliceStep at hh ⊢
    simp only [andThen_ok] at hh
    dsimp only
    have hb := sliceBounds_le a b xs.length
    have hz := hh.2
    cases hz
    rw [decide_pos_congr (b := xs.length - ((sliceBounds a b xs.length).2 - (sliceBounds a b xs.length).1))] at hbad
    · rw [delDryRun_complete h P e hs hc _ _ (by omega) hp hbad]; rfl
    · simp only [List.length_append, List.length_take, List.length_drop]; omega
  have hdel1 : ∀ j, j < xs.length → zs = xs.eraseIdx j → h.del xs.length = .error e := by
    intro j hlt hz
    apply hc.del _ hp
    rw [hz, decide_pos_congr (b := xs.length - 1)] at hbad
    · have h2 : decide (xs.length > 1) = decide (xs.length - 1 > 0) := by
        by_cases hl : xs.length > 1 <;> simp [hl] <;> omega
      rw [h2]; exact hbad
    · simp only [List.length_eraseIdx, hlt, ↓reduceIte]
  have hdidx : ∀ i, delIdxStep noHooks xs i = .ok zs → delIdxStep h xs i = .error e := by
    intro i hh
    unfold delIdxStep at hh ⊢
    split at hh
    · cases hh
    · rename_i j hj
      simp only [andThen_ok] at hh
      have hz := hh.2
      cases hz
      rw [hdel1 j (normIdx_lt hj) rfl]; rfl
  cases op with
  | insert i x =>
    simp only [listStep, andThen_ok] at heff ⊢
    have hz := heff.2
    cases hz
    have : decide ((List.take (clampIdx i xs.length) xs ++ x :: List.drop (clampIdx i xs.length) xs).length > 0) = true := by
      simp; omega
    rw [this] at hbad
    rw [hc.add hbad]; rfl
  | append x =>
    simp only [listStep, andThen_ok] at heff ⊢
    have hz := heff.2
    cases hz
    have : decide ((xs ++ [x]).length > 0) = true := by simp
    rw [this] at hbad
    rw [hc.add hbad]; rfl
  | extend ys =>
    simp only [listStep, andThen_ok] at heff ⊢
    have hz := heff.2
    cases hz
    cases ys with
    | nil => exact absurd (by simpa using hp) hbad
    | cons y r =>
      have : decide ((xs ++ y :: r).length > 0) = true := by simp; omega
      rw [this] at hbad
      rw [addAll, hc.add hbad]; rfl
  | setItem i x =>
    simp only [listStep] at heff ⊢
    split at heff
    · cases heff
    · rename_i j hj
      have hlt := normIdx_lt hj
      simp only [andThen_ok] at heff
      have hz := heff.2
      cases hz
      rw [decide_pos_congr (b := xs.length - 1 + 1)] at hbad
      · rw [hc.set _ 1 1 (by omega) hp hbad]; rfl
      · simp only [List.length_set]; omega
  | setSlice a b ys => exact hslice a b ys heff
  | delItem i => exact hdidx i heff
  | delSlice a b => exact hdslice a b heff
  | pop i => exact hdidx _ heff
  | clear => exact hdslice none none heff
  | remove x =>
    simp only [listStep] at heff ⊢
    split at heff
    · cases heff
    · rename_i j hj
      have hlt : j < xs.length := (List.idxOf?_eq_some_iff.1 hj).1
      simp only [andThen_ok] at heff
      have hz := heff.2
      cases hz
      rw [hdel1 j hlt rfl]; rfl
  | assign ys => exact hslice none none ys heff

/-! ### the three owners' hooks -/

def P014 (t : EntityType) (gid : Option Str) (b : Bool) : Prop :=
  match t with
  | .selfManaged => gid ≠ none ∨ b = true
  | .coManaged => gid = none ∧ b = false

theorem validate014_spec (t : EntityType) (gid : Option Str) (b : Bool) :
    (validate014 t gid b = .ok () ∧ P014 t gid b) ∨ (validate014 t gid b = .error (.aascv 14) ∧ ¬ P014 t gid b) := by
  cases t <;> cases gid <;> cases b <;> simp [validate014, P014]

theorem aasd014_iff (t : EntityType) (gid : Option Str) (l : List Nat) :
    Spec.aasd014 t gid l ↔ P014 t gid (decide (l.length > 0)) := by
  cases t <;> cases l <;> simp [Spec.aasd014, P014]

theorem validate014_ok {t : EntityType} {gid : Option Str} {b : Bool} : validate014 t gid b = .ok () → P014 t gid b := by
  intro h; rcases validate014_spec t gid b with ⟨_, h2⟩ | ⟨h1, _⟩
  · exact h2
  · rw [h1] at h; cases h

theorem validate014_bad {t : EntityType} {gid : Option Str} {b : Bool} : ¬ P014 t gid b → validate014 t gid b = .error (.aascv 14) := by
  intro h; rcases validate014_spec t gid b with ⟨_, h2⟩ | ⟨h1, _⟩
  · exact absurd h2 h
  · exact h1

theorem validate014_kind (t : EntityType) (gid : Option Str) (b : Bool) :
    validate014 t gid b = .ok () ∨ validate014 t gid b = .error (.aascv 14) := by
  rcases validate014_spec t gid b with ⟨h, _⟩ | ⟨h, _⟩
  · exact Or.inl h
  · exact Or.inr h

theorem entityHooks_sound (t : EntityType) (gid : Option Str) : HookSound (entityHooks t gid) (P014 t gid) :=
  ⟨validate014_ok, fun _ _ _ _ _ h => validate014_ok h, fun _ _ h => validate014_ok h⟩

theorem entityHooks_complete (t : EntityType) (gid : Option Str) : HookComplete (entityHooks t gid) (P014 t gid) (.aascv 14) :=
  ⟨validate014_kind _ _ _, fun _ => validate014_kind _ _ _, validate014_bad,
   fun _ _ _ _ _ h => validate014_bad h, fun _ _ h => validate014_bad h⟩

def P131 (gid : Option Str) (b : Bool) : Prop := gid ≠ none ∨ b = true

theorem aasd131_iff (gid : Option Str) (l : List Nat) : Spec.aasd131 gid l ↔ P131 gid (decide (l.length > 0)) := by
  cases l <;> simp [Spec.aasd131, P131]

theorem validate131_ok {gid : Option Str} {b : Bool} : validate131 gid b = .ok () → P131 gid b ∧ Spec.optStr 1 2000 gid := by
  unfold validate131
  cases gid <;> cases b <;> simp [P131, checkOpt_identifier_iff] <;> simp [Spec.optStr]

theorem validate131_bad {gid : Option Str} {b : Bool} : ¬ P131 gid b → validate131 gid b = .error (.aascv 131) := by
  cases gid <;> cases b <;> simp [validate131, P131]

theorem validate131_kind {gid : Option Str} (hg : Spec.optStr 1 2000 gid) (b : Bool) :
    validate131 gid b = .ok () ∨ validate131 gid b = .error (.aascv 131) := by
  unfold validate131
  split
  · exact Or.inr rfl
  · exact Or.inl ((checkOpt_identifier_iff gid).2 hg)

theorem assetHooks_sound (gid : Option Str) : HookSound (assetHooks gid) (P131 gid) :=
  ⟨fun _ => Or.inr rfl, fun _ _ _ _ _ h => (validate131_ok h).1, fun _ _ h => (validate131_ok h).1⟩

theorem assetHooks_complete (gid : Option Str) (hg : Spec.optStr 1 2000 gid) : HookComplete (assetHooks gid) (P131 gid) (.aascv 131) :=
  ⟨Or.inl rfl, fun _ => validate131_kind hg _, fun h => absurd (Or.inr rfl) h,
   fun _ _ _ _ _ h => validate131_bad h, fun _ _ h => validate131_bad h⟩

def P118 (sem : Option Nat) (b : Bool) : Prop := b = true → sem ≠ none

theorem aasd118_iff (sem : Option Nat) (l : List Nat) : Spec.aasd118 sem l ↔ P118 sem (decide (l.length > 0)) := by
  cases l <;> simp [Spec.aasd118, P118]

theorem semHooks_sound (sem : Option Nat) : HookSound (semHooks sem) (P118 sem) := by
  refine ⟨?_, ?_, ?_⟩
  · cases sem <;> simp [semHooks, P118]
  · intro o r n hr hp
    cases sem with
    | none =>
      simp only [semHooks, Option.isNone_none, Bool.true_and, P118, decide_eq_true_eq] at hp ⊢
      by_cases hn : n > 0
      · simp [hn]
      · simp only [hn, decide_false, Bool.false_eq_true, ↓reduceIte, forall_const]
        intro hpos
        exact hp (by omega)
    | some v => simp [P118]
  · intro o hp _
    cases sem with
    | none =>
      simp only [P118, decide_eq_true_eq] at hp ⊢
      intro h; exact hp (by omega)
    | some v => simp [P118]

theorem semHooks_complete (sem : Option Nat) : HookComplete (semHooks sem) (P118 sem) (.aascv 118) := by
  refine ⟨?_, fun _ => Or.inl rfl, ?_, ?_, ?_⟩
  · cases sem <;> simp [semHooks]
  · cases sem <;> simp [semHooks, P118]
  · intro o r n hr hp hb
    cases sem with
    | none =>
      simp only [P118, decide_eq_true_eq, ne_eq, not_true_eq_false, imp_false, Classical.not_not] at hp hb
      have : n > 0 := by omega
      simp [semHooks, this]
    | some v => simp [P118] at hb
  · intro o hp hb
    cases sem with
    | none =>
      simp only [P118, decide_eq_true_eq, ne_eq, not_true_eq_false, imp_false, Classical.not_not] at hp hb
      omega
    | some v => simp [P118] at hb

/-! ### typed values -/

theorem castInt (t : String) (n : Int) (h : t ∈ Spec.integerTypes) :
    trivialCast (.int n) t =
      (if t = "Integer" then .ok (.int n) else if inIntRange t n then .ok (.int n) else .error .valueError) := by
  simp only [Spec.integerTypes, List.mem_cons, List.not_mem_nil, or_false] at h
  rcases h with h | h | h | h | h | h | h | h | h | h | h | h | h <;> subst h <;> rfl

theorem inIntRange_iff (t : String) (n : Int) (h : t ∈ Spec.integerTypes) : inIntRange t n = true ↔ Spec.InXsdRange t n := by
  simp only [Spec.integerTypes, List.mem_cons, List.not_mem_nil, or_false] at h
  rcases h with h | h | h | h | h | h | h | h | h | h | h | h | h <;> subst h <;>
    simp [inIntRange, IntRanges.ranges, Spec.InXsdRange, Spec.xsdRanges]

end Basyx.Constraints
