/-
  Helper lemmas for property C01, part 3: the full invariant (`Inv` = unordered part + order lists) and its preservation
  by the public single-element set operations (add, insert, append, remove, remove by key, discard, pop, pop(i), clear,
  `set[i] = x`), together with their atomicity (a raising call leaves `elems` and `sets` untouched).
-/
import Basyx.Lemmas.NsOps
namespace Basyx.Ns

/-- every `_order` list is a duplicate free enumeration of the backend's values -/
def InvO (s : St) : Prop :=
  ∀ (g : Nat) (S : NSet) (o : List Nat), s.sets[g]? = some S → S.order = some o → o.Nodup ∧ ∀ e, e ∈ o ↔ e ∈ vals S

structure Inv (s : St) : Prop where
  u : InvU s
  o : InvO s

/-- nothing observable changed -/
def Unch (s s' : St) : Prop := s'.sets = s.sets ∧ s'.elems = s.elems

theorem Unch.rfl' {s : St} : Unch s s := ⟨rfl, rfl⟩

def Out.isRaise : Out → Prop
  | .raise _ => True
  | _ => False

/-- the unordered invariant does not look at `order` -/
theorem InvU_of_core {s s' : St} (hI : InvU s) (he : s'.elems = s.elems) (hc : s'.ctr = s.ctr) (hn : s'.nsCount = s.nsCount)
    (h1 : ∀ (g : Nat) (S' : NSet), s'.sets[g]? = some S' → ∃ S, s.sets[g]? = some S ∧ S'.ns = S.ns ∧ S'.attr = S.attr ∧ S'.backend = S.backend)
    (h2 : ∀ (g : Nat) (S : NSet), s.sets[g]? = some S → ∃ S', s'.sets[g]? = some S' ∧ S'.ns = S.ns ∧ S'.attr = S.attr ∧ S'.backend = S.backend) :
    InvU s' := by
  constructor
  · intro g S' k e hS' hm
    obtain ⟨S, hS, a, b, c⟩ := h1 _ _ hS'
    rw [he, a, b]; exact hI.member _ _ _ _ hS (by rw [← c]; exact hm)
  · intro g S' hS'
    obtain ⟨S, hS, a, b, c⟩ := h1 _ _ hS'
    rw [c]; exact hI.keysNodup _ _ hS
  · intro g1 g2 T1 T2 k hT1 hT2 hn' ha hk1 hk2
    obtain ⟨S1, hS1, a1, b1, c1⟩ := h1 _ _ hT1
    obtain ⟨S2, hS2, a2, b2, c2⟩ := h1 _ _ hT2
    exact hI.unique _ _ _ _ k hS1 hS2 (by rw [← a1, ← a2]; exact hn') (by rw [← b1, ← b2]; exact ha)
      (by rw [← c1]; exact hk1) (by rw [← c2]; exact hk2)
  · intro e el n hE hp
    rw [he] at hE
    obtain ⟨g, S, k, hS, hn', hm⟩ := hI.parent _ _ _ hE hp
    obtain ⟨S', hS', a, b, c⟩ := h2 _ _ hS
    exact ⟨g, S', k, hS', by rw [a]; exact hn', by rw [c]; exact hm⟩
  · intro e el i hE hk
    rw [he] at hE; rw [hc]; exact hI.genFresh _ _ _ hE hk
  · intro g S' hS'
    obtain ⟨S, hS, a, b, c⟩ := h1 _ _ hS'
    rw [hn, a]; exact hI.nsBound _ _ hS

theorem InvU_modify_order {s s' : St} {g : Nat} {F : NSet → NSet} (hI : InvU s)
    (hF : ∀ S, (F S).ns = S.ns ∧ (F S).attr = S.attr ∧ (F S).backend = S.backend)
    (hsets : s'.sets = s.sets.modify g F) (he : s'.elems = s.elems) (hc : s'.ctr = s.ctr) (hn : s'.nsCount = s.nsCount) :
    InvU s' := by
  apply InvU_of_core hI he hc hn
  · intro x S' hS'
    rw [hsets] at hS'
    by_cases hx : x = g
    · subst hx
      rw [getElem?_modify_same] at hS'
      cases hS : s.sets[x]? with
      | none => rw [hS] at hS'; cases hS'
      | some S => rw [hS] at hS'; simp at hS'; subst hS'; exact ⟨S, rfl, hF S⟩
    · rw [getElem?_modify_ne hx] at hS'; exact ⟨S', hS', rfl, rfl, rfl⟩
  · intro x S hS
    rw [hsets]
    by_cases hx : x = g
    · subst hx; rw [getElem?_modify_same, hS]; exact ⟨F S, rfl, hF S⟩
    · rw [getElem?_modify_ne hx]; exact ⟨S, hS, rfl, rfl, rfl⟩

theorem InvU_setOrder {s : St} (hI : InvU s) (g : Nat) (f : List Nat → List Nat) : InvU (setOrder s g f) :=
  InvU_modify_order (F := fun S => { S with order := S.order.map f }) hI (fun _ => ⟨rfl, rfl, rfl⟩) rfl rfl rfl rfl

/-- the order invariant after set `g` was rewritten by `F` -/
theorem InvO_modify {s s' : St} {g : Nat} {F : NSet → NSet} (hO : InvO s) (hsets : s'.sets = s.sets.modify g F)
    (hF : ∀ S o', s.sets[g]? = some S → (F S).order = some o' → o'.Nodup ∧ ∀ e, e ∈ o' ↔ e ∈ vals (F S)) : InvO s' := by
  intro x S' o' hS' ho'
  rw [hsets] at hS'
  by_cases hx : x = g
  · subst hx
    rw [getElem?_modify_same] at hS'
    cases hS : s.sets[x]? with
    | none => rw [hS] at hS'; cases hS'
    | some S => rw [hS] at hS'; simp at hS'; subst hS'; exact hF S o' hS ho'
  · rw [getElem?_modify_ne hx] at hS'; exact hO _ _ _ hS' ho'

theorem InvO_of_sets_eq {s s' : St} (hO : InvO s) (h : s'.sets = s.sets) : InvO s' := by
  intro g S o hS; rw [h] at hS; exact hO g S o hS

theorem Inv_of_unch {s s' : St} (hI : Inv s) (hu : InvU s') (h : s'.sets = s.sets) : Inv s' :=
  ⟨hu, InvO_of_sets_eq hI.o h⟩

/-! ### add / insert / append -/

/-- common shape of `add`, `insert`, `append`: `super().add(e)` then an insertion `ins` of `e` into `_order` -/
theorem addWith_inv {s : St} (hI : Inv s) (g e : Nat) (ins : List Nat → List Nat)
    (hins : ∀ o x, x ∈ ins o ↔ x = e ∨ x ∈ o) (hnd : ∀ o, o.Nodup → e ∉ o → (ins o).Nodup) :
    Inv (match baseAdd s g e with | (s1, .ok) => (setOrder s1 g ins, Out.ok) | r => r).1 ∧
    ((match baseAdd s g e with | (s1, .ok) => (setOrder s1 g ins, Out.ok) | r => r).2 ≠ .ok →
      Unch s (match baseAdd s g e with | (s1, .ok) => (setOrder s1 g ins, Out.ok) | r => r).1) := by
  obtain ⟨hU, hnc, hctr, hne, hok, hfail⟩ := baseAdd_spec hI.u g e
  cases hr : baseAdd s g e with
  | mk s1 out =>
    rw [hr] at hU hok hfail hne
    cases out with
    | ok =>
      simp only
      obtain ⟨S, el, k, hS, hE, hdet, hkind, hnv, hnk, _, _, hsets, helems⟩ := (hok rfl).ex
      refine ⟨⟨InvU_setOrder hU g ins, ?_⟩, by simp⟩
      have hfin : (setOrder s1 g ins).sets =
          s.sets.modify g ((fun S => { S with order := S.order.map ins }) ∘ (fun S => { S with backend := S.backend ++ [(k, e)] })) := by
        simp only [setOrder, updSet]
        show s1.sets.modify g _ = _
        rw [hsets, List.modify_modify_eq]
      apply InvO_modify hI.o hfin
      intro S0 o' hS0 ho'
      rw [hS] at hS0; cases hS0
      simp at ho'
      obtain ⟨o, ho, rfl⟩ := ho'
      obtain ⟨hon, hom⟩ := hI.o _ _ _ hS ho
      have : e ∉ o := fun h => hnv ((hom e).1 h)
      refine ⟨hnd o hon this, ?_⟩
      intro x
      simp only [Function.comp]
      rw [hins]
      show _ ↔ x ∈ vals { S with backend := S.backend ++ [(k, e)] }
      rw [vals_append]; simp [hom x]; exact Or.comm
    | elem x => exact absurd rfl (hne x)
    | raise x =>
      simp only
      obtain ⟨h1, h2⟩ := hfail (by simp)
      exact ⟨Inv_of_unch hI hU h1, fun _ => ⟨h1, h2⟩⟩
    | bad =>
      simp only
      obtain ⟨h1, h2⟩ := hfail (by simp)
      exact ⟨Inv_of_unch hI hU h1, fun _ => ⟨h1, h2⟩⟩

theorem setAdd_inv {s : St} (hI : Inv s) (g e : Nat) :
    Inv (setAdd s g e).1 ∧ ((setAdd s g e).2 ≠ .ok → Unch s (setAdd s g e).1) := by
  unfold setAdd
  exact addWith_inv hI g e (fun o => o ++ [e]) (by intro o x; simp [or_comm])
    (by intro o hn he; rw [List.nodup_append]; exact ⟨hn, by simp, by intro a ha b hb; simp at hb; subst hb; rintro rfl; exact he ha⟩)

/-! ### Python list facts -/

theorem clampIns_le (i : Int) (len : Nat) : clampIns i len ≤ len := by
  unfold clampIns; split <;> omega

theorem mem_insertIdx' {l : List Nat} {i a x : Nat} (h : i ≤ l.length) : x ∈ l.insertIdx i a ↔ x = a ∨ x ∈ l := by
  rw [(List.perm_insertIdx a l h).mem_iff]; simp

theorem nodup_insertIdx' {l : List Nat} {i a : Nat} (h : i ≤ l.length) (hn : l.Nodup) (ha : a ∉ l) :
    (l.insertIdx i a).Nodup := by
  rw [(List.perm_insertIdx a l h).nodup_iff]; exact List.nodup_cons.2 ⟨ha, hn⟩

theorem mem_eraseIdx_nodup {l : List Nat} {j a x : Nat} (hn : l.Nodup) (hj : l[j]? = some a) :
    x ∈ l.eraseIdx j ↔ x ∈ l ∧ x ≠ a := by
  rw [List.mem_eraseIdx_iff_getElem?]
  have hjl : j < l.length := (List.getElem?_eq_some_iff.1 hj).1
  constructor
  · rintro ⟨i, hij, hi⟩
    refine ⟨List.mem_of_getElem? hi, ?_⟩
    rintro rfl
    exact hij ((List.getElem?_inj (List.getElem?_eq_some_iff.1 hi).1 hn).1 (by rw [hi, hj]))
  · rintro ⟨hx, hne⟩
    obtain ⟨i, hi⟩ := List.mem_iff_getElem?.1 hx
    refine ⟨i, ?_, hi⟩
    rintro rfl; rw [hj] at hi; cases hi; exact hne rfl

theorem set_split {l : List Nat} {j a b : Nat} (hj : l[j]? = some a) :
    l = l.take j ++ a :: l.drop (j + 1) ∧ l.set j b = l.take j ++ b :: l.drop (j + 1) := by
  have hjl : j < l.length := (List.getElem?_eq_some_iff.1 hj).1
  constructor
  · have h1 := (List.take_append_drop j l).symm
    have h2 : l.drop j = a :: l.drop (j + 1) := by
      rw [List.drop_eq_getElem_cons hjl]
      congr 1
      obtain ⟨_, h⟩ := List.getElem?_eq_some_iff.1 hj; exact h
    rw [h2] at h1; exact h1
  · rw [List.set_eq_take_append_cons_drop, if_pos hjl]

theorem mem_set_nodup {l : List Nat} {j a b x : Nat} (hn : l.Nodup) (hj : l[j]? = some a) :
    x ∈ l.set j b ↔ x = b ∨ (x ∈ l ∧ x ≠ a) := by
  obtain ⟨h1, h2⟩ := set_split (b := b) hj
  rw [h2]
  rw [h1] at hn
  have hd := List.nodup_append.1 hn
  have hc := List.nodup_cons.1 hd.2.1
  have hmem : x ∈ l ↔ x ∈ l.take j ∨ x = a ∨ x ∈ l.drop (j + 1) := by
    conv => lhs; rw [h1]
    simp
  simp only [List.mem_append, List.mem_cons]
  rw [hmem]
  constructor
  · rintro (h | rfl | h)
    · right; exact ⟨Or.inl h, fun e => hd.2.2 _ h _ (by simp) e⟩
    · left; rfl
    · right; exact ⟨Or.inr (Or.inr h), fun e => hc.1 (e ▸ h)⟩
  · rintro (rfl | ⟨h | h | h, hne⟩)
    · right; left; rfl
    · left; exact h
    · exact absurd h hne
    · right; right; exact h

theorem nodup_set {l : List Nat} {j a b : Nat} (hn : l.Nodup) (hj : l[j]? = some a) (hb : b ∉ l) : (l.set j b).Nodup := by
  obtain ⟨h1, h2⟩ := set_split (b := b) hj
  rw [h2]
  have hb' : b ∉ l.take j ∧ b ∉ l.drop (j + 1) := by
    rw [h1] at hb; simp at hb; exact ⟨hb.1, hb.2.2⟩
  rw [h1] at hn
  have hd := List.nodup_append.1 hn
  have hc := List.nodup_cons.1 hd.2.1
  rw [List.nodup_append]
  refine ⟨hd.1, List.nodup_cons.2 ⟨hb'.2, hc.2⟩, ?_⟩
  intro x hx y hy
  simp at hy
  rcases hy with rfl | hy
  · rintro rfl; exact hb'.1 hx
  · exact hd.2.2 _ hx _ (by simp [hy])

/-! ### insert / append -/

theorem isOrdered_iff {s : St} {g : Nat} {S : NSet} (hS : s.sets[g]? = some S) : isOrdered s g = S.order.isSome := by
  simp [isOrdered, hS]

theorem setInsert_inv {s : St} (hI : Inv s) (g : Nat) (i : Int) (e : Nat) :
    Inv (setInsert s g i e).1 ∧ ((setInsert s g i e).2 ≠ .ok → Unch s (setInsert s g i e).1) := by
  unfold setInsert
  split
  · exact addWith_inv hI g e (fun o => o.insertIdx (clampIns i o.length) e)
      (by intro o x; exact mem_insertIdx' (clampIns_le _ _))
      (by intro o hn he; exact nodup_insertIdx' (clampIns_le _ _) hn he)
  · exact ⟨hI, fun _ => Unch.rfl'⟩

theorem setAppend_inv {s : St} (hI : Inv s) (g e : Nat) :
    Inv (setAppend s g e).1 ∧ ((setAppend s g e).2 ≠ .ok → Unch s (setAppend s g e).1) := by
  unfold setAppend
  split
  · exact setInsert_inv hI g _ e
  · exact ⟨hI, fun _ => Unch.rfl'⟩

/-! ### remove / remove by key / discard -/

theorem orderRemove_none {s : St} {g e : Nat} {S : NSet} (hS : s.sets[g]? = some S) (ho : S.order = none) :
    orderRemove s g e = (s, .ok) := by
  simp [orderRemove, isOrdered, hS, ho]

theorem orderRemove_mem {s : St} {g e : Nat} {S : NSet} {o : List Nat} (hS : s.sets[g]? = some S) (ho : S.order = some o)
    (he : e ∈ o) : orderRemove s g e = (setOrder s g (fun o => o.erase e), .ok) := by
  simp [orderRemove, isOrdered, orderOf, hS, ho, he]

theorem get_of_modify {s s' : St} {g : Nat} {S : NSet} {F : NSet → NSet} (hsets : s'.sets = s.sets.modify g F)
    (hS : s.sets[g]? = some S) : s'.sets[g]? = some (F S) := by
  rw [hsets, getElem?_modify_same, hS]; rfl

theorem setRemove_inv {s : St} (hI : Inv s) (g e : Nat) :
    Inv (setRemove s g e).1 ∧ ((setRemove s g e).2 ≠ .ok → (setRemove s g e).1 = s) ∧
    (∀ S, s.sets[g]? = some S → e ∈ vals S → (setRemove s g e).2 = .ok) ∧
    (∀ x, (setRemove s g e).2 ≠ .elem x) ∧
    ((setRemove s g e).2 = .ok → ∃ el, (setRemove s g e).1.elems[e]? = some el ∧ el.parent = none) := by
  obtain ⟨hU, hnc, hctr, hne, hok, hfail, hmust⟩ := baseRemove_spec hI.u g e
  unfold setRemove
  cases hr : baseRemove s g e with
  | mk s1 out =>
    rw [hr] at hU hok hfail hne hmust
    cases out with
    | ok =>
      simp only
      obtain ⟨S, el, k, hS, hE, hm, hk, hsets, helems⟩ := (hok rfl).ex
      have hS1 := get_of_modify hsets hS
      have hev : e ∈ vals S := mem_vals_iff.2 ⟨k, hm⟩
      have hpar : ∃ el', s1.elems[e]? = some el' ∧ el'.parent = none := by
        simp only at helems
        rw [helems, getElem?_modify_same, hE]; exact ⟨_, rfl, rfl⟩
      cases ho : S.order with
      | none =>
        rw [orderRemove_none hS1 (by simpa using ho)]
        refine ⟨⟨hU, ?_⟩, by simp, fun _ _ _ => rfl, by simp, fun _ => hpar⟩
        apply InvO_modify hI.o hsets
        intro S0 o' hS0 ho'
        rw [hS] at hS0; cases hS0
        simp [ho] at ho'
      | some o =>
        obtain ⟨hon, hom⟩ := hI.o _ _ _ hS ho
        rw [orderRemove_mem hS1 (by simpa using ho) ((hom e).2 hev)]
        refine ⟨⟨InvU_setOrder hU _ _, ?_⟩, by simp, fun _ _ _ => rfl, by simp, fun _ => hpar⟩
        have hfin : (setOrder s1 g (fun o => o.erase e)).sets =
            s.sets.modify g ((fun S => { S with order := S.order.map (fun o => o.erase e) }) ∘
              (fun S => { S with backend := AList.erase k S.backend })) := by
          show s1.sets.modify g _ = _
          rw [hsets, List.modify_modify_eq]
        apply InvO_modify hI.o hfin
        intro S0 o' hS0 ho'
        rw [hS] at hS0; cases hS0
        simp [ho] at ho'
        subst ho'
        refine ⟨hon.erase e, ?_⟩
        intro x
        rw [hon.mem_erase_iff]
        show _ ↔ x ∈ (AList.erase k S.backend).map Prod.snd
        rw [mem_vals_erase hI.u hS hm, hom x]; exact And.comm
    | elem x => exact absurd rfl (hne x)
    | raise x =>
      simp only
      have := hfail (by simp); simp only at this; subst this
      exact ⟨hI, fun _ => rfl, fun S hS he => by have := hmust S hS he; simp at this, by simp, by simp⟩
    | bad =>
      simp only
      have := hfail (by simp); simp only at this; subst this
      exact ⟨hI, fun _ => rfl, fun S hS he => by have := hmust S hS he; simp at this, by simp, by simp⟩

theorem lookup_mem {S : NSet} {k : Key} {e : Nat} (h : lookup S k = some e) : (k, e) ∈ S.backend :=
  AList.mem_of_get h

theorem setRemoveKey_inv {s : St} (hI : Inv s) (g : Nat) (k : Key) :
    Inv (setRemoveKey s g k).1 ∧ ((setRemoveKey s g k).2 ≠ .ok → (setRemoveKey s g k).1 = s) ∧
    (∀ x, (setRemoveKey s g k).2 ≠ .elem x) ∧
    (∀ x, (setRemoveKey s g k).2 = .raise x → x = .keyError) := by
  unfold setRemoveKey
  cases hS : s.sets[g]? with
  | none => exact ⟨hI, fun _ => rfl, by simp, by simp⟩
  | some S =>
    simp only
    cases hl : lookup S k with
    | none => exact ⟨hI, fun _ => rfl, by simp, by simp⟩
    | some e =>
      simp only
      obtain ⟨h1, h2, h3, h4, _⟩ := setRemove_inv hI g e
      have hok := h3 S hS (mem_vals_iff.2 ⟨k, lookup_mem hl⟩)
      exact ⟨h1, h2, h4, by rw [hok]; simp⟩

theorem containsAt_mem {s : St} {g e : Nat} {S : NSet} (hS : s.sets[g]? = some S) (h : containsAt s g e = true) :
    e ∈ vals S := by
  unfold containsAt at h
  rw [hS] at h
  cases hE : s.elems[e]? with
  | none => rw [hE] at h; simp at h
  | some el =>
    rw [hE] at h
    simp only [containsE, Bool.and_eq_true, decide_eq_true_eq] at h
    cases hk : el.key with
    | none => rw [hk] at h; simp at h
    | some k =>
      rw [hk] at h; simp at h
      exact mem_vals_iff.2 ⟨k, lookup_mem h.2⟩

theorem setDiscard_inv {s : St} (hI : Inv s) (g e : Nat) :
    Inv (setDiscard s g e).1 ∧ ((setDiscard s g e).2 ≠ .ok → (setDiscard s g e).1 = s) := by
  unfold setDiscard
  cases hS : s.sets[g]? with
  | none => exact ⟨hI, fun _ => rfl⟩
  | some S =>
    cases hE : s.elems[e]? with
    | none => exact ⟨hI, fun _ => rfl⟩
    | some el =>
      simp only
      split
      · obtain ⟨h1, h2, _⟩ := setRemove_inv hI g e
        exact ⟨h1, h2⟩
      · exact ⟨hI, fun _ => rfl⟩

/-! ### pop / pop(i) -/

theorem mem_vals_sub {s : St} (hI : InvU s) {g e : Nat} {S : NSet} {k : Key} {b' : List (Key × Nat)}
    (hS : s.sets[g]? = some S) (hm : (k, e) ∈ S.backend) (hb : ∀ p, p ∈ b' ↔ p ∈ S.backend ∧ p ≠ (k, e)) (x : Nat) :
    x ∈ b'.map Prod.snd ↔ x ∈ vals S ∧ x ≠ e := by
  simp only [vals, List.mem_map]
  constructor
  · rintro ⟨p, hp, rfl⟩
    obtain ⟨h1, h2⟩ := (hb p).1 hp
    refine ⟨⟨p, h1, rfl⟩, ?_⟩
    intro he
    obtain ⟨k', x⟩ := p
    simp at he; subst he
    have := (hI.entry_unique hS hm hS h1).2
    subst this; exact h2 rfl
  · rintro ⟨⟨p, hp, rfl⟩, hne⟩
    refine ⟨p, (hb p).2 ⟨hp, ?_⟩, rfl⟩
    intro h; subst h; exact hne rfl

/-- the state after taking entry `(k, e)` out of set `g` (backend becomes `b'`, `_order` is rewritten by `fo`) -/
theorem detach_inv {s s' : St} {g e : Nat} {k : Key} {S : NSet} {el : Elem} {b' : List (Key × Nat)} {hooked : Bool}
    {fo : List Nat → List Nat}
    (hI : Inv s) (hS : s.sets[g]? = some S) (hm : (k, e) ∈ S.backend) (hE : s.elems[e]? = some el)
    (hsub : b'.Sublist S.backend) (hb : ∀ p, p ∈ b' ↔ p ∈ S.backend ∧ p ≠ (k, e))
    (hfo : ∀ o, S.order = some o → (fo o).Nodup ∧ ∀ x, x ∈ fo o ↔ x ∈ o ∧ x ≠ e)
    (hsets : s'.sets = s.sets.modify g (fun T => { T with backend := b', order := T.order.map fo }))
    (helems : s'.elems = s.elems.modify e (fun x => { x with parent := none, key := if hooked then none else x.key }))
    (hctr : s.ctr ≤ s'.ctr) (hnc : s'.nsCount = s.nsCount) : Inv s' := by
  constructor
  · apply detachU (S' := { S with backend := b', order := S.order.map fo })
      (el' := { el with parent := none, key := if hooked then none else el.key }) hI.u hS hm
    · rw [helems, getElem?_modify_same, hE]; rfl
    · rfl
    · intro i hi
      cases hooked
      · simp at hi; exact Nat.lt_of_lt_of_le (hI.u.genFresh _ _ _ hE hi) hctr
      · simp at hi
    · intro x hx; rw [helems, getElem?_modify_ne hx]
    · rw [hsets, getElem?_modify_same, hS]; rfl
    · rfl
    · rfl
    · exact hsub
    · exact hb
    · intro x hx; rw [hsets, getElem?_modify_ne hx]
    · exact hctr
    · exact hnc
  · apply InvO_modify hI.o hsets
    intro S0 o' hS0 ho'
    rw [hS] at hS0; cases hS0
    simp at ho'
    obtain ⟨o, ho, rfl⟩ := ho'
    obtain ⟨hon, hom⟩ := hI.o _ _ _ hS ho
    obtain ⟨h1, h2⟩ := hfo o ho
    refine ⟨h1, ?_⟩
    intro x
    rw [h2 x]
    show _ ↔ x ∈ b'.map Prod.snd
    rw [mem_vals_sub hI.u hS hm hb, hom x]

theorem setPop_inv {s : St} (hI : Inv s) (g : Nat) :
    Inv (setPop s g).1 ∧ ((setPop s g).2.isRaise → (setPop s g).1 = s) ∧ ((setPop s g).2 = .bad → (setPop s g).1 = s) := by
  unfold setPop
  cases hS : s.sets[g]? with
  | none => exact ⟨hI, fun _ => rfl, fun _ => rfl⟩
  | some S =>
    simp only
    cases hl : S.backend.getLast? with
    | none => exact ⟨hI, fun _ => rfl, fun _ => rfl⟩
    | some p =>
      obtain ⟨k, e⟩ := p
      simp only
      obtain ⟨ys, hys⟩ := List.getLast?_eq_some_iff.1 hl
      have hm : (k, e) ∈ S.backend := by rw [hys]; simp
      obtain ⟨el, hE, hk, hp, hkd⟩ := hI.u.member _ _ _ _ hS hm
      have hnd := hI.u.keysNodup _ _ hS
      have hnotin : (k, e) ∉ ys := by
        intro h
        rw [hys] at hnd
        simp [AList.keys] at hnd
        rw [List.nodup_append] at hnd
        exact hnd.2.2 k (by simp; exact ⟨e, h⟩) k (by simp) rfl
      have hb : ∀ p, p ∈ ys ↔ p ∈ S.backend ∧ p ≠ (k, e) := by
        intro p; rw [hys]; simp
        constructor
        · intro h; exact ⟨Or.inl h, fun h' => hnotin (h' ▸ h)⟩
        · rintro ⟨h | h, hne⟩
          · exact h
          · exact absurd h hne
      have hsub : ys.Sublist S.backend := by rw [hys]; exact List.sublist_append_left _ _
      have hdl : S.backend.dropLast = ys := by rw [hys]; exact List.dropLast_concat
      let s1 := delHook (updSet s g (fun S => { S with backend := S.backend.dropLast })) S.hooks.isSome e
      have hsets1 : s1.sets = s.sets.modify g (fun T => { T with backend := ys }) :=
        modify_congr_at hS (by rw [hdl])
      have helems1 : s1.elems = s.elems.modify e
          (fun x => { x with parent := none, key := if S.hooks.isSome then none else x.key }) := rfl
      have hS1 : s1.sets[g]? = some { S with backend := ys } := get_of_modify hsets1 hS
      have hev : e ∈ vals S := mem_vals_iff.2 ⟨k, hm⟩
      show Inv (match orderRemove s1 g e with | (s2, .ok) => (s2, Out.elem e) | r => r).1 ∧ _
      cases ho : S.order with
      | none =>
        rw [orderRemove_none hS1 (by simpa using ho)]
        refine ⟨?_, by simp [Out.isRaise], by simp⟩
        apply detach_inv (fo := id) (b' := ys) (hooked := S.hooks.isSome) hI hS hm hE hsub hb
          (by intro o h; rw [ho] at h; cases h) _ helems1 (Nat.le_refl _) rfl
        rw [hsets1]; exact modify_congr_at hS (by simp [ho])
      | some o =>
        obtain ⟨hon, hom⟩ := hI.o _ _ _ hS ho
        rw [orderRemove_mem hS1 (by simpa using ho) ((hom e).2 hev)]
        refine ⟨?_, by simp [Out.isRaise], by simp⟩
        show Inv (setOrder s1 g (fun o => o.erase e))
        apply detach_inv (s' := setOrder s1 g (fun o => o.erase e)) (fo := fun o => o.erase e) (b' := ys) (hooked := S.hooks.isSome) hI hS hm hE hsub hb
          _ _ helems1 (Nat.le_refl _) rfl
        · intro o' ho'; rw [ho] at ho'; cases ho'
          exact ⟨hon.erase e, fun x => by rw [hon.mem_erase_iff]; exact And.comm⟩
        · show s1.sets.modify g _ = _
          rw [hsets1, List.modify_modify_eq]; rfl

theorem setPopAt_inv {s : St} (hI : Inv s) (g : Nat) (i : Int) :
    Inv (setPopAt s g i).1 ∧ ((setPopAt s g i).2.isRaise → (setPopAt s g i).1 = s) ∧
    ((setPopAt s g i).2 = .bad → (setPopAt s g i).1 = s) := by
  unfold setPopAt
  cases hS : s.sets[g]? with
  | none => exact ⟨hI, fun _ => rfl, fun _ => rfl⟩
  | some S =>
    simp only
    cases ho : S.order with
    | none => exact ⟨hI, fun _ => rfl, fun _ => rfl⟩
    | some o =>
      simp only
      cases hj : normIdx i o.length with
      | none => exact ⟨hI, fun _ => rfl, fun _ => rfl⟩
      | some j =>
        simp only
        cases hoj : o[j]? with
        | none => exact ⟨hI, fun _ => rfl, fun _ => rfl⟩
        | some e =>
          simp only
          obtain ⟨hon, hom⟩ := hI.o _ _ _ hS ho
          have hev : e ∈ vals S := (hom e).1 (List.mem_of_getElem? hoj)
          let s0 := setOrder s g (fun o => o.eraseIdx j)
          have hU0 : InvU s0 := InvU_setOrder hI.u _ _
          have hsets0 : s0.sets = s.sets.modify g (fun S => { S with order := S.order.map (fun o => o.eraseIdx j) }) := rfl
          have hS0 := get_of_modify hsets0 hS
          obtain ⟨hU, hnc, hctr, hne, hok, hfail, hmust⟩ := baseRemove_spec hU0 g e
          have hokk := hmust _ hS0 hev
          show Inv (match baseRemove s0 g e with | (s2, .ok) => (s2, Out.elem e) | r => r).1 ∧ _
          cases hr : baseRemove s0 g e with
          | mk s2 out =>
            rw [hr] at hokk hok; simp only at hokk; subst hokk
            simp only
            refine ⟨?_, by simp [Out.isRaise], by simp⟩
            obtain ⟨S0, el, k, hS0', hE, hm, hk, hsets, helems⟩ := (hok rfl).ex
            rw [hS0] at hS0'; cases hS0'
            simp only at hm helems hsets
            apply detach_inv (fo := fun o => o.eraseIdx j) (b' := AList.erase k S.backend) (hooked := S.hooks.isSome) hI hS hm hE
              (AList.erase_sublist _ _) (AList.mem_erase_iff (hI.u.keysNodup _ _ hS) hm) _ _ helems
              (by have := hctr; rw [hr] at this; exact Nat.le_of_eq this.symm) (by have := hnc; rw [hr] at this; exact this)
            · intro o' ho'; rw [ho] at ho'; cases ho'
              exact ⟨hon.eraseIdx j, fun x => mem_eraseIdx_nodup hon hoj⟩
            · rw [hsets, hsets0, List.modify_modify_eq]
              exact modify_congr_at hS rfl

/-! ### clear -/

theorem foldl_delHook_sets (hooked : Bool) (L : List Nat) (s : St) :
    (L.foldl (fun acc e => delHook acc hooked e) s).sets = s.sets ∧
    (L.foldl (fun acc e => delHook acc hooked e) s).ctr = s.ctr ∧
    (L.foldl (fun acc e => delHook acc hooked e) s).nsCount = s.nsCount := by
  induction L generalizing s with
  | nil => exact ⟨rfl, rfl, rfl⟩
  | cons a t ih => simp only [List.foldl_cons]; obtain ⟨h1, h2, h3⟩ := ih (delHook s hooked a); exact ⟨h1, h2, h3⟩

def resetEl (hooked : Bool) (x : Elem) : Elem := { x with parent := none, key := if hooked then none else x.key }

theorem foldl_delHook_elems (hooked : Bool) (L : List Nat) (s : St) (x : Nat) :
    (L.foldl (fun acc e => delHook acc hooked e) s).elems[x]? =
      if x ∈ L then (s.elems[x]?).map (resetEl hooked) else s.elems[x]? := by
  induction L generalizing s with
  | nil => simp
  | cons a t ih =>
    simp only [List.foldl_cons]
    rw [ih]
    have hd : (delHook s hooked a).elems[x]? = if x = a then (s.elems[a]?).map (resetEl hooked) else s.elems[x]? :=
      updElem_get s a x _
    rw [hd]
    by_cases hxa : x = a
    · subst hxa
      simp
      cases s.elems[x]? with
      | none => simp
      | some el => simp [resetEl]; intro _ h1 h2; rw [h1] at h2; cases h2
    · simp [hxa]

theorem setClear_inv {s : St} (hI : Inv s) (g : Nat) :
    Inv (setClear s g).1 ∧ ((setClear s g).2 ≠ .ok → (setClear s g).1 = s) := by
  unfold setClear
  cases hS : s.sets[g]? with
  | none => exact ⟨hI, fun _ => rfl⟩
  | some S =>
    simp only
    refine ⟨?_, by simp⟩
    obtain ⟨hs1, hc1, hn1⟩ := foldl_delHook_sets S.hooks.isSome (vals S) s
    have he1 := foldl_delHook_elems S.hooks.isSome (vals S) s
    generalize (vals S).foldl (fun acc e => delHook acc S.hooks.isSome e) s = s1 at hs1 hc1 hn1 he1
    have hget : ∀ x, (updSet s1 g (fun S => { S with backend := [], order := S.order.map (fun _ => []) })).sets[x]? =
        if x = g then some { S with backend := [], order := S.order.map (fun _ => []) } else s.sets[x]? := by
      intro x; rw [updSet_get, hs1, hS]; rfl
    have hother : ∀ (g' : Nat) (T : NSet) (k : Key) (e : Nat), g' ≠ g → s.sets[g']? = some T → (k, e) ∈ T.backend → e ∉ vals S := by
      intro g' T k e hg hT hm hv
      obtain ⟨k', hm'⟩ := mem_vals_iff.1 hv
      exact hg (hI.u.entry_unique hS hm' hT hm).1
    constructor
    · constructor
      · intro g' T k e hT hm
        rw [hget] at hT
        by_cases hg : g' = g
        · rw [if_pos hg] at hT; cases hT; cases hm
        · rw [if_neg hg] at hT
          show ∃ el, s1.elems[e]? = some el ∧ _
          rw [he1, if_neg (hother _ _ _ _ hg hT hm)]
          exact hI.u.member _ _ _ _ hT hm
      · intro g' T hT
        rw [hget] at hT
        by_cases hg : g' = g
        · rw [if_pos hg] at hT; cases hT; simp [AList.keys]
        · rw [if_neg hg] at hT; exact hI.u.keysNodup _ _ hT
      · intro g1 g2 T1 T2 k h1 h2 hn ha hk1 hk2
        rw [hget] at h1 h2
        by_cases hg1 : g1 = g
        · rw [if_pos hg1] at h1; cases h1; simp [AList.keys] at hk1
        · by_cases hg2 : g2 = g
          · rw [if_pos hg2] at h2; cases h2; simp [AList.keys] at hk2
          · rw [if_neg hg1] at h1; rw [if_neg hg2] at h2; exact hI.u.unique _ _ _ _ _ h1 h2 hn ha hk1 hk2
      · intro x elx n hx hpx
        have hx' : s1.elems[x]? = some elx := hx
        rw [he1] at hx'
        by_cases hv : x ∈ vals S
        · rw [if_pos hv] at hx'
          cases hsx : s.elems[x]? with
          | none => rw [hsx] at hx'; cases hx'
          | some el0 => rw [hsx] at hx'; simp [resetEl] at hx'; subst hx'; cases hpx
        · rw [if_neg hv] at hx'
          obtain ⟨g', T, k, hT, hn', hm⟩ := hI.u.parent _ _ _ hx' hpx
          have hg : g' ≠ g := by
            rintro rfl; rw [hS] at hT; cases hT; exact hv (mem_vals_iff.2 ⟨k, hm⟩)
          exact ⟨g', T, k, by rw [hget, if_neg hg]; exact hT, hn', hm⟩
      · intro x elx i hx hk
        have hx' : s1.elems[x]? = some elx := hx
        show i < s1.ctr
        rw [hc1]
        rw [he1] at hx'
        by_cases hv : x ∈ vals S
        · rw [if_pos hv] at hx'
          cases hsx : s.elems[x]? with
          | none => rw [hsx] at hx'; cases hx'
          | some el0 =>
            rw [hsx] at hx'; simp [resetEl] at hx'; subst hx'
            cases hh : S.hooks.isSome
            · rw [hh] at hk; simp at hk; exact hI.u.genFresh _ _ _ hsx hk
            · rw [hh] at hk; simp at hk
        · rw [if_neg hv] at hx'; exact hI.u.genFresh _ _ _ hx' hk
      · intro g' T hT
        show T.ns < s1.nsCount
        rw [hn1]
        rw [hget] at hT
        by_cases hg : g' = g
        · rw [if_pos hg] at hT; cases hT; exact hI.u.nsBound g S hS
        · rw [if_neg hg] at hT; exact hI.u.nsBound _ _ hT
    · intro g' T o hT ho
      rw [hget] at hT
      by_cases hg : g' = g
      · rw [if_pos hg] at hT; cases hT
        simp at ho
        obtain ⟨_, _, rfl⟩ := ho
        simp [vals]
      · rw [if_neg hg] at hT; exact hI.o _ _ _ hT ho

/-! ### `set[i] = x` -/

theorem setSetItem_inv {s : St} (hI : Inv s) (g : Nat) (i : Int) (e : Nat) :
    Inv (setSetItem s g i e).1 ∧ ((setSetItem s g i e).2 ≠ .ok → Unch s (setSetItem s g i e).1) := by
  unfold setSetItem
  cases hS : s.sets[g]? with
  | none => exact ⟨hI, fun _ => Unch.rfl'⟩
  | some S =>
    simp only
    cases ho : S.order with
    | none => exact ⟨hI, fun _ => Unch.rfl'⟩
    | some o =>
      simp only
      cases hj : normIdx i o.length with
      | none => exact ⟨hI, fun _ => Unch.rfl'⟩
      | some j =>
        simp only
        cases hoj : o[j]? with
        | none => exact ⟨hI, fun _ => Unch.rfl'⟩
        | some old =>
          simp only
          obtain ⟨hon, hom⟩ := hI.o _ _ _ hS ho
          have hold : old ∈ vals S := (hom old).1 (List.mem_of_getElem? hoj)
          obtain ⟨hU, hnc, hctr, hne, hok, hfail⟩ := baseAdd_spec hI.u g e
          cases hr : baseAdd s g e with
          | mk s1 out =>
            rw [hr] at hU hok hfail hne hnc hctr
            cases out with
            | elem x => exact absurd rfl (hne x)
            | raise x =>
              simp only
              obtain ⟨h1, h2⟩ := hfail (by simp)
              exact ⟨Inv_of_unch hI hU h1, fun _ => ⟨h1, h2⟩⟩
            | bad =>
              simp only
              obtain ⟨h1, h2⟩ := hfail (by simp)
              exact ⟨Inv_of_unch hI hU h1, fun _ => ⟨h1, h2⟩⟩
            | ok =>
              simp only
              obtain ⟨S', el, k, hS', hE, hdet, hkind, hnv, hnk, _, _, hsets, helems⟩ := (hok rfl).ex
              rw [hS] at hS'; cases hS'
              simp only at hsets helems hU
              let s2 := setOrder s1 g (fun o => o.set j e)
              have hU2 : InvU s2 := InvU_setOrder hU _ _
              have hsets2 : s2.sets = s.sets.modify g (fun T : NSet =>
                  ({ T with backend := T.backend ++ [(k, e)], order := T.order.map (fun o => o.set j e) } : NSet)) := by
                show s1.sets.modify g _ = _
                rw [hsets, List.modify_modify_eq]; rfl
              have hS2 : s2.sets[g]? = some ({ S with backend := S.backend ++ [(k, e)], order := S.order.map (fun o => o.set j e) } : NSet) :=
                get_of_modify hsets2 hS
              have hold2 : old ∈ vals ({ S with backend := S.backend ++ [(k, e)], order := S.order.map (fun o => o.set j e) } : NSet) := by
                simp only [vals, List.map_append, List.mem_append]; left; exact hold
              obtain ⟨hU3, hnc3, hctr3, hne3, hok3, hfail3, hmust3⟩ := baseRemove_spec hU2 g old
              have hokk := hmust3 _ hS2 hold2
              show Inv (baseRemove s2 g old).1 ∧ _
              refine ⟨⟨hU3, ?_⟩, fun h => absurd hokk h⟩
              obtain ⟨S2, el2, k2, hS2', hE2, hm2, hk2, hsets3, helems3⟩ := (hok3 hokk).ex
              rw [hS2] at hS2'; cases hS2'
              have hfin : (baseRemove s2 g old).1.sets = s.sets.modify g (fun T : NSet =>
                  ({ T with backend := AList.erase k2 (T.backend ++ [(k, e)]), order := T.order.map (fun o => o.set j e) } : NSet)) := by
                rw [hsets3, hsets2, List.modify_modify_eq]; rfl
              apply InvO_modify hI.o hfin
              intro S0 o' hS0 ho'
              rw [hS] at hS0; cases hS0
              simp [ho] at ho'
              subst ho'
              have heo : e ∉ o := fun h => hnv ((hom e).1 h)
              refine ⟨nodup_set hon hoj heo, ?_⟩
              intro x
              rw [mem_set_nodup hon hoj]
              have := mem_vals_erase hU2 hS2 hm2 x
              simp only [vals, List.map_append, List.mem_append] at this
              show _ ↔ x ∈ (AList.erase k2 (S.backend ++ [(k, e)])).map Prod.snd
              rw [this, hom x]
              simp [vals]
              constructor
              · rintro (rfl | ⟨h1, h2⟩)
                · exact ⟨Or.inr rfl, fun h => hnv (h ▸ hold)⟩
                · exact ⟨Or.inl h1, h2⟩
              · rintro ⟨h1 | rfl, h2⟩
                · exact Or.inr ⟨h1, h2⟩
                · exact Or.inl rfl

end Basyx.Ns
