import Basyx.Model.Keyed
namespace Basyx.Keyed
variable {κ α : Type} [DecidableEq κ]

theorem lookup_some_mem : ∀ (l : List (κ × α)) (k : κ) (a : α), lookup k l = some a → (k, a) ∈ l
  | [], _, _, h => by simp [lookup] at h
  | (k', a') :: r, k, a, h => by
    simp only [lookup] at h
    split at h
    · next hk => cases h; subst hk; exact List.mem_cons_self ..
    · exact List.mem_cons_of_mem _ (lookup_some_mem r k a h)

theorem lookup_none_iff : ∀ (l : List (κ × α)) (k : κ), lookup k l = none ↔ k ∉ keys l
  | [], k => by simp [lookup, keys]
  | (k', a') :: r, k => by
    have ih := lookup_none_iff r k
    simp only [lookup, keys, List.map_cons, List.mem_cons, not_or] at ih ⊢
    split
    · next hk => subst hk; simp
    · next hk =>
      rw [ih]
      constructor
      · intro h; exact ⟨fun e => hk e.symm, h⟩
      · intro h; exact h.2

theorem lookup_isSome_iff (l : List (κ × α)) (k : κ) : (lookup k l).isSome = true ↔ k ∈ keys l := by
  cases h : lookup k l with
  | none => simp [(lookup_none_iff l k).1 h]
  | some a =>
    simp only [Option.isSome_some, true_iff]
    exact List.mem_map.2 ⟨(k, a), lookup_some_mem l k a h, rfl⟩

theorem lookup_of_mem_nodup : ∀ (l : List (κ × α)) (k : κ) (a : α), (keys l).Nodup → (k, a) ∈ l → lookup k l = some a
  | [], _, _, _, h => by cases h
  | (k', a') :: r, k, a, hn, h => by
    simp only [keys, List.map_cons, List.nodup_cons] at hn
    simp only [lookup]
    rcases List.mem_cons.1 h with e | h'
    · cases e; simp
    · split
      · next hk =>
        subst hk
        exact absurd (List.mem_map.2 ⟨(k', a), h', rfl⟩) hn.1
      · exact lookup_of_mem_nodup r k a hn.2 h'

omit [DecidableEq κ] in
theorem nodup_of_keys {l : List (κ × α)} (h : (keys l).Nodup) : l.Nodup :=
  List.Pairwise.of_map (·.1) (fun a b hab e => hab (by rw [e])) h

omit [DecidableEq κ] in
theorem keys_perm {l l' : List (κ × α)} (h : l.Perm l') : (keys l).Perm (keys l') := h.map _

theorem lookup_perm {l l' : List (κ × α)} (h : l.Perm l') (hn : (keys l).Nodup) (k : κ) : lookup k l = lookup k l' := by
  have hn' : (keys l').Nodup := (keys_perm h).nodup_iff.1 hn
  cases e : lookup k l with
  | some a => exact (lookup_of_mem_nodup l' k a hn' (h.mem_iff.1 (lookup_some_mem l k a e))).symm
  | none =>
    have : k ∉ keys l' := fun m => (lookup_none_iff l k).1 e ((keys_perm h).mem_iff.2 m)
    exact ((lookup_none_iff l' k).2 this).symm

theorem all_perm {β : Type} {l l' : List β} (h : l.Perm l') (p : β → Bool) : l.all p = l'.all p := by
  rw [Bool.eq_iff_iff]
  simp only [List.all_eq_true]
  exact ⟨fun H x hx => H x (h.mem_iff.2 hx), fun H x hx => H x (h.mem_iff.1 hx)⟩

/-- **The verdict does not depend on the order of either collection** (keys of the checked collection unique). -/
theorem checkKeyed_perm (lc : Bool) (cmp : α → α → Bool) {act act' exp exp' : List (κ × α)}
    (ha : act.Perm act') (he : exp.Perm exp') (hn : (keys act).Nodup) :
    checkKeyed lc cmp act exp = checkKeyed lc cmp act' exp' := by
  unfold checkKeyed
  have h1 : memberOk cmp act = memberOk cmp act' := by
    funext e; simp only [memberOk]; rw [lookup_perm ha hn]
  have h2 : known exp = known exp' := by
    funext a
    simp only [known]
    rw [Bool.eq_iff_iff, lookup_isSome_iff, lookup_isSome_iff]
    exact (keys_perm he).mem_iff
  rw [ha.length_eq, he.length_eq, h1, h2, all_perm he, all_perm ha]

/-- what a passing keyed comparison says, member by member -/
theorem checkKeyed_iff (lc : Bool) (cmp : α → α → Bool) (act exp : List (κ × α)) (hn : (keys act).Nodup) :
    checkKeyed lc cmp act exp = true ↔
      (lc = true → act.length = exp.length) ∧
      (∀ e ∈ exp, ∃ a, (e.1, a) ∈ act ∧ cmp a e.2 = true) ∧
      (∀ a ∈ act, a.1 ∈ keys exp) := by
  unfold checkKeyed
  simp only [Bool.and_eq_true, Bool.or_eq_true, Bool.not_eq_true', beq_iff_eq, List.all_eq_true, known, lookup_isSome_iff]
  constructor
  · rintro ⟨⟨h1, h2⟩, h3⟩
    refine ⟨fun hl => ?_, ?_, h3⟩
    · rcases h1 with h | h
      · simp [hl] at h
      · exact h
    intro e he
    have := h2 e he
    simp only [memberOk] at this
    split at this
    · next a ha => exact ⟨a, lookup_some_mem act e.1 a ha, this⟩
    · cases this
  · rintro ⟨h1, h2, h3⟩
    refine ⟨⟨?_, ?_⟩, h3⟩
    · cases lc
      · left; rfl
      · right; exact h1 rfl
    intro e he
    obtain ⟨a, ha, hc⟩ := h2 e he
    simp only [memberOk]
    rw [lookup_of_mem_nodup act e.1 a hn ha]
    exact hc

/-- **The verdict is "the same members"**: when comparing members is exact (`cmp` passes only on identical members, and
    passes on every expected member compared with itself) the keyed comparison passes iff one collection is a
    rearrangement of the other. -/
theorem checkKeyed_true_iff_perm (lc : Bool) (cmp : α → α → Bool) (act exp : List (κ × α))
    (hna : (keys act).Nodup) (hne : (keys exp).Nodup)
    (hs : ∀ a b, cmp a b = true → a = b) (hr : ∀ e ∈ exp, cmp e.2 e.2 = true) :
    checkKeyed lc cmp act exp = true ↔ act.Perm exp := by
  constructor
  · intro h
    obtain ⟨_, h2, h3⟩ := (checkKeyed_iff lc cmp act exp hna).1 h
    have da : act.Nodup := nodup_of_keys hna
    have de : exp.Nodup := nodup_of_keys hne
    refine (List.perm_ext_iff_of_nodup da de).2 (fun x => ⟨fun hx => ?_, fun hx => ?_⟩)
    · obtain ⟨e, he, hk⟩ := List.mem_map.1 (h3 x hx)
      obtain ⟨a, ha, hc⟩ := h2 e he
      have hae : a = e.2 := hs _ _ hc
      have h1 : lookup x.1 act = some x.2 := lookup_of_mem_nodup act x.1 x.2 hna hx
      have h2' : lookup x.1 act = some a := by rw [← hk]; exact lookup_of_mem_nodup act e.1 a hna ha
      have : x.2 = a := by rw [h1] at h2'; exact Option.some.inj h2'
      have hxe : x = e := by
        cases x; cases e; simp only at hk this hae ⊢; rw [hk, this, hae]
      exact hxe ▸ he
    · obtain ⟨a, ha, hc⟩ := h2 x hx
      have : a = x.2 := hs _ _ hc
      subst this
      exact ha
  · intro h
    rw [checkKeyed_perm lc cmp h (List.Perm.refl exp) hna]
    refine (checkKeyed_iff lc cmp exp exp hne).2 ⟨fun _ => rfl, fun e he => ⟨e.2, he, hr e he⟩, fun a ha => ?_⟩
    exact List.mem_map.2 ⟨a, ha, rfl⟩

end Basyx.Keyed
