/- C06 helper lemmas: decimal digits, zero padding, trailing-newline handling. -/
import Basyx.Model.Lex
import Basyx.Lemmas.Fmt
namespace Basyx.Lex
open Basyx.Fmt

theorem isDig_digitChar {n : Nat} (h : n < 10) : isDig (Nat.digitChar n) = true := by
  simp [isDig, Nat.isDigit_digitChar, h]

theorem isDig_of_mem_toDigits {c : Char} {n : Nat} (h : c ∈ Nat.toDigits 10 n) : isDig c = true :=
  Nat.isDigit_of_mem_toDigits (by decide) (by decide) h

theorem isDig_of_mem_padN {c : Char} {w n : Nat} (h : c ∈ padN w n) : isDig c = true := by
  simp only [padN, List.mem_append, List.mem_replicate] at h
  rcases h with ⟨_, rfl⟩ | h
  · decide
  · exact isDig_of_mem_toDigits h

theorem all_isDig_toDigits (n : Nat) : (Nat.toDigits 10 n).all isDig = true := by
  simp only [List.all_eq_true]; intro c hc; exact isDig_of_mem_toDigits hc

theorem all_isDig_padN (w n : Nat) : (padN w n).all isDig = true := by
  simp only [List.all_eq_true]; intro c hc; exact isDig_of_mem_padN hc

theorem length_padN {w n : Nat} (hw : 0 < w) (h : n < 10 ^ w) : (padN w n).length = w := by
  have := (Nat.length_toDigits_le_iff (b := 10) (n := n) (by decide) hw).2 h
  simp only [padN, List.length_append, List.length_replicate]; omega

theorem dval_padN (w n : Nat) : dval (padN w n) = n := ofDigitChars_padN w n

theorem dval_toDigits (n : Nat) : dval (Nat.toDigits 10 n) = n := Nat.ofDigitChars_ten_toDigits

/-- zero-padded numbers, one digit at a time -/
theorem padN_succ {w n : Nat} (hw : 0 < w) : padN (w + 1) n = padN w (n / 10) ++ [Nat.digitChar (n % 10)] := by
  unfold padN
  rw [Nat.toDigits_eq_if (b := 10) (n := n) (by decide)]
  split
  · next h =>
    have h0 : n / 10 = 0 := by omega
    have hm : n % 10 = n := by omega
    rw [h0, hm, Nat.toDigits_zero]
    simp only [List.length_cons, List.length_nil]
    have : w + 1 - (0 + 1) = (w - (0 + 1)) + 1 := by omega
    rw [this, List.replicate_succ']
  · next h =>
    simp only [List.length_append, List.length_cons, List.length_nil]
    have : w + 1 - ((Nat.toDigits 10 (n / 10)).length + (0 + 1)) = w - (Nat.toDigits 10 (n / 10)).length := by omega
    rw [this]; simp

theorem padN_one {n : Nat} (h : n < 10) : padN 1 n = [Nat.digitChar n] := by
  unfold padN; rw [Nat.toDigits_of_lt_base h]; simp

theorem pad2_chars {n : Nat} (h : n < 100) : pad2 n = [Nat.digitChar (n / 10), Nat.digitChar (n % 10)] := by
  rw [pad2_eq, padN_succ (by decide), padN_one (by omega)]; rfl

theorem padN3_chars {n : Nat} (h : n < 1000) :
    padN 3 n = [Nat.digitChar (n / 100), Nat.digitChar (n / 10 % 10), Nat.digitChar (n % 10)] := by
  rw [padN_succ (by decide), ← pad2_eq, pad2_chars (by omega)]
  have : n / 10 / 10 = n / 100 := by omega
  simp [this]

theorem pad4_chars {n : Nat} (h : n < 10000) :
    pad4 n = [Nat.digitChar (n / 1000), Nat.digitChar (n / 100 % 10), Nat.digitChar (n / 10 % 10), Nat.digitChar (n % 10)] := by
  rw [pad4_eq, padN_succ (by decide), padN3_chars (by omega)]
  have h1 : n / 10 / 100 = n / 1000 := by omega
  have h2 : n / 10 / 10 % 10 = n / 100 % 10 := by omega
  simp [h1, h2]

theorem dval_two {a b : Nat} (ha : a < 10) (hb : b < 10) : dval [Nat.digitChar a, Nat.digitChar b] = 10 * a + b := by
  simp [dval, Nat.ofDigitChars_cons_digitChar_of_lt_ten, ha, hb]

theorem dval_four {a b c d : Nat} (ha : a < 10) (hb : b < 10) (hc : c < 10) (hd : d < 10) :
    dval [Nat.digitChar a, Nat.digitChar b, Nat.digitChar c, Nat.digitChar d] = 1000 * a + 100 * b + 10 * c + d := by
  simp [dval, Nat.ofDigitChars_cons_digitChar_of_lt_ten, ha, hb, hc, hd]; omega

/-! ### `dropNl` -/

theorem dropNl_eq_self {s : Str} (h : ∀ c ∈ s, c ≠ '\n') : dropNl s = s := by
  unfold dropNl
  split
  · next hl => exact absurd rfl (h _ (List.mem_of_getLast? hl))
  · rfl

theorem ne_nl_of_isDig {c : Char} (h : isDig c = true) : c ≠ '\n' := by
  intro e; subst e; simp [isDig] at h

/-! ### digit prefixes -/

theorem takeWhile_isDig_append {a b : Str} (ha : ∀ c ∈ a, isDig c = true) (hb : ∀ c, b.head? = some c → isDig c = false) :
    (a ++ b).takeWhile isDig = a := by
  induction a with
  | nil =>
    cases b with
    | nil => rfl
    | cons c r => simp [List.takeWhile_cons, hb c rfl]
  | cons x xs ih =>
    simp only [List.cons_append, List.takeWhile_cons, ha x (List.mem_cons_self)]
    simp [ih (fun c hc => ha c (List.mem_cons_of_mem _ hc))]

theorem dropWhile_isDig_append {a b : Str} (ha : ∀ c ∈ a, isDig c = true) (hb : ∀ c, b.head? = some c → isDig c = false) :
    (a ++ b).dropWhile isDig = b := by
  induction a with
  | nil =>
    cases b with
    | nil => rfl
    | cons c r => simp [List.dropWhile_cons, hb c rfl]
  | cons x xs ih =>
    simp only [List.cons_append, List.dropWhile_cons, ha x (List.mem_cons_self)]
    simp [ih (fun c hc => ha c (List.mem_cons_of_mem _ hc))]

end Basyx.Lex
