/- C06 helper lemmas: zones, and the round trips / validity of the date-time family. -/
import Basyx.Lemmas.Lex.Int
namespace Basyx.Lex
open Basyx.Fmt

/-- zone offset a `datetime.timezone` can hold (whole minutes) -/
def Tz.inPy (z : Tz) : Prop := ∀ m, z = some m → -1439 ≤ m ∧ m ≤ 1439
/-- zone offset of the XSD value space: −14:00 … +14:00 -/
def Tz.inXsd (z : Tz) : Prop := ∀ m, z = some m → -840 ≤ m ∧ m ≤ 840

theorem Tz.inPy_of_inXsd {z : Tz} (h : z.inXsd) : z.inPy := by
  intro m hm; have := h m hm; omega

theorem digitChar_ne_nl {n : Nat} (h : n < 10) : Nat.digitChar n ≠ '\n' := ne_nl_of_isDig (isDig_digitChar h)

/-- the `±hh:mm` text of an offset -/
def hhmm (sg : Char) (a : Nat) : Str :=
  [sg, Nat.digitChar (a / 60 / 10), Nat.digitChar (a / 60 % 10), ':', Nat.digitChar (a % 60 / 10), Nat.digitChar (a % 60 % 10)]

theorem tzReprDate_some {m : Int} (h0 : m ≠ 0) (hm : m.natAbs < 6000) :
    tzReprDate (some m) = hhmm (if m ≥ 0 then '+' else '-') m.natAbs := by
  simp only [tzReprDate, h0, ↓reduceIte, hhmm]
  rw [pad2_chars (by omega), pad2_chars (by omega)]; rfl

theorem tzReprIso_some {m : Int} (hm : m.natAbs < 6000) :
    tzReprIso (some m) = hhmm (if m < 0 then '-' else '+') m.natAbs := by
  simp only [tzReprIso, hhmm]
  rw [pad2_chars (by omega), pad2_chars (by omega)]; rfl

theorem parseTz_hhmm {sg : Char} {a : Nat} (hs : sg = '+' ∨ sg = '-') (ha : a < 1440) :
    parseTz (hhmm sg a) = some (some (if sg = '-' then -(Int.ofNat a) else Int.ofNat a)) := by
  have h1 : a / 60 / 10 < 10 := by omega
  have h2 : a / 60 % 10 < 10 := by omega
  have h3 : a % 60 / 10 < 10 := by omega
  have h4 : a % 60 % 10 < 10 := by omega
  have e : dval [Nat.digitChar (a / 60 / 10), Nat.digitChar (a / 60 % 10)] * 60 +
      dval [Nat.digitChar (a % 60 / 10), Nat.digitChar (a % 60 % 10)] = a := by
    rw [dval_two h1 h2, dval_two h3 h4]; omega
  have hsg : (sg = '+' || sg = '-') = true := by rcases hs with rfl | rfl <;> rfl
  simp only [hhmm, parseTz, hsg, isDig_digitChar h1, isDig_digitChar h2, isDig_digitChar h3, isDig_digitChar h4,
    Bool.and_self, ↓reduceIte, e, ha]

theorem validTz_hhmm {sg : Char} {a : Nat} (hs : sg = '+' ∨ sg = '-') (ha : a ≤ 840) : validTz (hhmm sg a) = true := by
  have h1 : a / 60 / 10 < 10 := by omega
  have h2 : a / 60 % 10 < 10 := by omega
  have h3 : a % 60 / 10 < 10 := by omega
  have h4 : a % 60 % 10 < 10 := by omega
  have hsg : (sg = '+' || sg = '-') = true := by rcases hs with rfl | rfl <;> rfl
  simp only [hhmm, validTz, hsg, isDig_digitChar h1, isDig_digitChar h2, isDig_digitChar h3, isDig_digitChar h4,
    dval_two h1 h2, dval_two h3 h4, Bool.and_self, Bool.true_and]
  simp only [Bool.or_eq_true, Bool.and_eq_true, decide_eq_true_eq]
  omega

theorem parseTz_tzReprDate {z : Tz} (h : z.inPy) : parseTz (tzReprDate z) = some z := by
  cases z with
  | none => rfl
  | some m =>
    have hb := h m rfl
    by_cases h0 : m = 0
    · subst h0; rfl
    · rw [tzReprDate_some h0 (by omega), parseTz_hhmm (by split <;> simp) (by omega)]
      by_cases hp : m ≥ 0
      · simp only [hp, ↓reduceIte]; simp; omega
      · simp only [hp, ↓reduceIte]; simp; omega

theorem parseTz_tzReprIso {z : Tz} (h : z.inPy) : parseTz (tzReprIso z) = some z := by
  cases z with
  | none => rfl
  | some m =>
    have hb := h m rfl
    rw [tzReprIso_some (by omega), parseTz_hhmm (by split <;> simp) (by omega)]
    by_cases hp : m < 0
    · simp only [hp, ↓reduceIte]; simp; omega
    · simp only [hp, ↓reduceIte]; simp; omega

theorem validTz_tzReprDate {z : Tz} (h : z.inXsd) : validTz (tzReprDate z) = true := by
  cases z with
  | none => rfl
  | some m =>
    have hb := h m rfl
    by_cases h0 : m = 0
    · subst h0; rfl
    · rw [tzReprDate_some h0 (by omega)]; exact validTz_hhmm (by split <;> simp) (by omega)

theorem validTz_tzReprIso {z : Tz} (h : z.inXsd) : validTz (tzReprIso z) = true := by
  cases z with
  | none => rfl
  | some m =>
    have hb := h m rfl
    rw [tzReprIso_some (by omega)]; exact validTz_hhmm (by split <;> simp) (by omega)

theorem hhmm_ne_nl {sg : Char} {a : Nat} (hs : sg = '+' ∨ sg = '-') (ha : a < 6000) : ∀ c ∈ hhmm sg a, c ≠ '\n' := by
  intro c hc
  simp only [hhmm, List.mem_cons, List.not_mem_nil, or_false] at hc
  rcases hc with rfl | rfl | rfl | rfl | rfl | rfl
  · rcases hs with rfl | rfl <;> decide
  · exact digitChar_ne_nl (by omega)
  · exact digitChar_ne_nl (by omega)
  · decide
  · exact digitChar_ne_nl (by omega)
  · exact digitChar_ne_nl (by omega)

theorem tzReprDate_ne_nl {z : Tz} (h : z.inPy) : ∀ c ∈ tzReprDate z, c ≠ '\n' := by
  cases z with
  | none => intro c hc; simp [tzReprDate] at hc
  | some m =>
    have hb := h m rfl
    by_cases h0 : m = 0
    · subst h0; intro c hc; simp [tzReprDate] at hc; subst hc; decide
    · rw [tzReprDate_some h0 (by omega)]; exact hhmm_ne_nl (by split <;> simp) (by omega)

theorem tzReprIso_ne_nl {z : Tz} (h : z.inPy) : ∀ c ∈ tzReprIso z, c ≠ '\n' := by
  cases z with
  | none => intro c hc; simp [tzReprIso] at hc
  | some m =>
    have hb := h m rfl
    rw [tzReprIso_some (by omega)]; exact hhmm_ne_nl (by split <;> simp) (by omega)

/-- no zone text starts with a digit -/
theorem tzReprIso_head {z : Tz} : ∀ c, (tzReprIso z).head? = some c → isDig c = false := by
  intro c hc
  cases z with
  | none => simp [tzReprIso] at hc
  | some m =>
    simp only [tzReprIso, List.head?_cons, Option.some.injEq] at hc
    subst hc; split <;> rfl

theorem tzReprIso_head_ne_dot {z : Tz} {r : Str} : tzReprIso z ≠ '.' :: r := by
  cases z with
  | none => simp [tzReprIso]
  | some m => simp only [tzReprIso]; split <;> simp

/-! ### xs:date -/

def DateV.ok (v : DateV) : Prop := dateOk v.year v.month v.day = true

theorem dateOk_bounds {y m d : Nat} (h : dateOk y m d = true) : 1 ≤ y ∧ y ≤ 9999 ∧ 1 ≤ m ∧ m ≤ 12 ∧ 1 ≤ d ∧ d ≤ 31 := by
  simp only [dateOk, Bool.and_eq_true, decide_eq_true_eq] at h
  have : daysInMonth y m ≤ 31 := by unfold daysInMonth; split <;> (try split) <;> omega
  omega

theorem d2 {n : Nat} (h : n < 100) : n / 10 < 10 ∧ n % 10 < 10 := by omega
theorem d4 {n : Nat} (h : n < 10000) : n / 1000 < 10 ∧ n / 100 % 10 < 10 ∧ n / 10 % 10 < 10 ∧ n % 10 < 10 := by omega

theorem dval_pad2 {n : Nat} (h : n < 100) : dval [Nat.digitChar (n / 10), Nat.digitChar (n % 10)] = n := by
  rw [dval_two (d2 h).1 (d2 h).2]; omega

theorem dval_pad4 {n : Nat} (h : n < 10000) :
    dval [Nat.digitChar (n / 1000), Nat.digitChar (n / 100 % 10), Nat.digitChar (n / 10 % 10), Nat.digitChar (n % 10)] = n := by
  rw [dval_four (d4 h).1 (d4 h).2.1 (d4 h).2.2.1 (d4 h).2.2.2]; omega

theorem pad2_ne_nl (n : Nat) : ∀ c ∈ pad2 n, c ≠ '\n' := fun _ hc => ne_nl_of_isDig (isDig_of_mem_padN hc)
theorem pad4_ne_nl (n : Nat) : ∀ c ∈ pad4 n, c ≠ '\n' := fun _ hc => ne_nl_of_isDig (isDig_of_mem_padN hc)
theorem padN_ne_nl (w n : Nat) : ∀ c ∈ padN w n, c ≠ '\n' := fun _ hc => ne_nl_of_isDig (isDig_of_mem_padN hc)

theorem parseDate_reprDate (v : DateV) (hv : v.ok) (hz : v.tz.inPy) : parseDate (reprDate v) = some v := by
  obtain ⟨y, m, d, z⟩ := v
  have hb := dateOk_bounds hv
  simp only at hb hz
  have hnl : dropNl (reprDate ⟨y, m, d, z⟩) = reprDate ⟨y, m, d, z⟩ := by
    apply dropNl_eq_self
    intro c hc
    simp only [reprDate, List.mem_append, List.mem_cons] at hc
    rcases hc with h | rfl | h | rfl | h | h
    · exact pad4_ne_nl _ c h
    · decide
    · exact pad2_ne_nl _ c h
    · decide
    · exact pad2_ne_nl _ c h
    · exact tzReprDate_ne_nl hz c h
  unfold parseDate
  rw [hnl]
  simp only [reprDate, pad4_chars (show y < 10000 by omega), pad2_chars (show m < 100 by omega),
    pad2_chars (show d < 100 by omega), List.cons_append, List.nil_append]
  have a := d4 (show y < 10000 by omega)
  have b := d2 (show m < 100 by omega)
  have c := d2 (show d < 100 by omega)
  simp only [List.all_cons, List.all_nil, isDig_digitChar a.1, isDig_digitChar a.2.1, isDig_digitChar a.2.2.1,
    isDig_digitChar a.2.2.2, isDig_digitChar b.1, isDig_digitChar b.2, isDig_digitChar c.1, isDig_digitChar c.2,
    Bool.and_self, ↓reduceIte, parseTz_tzReprDate hz, dval_pad4 (show y < 10000 by omega),
    dval_pad2 (show m < 100 by omega), dval_pad2 (show d < 100 by omega)]
  have : dateOk y m d = true := hv
  simp [this]


theorem digitChar_ne_minus {n : Nat} (h : n < 10) : Nat.digitChar n ≠ '-' := by
  intro e; have := isDig_digitChar h; rw [e] at this; simp [isDig] at this

theorem splitYear_four {a b c d : Char} {rest : Str} (ha : isDig a = true) (hb : isDig b = true) (hc : isDig c = true)
    (hd : isDig d = true) : splitYear (a :: b :: c :: d :: '-' :: rest) = some ([a, b, c, d], '-' :: rest) := by
  have hne : a ≠ '-' := by intro e; subst e; simp [isDig] at ha
  have hm : isDig '-' = false := by decide
  simp [splitYear, hne, List.takeWhile_cons, List.dropWhile_cons, ha, hb, hc, hd, hm]

theorem splitYear_four_tz {a b c d : Char} {rest : Str} (ha : isDig a = true) (hb : isDig b = true) (hc : isDig c = true)
    (hd : isDig d = true) (hr : ∀ x, rest.head? = some x → isDig x = false) :
    splitYear (a :: b :: c :: d :: rest) = some ([a, b, c, d], rest) := by
  have hne : a ≠ '-' := by intro e; subst e; simp [isDig] at ha
  have e : a :: b :: c :: d :: rest = [a, b, c, d] ++ rest := rfl
  have hall : ∀ x ∈ [a, b, c, d], isDig x = true := by
    intro x hx; simp at hx; rcases hx with rfl | rfl | rfl | rfl <;> assumption
  simp only [splitYear, List.head?_cons, Option.some.injEq, hne, ↓reduceIte]
  rw [e, takeWhile_isDig_append hall hr, dropWhile_isDig_append hall hr]
  simp

theorem tzReprDate_head {z : Tz} : ∀ c, (tzReprDate z).head? = some c → isDig c = false := by
  intro c hc
  cases z with
  | none => simp [tzReprDate] at hc
  | some m =>
    simp only [tzReprDate] at hc
    split at hc
    · simp at hc; subst hc; rfl
    · simp only [List.head?_cons, Option.some.injEq] at hc
      subst hc; split <;> rfl

theorem validDate_reprDate (v : DateV) (hv : v.ok) (hz : v.tz.inXsd) : validDate (reprDate v) = true := by
  obtain ⟨y, m, d, z⟩ := v
  have hb := dateOk_bounds hv
  have hok : dateOk y m d = true := hv
  simp only [dateOk, Bool.and_eq_true, decide_eq_true_eq] at hok
  simp only at hb hz
  have a := d4 (show y < 10000 by omega)
  have b := d2 (show m < 100 by omega)
  have c := d2 (show d < 100 by omega)
  simp only [validDate, reprDate, pad4_chars (show y < 10000 by omega), pad2_chars (show m < 100 by omega),
    pad2_chars (show d < 100 by omega), List.cons_append, List.nil_append]
  rw [splitYear_four (isDig_digitChar a.1) (isDig_digitChar a.2.1) (isDig_digitChar a.2.2.1) (isDig_digitChar a.2.2.2)]
  simp only [isDig_digitChar b.1, isDig_digitChar b.2, isDig_digitChar c.1, isDig_digitChar c.2,
    dval_pad4 (show y < 10000 by omega), dval_pad2 (show m < 100 by omega), dval_pad2 (show d < 100 by omega),
    validTz_tzReprDate hz, Bool.and_self, Bool.true_and, Bool.and_true, Bool.and_eq_true, decide_eq_true_eq]
  omega

/-- the accepted literal carries an accepted zone text outside the XSD range (hour 14..23 / minute 60..99):
    known finding `lex:parse:zone-out-of-range` -/
def LaxZone (t : Str) : Prop := ∃ pre z, t = pre ++ z ∧ (parseTz z).isSome = true ∧ validTz z = false

/-- a lax zone text has its colon third from the end -/
theorem LaxZone.colon {t : Str} (h : LaxZone t) : t.reverse[2]? = some ':' := by
  obtain ⟨pre, z, rfl, hp, hv⟩ := h
  unfold parseTz at hp
  split at hp
  · simp [validTz] at hv
  · simp [validTz] at hv
  · simp
  · simp at hp

theorem all8 {p : Char → Bool} {a b c d e f g h : Char} (hh : [a, b, c, d, e, f, g, h].all p = true) :
    p a = true ∧ p b = true ∧ p c = true ∧ p d = true ∧ p e = true ∧ p f = true ∧ p g = true ∧ p h = true := by
  simpa [and_assoc] using hh

theorem parseDate_valid_or_lax {s : Str} {v : DateV} (h : parseDate s = some v) :
    validDate (dropNl s) = true ∨ LaxZone (dropNl s) := by
  unfold parseDate at h
  generalize dropNl s = t at h ⊢
  split at h
  · next y1 y2 y3 y4 m1 m2 d1 d2 z =>
    split at h
    · next hdig =>
      obtain ⟨h1, h2, h3, h4, h5, h6, h7, h8⟩ := all8 hdig
      split at h
      · simp at h
      · next tz htz =>
        simp only at h
        split at h
        · next hok =>
          by_cases hv : validTz z = true
          · left
            simp only [dateOk, Bool.and_eq_true, decide_eq_true_eq] at hok
            simp only [validDate]
            rw [splitYear_four h1 h2 h3 h4]
            simp only [h5, h6, h7, h8, hv, Bool.and_self, Bool.true_and, Bool.and_true, Bool.and_eq_true, decide_eq_true_eq]
            omega
          · right
            exact ⟨[y1, y2, y3, y4, '-', m1, m2, '-', d1, d2], z, rfl, by simp [htz], by simpa using hv⟩
        · simp at h
    · simp at h
  · simp at h

/-! ### xs:time -/

def TimeV.ok (v : TimeV) : Prop := timeOk v.hour v.minute v.second v.micro = true

theorem micros_padN6 {us : Nat} (h : us < 1000000) : micros (padN 6 us) = us := by
  have hl : (padN 6 us).length = 6 := length_padN (by decide) (by omega)
  unfold micros ljust6
  rw [List.take_of_length_le (by omega)]
  simp [hl, dval_padN]

theorem padN6_ne_nil (us : Nat) : padN 6 us ≠ [] := by
  unfold padN; simp

theorem parseFracTz_repr {us : Nat} {z : Tz} (hus : us < 1000000) (hz : z.inPy) :
    parseFracTz ((if us = 0 then [] else '.' :: padN 6 us) ++ tzReprIso z) = some (us, z) := by
  by_cases h0 : us = 0
  · subst h0
    simp only [↓reduceIte, List.nil_append]
    unfold parseFracTz
    split
    · next r heq => exact absurd heq tzReprIso_head_ne_dot
    · simp [parseTz_tzReprIso hz]
  · simp only [h0, ↓reduceIte, List.cons_append, parseFracTz]
    rw [takeWhile_isDig_append (fun c hc => isDig_of_mem_padN hc) tzReprIso_head,
      dropWhile_isDig_append (fun c hc => isDig_of_mem_padN hc) tzReprIso_head]
    simp [padN6_ne_nil, parseTz_tzReprIso hz, micros_padN6 hus]

theorem reprClock_chars {h mi s us : Nat} (hh : h < 100) (hm : mi < 100) (hs : s < 100) :
    reprClock h mi s us =
      Nat.digitChar (h / 10) :: Nat.digitChar (h % 10) :: ':' :: Nat.digitChar (mi / 10) :: Nat.digitChar (mi % 10) :: ':' ::
        Nat.digitChar (s / 10) :: Nat.digitChar (s % 10) :: (if us = 0 then [] else '.' :: padN 6 us) := by
  simp only [reprClock, pad2_chars hh, pad2_chars hm, pad2_chars hs, List.cons_append, List.nil_append]

theorem timeOk_bounds {h mi s us : Nat} (hv : timeOk h mi s us = true) : h ≤ 23 ∧ mi ≤ 59 ∧ s ≤ 59 ∧ us ≤ 999999 := by
  simpa [timeOk, and_assoc] using hv

theorem frac_ne_nl (us : Nat) : ∀ c ∈ (if us = 0 then [] else '.' :: padN 6 us), c ≠ '\n' := by
  intro c hc
  split at hc
  · simp at hc
  · rcases List.mem_cons.1 hc with rfl | h
    · decide
    · exact padN_ne_nl _ _ c h

theorem reprClock_ne_nl (h mi s us : Nat) : ∀ c ∈ reprClock h mi s us, c ≠ '\n' := by
  intro c hc
  simp only [reprClock, List.mem_append, List.mem_cons] at hc
  rcases hc with h | rfl | h | rfl | h | h
  · exact pad2_ne_nl _ c h
  · decide
  · exact pad2_ne_nl _ c h
  · decide
  · exact pad2_ne_nl _ c h
  · exact frac_ne_nl us c h

theorem parseTime_reprTime (v : TimeV) (hv : v.ok) (hz : v.tz.inPy) : parseTime (reprTime v) = some v := by
  obtain ⟨h, mi, s, us, z⟩ := v
  have hb := timeOk_bounds hv
  simp only at hb hz
  have hnl : dropNl (reprTime ⟨h, mi, s, us, z⟩) = reprTime ⟨h, mi, s, us, z⟩ := by
    apply dropNl_eq_self
    intro c hc
    simp only [reprTime, List.mem_append] at hc
    rcases hc with hc | hc
    · exact reprClock_ne_nl _ _ _ _ c hc
    · exact tzReprIso_ne_nl hz c hc
  unfold parseTime
  rw [hnl]
  simp only [reprTime, reprClock_chars (show h < 100 by omega) (show mi < 100 by omega) (show s < 100 by omega),
    List.cons_append]
  have a := d2 (show h < 100 by omega)
  have b := d2 (show mi < 100 by omega)
  have c := d2 (show s < 100 by omega)
  simp only [List.all_cons, List.all_nil, isDig_digitChar a.1, isDig_digitChar a.2, isDig_digitChar b.1,
    isDig_digitChar b.2, isDig_digitChar c.1, isDig_digitChar c.2, Bool.and_self, ↓reduceIte,
    parseFracTz_repr (show us < 1000000 by omega) hz, dval_pad2 (show h < 100 by omega),
    dval_pad2 (show mi < 100 by omega), dval_pad2 (show s < 100 by omega)]
  have : timeOk h mi s us = true := hv
  simp [this]

theorem validFracTz_repr {us : Nat} {z : Tz} (hz : z.inXsd) :
    validFracTz ((if us = 0 then [] else '.' :: padN 6 us) ++ tzReprIso z) = true := by
  by_cases h0 : us = 0
  · subst h0
    simp only [↓reduceIte, List.nil_append]
    unfold validFracTz
    split
    · next r heq => exact absurd heq tzReprIso_head_ne_dot
    · exact validTz_tzReprIso hz
  · simp only [h0, ↓reduceIte, List.cons_append, validFracTz]
    rw [takeWhile_isDig_append (fun c hc => isDig_of_mem_padN hc) tzReprIso_head,
      dropWhile_isDig_append (fun c hc => isDig_of_mem_padN hc) tzReprIso_head]
    simp [padN6_ne_nil, validTz_tzReprIso hz]

theorem validTime_reprTime (v : TimeV) (hv : v.ok) (hz : v.tz.inXsd) : validTime (reprTime v) = true := by
  obtain ⟨h, mi, s, us, z⟩ := v
  have hb := timeOk_bounds hv
  simp only at hb hz
  have a := d2 (show h < 100 by omega)
  have b := d2 (show mi < 100 by omega)
  have c := d2 (show s < 100 by omega)
  simp only [validTime, reprTime, reprClock_chars (show h < 100 by omega) (show mi < 100 by omega) (show s < 100 by omega),
    List.cons_append]
  simp only [List.all_cons, List.all_nil, isDig_digitChar a.1, isDig_digitChar a.2, isDig_digitChar b.1,
    isDig_digitChar b.2, isDig_digitChar c.1, isDig_digitChar c.2, Bool.and_self, Bool.true_and, validClock,
    dval_pad2 (show h < 100 by omega), dval_pad2 (show mi < 100 by omega), dval_pad2 (show s < 100 by omega),
    validFracTz_repr hz, Bool.and_true]
  simp; omega

theorem all6 {p : Char → Bool} {a b c d e f : Char} (hh : [a, b, c, d, e, f].all p = true) :
    p a = true ∧ p b = true ∧ p c = true ∧ p d = true ∧ p e = true ∧ p f = true := by
  simpa [and_assoc] using hh

/-- what `parseFracTz` accepted is a valid `(.s+)? zone` or has a lax zone -/
theorem parseFracTz_valid_or_lax {rest : Str} {us : Nat} {tz : Tz} (h : parseFracTz rest = some (us, tz)) :
    validFracTz rest = true ∨ ∃ pre z, rest = pre ++ z ∧ (parseTz z).isSome = true ∧ validTz z = false := by
  unfold parseFracTz at h
  split at h
  · next r =>
    simp only at h
    split at h
    · simp at h
    · next hne =>
      cases hp : parseTz (List.dropWhile isDig r) with
      | none => simp [hp] at h
      | some tz' =>
        by_cases hv : validTz (List.dropWhile isDig r) = true
        · left; simp [validFracTz, hne, hv]
        · right
          refine ⟨'.' :: List.takeWhile isDig r, List.dropWhile isDig r, ?_, by simp [hp], by simpa using hv⟩
          simp [List.takeWhile_append_dropWhile]
  · next hnd =>
    cases hp : parseTz rest with
    | none => simp [hp] at h
    | some tz' =>
      by_cases hv : validTz rest = true
      · left
        unfold validFracTz
        split
        · next r => exact (hnd r rfl).elim
        · exact hv
      · right; exact ⟨[], rest, rfl, by simp [hp], by simpa using hv⟩

theorem parseTime_valid_or_lax {s : Str} {v : TimeV} (h : parseTime s = some v) :
    validTime (dropNl s) = true ∨ LaxZone (dropNl s) := by
  unfold parseTime at h
  generalize dropNl s = t at h ⊢
  split at h
  · next h1 h2 m1 m2 s1 s2 rest =>
    split at h
    · next hdig =>
      split at h
      · simp at h
      · next us tz hft =>
        simp only at h
        split at h
        · next hok =>
          have hb := timeOk_bounds hok
          rcases parseFracTz_valid_or_lax hft with hv | ⟨pre, z, hpz, hp, hv⟩
          · left
            simp only [validTime, hdig, validClock, hv, Bool.true_and, Bool.and_true]
            simp; omega
          · right
            exact ⟨h1 :: h2 :: ':' :: m1 :: m2 :: ':' :: s1 :: s2 :: pre, z, by simp [hpz], hp, hv⟩
        · simp at h
    · simp at h
  · simp at h


/-! ### xs:dateTime -/

def DateTimeV.ok (v : DateTimeV) : Prop :=
  dateOk v.year v.month v.day = true ∧ timeOk v.hour v.minute v.second v.micro = true

theorem all14 {p : Char → Bool} {a b c d e f g h i j k l m n : Char}
    (hh : [a, b, c, d, e, f, g, h, i, j, k, l, m, n].all p = true) :
    [a, b, c, d].all p = true ∧ p e = true ∧ p f = true ∧ p g = true ∧ p h = true ∧ [i, j, k, l, m, n].all p = true := by
  simp only [List.all_cons, List.all_nil, Bool.and_true, Bool.and_eq_true] at hh ⊢
  obtain ⟨h1, h2, h3, h4, h5, h6, h7, h8, h9, h10, h11, h12, h13, h14⟩ := hh
  exact ⟨⟨h1, h2, h3, h4⟩, h5, h6, h7, h8, h9, h10, h11, h12, h13, h14⟩

theorem parseDateTime_reprDateTime (v : DateTimeV) (hv : v.ok) (hz : v.tz.inPy) :
    parseDateTime (reprDateTime v) = some v := by
  obtain ⟨y, mo, d, h, mi, s, us, z⟩ := v
  have hd := dateOk_bounds hv.1
  have hb := timeOk_bounds hv.2
  simp only at hd hb hz
  have hnl : dropNl (reprDateTime ⟨y, mo, d, h, mi, s, us, z⟩) = reprDateTime ⟨y, mo, d, h, mi, s, us, z⟩ := by
    apply dropNl_eq_self
    intro c hc
    simp only [reprDateTime, List.mem_append, List.mem_cons] at hc
    rcases hc with h | rfl | h | rfl | h | rfl | h | h
    · exact pad4_ne_nl _ c h
    · decide
    · exact pad2_ne_nl _ c h
    · decide
    · exact pad2_ne_nl _ c h
    · decide
    · exact reprClock_ne_nl _ _ _ _ c h
    · exact tzReprIso_ne_nl hz c h
  unfold parseDateTime
  rw [hnl]
  simp only [reprDateTime, pad4_chars (show y < 10000 by omega), pad2_chars (show mo < 100 by omega),
    pad2_chars (show d < 100 by omega),
    reprClock_chars (show h < 100 by omega) (show mi < 100 by omega) (show s < 100 by omega),
    List.cons_append, List.nil_append]
  have a := d4 (show y < 10000 by omega)
  have b := d2 (show mo < 100 by omega)
  have c := d2 (show d < 100 by omega)
  have e := d2 (show h < 100 by omega)
  have f := d2 (show mi < 100 by omega)
  have g := d2 (show s < 100 by omega)
  simp only [List.all_cons, List.all_nil, isDig_digitChar a.1, isDig_digitChar a.2.1, isDig_digitChar a.2.2.1,
    isDig_digitChar a.2.2.2, isDig_digitChar b.1, isDig_digitChar b.2, isDig_digitChar c.1, isDig_digitChar c.2,
    isDig_digitChar e.1, isDig_digitChar e.2, isDig_digitChar f.1, isDig_digitChar f.2, isDig_digitChar g.1,
    isDig_digitChar g.2, Bool.and_self, ↓reduceIte,
    parseFracTz_repr (show us < 1000000 by omega) hz, dval_pad4 (show y < 10000 by omega),
    dval_pad2 (show mo < 100 by omega), dval_pad2 (show d < 100 by omega), dval_pad2 (show h < 100 by omega),
    dval_pad2 (show mi < 100 by omega), dval_pad2 (show s < 100 by omega)]
  have h1 : dateOk y mo d = true := hv.1
  have h2 : timeOk h mi s us = true := hv.2
  simp [h1, h2]

theorem validDateTime_reprDateTime (v : DateTimeV) (hv : v.ok) (hz : v.tz.inXsd) :
    validDateTime (reprDateTime v) = true := by
  obtain ⟨y, mo, d, h, mi, s, us, z⟩ := v
  have hd := dateOk_bounds hv.1
  have hok : dateOk y mo d = true := hv.1
  simp only [dateOk, Bool.and_eq_true, decide_eq_true_eq] at hok
  have hb := timeOk_bounds hv.2
  simp only at hd hb hz
  have a := d4 (show y < 10000 by omega)
  have b := d2 (show mo < 100 by omega)
  have c := d2 (show d < 100 by omega)
  have ht := validTime_reprTime ⟨h, mi, s, us, z⟩ hv.2 hz
  simp only [reprTime] at ht
  simp only [validDateTime, reprDateTime, pad4_chars (show y < 10000 by omega), pad2_chars (show mo < 100 by omega),
    pad2_chars (show d < 100 by omega), List.cons_append, List.nil_append]
  rw [splitYear_four (isDig_digitChar a.1) (isDig_digitChar a.2.1) (isDig_digitChar a.2.2.1) (isDig_digitChar a.2.2.2)]
  simp only [isDig_digitChar b.1, isDig_digitChar b.2, isDig_digitChar c.1, isDig_digitChar c.2,
    dval_pad4 (show y < 10000 by omega), dval_pad2 (show mo < 100 by omega), dval_pad2 (show d < 100 by omega),
    ht, Bool.and_self, Bool.true_and, Bool.and_true, Bool.and_eq_true, decide_eq_true_eq]
  omega

theorem parseDateTime_valid_or_lax {s : Str} {v : DateTimeV} (h : parseDateTime s = some v) :
    validDateTime (dropNl s) = true ∨ LaxZone (dropNl s) := by
  unfold parseDateTime at h
  generalize dropNl s = t at h ⊢
  split at h
  · next y1 y2 y3 y4 o1 o2 d1 d2 h1 h2 m1 m2 s1 s2 rest =>
    split at h
    · next hdig =>
      obtain ⟨hy, ho1, ho2, hd1, hd2, ht⟩ := all14 hdig
      obtain ⟨hy1, hy2, hy3, hy4⟩ : isDig y1 = true ∧ isDig y2 = true ∧ isDig y3 = true ∧ isDig y4 = true := by
        simpa [and_assoc] using hy
      split at h
      · simp at h
      · next us tz hft =>
        simp only at h
        split at h
        · next hok =>
          simp only [Bool.and_eq_true] at hok
          have hb := timeOk_bounds hok.2
          have hdk := hok.1
          simp only [dateOk, Bool.and_eq_true, decide_eq_true_eq] at hdk
          rcases parseFracTz_valid_or_lax hft with hv | ⟨pre, z, hpz, hp, hv⟩
          · left
            simp only [validDateTime]
            rw [splitYear_four hy1 hy2 hy3 hy4]
            simp only [ho1, ho2, hd1, hd2, validTime, ht, validClock, hv, Bool.true_and, Bool.and_true, Bool.and_self,
              Bool.and_eq_true, decide_eq_true_eq, Bool.or_eq_true]
            omega
          · right
            exact ⟨y1 :: y2 :: y3 :: y4 :: '-' :: o1 :: o2 :: '-' :: d1 :: d2 :: 'T' ::
              h1 :: h2 :: ':' :: m1 :: m2 :: ':' :: s1 :: s2 :: pre, z, by simp [hpz], hp, hv⟩
        · simp at h
    · simp at h
  · simp at h

/-! ### gYear, gYearMonth, gMonth, gDay, gMonthDay -/

def GYearV.ok (v : GYearV) : Prop := 1 ≤ v.year ∧ v.year ≤ 9999
def GYearMonthV.ok (v : GYearMonthV) : Prop := 1 ≤ v.year ∧ v.year ≤ 9999 ∧ 1 ≤ v.month ∧ v.month ≤ 12
def GMonthV.ok (v : GMonthV) : Prop := 1 ≤ v.month ∧ v.month ≤ 12
def GDayV.ok (v : GDayV) : Prop := 1 ≤ v.day ∧ v.day ≤ 31
def GMonthDayV.ok (v : GMonthDayV) : Prop := monthDayOk v.month v.day = true

theorem parseTz_head {z : Str} {tz : Tz} (h : parseTz z = some tz) : ∀ x, z.head? = some x → isDig x = false := by
  intro x hx
  unfold parseTz at h
  split at h
  · simp at hx
  · simp at hx; subst hx; rfl
  · next sg h1 h2 m1 m2 =>
    split at h
    · next hc =>
      simp only [List.head?_cons, Option.some.injEq] at hx
      subst hx
      simp only [Bool.and_eq_true, Bool.or_eq_true, decide_eq_true_eq] at hc
      rcases hc.1.1.1.1 with rfl | rfl <;> rfl
    · simp at h
  · simp at h

theorem dropNl_ne_nl {s : Str} (h : ∀ c ∈ s, c ≠ '\n') : dropNl s = s := dropNl_eq_self h

theorem gyear_repr {v : GYearV} (hv : v.ok) :
    ∃ n : Nat, v.year = Int.ofNat n ∧ n < 10000 ∧ 1 ≤ n ∧ reprGYear v = some (pad4 n ++ tzReprDate v.tz) := by
  obtain ⟨y, z⟩ := v
  obtain ⟨h1, h2⟩ := hv
  simp only at h1 h2
  cases y with
  | negSucc n => exact absurd h1 (by omega)
  | ofNat n =>
    have h1' : (1 : Int) ≤ (n : Int) := h1
    have h2' : (n : Int) ≤ 9999 := h2
    refine ⟨n, rfl, by omega, by omega, ?_⟩
    have : yearInPy (Int.ofNat n) = true := by
      simp only [yearInPy, Bool.and_eq_true, decide_eq_true_eq]; exact ⟨h1, h2⟩
    simp only [reprGYear, this, Bool.not_true, Bool.and_false, Bool.false_eq_true, ↓reduceIte, fmt04, pad4_eq]

theorem parseGYear_reprGYear (v : GYearV) (hv : v.ok) (hz : v.tz.inPy) :
    ∃ s, reprGYear v = some s ∧ parseGYear s = some v := by
  obtain ⟨n, hy, hn, hn1, hr⟩ := gyear_repr hv
  obtain ⟨y, z⟩ := v
  simp only at hy hz hr
  subst hy
  refine ⟨_, hr, ?_⟩
  have hnl : dropNl (pad4 n ++ tzReprDate z) = pad4 n ++ tzReprDate z := by
    apply dropNl_eq_self
    intro c hc
    rcases List.mem_append.1 hc with h | h
    · exact pad4_ne_nl _ c h
    · exact tzReprDate_ne_nl hz c h
  unfold parseGYear
  rw [hnl, pad4_chars hn]
  have a := d4 hn
  simp [isDig_digitChar a.1, isDig_digitChar a.2.1, isDig_digitChar a.2.2.1, isDig_digitChar a.2.2.2,
    parseTz_tzReprDate hz, dval_pad4 hn]

theorem validGYear_reprGYear (v : GYearV) (hv : v.ok) (hz : v.tz.inXsd) :
    ∃ s, reprGYear v = some s ∧ validGYear s = true := by
  obtain ⟨n, hy, hn, hn1, hr⟩ := gyear_repr hv
  refine ⟨_, hr, ?_⟩
  have a := d4 hn
  rw [pad4_chars hn]
  simp only [validGYear, List.cons_append, List.nil_append]
  rw [splitYear_four_tz (isDig_digitChar a.1) (isDig_digitChar a.2.1) (isDig_digitChar a.2.2.1) (isDig_digitChar a.2.2.2)
    tzReprDate_head]
  exact validTz_tzReprDate hz

theorem all4 {p : Char → Bool} {a b c d : Char} (hh : [a, b, c, d].all p = true) :
    p a = true ∧ p b = true ∧ p c = true ∧ p d = true := by
  simpa [and_assoc] using hh

theorem parseGYear_valid_or_lax {s : Str} {v : GYearV} (h : parseGYear s = some v) :
    validGYear (dropNl s) = true ∨ LaxZone (dropNl s) := by
  unfold parseGYear at h
  generalize dropNl s = t at h ⊢
  split at h
  · next y1 y2 y3 y4 z =>
    split at h
    · next hdig =>
      obtain ⟨h1, h2, h3, h4⟩ := all4 hdig
      cases hp : parseTz z with
      | none => simp [hp] at h
      | some tz =>
        by_cases hv : validTz z = true
        · left
          simp only [validGYear]
          rw [splitYear_four_tz h1 h2 h3 h4 (parseTz_head hp)]
          exact hv
        · right; exact ⟨[y1, y2, y3, y4], z, rfl, by simp [hp], by simpa using hv⟩
    · simp at h
  · simp at h

theorem gyearmonth_repr {v : GYearMonthV} (hv : v.ok) :
    ∃ n : Nat, v.year = Int.ofNat n ∧ n < 10000 ∧ 1 ≤ n ∧
      reprGYearMonth v = some (pad4 n ++ '-' :: (pad2 v.month ++ tzReprDate v.tz)) := by
  obtain ⟨y, m, z⟩ := v
  obtain ⟨h1, h2, _, _⟩ := hv
  simp only at h1 h2
  cases y with
  | negSucc n => exact absurd h1 (by omega)
  | ofNat n =>
    have h1' : (1 : Int) ≤ (n : Int) := h1
    have h2' : (n : Int) ≤ 9999 := h2
    refine ⟨n, rfl, by omega, by omega, ?_⟩
    have : yearInPy (Int.ofNat n) = true := by
      simp only [yearInPy, Bool.and_eq_true, decide_eq_true_eq]; exact ⟨h1, h2⟩
    simp only [reprGYearMonth, this, Bool.not_true, Bool.and_false, Bool.false_eq_true, ↓reduceIte, fmt04, pad4_eq]

theorem parseGYearMonth_reprGYearMonth (v : GYearMonthV) (hv : v.ok) (hz : v.tz.inPy) :
    ∃ s, reprGYearMonth v = some s ∧ parseGYearMonth s = some v := by
  obtain ⟨n, hy, hn, hn1, hr⟩ := gyearmonth_repr hv
  obtain ⟨y, m, z⟩ := v
  obtain ⟨_, _, hm1, hm2⟩ := hv
  simp only at hy hz hr hm1 hm2
  subst hy
  refine ⟨_, hr, ?_⟩
  have hnl : dropNl (pad4 n ++ '-' :: (pad2 m ++ tzReprDate z)) = pad4 n ++ '-' :: (pad2 m ++ tzReprDate z) := by
    apply dropNl_eq_self
    intro c hc
    simp only [List.mem_append, List.mem_cons] at hc
    rcases hc with h | rfl | h | h
    · exact pad4_ne_nl _ c h
    · decide
    · exact pad2_ne_nl _ c h
    · exact tzReprDate_ne_nl hz c h
  unfold parseGYearMonth
  rw [hnl, pad4_chars hn, pad2_chars (show m < 100 by omega)]
  have a := d4 hn
  have b := d2 (show m < 100 by omega)
  simp [isDig_digitChar a.1, isDig_digitChar a.2.1, isDig_digitChar a.2.2.1, isDig_digitChar a.2.2.2,
    isDig_digitChar b.1, isDig_digitChar b.2, parseTz_tzReprDate hz, dval_pad4 hn, dval_pad2 (show m < 100 by omega),
    hm1, hm2]

theorem validGYearMonth_reprGYearMonth (v : GYearMonthV) (hv : v.ok) (hz : v.tz.inXsd) :
    ∃ s, reprGYearMonth v = some s ∧ validGYearMonth s = true := by
  obtain ⟨n, hy, hn, hn1, hr⟩ := gyearmonth_repr hv
  refine ⟨_, hr, ?_⟩
  obtain ⟨_, _, hm1, hm2⟩ := hv
  have a := d4 hn
  have b := d2 (show v.month < 100 by omega)
  rw [pad4_chars hn, pad2_chars (show v.month < 100 by omega)]
  simp only [validGYearMonth, List.cons_append, List.nil_append]
  rw [splitYear_four (isDig_digitChar a.1) (isDig_digitChar a.2.1) (isDig_digitChar a.2.2.1) (isDig_digitChar a.2.2.2)]
  simp [isDig_digitChar b.1, isDig_digitChar b.2, dval_pad2 (show v.month < 100 by omega), hm1, hm2, validTz_tzReprDate hz]

theorem parseGYearMonth_valid_or_lax {s : Str} {v : GYearMonthV} (h : parseGYearMonth s = some v) :
    validGYearMonth (dropNl s) = true ∨ LaxZone (dropNl s) := by
  unfold parseGYearMonth at h
  generalize dropNl s = t at h ⊢
  split at h
  · next y1 y2 y3 y4 m1 m2 z =>
    split at h
    · next hdig =>
      obtain ⟨h1, h2, h3, h4, h5, h6⟩ := all6 hdig
      split at h
      · simp at h
      · next tz hp =>
        simp only at h
        split at h
        · next hm =>
          simp only [Bool.and_eq_true, decide_eq_true_eq] at hm
          by_cases hv : validTz z = true
          · left
            simp only [validGYearMonth]
            rw [splitYear_four h1 h2 h3 h4]
            simp [h5, h6, hm.1, hm.2, hv]
          · right; exact ⟨[y1, y2, y3, y4, '-', m1, m2], z, rfl, by simp [hp], by simpa using hv⟩
        · simp at h
    · simp at h
  · simp at h

theorem parseGMonth_reprGMonth (v : GMonthV) (hv : v.ok) (hz : v.tz.inPy) : parseGMonth (reprGMonth v) = some v := by
  obtain ⟨m, z⟩ := v
  obtain ⟨h1, h2⟩ := hv
  simp only at h1 h2 hz
  have hnl : dropNl (reprGMonth ⟨m, z⟩) = reprGMonth ⟨m, z⟩ := by
    apply dropNl_eq_self
    intro c hc
    simp only [reprGMonth, List.mem_append, List.mem_cons] at hc
    rcases hc with rfl | rfl | h | h
    · decide
    · decide
    · exact pad2_ne_nl _ c h
    · exact tzReprDate_ne_nl hz c h
  unfold parseGMonth
  rw [hnl]
  have b := d2 (show m < 100 by omega)
  simp [reprGMonth, pad2_chars (show m < 100 by omega), isDig_digitChar b.1, isDig_digitChar b.2,
    parseTz_tzReprDate hz, dval_pad2 (show m < 100 by omega), h1, h2]

theorem validGMonth_reprGMonth (v : GMonthV) (hv : v.ok) (hz : v.tz.inXsd) : validGMonth (reprGMonth v) = true := by
  obtain ⟨m, z⟩ := v
  obtain ⟨h1, h2⟩ := hv
  simp only at h1 h2 hz
  have b := d2 (show m < 100 by omega)
  simp [validGMonth, reprGMonth, pad2_chars (show m < 100 by omega), isDig_digitChar b.1, isDig_digitChar b.2,
    dval_pad2 (show m < 100 by omega), h1, h2, validTz_tzReprDate hz]

theorem parseGMonth_valid_or_lax {s : Str} {v : GMonthV} (h : parseGMonth s = some v) :
    validGMonth (dropNl s) = true ∨ LaxZone (dropNl s) := by
  unfold parseGMonth at h
  generalize dropNl s = t at h ⊢
  split at h
  · next m1 m2 z =>
    split at h
    · next hdig =>
      simp only [List.all_cons, List.all_nil, Bool.and_true, Bool.and_eq_true] at hdig
      split at h
      · simp at h
      · next tz hp =>
        simp only at h
        split at h
        · next hm =>
          simp only [Bool.and_eq_true, decide_eq_true_eq] at hm
          by_cases hv : validTz z = true
          · left; simp [validGMonth, hdig.1, hdig.2, hm.1, hm.2, hv]
          · right; exact ⟨['-', '-', m1, m2], z, rfl, by simp [hp], by simpa using hv⟩
        · simp at h
    · simp at h
  · simp at h

theorem parseGDay_reprGDay (v : GDayV) (hv : v.ok) (hz : v.tz.inPy) : parseGDay (reprGDay v) = some v := by
  obtain ⟨d, z⟩ := v
  obtain ⟨h1, h2⟩ := hv
  simp only at h1 h2 hz
  have hnl : dropNl (reprGDay ⟨d, z⟩) = reprGDay ⟨d, z⟩ := by
    apply dropNl_eq_self
    intro c hc
    simp only [reprGDay, List.mem_append, List.mem_cons] at hc
    rcases hc with rfl | rfl | rfl | h | h
    · decide
    · decide
    · decide
    · exact pad2_ne_nl _ c h
    · exact tzReprDate_ne_nl hz c h
  unfold parseGDay
  rw [hnl]
  have b := d2 (show d < 100 by omega)
  simp [reprGDay, pad2_chars (show d < 100 by omega), isDig_digitChar b.1, isDig_digitChar b.2,
    parseTz_tzReprDate hz, dval_pad2 (show d < 100 by omega), h1, h2]

theorem validGDay_reprGDay (v : GDayV) (hv : v.ok) (hz : v.tz.inXsd) : validGDay (reprGDay v) = true := by
  obtain ⟨d, z⟩ := v
  obtain ⟨h1, h2⟩ := hv
  simp only at h1 h2 hz
  have b := d2 (show d < 100 by omega)
  simp [validGDay, reprGDay, pad2_chars (show d < 100 by omega), isDig_digitChar b.1, isDig_digitChar b.2,
    dval_pad2 (show d < 100 by omega), h1, h2, validTz_tzReprDate hz]

theorem parseGDay_valid_or_lax {s : Str} {v : GDayV} (h : parseGDay s = some v) :
    validGDay (dropNl s) = true ∨ LaxZone (dropNl s) := by
  unfold parseGDay at h
  generalize dropNl s = t at h ⊢
  split at h
  · next d1 d2 z =>
    split at h
    · next hdig =>
      simp only [List.all_cons, List.all_nil, Bool.and_true, Bool.and_eq_true] at hdig
      split at h
      · simp at h
      · next tz hp =>
        simp only at h
        split at h
        · next hm =>
          simp only [Bool.and_eq_true, decide_eq_true_eq] at hm
          by_cases hv : validTz z = true
          · left; simp [validGDay, hdig.1, hdig.2, hm.1, hm.2, hv]
          · right; exact ⟨['-', '-', '-', d1, d2], z, rfl, by simp [hp], by simpa using hv⟩
        · simp at h
    · simp at h
  · simp at h

theorem monthDayOk_bounds {m d : Nat} (h : monthDayOk m d = true) : 1 ≤ d ∧ d ≤ 31 ∧ 1 ≤ m ∧ m ≤ 12 ∧ d ≤ maxDay m := by
  simpa [monthDayOk, and_assoc] using h

theorem parseGMonthDay_reprGMonthDay (v : GMonthDayV) (hv : v.ok) (hz : v.tz.inPy) :
    parseGMonthDay (reprGMonthDay v) = some v := by
  obtain ⟨m, d, z⟩ := v
  have hb := monthDayOk_bounds hv
  simp only at hb hz
  have hnl : dropNl (reprGMonthDay ⟨m, d, z⟩) = reprGMonthDay ⟨m, d, z⟩ := by
    apply dropNl_eq_self
    intro c hc
    simp only [reprGMonthDay, List.mem_append, List.mem_cons] at hc
    rcases hc with rfl | rfl | h | rfl | h | h
    · decide
    · decide
    · exact pad2_ne_nl _ c h
    · decide
    · exact pad2_ne_nl _ c h
    · exact tzReprDate_ne_nl hz c h
  unfold parseGMonthDay
  rw [hnl]
  have a := d2 (show m < 100 by omega)
  have b := d2 (show d < 100 by omega)
  have hok : monthDayOk m d = true := hv
  simp [reprGMonthDay, pad2_chars (show m < 100 by omega), pad2_chars (show d < 100 by omega), isDig_digitChar a.1,
    isDig_digitChar a.2, isDig_digitChar b.1, isDig_digitChar b.2, parseTz_tzReprDate hz,
    dval_pad2 (show m < 100 by omega), dval_pad2 (show d < 100 by omega), hok]

theorem validGMonthDay_reprGMonthDay (v : GMonthDayV) (hv : v.ok) (hz : v.tz.inXsd) :
    validGMonthDay (reprGMonthDay v) = true := by
  obtain ⟨m, d, z⟩ := v
  have hb := monthDayOk_bounds hv
  simp only at hb hz
  have a := d2 (show m < 100 by omega)
  have b := d2 (show d < 100 by omega)
  simp [validGMonthDay, reprGMonthDay, pad2_chars (show m < 100 by omega), pad2_chars (show d < 100 by omega),
    isDig_digitChar a.1, isDig_digitChar a.2, isDig_digitChar b.1, isDig_digitChar b.2,
    dval_pad2 (show m < 100 by omega), dval_pad2 (show d < 100 by omega), hb, validTz_tzReprDate hz]

theorem parseGMonthDay_valid_or_lax {s : Str} {v : GMonthDayV} (h : parseGMonthDay s = some v) :
    validGMonthDay (dropNl s) = true ∨ LaxZone (dropNl s) := by
  unfold parseGMonthDay at h
  generalize dropNl s = t at h ⊢
  split at h
  · next m1 m2 d1 d2 z =>
    split at h
    · next hdig =>
      obtain ⟨h1, h2, h3, h4⟩ := all4 hdig
      split at h
      · simp at h
      · next tz hp =>
        simp only at h
        split at h
        · next hm =>
          have hb := monthDayOk_bounds hm
          by_cases hv : validTz z = true
          · left; simp [validGMonthDay, h1, h2, h3, h4, hb, hv]
          · right; exact ⟨['-', '-', m1, m2, '-', d1, d2], z, rfl, by simp [hp], by simpa using hv⟩
        · simp at h
    · simp at h
  · simp at h

end Basyx.Lex
