/- C06 helper lemmas: zones, and the round trips / validity of the date-time family. -/
import Basyx.Lemmas.Lex.Int
namespace Basyx.Lex
open Basyx.Fmt

/-- zone offset a `datetime.timezone` can hold (whole minutes) -/
def Tz.inPy (z : Tz) : Prop := ∀ m, z = some m → -1439 ≤ m ∧ m ≤ 1439
/-- zone offset of the XSD value space: −14:00 … +14:00 -/
def Tz.inXsd (z : Tz) : Prop := ∀ m, z = some m → -840 ≤ m ∧ m ≤ 840

theorem Tz.inPy_of_inXsd {z : Tz} (h : z.inXsd) : z.inPy := by
  intro m hm; have := h m hm; omega

theorem digitChar_ne_nl {n : Nat} (h : n < 10) : Nat.digitChar n ≠ '\n' := ne_nl_of_isDig (isDig_digitChar h)

/-- the `±hh:mm` text of an offset -/
def hhmm (sg : Char) (a : Nat) : Str :=
  [sg, Nat.digitChar (a / 60 / 10), Nat.digitChar (a / 60 % 10), ':', Nat.digitChar (a % 60 / 10), Nat.digitChar (a % 60 % 10)]

theorem tzReprDate_some {m : Int} (h0 : m ≠ 0) (hm : m.natAbs < 6000) :
    tzReprDate (some m) = hhmm (if m ≥ 0 then '+' else '-') m.natAbs := by
  simp only [tzReprDate, h0, ↓reduceIte, hhmm]
  rw [pad2_chars (by omega), pad2_chars (by omega)]; rfl

theorem tzReprIso_some {m : Int} (hm : m.natAbs < 6000) :
    tzReprIso (some m) = hhmm (if m < 0 then '-' else '+') m.natAbs := by
  simp only [tzReprIso, hhmm]
  rw [pad2_chars (by omega), pad2_chars (by omega)]; rfl

theorem parseTz_hhmm {sg : Char} {a : Nat} (hs : sg = '+' ∨ sg = '-') (ha : a < 1440) :
    parseTz (hhmm sg a) = some (some (if sg = '-' then -(Int.ofNat a) else Int.ofNat a)) := by
  have h1 : a / 60 / 10 < 10 := by omega
  have h2 : a / 60 % 10 < 10 := by omega
  have h3 : a % 60 / 10 < 10 := by omega
  have h4 : a % 60 % 10 < 10 := by omega
  have e : dval [Nat.digitChar (a / 60 / 10), Nat.digitChar (a / 60 % 10)] * 60 +
      dval [Nat.digitChar (a % 60 / 10), Nat.digitChar (a % 60 % 10)] = a := by
    rw [dval_two h1 h2, dval_two h3 h4]; omega
  have hsg : (sg = '+' || sg = '-') = true := by rcases hs with rfl | rfl <;> rfl
  simp only [hhmm, parseTz, hsg, isDig_digitChar h1, isDig_digitChar h2, isDig_digitChar h3, isDig_digitChar h4,
    Bool.and_self, ↓reduceIte, e, ha]

theorem validTz_hhmm {sg : Char} {a : Nat} (hs : sg = '+' ∨ sg = '-') (ha : a ≤ 840) : validTz (hhmm sg a) = true := by
  have h1 : a / 60 / 10 < 10 := by omega
  have h2 : a / 60 % 10 < 10 := by omega
  have h3 : a % 60 / 10 < 10 := by omega
  have h4 : a % 60 % 10 < 10 := by omega
  have hsg : (sg = '+' || sg = '-') = true := by rcases hs with rfl | rfl <;> rfl
  simp only [hhmm, validTz, hsg, isDig_digitChar h1, isDig_digitChar h2, isDig_digitChar h3, isDig_digitChar h4,
    dval_two h1 h2, dval_two h3 h4, Bool.and_self, Bool.true_and]
  simp only [Bool.or_eq_true, Bool.and_eq_true, decide_eq_true_eq]
  omega

theorem parseTz_tzReprDate {z : Tz} (h : z.inPy) : parseTz (tzReprDate z) = some z := by
  cases z with
  | none => rfl
  | some m =>
    have hb := h m rfl
    by_cases h0 : m = 0
    · subst h0; rfl
    · rw [tzReprDate_some h0 (by omega), parseTz_hhmm (by split <;> simp) (by omega)]
      by_cases hp : m ≥ 0
      · simp only [hp, ↓reduceIte]; simp; omega
      · simp only [hp, ↓reduceIte]; simp; omega

theorem parseTz_tzReprIso {z : Tz} (h : z.inPy) : parseTz (tzReprIso z) = some z := by
  cases z with
  | none => rfl
  | some m =>
    have hb := h m rfl
    rw [tzReprIso_some (by omega), parseTz_hhmm (by split <;> simp) (by omega)]
    by_cases hp : m < 0
    · simp only [hp, ↓reduceIte]; simp; omega
    · simp only [hp, ↓reduceIte]; simp; omega

theorem validTz_tzReprDate {z : Tz} (h : z.inXsd) : validTz (tzReprDate z) = true := by
  cases z with
  | none => rfl
  | some m =>
    have hb := h m rfl
    by_cases h0 : m = 0
    · subst h0; rfl
    · rw [tzReprDate_some h0 (by omega)]; exact validTz_hhmm (by split <;> simp) (by omega)

theorem validTz_tzReprIso {z : Tz} (h : z.inXsd) : validTz (tzReprIso z) = true := by
  cases z with
  | none => rfl
  | some m =>
    have hb := h m rfl
    rw [tzReprIso_some (by omega)]; exact validTz_hhmm (by split <;> simp) (by omega)

theorem hhmm_ne_nl {sg : Char} {a : Nat} (hs : sg = '+' ∨ sg = '-') (ha : a < 6000) : ∀ c ∈ hhmm sg a, c ≠ '\n' := by
  intro c hc
  simp only [hhmm, List.mem_cons, List.not_mem_nil, or_false] at hc
  rcases hc with rfl | rfl | rfl | rfl | rfl | rfl
  · rcases hs with rfl | rfl <;> decide
  · exact digitChar_ne_nl (by omega)
  · exact digitChar_ne_nl (by omega)
  · decide
  · exact digitChar_ne_nl (by omega)
  · exact digitChar_ne_nl (by omega)

theorem tzReprDate_ne_nl {z : Tz} (h : z.inPy) : ∀ c ∈ tzReprDate z, c ≠ '\n' := by
  cases z with
  | none => intro c hc; simp [tzReprDate] at hc
  | some m =>
    have hb := h m rfl
    by_cases h0 : m = 0
    · subst h0; intro c hc; simp [tzReprDate] at hc; subst hc; decide
    · rw [tzReprDate_some h0 (by omega)]; exact hhmm_ne_nl (by split <;> simp) (by omega)

theorem tzReprIso_ne_nl {z : Tz} (h : z.inPy) : ∀ c ∈ tzReprIso z, c ≠ '\n' := by
  cases z with
  | none => intro c hc; simp [tzReprIso] at hc
  | some m =>
    have hb := h m rfl
    rw [tzReprIso_some (by omega)]; exact hhmm_ne_nl (by split <;> simp) (by omega)

/-- no zone text starts with a digit -/
theorem tzReprIso_head {z : Tz} : ∀ c, (tzReprIso z).head? = some c → isDig c = false := by
  intro c hc
  cases z with
  | none => simp [tzReprIso] at hc
  | some m =>
    simp only [tzReprIso, List.head?_cons, Option.some.injEq] at hc
    subst hc; split <;> rfl

theorem tzReprIso_head_ne_dot {z : Tz} {r : Str} : tzReprIso z ≠ '.' :: r := by
  cases z with
  | none => simp [tzReprIso]
  | some m => simp only [tzReprIso]; split <;> simp

/-! ### xs:date -/

def DateV.ok (v : DateV) : Prop := dateOk v.year v.month v.day = true

theorem dateOk_bounds {y m d : Nat} (h : dateOk y m d = true) : 1 ≤ y ∧ y ≤ 9999 ∧ 1 ≤ m ∧ m ≤ 12 ∧ 1 ≤ d ∧ d ≤ 31 := by
  simp only [dateOk, Bool.and_eq_true, decide_eq_true_eq] at h
  have : daysInMonth y m ≤ 31 := by unfold daysInMonth; split <;> (try split) <;> omega
  omega

theorem d2 {n : Nat} (h : n < 100) : n / 10 < 10 ∧ n % 10 < 10 := by omega
theorem d4 {n : Nat} (h : n < 10000) : n / 1000 < 10 ∧ n / 100 % 10 < 10 ∧ n / 10 % 10 < 10 ∧ n % 10 < 10 := by omega

theorem dval_pad2 {n : Nat} (h : n < 100) : dval [Nat.digitChar (n / 10), Nat.digitChar (n % 10)] = n := by
  rw [dval_two (d2 h).1 (d2 h).2]; omega

theorem dval_pad4 {n : Nat} (h : n < 10000) :
    dval [Nat.digitChar (n / 1000), Nat.digitChar (n / 100 % 10), Nat.digitChar (n / 10 % 10), Nat.digitChar (n % 10)] = n := by
  rw [dval_four (d4 h).1 (d4 h).2.1 (d4 h).2.2.1 (d4 h).2.2.2]; omega

theorem pad2_ne_nl (n : Nat) : ∀ c ∈ pad2 n, c ≠ '\n' := fun _ hc => ne_nl_of_isDig (isDig_of_mem_padN hc)
theorem pad4_ne_nl (n : Nat) : ∀ c ∈ pad4 n, c ≠ '\n' := fun _ hc => ne_nl_of_isDig (isDig_of_mem_padN hc)
theorem padN_ne_nl (w n : Nat) : ∀ c ∈ padN w n, c ≠ '\n' := fun _ hc => ne_nl_of_isDig (isDig_of_mem_padN hc)

theorem parseDate_reprDate (v : DateV) (hv : v.ok) (hz : v.tz.inPy) : parseDate (reprDate v) = some v := by
  obtain ⟨y, m, d, z⟩ := v
  have hb := dateOk_bounds hv
  simp only at hb hz
  have hnl : dropNl (reprDate ⟨y, m, d, z⟩) = reprDate ⟨y, m, d, z⟩ := by
    apply dropNl_eq_self
    intro c hc
    simp only [reprDate, List.mem_append, List.mem_cons] at hc
    rcases hc with h | rfl | h | rfl | h | h
    · exact pad4_ne_nl _ c h
    · decide
    · exact pad2_ne_nl _ c h
    · decide
    · exact pad2_ne_nl _ c h
    · exact tzReprDate_ne_nl hz c h
  unfold parseDate
  rw [hnl]
  simp only [reprDate, pad4_chars (show y < 10000 by omega), pad2_chars (show m < 100 by omega),
    pad2_chars (show d < 100 by omega), List.cons_append, List.nil_append]
  have a := d4 (show y < 10000 by omega)
  have b := d2 (show m < 100 by omega)
  have c := d2 (show d < 100 by omega)
  simp only [List.all_cons, List.all_nil, isDig_digitChar a.1, isDig_digitChar a.2.1, isDig_digitChar a.2.2.1,
    isDig_digitChar a.2.2.2, isDig_digitChar b.1, isDig_digitChar b.2, isDig_digitChar c.1, isDig_digitChar c.2,
    Bool.and_self, ↓reduceIte, parseTz_tzReprDate hz, dval_pad4 (show y < 10000 by omega),
    dval_pad2 (show m < 100 by omega), dval_pad2 (show d < 100 by omega)]
  have : dateOk y m d = true := hv
  simp [this]


theorem digitChar_ne_minus {n : Nat} (h : n < 10) : Nat.digitChar n ≠ '-' := by
  intro e; have := isDig_digitChar h; rw [e] at this; simp [isDig] at this

theorem splitYear_four {a b c d : Char} {rest : Str} (ha : isDig a = true) (hb : isDig b = true) (hc : isDig c = true)
    (hd : isDig d = true) : splitYear (a :: b :: c :: d :: '-' :: rest) = some ([a, b, c, d], '-' :: rest) := by
  have hne : a ≠ '-' := by intro e; subst e; simp [isDig] at ha
  have hm : isDig '-' = false := by decide
  simp [splitYear, hne, List.takeWhile_cons, List.dropWhile_cons, ha, hb, hc, hd, hm]

theorem splitYear_four_tz {a b c d : Char} {rest : Str} (ha : isDig a = true) (hb : isDig b = true) (hc : isDig c = true)
    (hd : isDig d = true) (hr : ∀ x, rest.head? = some x → isDig x = false) :
    splitYear (a :: b :: c :: d :: rest) = some ([a, b, c, d], rest) := by
  have hne : a ≠ '-' := by intro e; subst e; simp [isDig] at ha
  have e : a :: b :: c :: d :: rest = [a, b, c, d] ++ rest := rfl
  have hall : ∀ x ∈ [a, b, c, d], isDig x = true := by
    intro x hx; simp at hx; rcases hx with rfl | rfl | rfl | rfl <;> assumption
  simp only [splitYear, List.head?_cons, Option.some.injEq, hne, ↓reduceIte]
  rw [e, takeWhile_isDig_append hall hr, dropWhile_isDig_append hall hr]
  simp

theorem tzReprDate_head {z : Tz} : ∀ c, (tzReprDate z).head? = some c → isDig c = false := by
  intro c hc
  cases z with
  | none => simp [tzReprDate] at hc
  | some m =>
    simp only [tzReprDate] at hc
    split at hc
    · simp at hc; subst hc; rfl
    · simp only [List.head?_cons, Option.some.injEq] at hc
      subst hc; split <;> rfl

theorem validDate_reprDate (v : DateV) (hv : v.ok) (hz : v.tz.inXsd) : validDate (reprDate v) = true := by
  obtain ⟨y, m, d, z⟩ := v
  have hb := dateOk_bounds hv
  have hok : dateOk y m d = true := hv
  simp only [dateOk, Bool.and_eq_true, decide_eq_true_eq] at hok
  simp only at hb hz
  have a := d4 (show y < 10000 by omega)
  have b := d2 (show m < 100 by omega)
  have c := d2 (show d < 100 by omega)
  simp only [validDate, reprDate, pad4_chars (show y < 10000 by omega), pad2_chars (show m < 100 by omega),
    pad2_chars (show d < 100 by omega), List.cons_append, List.nil_append]
  rw [splitYear_four (isDig_digitChar a.1) (isDig_digitChar a.2.1) (isDig_digitChar a.2.2.1) (isDig_digitChar a.2.2.2)]
  simp only [isDig_digitChar b.1, isDig_digitChar b.2, isDig_digitChar c.1, isDig_digitChar c.2,
    dval_pad4 (show y < 10000 by omega), dval_pad2 (show m < 100 by omega), dval_pad2 (show d < 100 by omega),
    validTz_tzReprDate hz, Bool.and_self, Bool.true_and, Bool.and_true, Bool.and_eq_true, decide_eq_true_eq]
  omega

/-- the accepted literal carries an accepted zone text outside the XSD range (hour 14..23 / minute 60..99):
    known finding `lex:parse:zone-out-of-range` -/
def LaxZone (t : Str) : Prop := ∃ pre z, t = pre ++ z ∧ (parseTz z).isSome = true ∧ validTz z = false

theorem all8 {p : Char → Bool} {a b c d e f g h : Char} (hh : [a, b, c, d, e, f, g, h].all p = true) :
    p a = true ∧ p b = true ∧ p c = true ∧ p d = true ∧ p e = true ∧ p f = true ∧ p g = true ∧ p h = true := by
  simpa [and_assoc] using hh

theorem parseDate_valid_or_lax {s : Str} {v : DateV} (h : parseDate s = some v) :
    validDate (dropNl s) = true ∨ LaxZone (dropNl s) := by
  unfold parseDate at h
  generalize dropNl s = t at h ⊢
  split at h
  · next y1 y2 y3 y4 m1 m2 d1 d2 z =>
    split at h
    · next hdig =>
      obtain ⟨h1, h2, h3, h4, h5, h6, h7, h8⟩ := all8 hdig
      split at h
      · simp at h
      · next tz htz =>
        simp only at h
        split at h
        · next hok =>
          by_cases hv : validTz z = true
          · left
            simp only [dateOk, Bool.and_eq_true, decide_eq_true_eq] at hok
            simp only [validDate]
            rw [splitYear_four h1 h2 h3 h4]
            simp only [h5, h6, h7, h8, hv, Bool.and_self, Bool.true_and, Bool.and_true, Bool.and_eq_true, decide_eq_true_eq]
            omega
          · right
            exact ⟨[y1, y2, y3, y4, '-', m1, m2, '-', d1, d2], z, rfl, by simp [htz], by simpa using hv⟩
        · simp at h
    · simp at h
  · simp at h

/-! ### xs:time -/

def TimeV.ok (v : TimeV) : Prop := timeOk v.hour v.minute v.second v.micro = true

theorem micros_padN6 {us : Nat} (h : us < 1000000) : micros (padN 6 us) = us := by
  have hl : (padN 6 us).length = 6 := length_padN (by decide) (by omega)
  unfold micros ljust6
  rw [List.take_of_length_le (by omega)]
  simp [hl, dval_padN]

theorem padN6_ne_nil (us : Nat) : padN 6 us ≠ [] := by
  unfold padN; simp

theorem parseFracTz_repr {us : Nat} {z : Tz} (hus : us < 1000000) (hz : z.inPy) :
    parseFracTz ((if us = 0 then [] else '.' :: padN 6 us) ++ tzReprIso z) = some (us, z) := by
  by_cases h0 : us = 0
  · subst h0
    simp only [↓reduceIte, List.nil_append]
    unfold parseFracTz
    split
    · next r heq => exact absurd heq tzReprIso_head_ne_dot
    · simp [parseTz_tzReprIso hz]
  · simp only [h0, ↓reduceIte, List.cons_append, parseFracTz]
    rw [takeWhile_isDig_append (fun c hc => isDig_of_mem_padN hc) tzReprIso_head,
      dropWhile_isDig_append (fun c hc => isDig_of_mem_padN hc) tzReprIso_head]
    simp [padN6_ne_nil, parseTz_tzReprIso hz, micros_padN6 hus]

theorem reprClock_chars {h mi s us : Nat} (hh : h < 100) (hm : mi < 100) (hs : s < 100) :
    reprClock h mi s us =
      Nat.digitChar (h / 10) :: Nat.digitChar (h % 10) :: ':' :: Nat.digitChar (mi / 10) :: Nat.digitChar (mi % 10) :: ':' ::
        Nat.digitChar (s / 10) :: Nat.digitChar (s % 10) :: (if us = 0 then [] else '.' :: padN 6 us) := by
  simp only [reprClock, pad2_chars hh, pad2_chars hm, pad2_chars hs, List.cons_append, List.nil_append]

theorem timeOk_bounds {h mi s us : Nat} (hv : timeOk h mi s us = true) : h ≤ 23 ∧ mi ≤ 59 ∧ s ≤ 59 ∧ us ≤ 999999 := by
  simpa [timeOk, and_assoc] using hv

theorem frac_ne_nl (us : Nat) : ∀ c ∈ (if us = 0 then [] else '.' :: padN 6 us), c ≠ '\n' := by
  intro c hc
  split at hc
  · simp at hc
  · rcases List.mem_cons.1 hc with rfl | h
    · decide
    · exact padN_ne_nl _ _ c h

theorem reprClock_ne_nl (h mi s us : Nat) : ∀ c ∈ reprClock h mi s us, c ≠ '\n' := by
  intro c hc
  simp only [reprClock, List.mem_append, List.mem_cons] at hc
  rcases hc with h | rfl | h | rfl | h | h
  · exact pad2_ne_nl _ c h
  · decide
  · exact pad2_ne_nl _ c h
  · decide
  · exact pad2_ne_nl _ c h
  · exact frac_ne_nl us c h

theorem parseTime_reprTime (v : TimeV) (hv : v.ok) (hz : v.tz.inPy) : parseTime (reprTime v) = some v := by
  obtain ⟨h, mi, s, us, z⟩ := v
  have hb := timeOk_bounds hv
  simp only at hb hz
  have hnl : dropNl (reprTime ⟨h, mi, s, us, z⟩) = reprTime ⟨h, mi, s, us, z⟩ := by
    apply dropNl_eq_self
    intro c hc
    simp only [reprTime, List.mem_append] at hc
    rcases hc with hc | hc
    · exact reprClock_ne_nl _ _ _ _ c hc
    · exact tzReprIso_ne_nl hz c hc
  unfold parseTime
  rw [hnl]
  simp only [reprTime, reprClock_chars (show h < 100 by omega) (show mi < 100 by omega) (show s < 100 by omega),
    List.cons_append]
  have a := d2 (show h < 100 by omega)
  have b := d2 (show mi < 100 by omega)
  have c := d2 (show s < 100 by omega)
  simp only [List.all_cons, List.all_nil, isDig_digitChar a.1, isDig_digitChar a.2, isDig_digitChar b.1,
    isDig_digitChar b.2, isDig_digitChar c.1, isDig_digitChar c.2, Bool.and_self, ↓reduceIte,
    parseFracTz_repr (show us < 1000000 by omega) hz, dval_pad2 (show h < 100 by omega),
    dval_pad2 (show mi < 100 by omega), dval_pad2 (show s < 100 by omega)]
  have : timeOk h mi s us = true := hv
  simp [this]

theorem validFracTz_repr {us : Nat} {z : Tz} (hz : z.inXsd) :
    validFracTz ((if us = 0 then [] else '.' :: padN 6 us) ++ tzReprIso z) = true := by
  by_cases h0 : us = 0
  · subst h0
    simp only [↓reduceIte, List.nil_append]
    unfold validFracTz
    split
    · next r heq => exact absurd heq tzReprIso_head_ne_dot
    · exact validTz_tzReprIso hz
  · simp only [h0, ↓reduceIte, List.cons_append, validFracTz]
    rw [takeWhile_isDig_append (fun c hc => isDig_of_mem_padN hc) tzReprIso_head,
      dropWhile_isDig_append (fun c hc => isDig_of_mem_padN hc) tzReprIso_head]
    simp [padN6_ne_nil, validTz_tzReprIso hz]

theorem validTime_reprTime (v : TimeV) (hv : v.ok) (hz : v.tz.inXsd) : validTime (reprTime v) = true := by
  obtain ⟨h, mi, s, us, z⟩ := v
  have hb := timeOk_bounds hv
  simp only at hb hz
  have a := d2 (show h < 100 by omega)
  have b := d2 (show mi < 100 by omega)
  have c := d2 (show s < 100 by omega)
  simp only [validTime, reprTime, reprClock_chars (show h < 100 by omega) (show mi < 100 by omega) (show s < 100 by omega),
    List.cons_append]
  simp only [List.all_cons, List.all_nil, isDig_digitChar a.1, isDig_digitChar a.2, isDig_digitChar b.1,
    isDig_digitChar b.2, isDig_digitChar c.1, isDig_digitChar c.2, Bool.and_self, Bool.true_and, validClock,
    dval_pad2 (show h < 100 by omega), dval_pad2 (show mi < 100 by omega), dval_pad2 (show s < 100 by omega),
    validFracTz_repr hz, Bool.and_true]
  simp; omega

theorem all6 {p : Char → Bool} {a b c d e f : Char} (hh : [a, b, c, d, e, f].all p = true) :
    p a = true ∧ p b = true ∧ p c = true ∧ p d = true ∧ p e = true ∧ p f = true := by
  simpa [and_assoc] using hh

/-- what `parseFracTz` accepted is a valid `(.s+)? zone` or has a lax zone -/
theorem parseFracTz_valid_or_lax {rest : Str} {us : Nat} {tz : Tz} (h : parseFracTz rest = some (us, tz)) :
    validFracTz rest = true ∨ ∃ pre z, rest = pre ++ z ∧ (parseTz z).isSome = true ∧ validTz z = false := by
  unfold parseFracTz at h
  split at h
  · next r =>
    simp only at h
    split at h
    · simp at h
    · next hne =>
      cases hp : parseTz (List.dropWhile isDig r) with
      | none => simp [hp] at h
      | some tz' =>
        by_cases hv : validTz (List.dropWhile isDig r) = true
        · left; simp [validFracTz, hne, hv]
        · right
          refine ⟨'.' :: List.takeWhile isDig r, List.dropWhile isDig r, ?_, by simp [hp], by simpa using hv⟩
          simp [List.takeWhile_append_dropWhile]
  · next hnd =>
    cases hp : parseTz rest with
    | none => simp [hp] at h
    | some tz' =>
      by_cases hv : validTz rest = true
      · left
        unfold validFracTz
        split
        · next r => exact (hnd r rfl).elim
        · exact hv
      · right; exact ⟨[], rest, rfl, by simp [hp], by simpa using hv⟩

theorem parseTime_valid_or_lax {s : Str} {v : TimeV} (h : parseTime s = some v) :
    validTime (dropNl s) = true ∨ LaxZone (dropNl s) := by
  unfold parseTime at h
  generalize dropNl s = t at h ⊢
  split at h
  · next h1 h2 m1 m2 s1 s2 rest =>
    split at h
    · next hdig =>
      split at h
      · simp at h
      · next us tz hft =>
        simp only at h
        split at h
        · next hok =>
          have hb := timeOk_bounds hok
          rcases parseFracTz_valid_or_lax hft with hv | ⟨pre, z, hpz, hp, hv⟩
          · left
            simp only [validTime, hdig, validClock, hv, Bool.true_and, Bool.and_true]
            simp; omega
          · right
            exact ⟨h1 :: h2 :: ':' :: m1 :: m2 :: ':' :: s1 :: s2 :: pre, z, by simp [hpz], hp, hv⟩
        · simp at h
    · simp at h
  · simp at h

end Basyx.Lex
