/- C06 helper lemmas: xs:decimal (`format(d, "f")` then `Decimal(str)`). -/
import Basyx.Lemmas.Lex.Int
namespace Basyx.Lex
open Basyx.Fmt

/-- characters of a plain decimal numeral -/
def decChar (c : Char) : Bool := isDig c || c = '.'

theorem decChar_of_isDig {c : Char} (h : isDig c = true) : decChar c = true := by simp [decChar, h]

theorem decChar_facts {c : Char} (h : decChar c = true) :
    isUniSpaceAscii c = false ∧ c ≠ '_' ∧ lowerAscii c = c ∧ c ≠ '-' ∧ c ≠ '+' := by
  simp only [decChar, Bool.or_eq_true, decide_eq_true_eq] at h
  rcases h with h | rfl
  · have hb := (isDig_iff c).1 h
    refine ⟨?_, ?_, ?_, ?_, ?_⟩
    · have := not_space_of_isDig h
      simp only [isUniSpaceAscii, this, Bool.false_or, Bool.and_eq_false_iff, decide_eq_false_iff_not]
      omega
    · exact ne_underscore_of_isDig h
    · unfold lowerAscii
      have : ¬ ('A' ≤ c ∧ c ≤ 'Z') := by
        intro ⟨h1, _⟩
        have : 65 ≤ c.toNat := by simpa [Char.le_def, UInt32.le_iff_toNat_le] using h1
        omega
      simp [this]
    · intro e; subst e; simp [isDig] at h
    · intro e; subst e; simp [isDig] at h
  · decide

theorem dropWhile_eq_self_of_head' {p : Char → Bool} {l : Str} (h : ∀ c, l.head? = some c → p c = false) :
    l.dropWhile p = l := dropWhile_eq_self_of_head h

theorem stripU_eq_self {s : Str} (h : ∀ c ∈ s, isUniSpaceAscii c = false) : stripU s = s := by
  unfold stripU
  rw [dropWhile_eq_self_of_head (l := s)]
  · rw [dropWhile_eq_self_of_head (l := s.reverse)]
    · simp
    · intro c hc
      have : c ∈ s.reverse := List.mem_of_head? hc
      exact h c (by simpa using this)
  · intro c hc; exact h c (List.mem_of_head? hc)

theorem filter_us_eq_self {s : Str} (h : ∀ c ∈ s, c ≠ '_') : s.filter (· ≠ '_') = s := by
  rw [List.filter_eq_self]; intro c hc; simpa using h c hc

theorem map_lower_eq_self {s : Str} (h : ∀ c ∈ s, lowerAscii c = c) : s.map lowerAscii = s := by
  induction s with
  | nil => rfl
  | cons c r ih => simp [h c List.mem_cons_self, ih (fun x hx => h x (List.mem_cons_of_mem _ hx))]

/-- the number part of `Decimal(str)` for a numeral `ip[.fd]` with `ip` non-empty, starting with a digit -/
theorem parseDec_numeral (neg : Bool) (ip fd : Str) (dot : Bool) (hip : ip ≠ []) (h1 : ∀ c ∈ ip, isDig c = true)
    (h2 : ∀ c ∈ fd, isDig c = true) (hd : dot = false → fd = []) :
    parseDec ((if neg then ['-'] else []) ++ (ip ++ (if dot then '.' :: fd else []))) =
      some (.fin ⟨neg, dval (ip ++ fd), -(Int.ofNat fd.length)⟩) := by
  have hbody : ∀ c ∈ ip ++ (if dot then '.' :: fd else []), decChar c = true := by
    intro c hc
    rcases List.mem_append.1 hc with h | h
    · exact decChar_of_isDig (h1 c h)
    · split at h
      · rcases List.mem_cons.1 h with rfl | h
        · rfl
        · exact decChar_of_isDig (h2 c h)
      · simp at h
  have hall : ∀ c ∈ (if neg then ['-'] else []) ++ (ip ++ (if dot then '.' :: fd else [])),
      isUniSpaceAscii c = false ∧ c ≠ '_' := by
    intro c hc
    rcases List.mem_append.1 hc with h | h
    · split at h
      · simp at h; subst h; exact ⟨by decide, by decide⟩
      · simp at h
    · exact ⟨(decChar_facts (hbody c h)).1, (decChar_facts (hbody c h)).2.1⟩
  obtain ⟨a, as, rfl⟩ : ∃ a as, ip = a :: as := by
    cases ip with
    | nil => exact absurd rfl hip
    | cons a as => exact ⟨a, as, rfl⟩
  have ha : isDig a = true := h1 a List.mem_cons_self
  have haf := decChar_facts (decChar_of_isDig ha)
  unfold parseDec
  rw [stripU_eq_self (fun c hc => (hall c hc).1), filter_us_eq_self (fun c hc => (hall c hc).2)]
  -- sign split
  have hsplit : splitSign ((if neg then ['-'] else []) ++ (a :: as ++ (if dot then '.' :: fd else []))) =
      (neg, a :: as ++ (if dot then '.' :: fd else [])) := by
    cases neg with
    | true => rfl
    | false =>
      simp only [Bool.false_eq_true, ↓reduceIte, List.nil_append, List.cons_append, splitSign]
      split
      · next r heq => simp only [List.cons.injEq] at heq; exact absurd heq.1 haf.2.2.2.1
      · next r heq => simp only [List.cons.injEq] at heq; exact absurd heq.1 haf.2.2.2.2
      · rfl
  simp only [hsplit]
  rw [map_lower_eq_self (fun c hc => (decChar_facts (hbody c hc)).2.2.1)]
  -- not a special literal: the numeral starts with a digit
  have hi : ((a :: as ++ (if dot then '.' :: fd else [])) = ['i', 'n', 'f'] ||
      (a :: as ++ (if dot then '.' :: fd else [])) = ['i', 'n', 'f', 'i', 'n', 'i', 't', 'y']) = false := by
    have : a ≠ 'i' := by intro e; subst e; simp [isDig] at ha
    simp [this]
  simp only [hi, Bool.false_eq_true, ↓reduceIte]
  have hn : a ≠ 'n' := by intro e; subst e; simp [isDig] at ha
  have hs : a ≠ 's' := by intro e; subst e; simp [isDig] at ha
  split
  · next d heq => simp only [List.cons_append, List.cons.injEq] at heq; exact absurd heq.1 hn
  · next d heq => simp only [List.cons_append, List.cons.injEq] at heq; exact absurd heq.1 hs
  · -- the numeral
    have hdot : isDig '.' = false := by decide
    cases dot with
    | false =>
      have hfd : fd = [] := hd rfl
      subst hfd
      simp only [Bool.false_eq_true, ↓reduceIte, List.append_nil, spanDigits]
      have e1 : List.takeWhile isDig (a :: as) = a :: as := by
        have := takeWhile_isDig_append (a := a :: as) (b := []) h1 (by simp)
        simpa using this
      have e2 : List.dropWhile isDig (a :: as) = [] := by
        have := dropWhile_isDig_append (a := a :: as) (b := []) h1 (by simp)
        simpa using this
      simp [e1, e2]
    | true =>
      simp only [↓reduceIte, spanDigits]
      have hb : ∀ c, ('.' :: fd).head? = some c → isDig c = false := by
        intro c hc; simp at hc; subst hc; exact hdot
      rw [takeWhile_isDig_append h1 hb, dropWhile_isDig_append h1 hb]
      have e1 : List.takeWhile isDig fd = fd := by
        have := takeWhile_isDig_append (a := fd) (b := []) h2 (by simp)
        simpa using this
      have e2 : List.dropWhile isDig fd = [] := by
        have := dropWhile_isDig_append (a := fd) (b := []) h2 (by simp)
        simpa using this
      simp [e1, e2]

theorem validDecimal_numeral (neg : Bool) (ip fd : Str) (dot : Bool) (hip : ip ≠ []) (h1 : ∀ c ∈ ip, isDig c = true)
    (h2 : ∀ c ∈ fd, isDig c = true) :
    validDecimal ((if neg then ['-'] else []) ++ (ip ++ (if dot then '.' :: fd else []))) = true := by
  obtain ⟨a, as, rfl⟩ : ∃ a as, ip = a :: as := by
    cases ip with
    | nil => exact absurd rfl hip
    | cons a as => exact ⟨a, as, rfl⟩
  have ha : isDig a = true := h1 a List.mem_cons_self
  have haf := decChar_facts (decChar_of_isDig ha)
  have hstrip : stripSign ((if neg then ['-'] else []) ++ (a :: as ++ (if dot then '.' :: fd else []))) =
      a :: as ++ (if dot then '.' :: fd else []) := by
    cases neg with
    | true => rfl
    | false =>
      simp only [Bool.false_eq_true, ↓reduceIte, List.nil_append, List.cons_append, stripSign]
      split
      · next r heq => simp only [List.cons.injEq] at heq; exact absurd heq.1 haf.2.2.2.2
      · next r heq => simp only [List.cons.injEq] at heq; exact absurd heq.1 haf.2.2.2.1
      · rfl
  unfold validDecimal
  rw [hstrip]
  unfold validDecimalBody spanDigits
  have hdot : isDig '.' = false := by decide
  cases dot with
  | false =>
    simp only [Bool.false_eq_true, ↓reduceIte, List.append_nil]
    have e1 : List.takeWhile isDig (a :: as) = a :: as := by
      have := takeWhile_isDig_append (a := a :: as) (b := []) h1 (by simp)
      simpa using this
    have e2 : List.dropWhile isDig (a :: as) = [] := by
      have := dropWhile_isDig_append (a := a :: as) (b := []) h1 (by simp)
      simpa using this
    simp [e1, e2]
  | true =>
    simp only [↓reduceIte]
    have hb : ∀ c, ('.' :: fd).head? = some c → isDig c = false := by
      intro c hc; simp at hc; subst hc; exact hdot
    rw [takeWhile_isDig_append h1 hb, dropWhile_isDig_append h1 hb]
    simp only [List.all_eq_true.2 h2, Bool.true_and]
    simp


/-- what `Decimal(format(v, "f"))` is: the same number, with a non-negative exponent multiplied out -/
def DecV.plain (v : DecV) : DecV := if v.exp ≥ 0 then ⟨v.neg, v.coeff * 10 ^ v.exp.toNat, 0⟩ else v

theorem dval_append_zeros (ds : Str) (e : Nat) : dval (ds ++ List.replicate e '0') = dval ds * 10 ^ e := by
  simp [dval, Nat.ofDigitChars_append, Nat.mul_comm]

theorem dval_zero_zeros_append (j : Nat) (ds : Str) : dval ('0' :: (List.replicate j '0' ++ ds)) = dval ds := by
  simp [dval, Nat.ofDigitChars_cons, Nat.ofDigitChars_append]

theorem dec_roundtrip (v : DecV) :
    parseDec (reprDec v) = some (.fin v.plain) ∧ validDecimal (reprDec v) = true := by
  obtain ⟨neg, coeff, exp⟩ := v
  have hds : ∀ c ∈ Nat.toDigits 10 coeff, isDig c = true := fun c hc => isDig_of_mem_toDigits hc
  have hne : Nat.toDigits 10 coeff ≠ [] := Nat.toDigits_ne_nil
  by_cases he : exp ≥ 0
  · by_cases h0 : coeff = 0
    · -- zero with non-negative exponent: "0"
      have hr : reprDec ⟨neg, coeff, exp⟩ =
          (if neg then ['-'] else []) ++ (Nat.toDigits 10 coeff ++ (if false then '.' :: [] else [])) := by
        simp [reprDec, he, h0]
      rw [hr]
      refine ⟨?_, validDecimal_numeral neg _ [] false hne hds (by simp)⟩
      rw [parseDec_numeral neg _ [] false hne hds (by simp) (fun _ => rfl)]
      simp only [DecV.plain, he, ↓reduceIte, dval_toDigits, h0, List.append_nil, List.length_nil]
      simp
    · have hr : reprDec ⟨neg, coeff, exp⟩ = (if neg then ['-'] else []) ++
          ((Nat.toDigits 10 coeff ++ List.replicate exp.toNat '0') ++ (if false then '.' :: [] else [])) := by
        simp [reprDec, he, h0]
      have hall : ∀ c ∈ Nat.toDigits 10 coeff ++ List.replicate exp.toNat '0', isDig c = true := by
        intro c hc
        rcases List.mem_append.1 hc with h | h
        · exact hds c h
        · rw [List.mem_replicate] at h; rw [h.2]; decide
      have hne' : Nat.toDigits 10 coeff ++ List.replicate exp.toNat '0' ≠ [] := by simp [hne]
      rw [hr]
      refine ⟨?_, validDecimal_numeral neg _ [] false hne' hall (by simp)⟩
      rw [parseDec_numeral neg _ [] false hne' hall (by simp) (fun _ => rfl)]
      simp [DecV.plain, he, dval_append_zeros, dval_toDigits]
  · have hneg : exp < 0 := by omega
    by_cases hl : (Nat.toDigits 10 coeff).length > (-exp).toNat
    · -- point inside the digit string
      have hr : reprDec ⟨neg, coeff, exp⟩ = (if neg then ['-'] else []) ++
          ((Nat.toDigits 10 coeff).take ((Nat.toDigits 10 coeff).length - (-exp).toNat) ++
            (if true then '.' :: (Nat.toDigits 10 coeff).drop ((Nat.toDigits 10 coeff).length - (-exp).toNat) else [])) := by
        simp [reprDec, he, hl]
      have h1 : ∀ c ∈ (Nat.toDigits 10 coeff).take ((Nat.toDigits 10 coeff).length - (-exp).toNat), isDig c = true :=
        fun c hc => hds c (List.mem_of_mem_take hc)
      have h2 : ∀ c ∈ (Nat.toDigits 10 coeff).drop ((Nat.toDigits 10 coeff).length - (-exp).toNat), isDig c = true :=
        fun c hc => hds c (List.mem_of_mem_drop hc)
      have hne' : (Nat.toDigits 10 coeff).take ((Nat.toDigits 10 coeff).length - (-exp).toNat) ≠ [] := by
        intro e
        have := congrArg List.length e
        simp at this; omega
      rw [hr]
      refine ⟨?_, validDecimal_numeral neg _ _ true hne' h1 h2⟩
      rw [parseDec_numeral neg _ _ true hne' h1 h2 (by simp)]
      simp only [List.take_append_drop, dval_toDigits, List.length_drop, DecV.plain, he, ↓reduceIte]
      congr 3
      simp only [Int.ofNat_eq_coe]
      omega
    · -- "0." zeros digits
      have hr : reprDec ⟨neg, coeff, exp⟩ = (if neg then ['-'] else []) ++
          (['0'] ++ (if true then '.' :: (List.replicate ((-exp).toNat - (Nat.toDigits 10 coeff).length) '0' ++
            Nat.toDigits 10 coeff) else [])) := by
        simp [reprDec, he, hl]
      have h2 : ∀ c ∈ List.replicate ((-exp).toNat - (Nat.toDigits 10 coeff).length) '0' ++ Nat.toDigits 10 coeff,
          isDig c = true := by
        intro c hc
        rcases List.mem_append.1 hc with h | h
        · rw [List.mem_replicate] at h; rw [h.2]; decide
        · exact hds c h
      have h1 : ∀ c ∈ ['0'], isDig c = true := by intro c hc; simp at hc; subst hc; decide
      rw [hr]
      refine ⟨?_, validDecimal_numeral neg _ _ true (by simp) h1 h2⟩
      rw [parseDec_numeral neg _ _ true (by simp) h1 h2 (by simp)]
      simp only [List.singleton_append, dval_zero_zeros_append, dval_toDigits, List.length_append, List.length_replicate,
        DecV.plain, he, ↓reduceIte]
      congr 3
      simp only [Int.ofNat_eq_coe]
      omega

end Basyx.Lex
