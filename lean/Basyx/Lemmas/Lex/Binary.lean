/- C06 helper lemmas: hexBinary and base64Binary over arbitrary byte lists. -/
import Basyx.Lemmas.Lex.Int
namespace Basyx.Lex

/-! ### hex -/

theorem hexVal_digitChar : ∀ k : Fin 16, hexVal (Nat.digitChar k.val) = some k.val := by decide
theorem hexDigit_not_space : ∀ k : Fin 16, isPySpace (Nat.digitChar k.val) = false := by decide

theorem fromHex_hexEncode (bs : Bytes) (h : bs.ok) : fromHex (hexEncode bs) = some bs := by
  induction bs with
  | nil => rfl
  | cons b r ih =>
    have hb : b < 256 := h b List.mem_cons_self
    have hr : Bytes.ok r := fun x hx => h x (List.mem_cons_of_mem _ hx)
    have h1 := hexVal_digitChar ⟨b / 16, by omega⟩
    have h2 := hexVal_digitChar ⟨b % 16, by omega⟩
    have h3 := hexDigit_not_space ⟨b / 16, by omega⟩
    simp only at h1 h2 h3
    simp only [hexEncode, fromHex, h3, Bool.false_eq_true, ↓reduceIte, h1, h2, ih hr, Option.map_some]
    congr 2; omega

theorem validHex_hexEncode (bs : Bytes) (h : bs.ok) : validHex (hexEncode bs) = true := by
  induction bs with
  | nil => rfl
  | cons b r ih =>
    have hb : b < 256 := h b List.mem_cons_self
    have hr : Bytes.ok r := fun x hx => h x (List.mem_cons_of_mem _ hx)
    have h1 := hexVal_digitChar ⟨b / 16, by omega⟩
    have h2 := hexVal_digitChar ⟨b % 16, by omega⟩
    simp only at h1 h2
    simp [hexEncode, validHex, h1, h2, ih hr]

/-- `bytes.fromhex` accepts only xs:hexBinary literals — apart from the ASCII white space it skips -/
theorem fromHex_valid_of_no_space : ∀ (s : Str) (bs : Bytes), fromHex s = some bs →
    (∀ c ∈ s, isPySpace c = false) → validHex s = true := by
  intro s
  induction s using validHex.induct with
  | case1 => intros; rfl
  | case2 c =>
    intro bs h hs
    simp [fromHex, hs c List.mem_cons_self] at h
  | case3 c d r ih =>
    intro bs h hs
    have hc := hs c List.mem_cons_self
    simp only [fromHex, hc, Bool.false_eq_true, ↓reduceIte] at h
    cases h1 : hexVal c with
    | none => simp [h1] at h
    | some hv =>
      cases h2 : hexVal d with
      | none => simp [h1, h2] at h
      | some lv =>
        cases h3 : fromHex r with
        | none => simp [h1, h2, h3] at h
        | some t =>
          have := ih t h3 (fun x hx => hs x (List.mem_cons_of_mem _ (List.mem_cons_of_mem _ hx)))
          simp [validHex, h1, h2, this]

/-! ### base64 -/

theorem b64index_b64char : ∀ i : Fin 64, b64index (b64char i.val) = some i.val := by decide
theorem b64char_ne_pad : ∀ i : Fin 64, (b64char i.val = '=') = False := by decide
theorem b64char_ne_space : ∀ i : Fin 64, (b64char i.val = ' ') = False := by decide

theorem b64idx {i : Nat} (h : i < 64) : b64index (b64char i) = some i := b64index_b64char ⟨i, h⟩
theorem b64ne {i : Nat} (h : i < 64) : (b64char i = '=') = False := b64char_ne_pad ⟨i, h⟩
theorem b64nsp {i : Nat} (h : i < 64) : (b64char i = ' ') = False := b64char_ne_space ⟨i, h⟩

/-- one alphabet character through the decoder -/
theorem b64decodeAux_char {i : Nat} (h : i < 64) (r : Str) (q l p : Nat) (acc : Bytes) :
    b64decodeAux (b64char i :: r) q l p acc =
      (if q = 0 then b64decodeAux r 1 i 0 acc
       else if q = 1 then b64decodeAux r 2 (i % 16) 0 ((l * 4 + i / 16) :: acc)
       else if q = 2 then b64decodeAux r 3 (i % 4) 0 ((l * 16 + i / 4) :: acc)
       else b64decodeAux r 0 0 0 ((l * 64 + i) :: acc)) := by
  rw [b64decodeAux]
  simp only [b64ne h, ↓reduceIte, b64idx h]

theorem b64step0 {i : Nat} (h : i < 64) (r : Str) (l p : Nat) (acc : Bytes) :
    b64decodeAux (b64char i :: r) 0 l p acc = b64decodeAux r 1 i 0 acc := by
  rw [b64decodeAux_char h]; simp
theorem b64step1 {i : Nat} (h : i < 64) (r : Str) (l p : Nat) (acc : Bytes) :
    b64decodeAux (b64char i :: r) 1 l p acc = b64decodeAux r 2 (i % 16) 0 ((l * 4 + i / 16) :: acc) := by
  rw [b64decodeAux_char h]; simp
theorem b64step2 {i : Nat} (h : i < 64) (r : Str) (l p : Nat) (acc : Bytes) :
    b64decodeAux (b64char i :: r) 2 l p acc = b64decodeAux r 3 (i % 4) 0 ((l * 16 + i / 4) :: acc) := by
  rw [b64decodeAux_char h]; simp
theorem b64step3 {i : Nat} (h : i < 64) (r : Str) (l p : Nat) (acc : Bytes) :
    b64decodeAux (b64char i :: r) 3 l p acc = b64decodeAux r 0 0 0 ((l * 64 + i) :: acc) := by
  rw [b64decodeAux_char h]; simp
theorem b64pad (r : Str) (q l p : Nat) (acc : Bytes) :
    b64decodeAux ('=' :: r) q l p acc =
      (if q ≥ 2 then (if q + (p + 1) ≥ 4 then some acc.reverse else b64decodeAux r q l (p + 1) acc)
       else b64decodeAux r q l p acc) := by
  rw [b64decodeAux]; simp

theorem b64decodeAux_encode (bs : Bytes) (h : bs.ok) (acc : Bytes) :
    b64decodeAux (b64encode bs) 0 0 0 acc = some (acc.reverse ++ bs) := by
  induction bs using b64encode.induct generalizing acc with
  | case1 a b c r ih =>
    have ha : a < 256 := h a (by simp)
    have hb : b < 256 := h b (by simp)
    have hc : c < 256 := h c (by simp)
    have hr : Bytes.ok r := fun x hx => h x (by simp [hx])
    have s0 : a / 4 < 64 := by omega
    have s1 : a % 4 * 16 + b / 16 < 64 := by omega
    have s2 : b % 16 * 4 + c / 64 < 64 := by omega
    have s3 : c % 64 < 64 := by omega
    simp only [b64encode]
    rw [b64step0 s0, b64step1 s1, b64step2 s2, b64step3 s3, ih hr]
    have e1 : a / 4 * 4 + (a % 4 * 16 + b / 16) / 16 = a := by omega
    have e2 : (a % 4 * 16 + b / 16) % 16 * 16 + (b % 16 * 4 + c / 64) / 4 = b := by omega
    have e3 : (b % 16 * 4 + c / 64) % 4 * 64 + c % 64 = c := by omega
    rw [e1, e2, e3]; simp
  | case2 a b =>
    have ha : a < 256 := h a (by simp)
    have hb : b < 256 := h b (by simp)
    have s0 : a / 4 < 64 := by omega
    have s1 : a % 4 * 16 + b / 16 < 64 := by omega
    have s2 : b % 16 * 4 < 64 := by omega
    simp only [b64encode]
    rw [b64step0 s0, b64step1 s1, b64step2 s2, b64pad]
    have e1 : a / 4 * 4 + (a % 4 * 16 + b / 16) / 16 = a := by omega
    have e2 : (a % 4 * 16 + b / 16) % 16 * 16 + b % 16 * 4 / 4 = b := by omega
    rw [e1, e2]; simp
  | case3 a =>
    have ha : a < 256 := h a (by simp)
    have s0 : a / 4 < 64 := by omega
    have s1 : a % 4 * 16 < 64 := by omega
    simp only [b64encode]
    rw [b64step0 s0, b64step1 s1, b64pad, b64pad]
    have e1 : a / 4 * 4 + a % 4 * 16 / 16 = a := by omega
    rw [e1]; simp
  | case4 => simp [b64encode, b64decodeAux]

theorem b64decode_b64encode (bs : Bytes) (h : bs.ok) : b64decode (b64encode bs) = some bs := by
  simpa [b64decode] using b64decodeAux_encode bs h []

theorem despaceAux_of_no_space {s : Str} (h : ∀ c ∈ s, c ≠ ' ') : despaceAux s false = some s := by
  induction s with
  | nil => rfl
  | cons c r ih =>
    simp [despaceAux, h c List.mem_cons_self, ih (fun x hx => h x (List.mem_cons_of_mem _ hx))]

theorem despace_of_no_space {s : Str} (h : ∀ c ∈ s, c ≠ ' ') : despace s = some s := by
  unfold despace
  split
  · next r => exact absurd rfl (h ' ' List.mem_cons_self)
  · exact despaceAux_of_no_space h

theorem b64encode_no_space (bs : Bytes) (h : bs.ok) : ∀ c ∈ b64encode bs, c ≠ ' ' := by
  induction bs using b64encode.induct with
  | case1 a b c r ih =>
    have ha : a < 256 := h a (by simp)
    have hb : b < 256 := h b (by simp)
    have hc : c < 256 := h c (by simp)
    have hr : Bytes.ok r := fun x hx => h x (by simp [hx])
    intro x hx
    simp only [b64encode, List.mem_cons] at hx
    rcases hx with rfl | rfl | rfl | rfl | hx
    · intro e; exact (b64nsp (show a / 4 < 64 by omega)).mp e
    · intro e; exact (b64nsp (show a % 4 * 16 + b / 16 < 64 by omega)).mp e
    · intro e; exact (b64nsp (show b % 16 * 4 + c / 64 < 64 by omega)).mp e
    · intro e; exact (b64nsp (show c % 64 < 64 by omega)).mp e
    · exact ih hr x hx
  | case2 a b =>
    have ha : a < 256 := h a (by simp)
    have hb : b < 256 := h b (by simp)
    intro x hx
    simp only [b64encode, List.mem_cons, List.not_mem_nil, or_false] at hx
    rcases hx with rfl | rfl | rfl | rfl
    · intro e; exact (b64nsp (show a / 4 < 64 by omega)).mp e
    · intro e; exact (b64nsp (show a % 4 * 16 + b / 16 < 64 by omega)).mp e
    · intro e; exact (b64nsp (show b % 16 * 4 < 64 by omega)).mp e
    · decide
  | case3 a =>
    have ha : a < 256 := h a (by simp)
    intro x hx
    simp only [b64encode, List.mem_cons, List.not_mem_nil, or_false] at hx
    rcases hx with rfl | rfl | rfl | rfl
    · intro e; exact (b64nsp (show a / 4 < 64 by omega)).mp e
    · intro e; exact (b64nsp (show a % 4 * 16 < 64 by omega)).mp e
    · decide
    · decide
  | case4 => intro x hx; simp [b64encode] at hx

theorem isB64_b64char {i : Nat} (h : i < 64) : isB64 (b64char i) = true := by simp [isB64, b64idx h]
theorem isB16_b64char {i : Nat} (h : i < 64) (h4 : i % 4 = 0) : isB16 (b64char i) = true := by simp [isB16, b64idx h, h4]
theorem isB04_b64char {i : Nat} (h : i < 64) (h4 : i % 16 = 0) : isB04 (b64char i) = true := by simp [isB04, b64idx h, h4]

theorem validB64Core_encode (bs : Bytes) (h : bs.ok) : validB64Core (b64encode bs) = true := by
  induction bs using b64encode.induct with
  | case1 a b c r ih =>
    have ha : a < 256 := h a (by simp)
    have hb : b < 256 := h b (by simp)
    have hc : c < 256 := h c (by simp)
    have hr : Bytes.ok r := fun x hx => h x (by simp [hx])
    have i0 := isB64_b64char (show a / 4 < 64 by omega)
    have i1 := isB64_b64char (show a % 4 * 16 + b / 16 < 64 by omega)
    have i2 := isB64_b64char (show b % 16 * 4 + c / 64 < 64 by omega)
    have i3 := isB64_b64char (show c % 64 < 64 by omega)
    simp only [b64encode]
    cases hrest : b64encode r with
    | nil => simp [validB64Core, i0, i1, i2, i3]
    | cons x xs =>
      rw [validB64Core]
      · rw [← hrest]; simp [i0, i1, i2, i3, ih hr]
      · intro heq; simp at heq
  | case2 a b =>
    have ha : a < 256 := h a (by simp)
    have hb : b < 256 := h b (by simp)
    have i0 := isB64_b64char (show a / 4 < 64 by omega)
    have i1 := isB64_b64char (show a % 4 * 16 + b / 16 < 64 by omega)
    have i2 := isB16_b64char (show b % 16 * 4 < 64 by omega) (by omega)
    simp [b64encode, validB64Core, i0, i1, i2]
  | case3 a =>
    have ha : a < 256 := h a (by simp)
    have i0 := isB64_b64char (show a / 4 < 64 by omega)
    have i1 := isB04_b64char (show a % 4 * 16 < 64 by omega) (by omega)
    simp [b64encode, validB64Core, i0, i1]
  | case4 => rfl

theorem validB64_b64encode (bs : Bytes) (h : bs.ok) : validB64 (b64encode bs) = true := by
  simp [validB64, despace_of_no_space (b64encode_no_space bs h), validB64Core_encode bs h]

end Basyx.Lex
