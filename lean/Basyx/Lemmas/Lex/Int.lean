/- C06 helper lemmas: `int()` / `str(int)`, boolean, normalizedString. -/
import Basyx.Lemmas.Lex.Digits
namespace Basyx.Lex

theorem dropWhile_eq_self_of_head {p : Char → Bool} {l : Str} (h : ∀ c, l.head? = some c → p c = false) :
    l.dropWhile p = l := by
  cases l with
  | nil => rfl
  | cons c r => simp [List.dropWhile_cons, h c rfl]

theorem strip_eq_self {s : Str} (h : ∀ c ∈ s, isPySpace c = false) : strip s = s := by
  unfold strip
  rw [dropWhile_eq_self_of_head (l := s)]
  · rw [dropWhile_eq_self_of_head (l := s.reverse)]
    · simp
    · intro c hc
      have : c ∈ s.reverse := List.mem_of_head? hc
      exact h c (by simpa using this)
  · intro c hc; exact h c (List.mem_of_head? hc)

theorem isDig_iff (c : Char) : isDig c = true ↔ 48 ≤ c.toNat ∧ c.toNat ≤ 57 := by
  simp [isDig, Char.isDigit, UInt32.le_iff_toNat_le]

theorem not_space_of_isDig {c : Char} (h : isDig c = true) : isPySpace c = false := by
  have h1 := (isDig_iff c).1 h
  unfold isPySpace
  have : c ≠ ' ' := by intro e; subst e; simp at h1
  simp [this]; omega

theorem ne_underscore_of_isDig {c : Char} (h : isDig c = true) : c ≠ '_' := by
  intro e; subst e; simp [isDig] at h

theorem pyDigitsAux_of_all {l : Str} (h : ∀ c ∈ l, isDig c = true) : pyDigitsAux l = some l := by
  induction l with
  | nil => rfl
  | cons c r ih =>
    have hc := h c List.mem_cons_self
    have hr := ih (fun x hx => h x (List.mem_cons_of_mem _ hx))
    unfold pyDigitsAux
    split
    · next heq => simp at heq
    · next c' r' heq =>
      simp only [List.cons.injEq] at heq
      exact absurd heq.1 (ne_underscore_of_isDig hc)
    · next c' r' hne heq =>
      simp only [List.cons.injEq] at heq
      obtain ⟨rfl, rfl⟩ := heq
      simp [hc, hr]

theorem pyDigits_of_all {l : Str} (hne : l ≠ []) (h : ∀ c ∈ l, isDig c = true) : pyDigits l = some l := by
  cases l with
  | nil => exact absurd rfl hne
  | cons c r =>
    simp [pyDigits, h c List.mem_cons_self, pyDigitsAux_of_all (fun x hx => h x (List.mem_cons_of_mem _ hx))]

theorem pyDigits_toDigits (n : Nat) : pyDigits (Nat.toDigits 10 n) = some (Nat.toDigits 10 n) :=
  pyDigits_of_all Nat.toDigits_ne_nil (fun _ hc => isDig_of_mem_toDigits hc)

theorem pyInt_intRepr (v : Int) : pyInt (intRepr v) = some v := by
  cases v with
  | ofNat n =>
    have hs : strip (Nat.toDigits 10 n) = Nat.toDigits 10 n :=
      strip_eq_self (fun c hc => not_space_of_isDig (isDig_of_mem_toDigits hc))
    simp only [intRepr, pyInt, hs]
    have hne : Nat.toDigits 10 n ≠ [] := Nat.toDigits_ne_nil
    split
    · next r heq =>
      have : isDig '-' = true := isDig_of_mem_toDigits (n := n) (by rw [heq]; exact List.mem_cons_self)
      simp [isDig] at this
    · next r heq =>
      have : isDig '+' = true := isDig_of_mem_toDigits (n := n) (by rw [heq]; exact List.mem_cons_self)
      simp [isDig] at this
    · simp [pyDigits_toDigits, dval_toDigits]
  | negSucc n =>
    have hs : strip ('-' :: Nat.toDigits 10 (n + 1)) = '-' :: Nat.toDigits 10 (n + 1) := by
      apply strip_eq_self
      intro c hc
      rcases List.mem_cons.1 hc with rfl | h
      · decide
      · exact not_space_of_isDig (isDig_of_mem_toDigits h)
    simp only [intRepr, pyInt, hs, pyDigits_toDigits, dval_toDigits, Option.map_some]
    rfl

theorem validInt_intRepr (v : Int) : validInt (intRepr v) = true := by
  cases v with
  | ofNat n =>
    simp only [intRepr, validInt]
    have hne : Nat.toDigits 10 n ≠ [] := Nat.toDigits_ne_nil
    split
    · next r heq =>
      have : isDig '+' = true := isDig_of_mem_toDigits (n := n) (by rw [heq]; exact List.mem_cons_self)
      simp [isDig] at this
    · next r heq =>
      have : isDig '-' = true := isDig_of_mem_toDigits (n := n) (by rw [heq]; exact List.mem_cons_self)
      simp [isDig] at this
    · simp [hne, all_isDig_toDigits]
  | negSucc n =>
    simp [intRepr, validInt, all_isDig_toDigits]

/-- the digits `int()` reads are the literal itself when it contains no underscore -/
theorem pyDigitsAux_some_no_us {l d : Str} (h : pyDigitsAux l = some d) (hu : ∀ c ∈ l, c ≠ '_') :
    l.all isDig = true := by
  induction l generalizing d with
  | nil => rfl
  | cons c r ih =>
    unfold pyDigitsAux at h
    split at h
    · next heq => simp at heq
    · next c' r' heq =>
      simp only [List.cons.injEq] at heq
      exact absurd heq.1 (hu c List.mem_cons_self)
    · next c' r' hne heq =>
      simp only [List.cons.injEq] at heq
      obtain ⟨rfl, rfl⟩ := heq
      split at h
      · next hc =>
        cases hr : pyDigitsAux r with
        | none => simp [hr] at h
        | some d' =>
          have := ih hr (fun x hx => hu x (List.mem_cons_of_mem _ hx))
          simp [hc, this]
      · simp at h

theorem pyDigits_some_no_us {l d : Str} (h : pyDigits l = some d) (hu : ∀ c ∈ l, c ≠ '_') :
    l ≠ [] ∧ l.all isDig = true := by
  cases l with
  | nil => simp [pyDigits] at h
  | cons c r =>
    simp only [pyDigits] at h
    split at h
    · next hc =>
      cases hr : pyDigitsAux r with
      | none => simp [hr] at h
      | some d' =>
        have := pyDigitsAux_some_no_us hr (fun x hx => hu x (List.mem_cons_of_mem _ hx))
        simp [hc, this]
    · simp at h

/-- `int()` rejects every string outside xs:integer's lexical space — unless it contains white space or `_` -/
theorem pyInt_none_of_invalid {s : Str} (hv : validInt s = false)
    (hc : ∀ c ∈ s, isPySpace c = false ∧ c ≠ '_') : pyInt s = none := by
  have hs : strip s = s := strip_eq_self (fun c h => (hc c h).1)
  cases hp : pyInt s with
  | none => rfl
  | some v =>
    exfalso
    simp only [pyInt, hs] at hp
    simp only [validInt] at hv
    match s, hc, hv, hp with
    | '-' :: r, hc, hv, hp =>
      cases hd : pyDigits r with
      | none => simp [hd] at hp
      | some d =>
        have := pyDigits_some_no_us hd (fun c h => (hc c (List.mem_cons_of_mem _ h)).2)
        simp [this.1, this.2] at hv
    | '+' :: r, hc, hv, hp =>
      cases hd : pyDigits r with
      | none => simp [hd] at hp
      | some d =>
        have := pyDigits_some_no_us hd (fun c h => (hc c (List.mem_cons_of_mem _ h)).2)
        simp [this.1, this.2] at hv
    | [], hc, hv, hp => simp [pyDigits] at hp
    | c :: r, hc, hv, hp =>
      by_cases h1 : c = '-'
      · subst h1
        cases hd : pyDigits r with
        | none => simp [hd] at hp
        | some d =>
          have := pyDigits_some_no_us hd (fun c h => (hc c (List.mem_cons_of_mem _ h)).2)
          simp [this.1, this.2] at hv
      · by_cases h2 : c = '+'
        · subst h2
          cases hd : pyDigits r with
          | none => simp [hd] at hp
          | some d =>
            have := pyDigits_some_no_us hd (fun c h => (hc c (List.mem_cons_of_mem _ h)).2)
            simp [this.1, this.2] at hv
        · cases hd : pyDigits (c :: r) with
          | none =>
            split at hp
            · next r' heq => simp at heq; exact h1 heq.1
            · next r' heq => simp at heq; exact h2 heq.1
            · simp [hd] at hp
          | some d =>
            have := pyDigits_some_no_us hd (fun c h => (hc c h).2)
            split at hv
            · next r' heq => simp at heq; exact h2 heq.1
            · next r' heq => simp at heq; exact h1 heq.1
            · simp [this.2] at hv

/-! ### boolean, normalizedString -/

theorem parseBool_reprBool (b : Bool) : parseBool (reprBool b) = some b := by cases b <;> rfl
theorem validBool_reprBool (b : Bool) : validBool (reprBool b) = true := by cases b <;> rfl

theorem parseBool_isSome_iff (s : Str) : (parseBool s).isSome = validBool s := by
  unfold parseBool validBool
  by_cases h1 : s = ['1'] <;> by_cases h2 : s = ['t','r','u','e'] <;> by_cases h3 : s = ['0'] <;>
    by_cases h4 : s = ['f','a','l','s','e'] <;> simp_all

theorem any_normBreak (s : Str) : s.any isNormBreak = !(validNormalized s) := by
  induction s with
  | nil => rfl
  | cons c r ih =>
    simp only [validNormalized, List.all_cons, List.any_cons] at ih ⊢
    rw [ih]
    by_cases h1 : c = '\r' <;> by_cases h2 : c = '\n' <;> by_cases h3 : c = '\t' <;> simp [isNormBreak, h1, h2, h3]

theorem parseNormalized_eq (s : Str) : parseNormalized s = if validNormalized s then some s else none := by
  unfold parseNormalized
  rw [any_normBreak]
  cases validNormalized s <;> simp

end Basyx.Lex
