/- C06 helper lemmas: xs:duration. -/
import Basyx.Lemmas.Lex.Int
namespace Basyx.Lex
open Basyx.Fmt

/-- `comp` on the absolute value -/
def compN (n : Nat) (c : Char) : Str := if n = 0 then [] else Nat.toDigits 10 n ++ [c]

theorem comp_eq (v : Int) (c : Char) : comp v c = compN v.natAbs c := by
  unfold comp compN
  by_cases h : v = 0
  · subst h; simp
  · have : v.natAbs ≠ 0 := by omega
    simp [h, this]

/-- first character that is not a digit -/
def fnd (s : Str) : Option Char := (s.dropWhile isDig).head?

theorem fnd_nil : fnd [] = none := rfl
theorem fnd_cons {c : Char} {r : Str} (h : isDig c = false) : fnd (c :: r) = some c := by
  simp [fnd, List.dropWhile_cons, h]

theorem fnd_digits_append {a b : Str} (ha : ∀ c ∈ a, isDig c = true) : fnd (a ++ b) = fnd b := by
  induction a with
  | nil => rfl
  | cons x xs ih =>
    simp only [fnd, List.cons_append, List.dropWhile_cons, ha x List.mem_cons_self, ↓reduceIte]
    exact ih (fun c hc => ha c (List.mem_cons_of_mem _ hc))

theorem fnd_compN {n : Nat} {c : Char} {rest : Str} (hc : isDig c = false) :
    fnd (compN n c ++ rest) = if n = 0 then fnd rest else some c := by
  unfold compN
  by_cases h : n = 0
  · simp [h]
  · simp only [h, ↓reduceIte, List.append_assoc, List.singleton_append]
    rw [fnd_digits_append (fun c hc => isDig_of_mem_toDigits hc), fnd_cons hc]

theorem optComp_skip {x : Char} {s : Str} (h : fnd s ≠ some x) : optComp x s = (none, s) := by
  unfold optComp
  unfold fnd at h
  split
  · next c r heq =>
    have : c ≠ x := by intro e; subst e; simp [heq] at h
    simp [this]
  · rfl

theorem optComp_take {x : Char} {n : Nat} {rest : Str} (hx : isDig x = false) :
    optComp x (Nat.toDigits 10 n ++ x :: rest) = (some n, rest) := by
  have hb : ∀ c, (x :: rest).head? = some c → isDig c = false := by
    intro c hc; simp at hc; subst hc; exact hx
  unfold optComp
  rw [takeWhile_isDig_append (fun c hc => isDig_of_mem_toDigits hc) hb,
    dropWhile_isDig_append (fun c hc => isDig_of_mem_toDigits hc) hb]
  simp [dval_toDigits]

theorem optComp_compN {x : Char} {n : Nat} {rest : Str} (hx : isDig x = false) (h : fnd rest ≠ some x) :
    optComp x (compN n x ++ rest) = (if n = 0 then none else some n, rest) := by
  unfold compN
  by_cases h0 : n = 0
  · simp [h0, optComp_skip h]
  · simp only [h0, ↓reduceIte, List.append_assoc, List.singleton_append]
    exact optComp_take hx

/-! ### seconds -/

theorem all_zero_eq_replicate {l : Str} (h : ∀ c ∈ l, c = '0') : l = List.replicate l.length '0' := by
  induction l with
  | nil => rfl
  | cons x xs ih =>
    rw [List.length_cons, List.replicate_succ, ← ih (fun c hc => h c (List.mem_cons_of_mem _ hc)),
      h x List.mem_cons_self]

theorem rstrip0_append (l : Str) : ∃ k, l = rstrip0 l ++ List.replicate k '0' ∧ l.length = (rstrip0 l).length + k := by
  refine ⟨(l.reverse.takeWhile (· = '0')).length, ?_, ?_⟩
  · have h := List.takeWhile_append_dropWhile (p := (· = '0')) (l := l.reverse)
    have hz : l.reverse.takeWhile (· = '0') = List.replicate (l.reverse.takeWhile (· = '0')).length '0' := by
      apply all_zero_eq_replicate
      intro c hc
      have := List.mem_takeWhile_imp hc
      simpa using this
    have : l = (l.reverse.dropWhile (· = '0')).reverse ++ (l.reverse.takeWhile (· = '0')).reverse := by
      rw [← List.reverse_append, h, List.reverse_reverse]
    rw [hz, List.reverse_replicate] at this
    simpa [rstrip0] using this
  · have h := congrArg List.length (List.takeWhile_append_dropWhile (p := (· = '0')) (l := l.reverse))
    simp only [List.length_append, List.length_reverse] at h
    simp only [rstrip0, List.length_reverse]; omega

theorem rstrip0_all_digits {l : Str} (h : ∀ c ∈ l, isDig c = true) : ∀ c ∈ rstrip0 l, isDig c = true := by
  intro c hc
  simp only [rstrip0, List.mem_reverse] at hc
  have := (List.dropWhile_sublist _).subset hc
  exact h c (by simpa using this)

theorem rstrip0_padN6_ne_nil {us : Nat} (h0 : us ≠ 0) : rstrip0 (padN 6 us) ≠ [] := by
  intro he
  obtain ⟨k, hk, _⟩ := rstrip0_append (padN 6 us)
  rw [he, List.nil_append] at hk
  have := dval_padN 6 us
  rw [hk] at this
  simp [dval] at this
  exact h0 this.symm

theorem micros_rstrip0 {us : Nat} (hus : us < 1000000) : micros (rstrip0 (padN 6 us)) = us := by
  obtain ⟨k, hk, hl⟩ := rstrip0_append (padN 6 us)
  have h6 : (padN 6 us).length = 6 := length_padN (by decide) (by omega)
  unfold micros ljust6
  rw [List.take_of_length_le (by omega)]
  have : 6 - (rstrip0 (padN 6 us)).length = k := by omega
  rw [this, ← hk, dval_padN]

/-- the seconds text of a duration: empty iff both are zero -/
def secsN (s us : Nat) : Str := if s ≠ 0 || us ≠ 0 then secRepr s us ++ ['S'] else []

theorem fnd_secsN (s us : Nat) : fnd (secsN s us) = none ∨ fnd (secsN s us) = some 'S' ∨ fnd (secsN s us) = some '.' := by
  unfold secsN
  split
  · unfold secRepr
    rw [List.append_assoc, fnd_digits_append (fun c hc => isDig_of_mem_toDigits hc)]
    split
    · right; left; rfl
    · right; right; rfl
  · left; rfl

theorem parseSecs_secsN {s us : Nat} (hus : us < 1000000) : parseSecs (secsN s us) = some (s, us) := by
  unfold secsN
  by_cases h : (s ≠ 0 || us ≠ 0) = true
  · simp only [h, ↓reduceIte]
    unfold parseSecs secRepr
    have hS : isDig 'S' = false := by decide
    have hdot : isDig '.' = false := by decide
    by_cases h0 : us = 0
    · subst h0
      simp only [↓reduceIte, List.append_nil]
      have hb : ∀ c, ['S'].head? = some c → isDig c = false := by intro c hc; simp at hc; subst hc; exact hS
      rw [takeWhile_isDig_append (fun c hc => isDig_of_mem_toDigits hc) hb,
        dropWhile_isDig_append (fun c hc => isDig_of_mem_toDigits hc) hb]
      simp [dval_toDigits]
    · simp only [h0, ↓reduceIte, List.append_assoc, List.cons_append]
      have hb : ∀ c, ('.' :: (rstrip0 (padN 6 us) ++ ['S'])).head? = some c → isDig c = false := by
        intro c hc; simp at hc; subst hc; exact hdot
      have hb2 : ∀ c, ['S'].head? = some c → isDig c = false := by intro c hc; simp at hc; subst hc; exact hS
      have hd := rstrip0_all_digits (l := padN 6 us) (fun c hc => isDig_of_mem_padN hc)
      rw [takeWhile_isDig_append (fun c hc => isDig_of_mem_toDigits hc) hb,
        dropWhile_isDig_append (fun c hc => isDig_of_mem_toDigits hc) hb]
      simp only [takeWhile_isDig_append hd hb2, dropWhile_isDig_append hd hb2]
      simp [dval_toDigits, rstrip0_padN6_ne_nil h0, micros_rstrip0 hus]
  · simp only [h, Bool.false_eq_true, ↓reduceIte]
    simp only [Bool.or_eq_true, decide_eq_true_eq, not_or, Decidable.not_not, ne_eq] at h
    simp [parseSecs, h.1, h.2]

/-! ### the time part and the whole body -/

def timeN (h mi s us : Nat) : Str := compN h 'H' ++ (compN mi 'M' ++ secsN s us)

theorem compN_eq_nil {n : Nat} {c : Char} : compN n c = [] ↔ n = 0 := by
  unfold compN; by_cases h : n = 0 <;> simp [h]

theorem secsN_eq_nil {s us : Nat} : secsN s us = [] ↔ s = 0 ∧ us = 0 := by
  unfold secsN secRepr
  by_cases h1 : s = 0 <;> by_cases h2 : us = 0 <;> simp [h1, h2]

theorem timeN_eq_nil {h mi s us : Nat} : timeN h mi s us = [] ↔ h = 0 ∧ mi = 0 ∧ s = 0 ∧ us = 0 := by
  simp [timeN, compN_eq_nil, secsN_eq_nil]

theorem parseDurTime_timeN {h mi s us : Nat} (hus : us < 1000000) :
    parseDurTime ('T' :: timeN h mi s us) = some (h, mi, s, us) := by
  have hH : isDig 'H' = false := by decide
  have hM : isDig 'M' = false := by decide
  have f1 : fnd (compN mi 'M' ++ secsN s us) ≠ some 'H' := by
    rw [fnd_compN hM]; split
    · rcases fnd_secsN s us with h | h | h <;> simp [h]
    · simp
  have f2 : fnd (secsN s us) ≠ some 'M' := by
    rcases fnd_secsN s us with h | h | h <;> simp [h]
  simp only [parseDurTime, timeN, optComp_compN hH f1, optComp_compN hM f2, parseSecs_secsN hus, Option.map_some]
  by_cases a : h = 0 <;> by_cases b : mi = 0 <;> simp [a, b]

/-- text after `P` for absolute field values -/
def bodyN (y mo d h mi s us : Nat) : Str :=
  compN y 'Y' ++ (compN mo 'M' ++ (compN d 'D' ++ (if (timeN h mi s us).isEmpty then [] else 'T' :: timeN h mi s us)))

theorem fnd_tail (h mi s us : Nat) :
    fnd (if (timeN h mi s us).isEmpty then [] else 'T' :: timeN h mi s us) = none ∨
    fnd (if (timeN h mi s us).isEmpty then [] else 'T' :: timeN h mi s us) = some 'T' := by
  split
  · left; rfl
  · right; exact fnd_cons (by decide)

theorem parseDurTime_tail {h mi s us : Nat} (hus : us < 1000000) :
    parseDurTime (if (timeN h mi s us).isEmpty then [] else 'T' :: timeN h mi s us) = some (h, mi, s, us) := by
  split
  · next he =>
    have := timeN_eq_nil.1 (List.isEmpty_iff.1 he)
    obtain ⟨rfl, rfl, rfl, rfl⟩ := this
    rfl
  · exact parseDurTime_timeN hus

theorem parseDurBody_bodyN {y mo d h mi s us : Nat} (hus : us < 1000000) :
    parseDurBody ('P' :: bodyN y mo d h mi s us) =
      some (Dur.fix ⟨Int.ofNat y, Int.ofNat mo, Int.ofNat d, Int.ofNat h, Int.ofNat mi, Int.ofNat s, Int.ofNat us⟩) := by
  have hY : isDig 'Y' = false := by decide
  have hM : isDig 'M' = false := by decide
  have hD : isDig 'D' = false := by decide
  have f3 : fnd (if (timeN h mi s us).isEmpty then [] else 'T' :: timeN h mi s us) ≠ some 'D' := by
    rcases fnd_tail h mi s us with e | e <;> simp [e]
  have f2 : fnd (compN d 'D' ++ (if (timeN h mi s us).isEmpty then [] else 'T' :: timeN h mi s us)) ≠ some 'M' := by
    rw [fnd_compN hD]; split
    · rcases fnd_tail h mi s us with e | e <;> simp [e]
    · simp
  have f1 : fnd (compN mo 'M' ++ (compN d 'D' ++ (if (timeN h mi s us).isEmpty then [] else 'T' :: timeN h mi s us)))
      ≠ some 'Y' := by
    rw [fnd_compN hM]; split
    · rw [fnd_compN hD]; split
      · rcases fnd_tail h mi s us with e | e <;> simp [e]
      · simp
    · simp
  simp only [parseDurBody, bodyN, optComp_compN hY f1, optComp_compN hM f2, optComp_compN hD f3,
    parseDurTime_tail hus, Option.map_some]
  by_cases a : y = 0 <;> by_cases b : mo = 0 <;> by_cases c : d = 0 <;> simp [a, b, c]

/-! ### normal form (`_fix`) -/

/-- what `relativedelta._fix` establishes -/
def Dur.normal (d : Dur) : Prop :=
  d.micros.natAbs ≤ 999999 ∧ d.seconds.natAbs ≤ 59 ∧ d.minutes.natAbs ≤ 59 ∧ d.hours.natAbs ≤ 23 ∧ d.months.natAbs ≤ 11

theorem carry_id {lim : Nat} {lo hi : Int} (h : lo.natAbs ≤ lim - 1) : carry lim lo hi = (lo, hi) := by
  unfold carry; simp; omega

theorem Dur.fix_of_normal {d : Dur} (h : d.normal) : d.fix = d := by
  obtain ⟨h1, h2, h3, h4, h5⟩ := h
  simp only [Dur.fix, carry_id (lim := 1000000) (hi := d.seconds) (show d.micros.natAbs ≤ 1000000 - 1 by omega),
    carry_id (lim := 60) (hi := d.minutes) (show d.seconds.natAbs ≤ 60 - 1 by omega),
    carry_id (lim := 60) (hi := d.hours) (show d.minutes.natAbs ≤ 60 - 1 by omega),
    carry_id (lim := 24) (hi := d.days) (show d.hours.natAbs ≤ 24 - 1 by omega),
    carry_id (lim := 12) (hi := d.years) (show d.months.natAbs ≤ 12 - 1 by omega)]

theorem carry_fst_bound {lim : Nat} (hl : 0 < lim) (lo hi : Int) : (carry lim lo hi).1.natAbs ≤ lim - 1 := by
  unfold carry
  split
  · simp only
    have : lo.natAbs % lim < lim := Nat.mod_lt _ hl
    split
    · simp only [Int.mul_neg, Int.mul_one, Int.natAbs_neg]
      have : (Int.ofNat (lo.natAbs % lim)).natAbs = lo.natAbs % lim := rfl
      omega
    · simp only [Int.mul_one]
      have : (Int.ofNat (lo.natAbs % lim)).natAbs = lo.natAbs % lim := rfl
      omega
  · simp only; omega

/-- every constructed relativedelta is in normal form -/
theorem Dur.fix_normal (d : Dur) : d.fix.normal := by
  refine ⟨?_, ?_, ?_, ?_, ?_⟩
  · exact carry_fst_bound (by decide) _ _
  · exact carry_fst_bound (by decide) _ _
  · exact carry_fst_bound (by decide) _ _
  · exact carry_fst_bound (by decide) _ _
  · exact carry_fst_bound (by decide) _ _

end Basyx.Lex
