/- C06 helper lemmas: xs:duration. -/
import Basyx.Lemmas.Lex.Int
namespace Basyx.Lex
open Basyx.Fmt

/-- `comp` on the absolute value -/
def compN (n : Nat) (c : Char) : Str := if n = 0 then [] else Nat.toDigits 10 n ++ [c]

theorem comp_eq (v : Int) (c : Char) : comp v c = compN v.natAbs c := by
  unfold comp compN
  by_cases h : v = 0
  · subst h; simp
  · have : v.natAbs ≠ 0 := by omega
    simp [h, this]

/-- first character that is not a digit -/
def fnd (s : Str) : Option Char := (s.dropWhile isDig).head?

theorem fnd_nil : fnd [] = none := rfl
theorem fnd_cons {c : Char} {r : Str} (h : isDig c = false) : fnd (c :: r) = some c := by
  simp [fnd, List.dropWhile_cons, h]

theorem fnd_digits_append {a b : Str} (ha : ∀ c ∈ a, isDig c = true) : fnd (a ++ b) = fnd b := by
  induction a with
  | nil => rfl
  | cons x xs ih =>
    simp only [fnd, List.cons_append, List.dropWhile_cons, ha x List.mem_cons_self, ↓reduceIte]
    exact ih (fun c hc => ha c (List.mem_cons_of_mem _ hc))

theorem fnd_compN {n : Nat} {c : Char} {rest : Str} (hc : isDig c = false) :
    fnd (compN n c ++ rest) = if n = 0 then fnd rest else some c := by
  unfold compN
  by_cases h : n = 0
  · simp [h]
  · simp only [h, ↓reduceIte, List.append_assoc, List.singleton_append]
    rw [fnd_digits_append (fun c hc => isDig_of_mem_toDigits hc), fnd_cons hc]

theorem optComp_skip {x : Char} {s : Str} (h : fnd s ≠ some x) : optComp x s = (none, s) := by
  unfold optComp
  unfold fnd at h
  split
  · next c r heq =>
    have : c ≠ x := by intro e; subst e; simp [heq] at h
    simp [this]
  · rfl

theorem optComp_take {x : Char} {n : Nat} {rest : Str} (hx : isDig x = false) :
    optComp x (Nat.toDigits 10 n ++ x :: rest) = (some n, rest) := by
  have hb : ∀ c, (x :: rest).head? = some c → isDig c = false := by
    intro c hc; simp at hc; subst hc; exact hx
  unfold optComp
  rw [takeWhile_isDig_append (fun c hc => isDig_of_mem_toDigits hc) hb,
    dropWhile_isDig_append (fun c hc => isDig_of_mem_toDigits hc) hb]
  simp [dval_toDigits]

theorem optComp_compN {x : Char} {n : Nat} {rest : Str} (hx : isDig x = false) (h : fnd rest ≠ some x) :
    optComp x (compN n x ++ rest) = (if n = 0 then none else some n, rest) := by
  unfold compN
  by_cases h0 : n = 0
  · simp [h0, optComp_skip h]
  · simp only [h0, ↓reduceIte, List.append_assoc, List.singleton_append]
    exact optComp_take hx

/-! ### seconds -/

theorem all_zero_eq_replicate {l : Str} (h : ∀ c ∈ l, c = '0') : l = List.replicate l.length '0' := by
  induction l with
  | nil => rfl
  | cons x xs ih =>
    rw [List.length_cons, List.replicate_succ, ← ih (fun c hc => h c (List.mem_cons_of_mem _ hc)),
      h x List.mem_cons_self]

theorem rstrip0_append (l : Str) : ∃ k, l = rstrip0 l ++ List.replicate k '0' ∧ l.length = (rstrip0 l).length + k := by
  refine ⟨(l.reverse.takeWhile (· = '0')).length, ?_, ?_⟩
  · have h := List.takeWhile_append_dropWhile (p := (· = '0')) (l := l.reverse)
    have hz : l.reverse.takeWhile (· = '0') = List.replicate (l.reverse.takeWhile (· = '0')).length '0' := by
      apply all_zero_eq_replicate
      intro c hc
      have := List.all_eq_true.1 (List.all_takeWhile (p := (· = '0')) (l := l.reverse)) c hc
      simpa using this
    have : l = (l.reverse.dropWhile (· = '0')).reverse ++ (l.reverse.takeWhile (· = '0')).reverse := by
      rw [← List.reverse_append, h, List.reverse_reverse]
    rw [hz, List.reverse_replicate] at this
    simpa [rstrip0] using this
  · have h := congrArg List.length (List.takeWhile_append_dropWhile (p := (· = '0')) (l := l.reverse))
    simp only [List.length_append, List.length_reverse] at h
    simp only [rstrip0, List.length_reverse]; omega

theorem rstrip0_all_digits {l : Str} (h : ∀ c ∈ l, isDig c = true) : ∀ c ∈ rstrip0 l, isDig c = true := by
  intro c hc
  simp only [rstrip0, List.mem_reverse] at hc
  have := (List.dropWhile_sublist _).subset hc
  exact h c (by simpa using this)

theorem rstrip0_padN6_ne_nil {us : Nat} (h0 : us ≠ 0) : rstrip0 (padN 6 us) ≠ [] := by
  intro he
  obtain ⟨k, hk, _⟩ := rstrip0_append (padN 6 us)
  rw [he, List.nil_append] at hk
  have := dval_padN 6 us
  rw [hk] at this
  simp [dval] at this
  exact h0 this.symm

theorem micros_rstrip0 {us : Nat} (hus : us < 1000000) : micros (rstrip0 (padN 6 us)) = us := by
  obtain ⟨k, hk, hl⟩ := rstrip0_append (padN 6 us)
  have h6 : (padN 6 us).length = 6 := length_padN (by decide) (by omega)
  unfold micros ljust6
  rw [List.take_of_length_le (by omega)]
  have : 6 - (rstrip0 (padN 6 us)).length = k := by omega
  rw [this, ← hk, dval_padN]

/-- the seconds text of a duration: empty iff both are zero -/
def secsN (s us : Nat) : Str := if s ≠ 0 || us ≠ 0 then secRepr s us ++ ['S'] else []

theorem fnd_secsN (s us : Nat) : fnd (secsN s us) = none ∨ fnd (secsN s us) = some 'S' ∨ fnd (secsN s us) = some '.' := by
  unfold secsN
  split
  · unfold secRepr
    rw [List.append_assoc, fnd_digits_append (fun c hc => isDig_of_mem_toDigits hc)]
    split
    · right; left; rfl
    · right; right; rfl
  · left; rfl

theorem parseSecs_secsN {s us : Nat} (hus : us < 1000000) : parseSecs (secsN s us) = some (s, us) := by
  unfold secsN
  by_cases h : (s ≠ 0 || us ≠ 0) = true
  · simp only [h, ↓reduceIte]
    unfold parseSecs secRepr
    have hS : isDig 'S' = false := by decide
    have hdot : isDig '.' = false := by decide
    by_cases h0 : us = 0
    · subst h0
      simp only [↓reduceIte, List.append_nil]
      have hb : ∀ c, ['S'].head? = some c → isDig c = false := by intro c hc; simp at hc; subst hc; exact hS
      rw [takeWhile_isDig_append (fun c hc => isDig_of_mem_toDigits hc) hb,
        dropWhile_isDig_append (fun c hc => isDig_of_mem_toDigits hc) hb]
      simp [dval_toDigits]
    · simp only [h0, ↓reduceIte, List.append_assoc, List.cons_append]
      have hb : ∀ c, ('.' :: (rstrip0 (padN 6 us) ++ ['S'])).head? = some c → isDig c = false := by
        intro c hc; simp at hc; subst hc; exact hdot
      have hb2 : ∀ c, ['S'].head? = some c → isDig c = false := by intro c hc; simp at hc; subst hc; exact hS
      have hd := rstrip0_all_digits (l := padN 6 us) (fun c hc => isDig_of_mem_padN hc)
      rw [takeWhile_isDig_append (fun c hc => isDig_of_mem_toDigits hc) hb,
        dropWhile_isDig_append (fun c hc => isDig_of_mem_toDigits hc) hb]
      simp only [takeWhile_isDig_append hd hb2, dropWhile_isDig_append hd hb2]
      simp [dval_toDigits, rstrip0_padN6_ne_nil h0, micros_rstrip0 hus]
  · simp only [h, Bool.false_eq_true, ↓reduceIte]
    simp only [Bool.or_eq_true, decide_eq_true_eq, not_or, Decidable.not_not, ne_eq] at h
    simp [parseSecs, h.1, h.2]

/-! ### the time part and the whole body -/

def timeN (h mi s us : Nat) : Str := compN h 'H' ++ (compN mi 'M' ++ secsN s us)

theorem compN_eq_nil {n : Nat} {c : Char} : compN n c = [] ↔ n = 0 := by
  unfold compN; by_cases h : n = 0 <;> simp [h]

theorem secsN_eq_nil {s us : Nat} : secsN s us = [] ↔ s = 0 ∧ us = 0 := by
  unfold secsN secRepr
  by_cases h1 : s = 0 <;> by_cases h2 : us = 0 <;> simp [h1, h2]

theorem timeN_eq_nil {h mi s us : Nat} : timeN h mi s us = [] ↔ h = 0 ∧ mi = 0 ∧ s = 0 ∧ us = 0 := by
  simp [timeN, compN_eq_nil, secsN_eq_nil]

theorem parseDurTime_timeN {h mi s us : Nat} (hus : us < 1000000) :
    parseDurTime ('T' :: timeN h mi s us) = some (h, mi, s, us) := by
  have hH : isDig 'H' = false := by decide
  have hM : isDig 'M' = false := by decide
  have f1 : fnd (compN mi 'M' ++ secsN s us) ≠ some 'H' := by
    rw [fnd_compN hM]; split
    · rcases fnd_secsN s us with h | h | h <;> simp [h]
    · simp
  have f2 : fnd (secsN s us) ≠ some 'M' := by
    rcases fnd_secsN s us with h | h | h <;> simp [h]
  simp only [parseDurTime, timeN, optComp_compN hH f1, optComp_compN hM f2, parseSecs_secsN hus, Option.map_some]
  by_cases a : h = 0 <;> by_cases b : mi = 0 <;> simp [a, b]

/-- `"T" + time` if there is a time part -/
def tailN (h mi s us : Nat) : Str := if (timeN h mi s us).isEmpty then [] else 'T' :: timeN h mi s us

/-- text after `P` for absolute field values -/
def bodyN (y mo d h mi s us : Nat) : Str :=
  compN y 'Y' ++ (compN mo 'M' ++ (compN d 'D' ++ tailN h mi s us))

theorem fnd_tail (h mi s us : Nat) : fnd (tailN h mi s us) = none ∨ fnd (tailN h mi s us) = some 'T' := by
  unfold tailN
  split
  · left; rfl
  · right; exact fnd_cons (by decide)

theorem parseDurTime_tail {h mi s us : Nat} (hus : us < 1000000) :
    parseDurTime (tailN h mi s us) = some (h, mi, s, us) := by
  unfold tailN
  split
  · next he =>
    have := timeN_eq_nil.1 (List.isEmpty_iff.1 he)
    obtain ⟨rfl, rfl, rfl, rfl⟩ := this
    rfl
  · exact parseDurTime_timeN hus

theorem parseDurBody_bodyN {y mo d h mi s us : Nat} (hus : us < 1000000) :
    parseDurBody ('P' :: bodyN y mo d h mi s us) =
      some (Dur.fix ⟨Int.ofNat y, Int.ofNat mo, Int.ofNat d, Int.ofNat h, Int.ofNat mi, Int.ofNat s, Int.ofNat us⟩) := by
  have hY : isDig 'Y' = false := by decide
  have hM : isDig 'M' = false := by decide
  have hD : isDig 'D' = false := by decide
  have f3 : fnd (tailN h mi s us) ≠ some 'D' := by
    rcases fnd_tail h mi s us with e | e <;> rw [e] <;> simp
  have f2 : fnd (compN d 'D' ++ tailN h mi s us) ≠ some 'M' := by
    rw [fnd_compN hD]; split
    · rcases fnd_tail h mi s us with e | e <;> rw [e] <;> simp
    · simp
  have f1 : fnd (compN mo 'M' ++ (compN d 'D' ++ tailN h mi s us)) ≠ some 'Y' := by
    rw [fnd_compN hM]; split
    · rw [fnd_compN hD]; split
      · rcases fnd_tail h mi s us with e | e <;> rw [e] <;> simp
      · simp
    · simp
  simp only [parseDurBody, bodyN, optComp_compN hY f1, optComp_compN hM f2, optComp_compN hD f3,
    parseDurTime_tail hus, Option.map_some]
  by_cases a : y = 0 <;> by_cases b : mo = 0 <;> by_cases c : d = 0 <;> simp [a, b, c]

/-! ### normal form (`_fix`) -/

/-- what `relativedelta._fix` establishes -/
def Dur.normal (d : Dur) : Prop :=
  d.micros.natAbs ≤ 999999 ∧ d.seconds.natAbs ≤ 59 ∧ d.minutes.natAbs ≤ 59 ∧ d.hours.natAbs ≤ 23 ∧ d.months.natAbs ≤ 11

theorem carry_id {lim : Nat} {lo hi : Int} (h : lo.natAbs ≤ lim - 1) : carry lim lo hi = (lo, hi) := by
  unfold carry; simp; omega

theorem Dur.fix_of_normal {d : Dur} (h : d.normal) : d.fix = d := by
  obtain ⟨h1, h2, h3, h4, h5⟩ := h
  simp only [Dur.fix, carry_id (lim := 1000000) (hi := d.seconds) (show d.micros.natAbs ≤ 1000000 - 1 by omega),
    carry_id (lim := 60) (hi := d.minutes) (show d.seconds.natAbs ≤ 60 - 1 by omega),
    carry_id (lim := 60) (hi := d.hours) (show d.minutes.natAbs ≤ 60 - 1 by omega),
    carry_id (lim := 24) (hi := d.days) (show d.hours.natAbs ≤ 24 - 1 by omega),
    carry_id (lim := 12) (hi := d.years) (show d.months.natAbs ≤ 12 - 1 by omega)]

theorem carry_fst_bound {lim : Nat} (hl : 0 < lim) (lo hi : Int) : (carry lim lo hi).1.natAbs ≤ lim - 1 := by
  unfold carry
  split
  · simp only
    have : lo.natAbs % lim < lim := Nat.mod_lt _ hl
    split
    · simp only [Int.mul_neg, Int.mul_one, Int.natAbs_neg]
      have : (Int.ofNat (lo.natAbs % lim)).natAbs = lo.natAbs % lim := rfl
      omega
    · simp only [Int.mul_one]
      have : (Int.ofNat (lo.natAbs % lim)).natAbs = lo.natAbs % lim := rfl
      omega
  · simp only; omega

/-- every constructed relativedelta is in normal form -/
theorem Dur.fix_normal (d : Dur) : d.fix.normal := by
  refine ⟨?_, ?_, ?_, ?_, ?_⟩
  · exact carry_fst_bound (by decide) _ _
  · exact carry_fst_bound (by decide) _ _
  · exact carry_fst_bound (by decide) _ _
  · exact carry_fst_bound (by decide) _ _
  · exact carry_fst_bound (by decide) _ _


/-! ### validity through the same decomposition -/

theorem vComp_eq (x : Char) (s : Str) : vComp x s = ((optComp x s).1.isSome, (optComp x s).2) := by
  unfold vComp optComp
  cases hd : List.dropWhile isDig s with
  | nil => cases List.takeWhile isDig s <;> simp
  | cons c r =>
    cases ht : List.takeWhile isDig s with
    | nil => simp
    | cons a as => by_cases hc : c = x <;> simp [hc]

theorem vSecs_secsN {s us : Nat} : vSecs (secsN s us) = some (!(secsN s us).isEmpty) := by
  unfold secsN
  by_cases h : (s ≠ 0 || us ≠ 0) = true
  · simp only [h, ↓reduceIte]
    have hS : isDig 'S' = false := by decide
    have hdot : isDig '.' = false := by decide
    have hne : secRepr s us ++ ['S'] ≠ [] := by simp
    unfold vSecs
    split
    · next heq => exact absurd heq hne
    · unfold secRepr
      by_cases h0 : us = 0
      · subst h0
        simp only [↓reduceIte, List.append_nil]
        have hb : ∀ c, ['S'].head? = some c → isDig c = false := by intro c hc; simp at hc; subst hc; exact hS
        rw [takeWhile_isDig_append (fun c hc => isDig_of_mem_toDigits hc) hb,
          dropWhile_isDig_append (fun c hc => isDig_of_mem_toDigits hc) hb]
        cases hd : Nat.toDigits 10 s with
        | nil => exact absurd hd Nat.toDigits_ne_nil
        | cons a as => simp
      · simp only [h0, ↓reduceIte, List.append_assoc, List.cons_append]
        have hb : ∀ c, ('.' :: (rstrip0 (padN 6 us) ++ ['S'])).head? = some c → isDig c = false := by
          intro c hc; simp at hc; subst hc; exact hdot
        have hb2 : ∀ c, ['S'].head? = some c → isDig c = false := by intro c hc; simp at hc; subst hc; exact hS
        have hd := rstrip0_all_digits (l := padN 6 us) (fun c hc => isDig_of_mem_padN hc)
        rw [takeWhile_isDig_append (fun c hc => isDig_of_mem_toDigits hc) hb,
          dropWhile_isDig_append (fun c hc => isDig_of_mem_toDigits hc) hb]
        cases hd1 : Nat.toDigits 10 s with
        | nil => exact absurd hd1 Nat.toDigits_ne_nil
        | cons a as =>
          simp only [takeWhile_isDig_append hd hb2, dropWhile_isDig_append hd hb2]
          cases hd2 : rstrip0 (padN 6 us) with
          | nil => exact absurd hd2 (rstrip0_padN6_ne_nil h0)
          | cons b bs => simp
  · simp only [h, Bool.false_eq_true, ↓reduceIte]; rfl

theorem validDur_bodyN {y mo d h mi s us : Nat} (hnz : ¬ (y = 0 ∧ mo = 0 ∧ d = 0 ∧ h = 0 ∧ mi = 0 ∧ s = 0 ∧ us = 0))
    (sign : Str) (hs : sign = [] ∨ sign = ['-']) : validDur (sign ++ 'P' :: bodyN y mo d h mi s us) = true := by
  have hY : isDig 'Y' = false := by decide
  have hM : isDig 'M' = false := by decide
  have hD : isDig 'D' = false := by decide
  have hH : isDig 'H' = false := by decide
  have f3 : fnd (tailN h mi s us) ≠ some 'D' := by
    rcases fnd_tail h mi s us with e | e <;> rw [e] <;> simp
  have f2 : fnd (compN d 'D' ++ tailN h mi s us) ≠ some 'M' := by
    rw [fnd_compN hD]; split
    · rcases fnd_tail h mi s us with e | e <;> rw [e] <;> simp
    · simp
  have f1 : fnd (compN mo 'M' ++ (compN d 'D' ++ tailN h mi s us)) ≠ some 'Y' := by
    rw [fnd_compN hM]; split
    · rw [fnd_compN hD]; split
      · rcases fnd_tail h mi s us with e | e <;> rw [e] <;> simp
      · simp
    · simp
  have g1 : fnd (compN mi 'M' ++ secsN s us) ≠ some 'H' := by
    rw [fnd_compN hM]; split
    · rcases fnd_secsN s us with e | e | e <;> simp [e]
    · simp
  have g2 : fnd (secsN s us) ≠ some 'M' := by
    rcases fnd_secsN s us with e | e | e <;> simp [e]
  have key : validDurBody ('P' :: bodyN y mo d h mi s us) = true := by
    simp only [validDurBody, bodyN, vComp_eq, optComp_compN hY f1, optComp_compN hM f2, optComp_compN hD f3]
    by_cases he : (timeN h mi s us).isEmpty = true
    · simp only [tailN, he, ↓reduceIte]
      have := timeN_eq_nil.1 (List.isEmpty_iff.1 he)
      obtain ⟨rfl, rfl, rfl, rfl⟩ := this
      by_cases a : y = 0 <;> by_cases b : mo = 0 <;> by_cases c : d = 0 <;> simp [a, b, c] at hnz ⊢
    · simp only [tailN, he, Bool.false_eq_true, ↓reduceIte]
      simp only [timeN, vComp_eq, optComp_compN hH g1, optComp_compN hM g2, vSecs_secsN]
      have hne' : ¬ (h = 0 ∧ mi = 0 ∧ s = 0 ∧ us = 0) := by
        intro hh; exact he (List.isEmpty_iff.2 (timeN_eq_nil.2 hh))
      by_cases a : h = 0 <;> by_cases b : mi = 0 <;> simp [a, b, secsN_eq_nil] at hne' ⊢
      exact hne'
  rcases hs with rfl | rfl
  · simpa [validDur] using key
  · simpa [validDur] using key

/-! ### no newline in the text -/

theorem compN_ne_nl {n : Nat} {c : Char} (hc : c ≠ '\n') : ∀ x ∈ compN n c, x ≠ '\n' := by
  intro x hx
  unfold compN at hx
  split at hx
  · simp at hx
  · rcases List.mem_append.1 hx with h | h
    · exact ne_nl_of_isDig (isDig_of_mem_toDigits h)
    · simp at h; subst h; exact hc

theorem secsN_ne_nl (s us : Nat) : ∀ x ∈ secsN s us, x ≠ '\n' := by
  intro x hx
  unfold secsN secRepr at hx
  split at hx
  · simp only [List.append_assoc, List.mem_append, List.mem_cons, List.not_mem_nil, or_false] at hx
    rcases hx with h | h | rfl
    · exact ne_nl_of_isDig (isDig_of_mem_toDigits h)
    · split at h
      · simp at h
      · rcases List.mem_cons.1 h with rfl | h
        · decide
        · exact ne_nl_of_isDig (rstrip0_all_digits (fun c hc => isDig_of_mem_padN hc) x h)
    · decide
  · simp at hx

theorem bodyN_ne_nl (y mo d h mi s us : Nat) : ∀ x ∈ bodyN y mo d h mi s us, x ≠ '\n' := by
  intro x hx
  simp only [bodyN, tailN, List.mem_append] at hx
  rcases hx with h1 | h1 | h1 | h1
  · exact compN_ne_nl (by decide) x h1
  · exact compN_ne_nl (by decide) x h1
  · exact compN_ne_nl (by decide) x h1
  · split at h1
    · simp at h1
    · rcases List.mem_cons.1 h1 with rfl | h2
      · decide
      · simp only [timeN, List.mem_append] at h2
        rcases h2 with h3 | h3 | h3
        · exact compN_ne_nl (by decide) x h3
        · exact compN_ne_nl (by decide) x h3
        · exact secsN_ne_nl s us x h3

/-! ### the round trip -/

def Dur.nonneg (d : Dur) : Prop :=
  0 ≤ d.years ∧ 0 ≤ d.months ∧ 0 ≤ d.days ∧ 0 ≤ d.hours ∧ 0 ≤ d.minutes ∧ 0 ≤ d.seconds ∧ 0 ≤ d.micros
def Dur.nonpos (d : Dur) : Prop :=
  d.years ≤ 0 ∧ d.months ≤ 0 ∧ d.days ≤ 0 ∧ d.hours ≤ 0 ∧ d.minutes ≤ 0 ∧ d.seconds ≤ 0 ∧ d.micros ≤ 0
def Dur.isZero (d : Dur) : Prop :=
  d.years = 0 ∧ d.months = 0 ∧ d.days = 0 ∧ d.hours = 0 ∧ d.minutes = 0 ∧ d.seconds = 0 ∧ d.micros = 0

/-- the text `_serialize_duration` writes after the sign, in terms of the absolute field values -/
theorem reprDur_body (d : Dur) :
    'P' :: (comp d.years 'Y' ++ (comp d.months 'M' ++ (comp d.days 'D' ++
      (if (comp d.hours 'H' ++ (comp d.minutes 'M' ++
            (if d.seconds ≠ 0 || d.micros ≠ 0 then secRepr d.seconds.natAbs d.micros.natAbs ++ ['S'] else []))).isEmpty
       then []
       else 'T' :: (comp d.hours 'H' ++ (comp d.minutes 'M' ++
            (if d.seconds ≠ 0 || d.micros ≠ 0 then secRepr d.seconds.natAbs d.micros.natAbs ++ ['S'] else []))))))) =
    'P' :: bodyN d.years.natAbs d.months.natAbs d.days.natAbs d.hours.natAbs d.minutes.natAbs d.seconds.natAbs
      d.micros.natAbs := by
  have hs : (if d.seconds ≠ 0 || d.micros ≠ 0 then secRepr d.seconds.natAbs d.micros.natAbs ++ ['S'] else []) =
      secsN d.seconds.natAbs d.micros.natAbs := by
    unfold secsN
    by_cases a : d.seconds = 0 <;> by_cases b : d.micros = 0 <;> simp [a, b, Int.natAbs_eq_zero]
  rw [hs]
  simp only [comp_eq, bodyN, tailN, timeN]
  rfl

theorem any_neg_false_of_nonneg {d : Dur} (h : d.nonneg) : d.fields.any (· < 0) = false := by
  obtain ⟨h1, h2, h3, h4, h5, h6, h7⟩ := h
  simp [Dur.fields]; omega

theorem any_pos_false_of_nonpos {d : Dur} (h : d.nonpos) : d.fields.any (· > 0) = false := by
  obtain ⟨h1, h2, h3, h4, h5, h6, h7⟩ := h
  simp [Dur.fields]; omega

theorem any_pos_iff {d : Dur} (h : d.nonneg) : d.fields.any (· > 0) = false ↔ d.isZero := by
  obtain ⟨h1, h2, h3, h4, h5, h6, h7⟩ := h
  simp [Dur.fields, Dur.isZero]; omega

theorem any_neg_iff {d : Dur} (h : d.nonpos) : d.fields.any (· < 0) = false ↔ d.isZero := by
  obtain ⟨h1, h2, h3, h4, h5, h6, h7⟩ := h
  simp [Dur.fields, Dur.isZero]; omega

theorem parseDur_of_P {s x : Str} (h : dropNl s = 'P' :: x) : parseDur s = parseDurBody ('P' :: x) := by
  unfold parseDur; rw [h]; simp

theorem parseDur_of_minus {s x : Str} (h : dropNl s = '-' :: x) : parseDur s = (parseDurBody x).map Dur.neg := by
  unfold parseDur; rw [h]; rfl

theorem parseDur_P0D : parseDur ['P', '0', 'D'] = some ⟨0, 0, 0, 0, 0, 0, 0⟩ := by decide
theorem validDur_P0D : validDur ['P', '0', 'D'] = true := by decide

theorem dur_roundtrip (d : Dur) (hn : d.normal) (hs : d.nonneg ∨ d.nonpos) :
    ∃ s, reprDur d = some s ∧ parseDur s = some d ∧ validDur s = true := by
  have hfix := Dur.fix_of_normal hn
  obtain ⟨n1, n2, n3, n4, n5⟩ := hn
  have hus : d.micros.natAbs < 1000000 := by omega
  by_cases hz : d.isZero
  · -- the zero duration
    refine ⟨['P', '0', 'D'], ?_, ?_, validDur_P0D⟩
    · obtain ⟨z1, z2, z3, z4, z5, z6, z7⟩ := hz
      simp [reprDur, hfix, Dur.fields, z1, z2, z3, z4, z5, z6, z7]
    · rw [parseDur_P0D]
      obtain ⟨y, mo, dd, h, mi, s, us⟩ := d
      obtain ⟨z1, z2, z3, z4, z5, z6, z7⟩ := hz
      simp only at z1 z2 z3 z4 z5 z6 z7
      subst z1 z2 z3 z4 z5 z6 z7; rfl
  · have hnz : ¬ (d.years.natAbs = 0 ∧ d.months.natAbs = 0 ∧ d.days.natAbs = 0 ∧ d.hours.natAbs = 0 ∧
        d.minutes.natAbs = 0 ∧ d.seconds.natAbs = 0 ∧ d.micros.natAbs = 0) := by
      intro h; apply hz; simp only [Int.natAbs_eq_zero] at h; exact h
    rcases hs with hp | hm
    · -- all fields ≥ 0, one positive
      have e1 := any_neg_false_of_nonneg hp
      have e2 : d.fields.any (· > 0) = true := by
        cases h : d.fields.any (· > 0) with
        | true => rfl
        | false => exact absurd ((any_pos_iff hp).1 h) hz
      refine ⟨'P' :: bodyN d.years.natAbs d.months.natAbs d.days.natAbs d.hours.natAbs d.minutes.natAbs
        d.seconds.natAbs d.micros.natAbs, ?_, ?_, ?_⟩
      · simp only [reprDur, hfix, e1, e2, Bool.false_and, Bool.false_eq_true, ↓reduceIte, Bool.not_false, Bool.not_true,
          Bool.and_false, List.nil_append, reprDur_body]
      · have hnl : dropNl ('P' :: bodyN d.years.natAbs d.months.natAbs d.days.natAbs d.hours.natAbs d.minutes.natAbs
            d.seconds.natAbs d.micros.natAbs) = 'P' :: bodyN d.years.natAbs d.months.natAbs d.days.natAbs
            d.hours.natAbs d.minutes.natAbs d.seconds.natAbs d.micros.natAbs := by
          apply dropNl_eq_self
          intro c hc
          rcases List.mem_cons.1 hc with rfl | h
          · decide
          · exact bodyN_ne_nl _ _ _ _ _ _ _ c h
        rw [parseDur_of_P hnl, parseDurBody_bodyN hus]
        obtain ⟨p1, p2, p3, p4, p5, p6, p7⟩ := hp
        have : (⟨Int.ofNat d.years.natAbs, Int.ofNat d.months.natAbs, Int.ofNat d.days.natAbs, Int.ofNat d.hours.natAbs,
            Int.ofNat d.minutes.natAbs, Int.ofNat d.seconds.natAbs, Int.ofNat d.micros.natAbs⟩ : Dur) = d := by
          obtain ⟨y, mo, dd, h, mi, s, us⟩ := d
          simp only at p1 p2 p3 p4 p5 p6 p7
          simp only [Int.ofNat_eq_coe, Dur.mk.injEq]
          omega
        rw [this, hfix]
      · exact validDur_bodyN hnz [] (Or.inl rfl)
    · -- all fields ≤ 0, one negative
      have e1 := any_pos_false_of_nonpos hm
      have e2 : d.fields.any (· < 0) = true := by
        cases h : d.fields.any (· < 0) with
        | true => rfl
        | false => exact absurd ((any_neg_iff hm).1 h) hz
      refine ⟨'-' :: 'P' :: bodyN d.years.natAbs d.months.natAbs d.days.natAbs d.hours.natAbs d.minutes.natAbs
        d.seconds.natAbs d.micros.natAbs, ?_, ?_, ?_⟩
      · simp only [reprDur, hfix, e1, e2, Bool.and_false, Bool.false_eq_true, ↓reduceIte, Bool.not_false, Bool.not_true,
          Bool.false_and, List.cons_append, List.nil_append, reprDur_body]
      · have hnl : dropNl ('-' :: 'P' :: bodyN d.years.natAbs d.months.natAbs d.days.natAbs d.hours.natAbs
            d.minutes.natAbs d.seconds.natAbs d.micros.natAbs) = '-' :: 'P' :: bodyN d.years.natAbs d.months.natAbs
            d.days.natAbs d.hours.natAbs d.minutes.natAbs d.seconds.natAbs d.micros.natAbs := by
          apply dropNl_eq_self
          intro c hc
          rcases List.mem_cons.1 hc with rfl | h
          · decide
          · rcases List.mem_cons.1 h with rfl | h
            · decide
            · exact bodyN_ne_nl _ _ _ _ _ _ _ c h
        rw [parseDur_of_minus hnl, parseDurBody_bodyN hus, Option.map_some]
        obtain ⟨p1, p2, p3, p4, p5, p6, p7⟩ := hm
        have hneg : (⟨Int.ofNat d.years.natAbs, Int.ofNat d.months.natAbs, Int.ofNat d.days.natAbs,
            Int.ofNat d.hours.natAbs, Int.ofNat d.minutes.natAbs, Int.ofNat d.seconds.natAbs,
            Int.ofNat d.micros.natAbs⟩ : Dur) = ⟨-d.years, -d.months, -d.days, -d.hours, -d.minutes, -d.seconds, -d.micros⟩ := by
          simp only [Int.ofNat_eq_coe, Dur.mk.injEq]
          omega
        have hnorm' : (⟨-d.years, -d.months, -d.days, -d.hours, -d.minutes, -d.seconds, -d.micros⟩ : Dur).normal := by
          refine ⟨?_, ?_, ?_, ?_, ?_⟩ <;> simp only [Int.natAbs_neg] <;> omega
        rw [hneg, Dur.fix_of_normal hnorm']
        simp only [Dur.neg, Int.neg_neg]
        exact congrArg some hfix
      · exact validDur_bodyN hnz ['-'] (Or.inr rfl)

end Basyx.Lex
