import Basyx.Model.Failsafe
import Basyx.Lemmas.Codec
namespace Basyx.Codec

def strictOf (cfg : Cfg) : Cfg := { cfg with failsafe := false }

theorem catches_strict (cfg : Cfg) (t : List EKind) (e : EKind) : catches (strictOf cfg) t e = false := by
  simp [catches, strictOf]

theorem recRow_strict (cfg : Cfg) (c m : String) : recRow (strictOf cfg) c m = recRow cfg c m := by
  simp [recRow, strictOf]

@[simp] theorem retypeRes_ok (cfg : Cfg) (c : String) (v : Val) : retypeRes cfg c (.ok v) = .ok v := rfl

theorem retypeRes_eq_ok {cfg : Cfg} {c : String} {r : Except EKind Val} {v : Val}
    (h : retypeRes cfg c r = .ok v) : r = .ok v := by
  cases r with
  | ok x => simpa [retypeRes] using h
  | error e => simp only [retypeRes] at h; split at h <;> cases h

theorem assembleD_of_assemble (s : Bool) (d : List (String × Val)) : ∀ (rows : List Row) (fs : List Val),
    assemble s d rows = .ok fs → assembleD s d rows = .ok fs
  | [], fs, h => by simpa [assemble, assembleD] using h
  | r :: rows, fs, h => by
    simp only [assemble, assembleD] at h ⊢
    split at h <;> rename_i hv
    · simp only [hv]
      cases ha : assemble s d rows with
      | error e => simp [ha, Except.map] at h
      | ok t =>
        simp only [ha, Except.map] at h
        rw [assembleD_of_assemble s d rows t ha]
        simpa [Except.map] using h
    · simp only [hv]
      split at h
      · cases h
      · rename_i hreq
        simp only [hreq, if_false, Bool.false_eq_true]
        cases ha : assemble s d rows with
        | error e => simp [ha, Except.map] at h
        | ok t =>
          simp only [ha, Except.map] at h
          rw [assembleD_of_assemble s d rows t ha]
          simpa [Except.map] using h

/-! ### An undamaged document is read exactly as the plain reader reads it — in every mode -/

mutual
theorem decD_embed (T : Table) (cfg : Cfg) (s : Bool) : ∀ (ir : Bool × List EKind) (k : Kind) (w : Wire) (v : Val),
    dec T s k w = .ok v → decD T cfg s ir k (embed w) = .ok v
  | ir, k, .tok t f, v, h => by
    cases k <;> simp_all [dec, decD, embed]
  | ir, k, .arr ws, v, h => by
    cases k with
    | list k' =>
      simp only [dec] at h
      cases hl : decList T s k' ws with
      | error e => simp [hl, Except.map] at h
      | ok vs =>
        simp only [hl, Except.map] at h
        simp only [embed, decD, decDList_embed T cfg s ir k' ws vs hl, Except.map]
        injection h with h'; rw [h']
    | _ => simp [dec] at h
  | ir, k, .obj t ms, v, h => by
    cases k with
    | node c =>
      simp only [dec] at h
      cases hm : decMembers T s (rowsOf T c) ms with
      | error e => simp [hm] at h
      | ok d =>
        simp only [hm] at h
        cases ha : assemble s d (rowsOf T c) with
        | error e => simp [ha, Except.map] at h
        | ok fs =>
          simp only [ha, Except.map] at h
          simp only [embed, decD, decDMembers_embed T cfg s c (rowsOf T c) ms d hm,
            assembleD_of_assemble s d _ fs ha, Except.map, retypeRes_ok]
          injection h with h'; rw [h']
    | poly cs =>
      cases t with
      | none => simp [dec] at h
      | some tg =>
        simp only [dec] at h
        cases hc : classOfTag T tg with
        | none => simp [hc] at h
        | some c =>
          simp only [hc] at h
          by_cases hcs : cs.contains c = true
          · simp only [hcs, if_true] at h
            cases hm : decMembers T s (rowsOf T c) ms with
            | error e => simp [hm] at h
            | ok d =>
              simp only [hm] at h
              cases ha : assemble s d (rowsOf T c) with
              | error e => simp [ha, Except.map] at h
              | ok fs =>
                simp only [ha, Except.map] at h
                simp only [embed, decD, hc, hcs, if_true, decDMembers_embed T cfg s c (rowsOf T c) ms d hm,
                  assembleD_of_assemble s d _ fs ha, Except.map, retypeRes_ok]
                injection h with h'; rw [h']
          · have hcs' : c ∉ cs := by simpa using hcs
            simp [hcs'] at h
    | leaf => simp [dec] at h
    | list _ => simp [dec] at h
theorem decDList_embed (T : Table) (cfg : Cfg) (s : Bool) : ∀ (ir : Bool × List EKind) (k : Kind) (ws : List Wire)
    (vs : List Val), decList T s k ws = .ok vs → decDList T cfg s ir k (embedList ws) = .ok vs
  | _, _, [], vs, h => by simpa [decList, decDList, embedList] using h
  | ir, k, w :: r, vs, h => by
    simp only [decList] at h
    cases hw : dec T s k w with
    | error e => simp [hw] at h
    | ok v =>
      simp only [hw] at h
      cases hr : decList T s k r with
      | error e => simp [hr, Except.map] at h
      | ok t =>
        simp only [hr, Except.map] at h
        simp only [embedList, decDList, decD_embed T cfg s (false, []) k w v hw,
          decDList_embed T cfg s ir k r t hr, Except.map]
        injection h with h'; rw [h']
theorem decDMembers_embed (T : Table) (cfg : Cfg) (s : Bool) (c : String) (rows : List Row) :
    ∀ (ms : List (String × Wire)) (d : List (String × Val)),
    decMembers T s rows ms = .ok d → decDMembers T cfg s c rows (embedMembers ms) = .ok d
  | [], d, h => by simpa [decMembers, decDMembers, embedMembers] using h
  | (name, w) :: r, d, h => by
    simp only [decMembers] at h
    simp only [embedMembers, decDMembers]
    cases hf : findRow rows name with
    | none =>
      simp only [hf] at h ⊢
      exact decDMembers_embed T cfg s c rows r d h
    | some row =>
      simp only [hf] at h ⊢
      by_cases hrd : reads s row = true
      · simp only [hrd, if_true] at h ⊢
        cases hw : dec T s row.kind w with
        | error e => simp [hw] at h
        | ok v =>
          simp only [hw] at h
          simp only [decD_embed T cfg s _ row.kind w v hw]
          cases he : emptyAction row v with
          | keep =>
            simp only [he] at h ⊢
            cases hr : decMembers T s rows r with
            | error e => simp [hr, Except.map] at h
            | ok t =>
              simp only [hr, Except.map] at h
              simp only [decDMembers_embed T cfg s c rows r t hr, Except.map]
              injection h with h'; rw [h']
          | drop =>
            simp only [he] at h ⊢
            exact decDMembers_embed T cfg s c rows r d h
          | fail => simp [he] at h
      · simp only [hrd, Bool.false_eq_true, if_false] at h ⊢
        exact decDMembers_embed T cfg s c rows r d h
end

/-! ### Whatever strict reading accepts, failsafe reading returns unchanged (arbitrary, possibly damaged documents) -/

mutual
theorem decD_strict_ok (T : Table) (cfg : Cfg) (s : Bool) : ∀ (ir : Bool × List EKind) (k : Kind) (w : DWire) (v : Val),
    decD T (strictOf cfg) s ir k w = .ok v → decD T cfg s ir k w = .ok v
  | ir, k, .bad e, v, h => by simp [decD] at h
  | ir, k, .tok t f, v, h => by
    cases k <;> simp_all [decD]
  | ir, k, .arr ws, v, h => by
    cases k with
    | list k' =>
      simp only [decD] at h ⊢
      cases hl : decDList T (strictOf cfg) s ir k' ws with
      | error e => simp [hl, Except.map] at h
      | ok vs =>
        simp only [hl, Except.map] at h
        simp only [decDList_strict_ok T cfg s ir k' ws vs hl, Except.map]
        exact h
    | _ => simp [decD] at h
  | ir, k, .obj t ms, v, h => by
    cases k with
    | node c =>
      simp only [decD] at h ⊢
      have h := retypeRes_eq_ok h
      cases hm : decDMembers T (strictOf cfg) s c (rowsOf T c) ms with
      | error e => simp [hm] at h
      | ok d =>
        simp only [hm] at h
        simp only [decDMembers_strict_ok T cfg s c (rowsOf T c) ms d hm, h, retypeRes_ok]
    | poly cs =>
      cases t with
      | none => simp [decD] at h
      | some tg =>
        simp only [decD] at h ⊢
        cases hc : classOfTag T tg with
        | none => simp [hc] at h
        | some c =>
          simp only [hc] at h ⊢
          by_cases hcs : cs.contains c = true
          · simp only [hcs, if_true] at h ⊢
            have h := retypeRes_eq_ok h
            cases hm : decDMembers T (strictOf cfg) s c (rowsOf T c) ms with
            | error e => simp [hm] at h
            | ok d =>
              simp only [hm] at h
              simp only [decDMembers_strict_ok T cfg s c (rowsOf T c) ms d hm, h, retypeRes_ok]
          · have hcs' : c ∉ cs := by simpa using hcs
            simp [hcs'] at h
    | leaf => simp [decD] at h
    | list _ => simp [decD] at h
theorem decDList_strict_ok (T : Table) (cfg : Cfg) (s : Bool) : ∀ (ir : Bool × List EKind) (k : Kind) (ws : List DWire)
    (vs : List Val), decDList T (strictOf cfg) s ir k ws = .ok vs → decDList T cfg s ir k ws = .ok vs
  | _, _, [], vs, h => by simpa [decDList] using h
  | ir, k, w :: r, vs, h => by
    simp only [decDList] at h ⊢
    cases hw : decD T (strictOf cfg) s (false, []) k w with
    | error e => simp [hw, catches_strict] at h
    | ok v =>
      simp only [hw] at h
      simp only [decD_strict_ok T cfg s (false, []) k w v hw]
      cases hr : decDList T (strictOf cfg) s ir k r with
      | error e => simp [hr, Except.map] at h
      | ok t =>
        simp only [hr, Except.map] at h
        simp only [decDList_strict_ok T cfg s ir k r t hr, Except.map]
        exact h
theorem decDMembers_strict_ok (T : Table) (cfg : Cfg) (s : Bool) (c : String) (rows : List Row) :
    ∀ (ms : List (String × DWire)) (d : List (String × Val)),
    decDMembers T (strictOf cfg) s c rows ms = .ok d → decDMembers T cfg s c rows ms = .ok d
  | [], d, h => by simpa [decDMembers] using h
  | (name, w) :: r, d, h => by
    simp only [decDMembers] at h ⊢
    cases hf : findRow rows name with
    | none =>
      simp only [hf] at h ⊢
      exact decDMembers_strict_ok T cfg s c rows r d h
    | some row =>
      simp only [hf] at h ⊢
      by_cases hrd : reads s row = true
      · simp only [hrd, if_true, recRow_strict] at h ⊢
        cases hw : decD T (strictOf cfg) s ((recRow cfg c name).itemRecover, (recRow cfg c name).itemCaught) row.kind w with
        | error e => simp [hw, catches_strict] at h
        | ok v =>
          simp only [hw] at h
          simp only [decD_strict_ok T cfg s _ row.kind w v hw]
          cases he : emptyAction row v with
          | keep =>
            simp only [he] at h ⊢
            cases hr : decDMembers T (strictOf cfg) s c rows r with
            | error e => simp [hr, Except.map] at h
            | ok t =>
              simp only [hr, Except.map] at h
              simp only [decDMembers_strict_ok T cfg s c rows r t hr, Except.map]
              exact h
          | drop =>
            simp only [he] at h ⊢
            exact decDMembers_strict_ok T cfg s c rows r d h
          | fail => simp [he] at h
      · simp only [hrd, Bool.false_eq_true, if_false] at h ⊢
        exact decDMembers_strict_ok T cfg s c rows r d h
end

/-! ### errors stay documented unless the document carries an undocumented one -/

mutual
/-- no damaged position of the document raises an undocumented kind -/
def noOther : DWire → Bool
  | .bad k => k != .other
  | .tok _ _ => true
  | .arr ws => noOtherL ws
  | .obj _ ms => noOtherM ms
def noOtherL : List DWire → Bool
  | [] => true
  | w :: r => noOther w && noOtherL r
def noOtherM : List (String × DWire) → Bool
  | [] => true
  | (_, w) :: r => noOther w && noOtherM r
end

theorem assembleD_error (s : Bool) (d : List (String × Val)) : ∀ (rows : List Row) (e : EKind),
    assembleD s d rows = .error e → e = .key
  | [], e, h => by simp [assembleD] at h
  | r :: rows, e, h => by
    simp only [assembleD] at h
    split at h
    · cases ha : assembleD s d rows with
      | ok t => simp [ha, Except.map] at h
      | error e' =>
        simp only [ha, Except.map] at h
        injection h with h; subst h
        exact assembleD_error s d rows _ ha
    · split at h
      · injection h with h; exact h.symm
      · cases ha : assembleD s d rows with
        | ok t => simp [ha, Except.map] at h
        | error e' =>
          simp only [ha, Except.map] at h
          injection h with h; subst h
          exact assembleD_error s d rows _ ha

theorem retypeRes_error {cfg : Cfg} {c : String} {r : Except EKind Val} {e : EKind}
    (h : retypeRes cfg c r = .error e) : e = .type ∨ r = .error e := by
  cases r with
  | ok v => simp [retypeRes] at h
  | error e' =>
    simp only [retypeRes] at h
    split at h
    · injection h with h; exact Or.inl h.symm
    · injection h with h; subst h; exact Or.inr rfl

private theorem node_err (T : Table) (cfg : Cfg) (s : Bool) (c : String) (ms : List (String × DWire)) (e : EKind)
    (ih : ∀ e', decDMembers T cfg s c (rowsOf T c) ms = .error e' → e' ≠ .other)
    (h : retypeRes cfg c (match decDMembers T cfg s c (rowsOf T c) ms with
       | .ok d => (assembleD s d (rowsOf T c)).map (.node c)
       | .error e => .error e) = .error e) : e ≠ .other := by
  rcases retypeRes_error h with rfl | h'
  · simp
  · cases hm : decDMembers T cfg s c (rowsOf T c) ms with
    | error e' =>
      simp only [hm] at h'
      injection h' with h'; subst h'
      exact ih _ hm
    | ok d =>
      simp only [hm] at h'
      cases ha : assembleD s d (rowsOf T c) with
      | ok t => simp [ha, Except.map] at h'
      | error e' =>
        simp only [ha, Except.map] at h'
        injection h' with h'; subst h'
        rw [assembleD_error s d _ _ ha]; simp

mutual
/-- every exception that leaves the reading of a (damaged) document is either raised by the reader itself — then it is
    one of the documented kinds — or is the undocumented exception of a damaged position -/
theorem decD_err (T : Table) (cfg : Cfg) (s : Bool) : ∀ (ir : Bool × List EKind) (k : Kind) (w : DWire) (e : EKind),
    noOther w = true → decD T cfg s ir k w = .error e → e ≠ .other
  | ir, k, .bad k', e, hn, h => by
    simp only [decD] at h
    injection h with h; subst h
    simpa [noOther] using hn
  | ir, k, .tok t f, e, _, h => by
    cases k <;> simp [decD] at h <;> (subst h; simp)
  | ir, k, .arr ws, e, hn, h => by
    cases k with
    | list k' =>
      simp only [decD] at h
      cases hl : decDList T cfg s ir k' ws with
      | ok vs => simp [hl, Except.map] at h
      | error e' =>
        simp only [hl, Except.map] at h
        injection h with h; subst h
        exact decDList_err T cfg s ir k' ws _ (by simpa [noOther] using hn) hl
    | _ => simp [decD] at h; subst h; simp
  | ir, k, .obj t ms, e, hn, h => by
    have hnm : noOtherM ms = true := by simpa [noOther] using hn
    cases k with
    | node c =>
      simp only [decD] at h
      exact node_err T cfg s c ms e (fun e' he' => decDMembers_err T cfg s c (rowsOf T c) ms e' hnm he') h
    | poly cs =>
      cases t with
      | none => simp [decD] at h; subst h; simp
      | some tg =>
        simp only [decD] at h
        cases hc : classOfTag T tg with
        | none => simp [hc] at h; subst h; simp
        | some c =>
          simp only [hc] at h
          by_cases hcs : cs.contains c = true
          · simp only [hcs, if_true] at h
            exact node_err T cfg s c ms e (fun e' he' => decDMembers_err T cfg s c (rowsOf T c) ms e' hnm he') h
          · have hcs' : c ∉ cs := by simpa using hcs
            simp [hcs'] at h; subst h; simp
    | leaf => simp [decD] at h; subst h; simp
    | list _ => simp [decD] at h; subst h; simp
theorem decDList_err (T : Table) (cfg : Cfg) (s : Bool) : ∀ (ir : Bool × List EKind) (k : Kind) (ws : List DWire) (e : EKind),
    noOtherL ws = true → decDList T cfg s ir k ws = .error e → e ≠ .other
  | _, _, [], e, _, h => by simp [decDList] at h
  | ir, k, w :: r, e, hn, h => by
    simp only [noOtherL, Bool.and_eq_true] at hn
    simp only [decDList] at h
    cases hw : decD T cfg s (false, []) k w with
    | ok v =>
      simp only [hw] at h
      cases hr : decDList T cfg s ir k r with
      | ok t => simp [hr, Except.map] at h
      | error e' =>
        simp only [hr, Except.map] at h
        injection h with h; subst h
        exact decDList_err T cfg s ir k r _ hn.2 hr
    | error e' =>
      simp only [hw] at h
      split at h
      · exact decDList_err T cfg s ir k r e hn.2 h
      · injection h with h; subst h
        exact decD_err T cfg s (false, []) k w _ hn.1 hw
theorem decDMembers_err (T : Table) (cfg : Cfg) (s : Bool) (c : String) (rows : List Row) :
    ∀ (ms : List (String × DWire)) (e : EKind), noOtherM ms = true → decDMembers T cfg s c rows ms = .error e → e ≠ .other
  | [], e, _, h => by simp [decDMembers] at h
  | (name, w) :: r, e, hn, h => by
    simp only [noOtherM, Bool.and_eq_true] at hn
    simp only [decDMembers] at h
    cases hf : findRow rows name with
    | none =>
      simp only [hf] at h
      exact decDMembers_err T cfg s c rows r e hn.2 h
    | some row =>
      simp only [hf] at h
      by_cases hrd : reads s row = true
      · simp only [hrd, if_true] at h
        cases hw : decD T cfg s ((recRow cfg c name).itemRecover, (recRow cfg c name).itemCaught) row.kind w with
        | ok v =>
          simp only [hw] at h
          cases he : emptyAction row v with
          | keep =>
            simp only [he] at h
            cases hr : decDMembers T cfg s c rows r with
            | ok t => simp [hr, Except.map] at h
            | error e' =>
              simp only [hr, Except.map] at h
              injection h with h; subst h
              exact decDMembers_err T cfg s c rows r _ hn.2 hr
          | drop =>
            simp only [he] at h
            exact decDMembers_err T cfg s c rows r e hn.2 h
          | fail =>
            simp only [he] at h
            injection h with h; subst h; simp
        | error e' =>
          simp only [hw] at h
          split at h
          · exact decDMembers_err T cfg s c rows r e hn.2 h
          · injection h with h; subst h
            exact decD_err T cfg s _ row.kind w _ hn.1 hw
      · simp only [hrd, Bool.false_eq_true, if_false] at h
        exact decDMembers_err T cfg s c rows r e hn.2 h
end

/-! ### the document level: failsafe never raises; every identifiable is read on its own -/

/-- the reader's general handler catches every documented kind -/
def allCaught (cfg : Cfg) : Prop := cfg.failsafe = true ∧ ∀ e : EKind, e ≠ .other → cfg.caught.contains e = true

def survivors (T : Table) (cfg : Cfg) : List DWire → List Val
  | [] => []
  | w :: r =>
    match decD T cfg false (false, []) (.poly idKindsD) w with
    | .ok v => v :: survivors T cfg r
    | .error _ => survivors T cfg r

theorem decTop_eq_survivors (T : Table) (cfg : Cfg) (h : allCaught cfg) :
    ∀ items, noOtherL items = true → decTop T cfg items = .ok (survivors T cfg items)
  | [], _ => rfl
  | w :: r, hn => by
    simp only [noOtherL, Bool.and_eq_true] at hn
    have ih := decTop_eq_survivors T cfg h r hn.2
    simp only [decTop] at ih ⊢
    simp only [decDList, survivors]
    cases hw : decD T cfg false (false, []) (.poly idKindsD) w with
    | ok v => simp only [ih, Except.map]
    | error e =>
      have hne := decD_err T cfg false (false, []) (.poly idKindsD) w e hn.1 hw
      have hm : e ∈ cfg.caught := by simpa using h.2 e hne
      have : catches cfg [] e = true := by simp [catches, h.1, hm]
      simp only [this, Bool.and_self, if_true, ih]

theorem survivors_append (T : Table) (cfg : Cfg) : ∀ (a b : List DWire),
    survivors T cfg (a ++ b) = survivors T cfg a ++ survivors T cfg b
  | [], b => rfl
  | w :: a, b => by
    simp only [List.cons_append, survivors]
    split <;> simp [survivors_append T cfg a b]

end Basyx.Codec
