/- C06 helper lemmas (see the files under Lemmas/Lex/). -/
import Basyx.Lemmas.Lex.Digits
import Basyx.Lemmas.Lex.Int
import Basyx.Lemmas.Lex.DateTime
import Basyx.Lemmas.Lex.Binary
import Basyx.Lemmas.Lex.Duration
import Basyx.Lemmas.Lex.Decimal
