import Basyx.Model.Fmt
namespace Basyx.Fmt

theorem ofDigitChars_padN (w i : Nat) : Nat.ofDigitChars 10 (padN w i) 0 = i := by
  unfold padN
  simp only [Nat.ofDigitChars_append, Nat.ofDigitChars_replicate_zero, Nat.mul_zero]
  exact Nat.ofDigitChars_ten_toDigits

theorem padN_injective {w i j : Nat} (h : padN w i = padN w j) : i = j := by
  have := congrArg (fun l => Nat.ofDigitChars 10 l 0) h
  simpa [ofDigitChars_padN] using this

theorem pad4_eq (i : Nat) : pad4 i = padN 4 i := rfl
theorem pad2_eq (i : Nat) : pad2 i = padN 2 i := rfl

theorem ofDigitChars_pad4 (i : Nat) : Nat.ofDigitChars 10 (pad4 i) 0 = i := ofDigitChars_padN 4 i

theorem pad4_injective {i j : Nat} (h : pad4 i = pad4 j) : i = j := padN_injective (w := 4) h

end Basyx.Fmt
