/-
  Helper lemmas for C12 (model: Basyx/Model/Update.lean).
-/
import Basyx.Model.Update
namespace Basyx.Update
open Basyx

/-! ### `copyVars` (the plain-attribute part of `update_from`) -/

theorem get_copyVars (us : Bool) (n : String) :
    ∀ (o l : List (String × PVal)), (AList.keys o).Nodup →
      AList.get n (copyVars us l o) =
        if n = "source" ∧ us = false then AList.get n l
        else match AList.get n o with
          | some v => some v
          | none => AList.get n l := by
  intro o
  induction o with
  | nil => intro l _; simp [copyVars]
  | cons hd r ih =>
    obtain ⟨m, v⟩ := hd
    intro l hnd
    have hnd' : m ∉ AList.keys r ∧ (AList.keys r).Nodup := by
      simpa [AList.keys, List.nodup_cons] using hnd
    unfold copyVars
    by_cases hs : m = "source" ∧ us = false
    · rw [if_pos hs, ih l hnd'.2]
      by_cases hn : n = "source" ∧ us = false
      · simp [hn]
      · have hmn : m ≠ n := by
          intro h; apply hn; rw [← h]; exact hs
        simp [hn, AList.get, hmn]
    · rw [if_neg hs, ih _ hnd'.2]
      by_cases hn : n = "source" ∧ us = false
      · have hmn : n ≠ m := by
          intro h; apply hs; rw [← h]; exact hn
        rw [AList.get_set_other _ _ hmn]; simp [hn]
      · by_cases hmn : m = n
        · subst hmn
          have : AList.get m r = none := AList.get_none_of_not_mem_keys hnd'.1
          simp [hn, AList.get, this]
        · have hmn' : n ≠ m := fun h => hmn h.symm
          simp [hn, AList.get, hmn, AList.get_set_other _ _ hmn']

theorem copyVars_cons_head (us : Bool) (m : String) (v : PVal) :
    ∀ (r l : List (String × PVal)), m ∉ AList.keys r →
      copyVars us ((m, v) :: l) r = (m, v) :: copyVars us l r := by
  intro r
  induction r with
  | nil => intro l _; simp [copyVars]
  | cons hd t ih =>
    obtain ⟨n, w⟩ := hd
    intro l hm
    have hm' : m ≠ n ∧ m ∉ AList.keys t := by
      simpa [AList.keys] using hm
    unfold copyVars
    by_cases hs : n = "source" ∧ us = false
    · rw [if_pos hs, if_pos hs]; exact ih l hm'.2
    · rw [if_neg hs, if_neg hs]
      have : AList.set n w ((m, v) :: l) = (m, v) :: AList.set n w l := by
        simp [AList.set, hm'.1]
      rw [this]; exact ih _ hm'.2

theorem canonPlain_cons (m : String) (v : PVal) (t : List (String × PVal)) :
    canonPlain ((m, v) :: t) = if m = "source" then canonPlain t else (m, v.val) :: canonPlain t := by
  by_cases h : m = "source" <;> simp [canonPlain, List.filter, h]

theorem canonPlain_copyVars (us : Bool) :
    ∀ (o l : List (String × PVal)), AList.keys l = AList.keys o → (AList.keys o).Nodup →
      canonPlain (copyVars us l o) = canonPlain o := by
  intro o
  induction o with
  | nil => intro l hk _; cases l with
    | nil => rfl
    | cons a b => simp [AList.keys] at hk
  | cons hd r ih =>
    obtain ⟨m, v⟩ := hd
    intro l hk hnd
    cases l with
    | nil => simp [AList.keys] at hk
    | cons lh lt =>
      obtain ⟨m', v0⟩ := lh
      have hk' : m' = m ∧ AList.keys lt = AList.keys r := by
        simpa [AList.keys] using hk
      obtain ⟨rfl, hkt⟩ := hk'
      have hnd' : m' ∉ AList.keys r ∧ (AList.keys r).Nodup := by
        simpa [AList.keys, List.nodup_cons] using hnd
      unfold copyVars
      have h2 := ih lt hkt hnd'.2
      by_cases hs : m' = "source" ∧ us = false
      · rw [if_pos hs, copyVars_cons_head us m' v0 r lt hnd'.1, canonPlain_cons, canonPlain_cons, h2]
        simp [hs.1]
      · rw [if_neg hs]
        have : AList.set m' v ((m', v0) :: lt) = (m', v) :: lt := by simp [AList.set]
        rw [this, copyVars_cons_head us m' v r lt hnd'.1, canonPlain_cons, canonPlain_cons, h2]

/-! ### root header -/

theorem updateFrom_hdr (live other : Node) (us : Bool) :
    (updateFrom live other us).live.hdr = copyPlain live.hdr other.hdr us := by
  cases other; simp [updateFrom, Node.hdr]

theorem updateFrom_err (live : Node) (oh : Hdr) (osets : Sets) (us : Bool) :
    (updateFrom live (.mk oh osets) us).err =
      (updateSets live.hdr.uid ((copyPlain live.hdr oh us).plain.map Prod.fst) live.sets osets).err := by
  simp [updateFrom, copyPlain]

theorem detach_parent (b : Bool) (n : Node) : (detach b n).hdr.parent = none := by
  cases n; simp [detach, Node.setHdr, Node.hdr]

/-! ### generic preservation of a predicate on the detached objects -/

theorem finishSet_det (P : Node → Prop) (hP : ∀ b n, P (detach b n)) (puid : Uid) (lsh osh : SetHdr) (sib : List Key)
    (litems oitems : Items) (m : MatchRes) (hm : ∀ d ∈ m.det, P d) :
    ∀ d ∈ (finishSet puid lsh osh sib litems oitems m).det, P d := by
  intro d hd
  unfold finishSet at hd
  split at hd
  · exact hm d hd
  · simp only [List.mem_append, List.mem_map] at hd
    rcases hd with h | ⟨p, _, rfl⟩
    · exact hm d h
    · exact hP _ _

inductive StepCase (lsh : SetHdr) (litems : Items) (o : Node) (upd : Node → R) (m : MatchRes) : MatchRes → Prop
  | typeErr : o.hdr.kind = Kind.other → StepCase lsh litems o upd m ⟨[], [], [], some .typeError⟩
  | unmatched : o.hdr.kind ≠ Kind.other → (attrOf o.hdr.kind ≠ lsh.keyAttr ∨ AList.get o.hdr.key litems = none) →
      StepCase lsh litems o upd m (addSlot o [] m)
  | retyped (l : Node) : o.hdr.kind = Kind.referable → attrOf o.hdr.kind = lsh.keyAttr → AList.get o.hdr.key litems = some l →
      l.hdr.cls ≠ o.hdr.cls → StepCase lsh litems o upd m (addSlot o [o.hdr.key] m)
  | updated (l : Node) : o.hdr.kind = Kind.referable → attrOf o.hdr.kind = lsh.keyAttr → AList.get o.hdr.key litems = some l →
      l.hdr.cls = o.hdr.cls → (upd l).err = none →
      StepCase lsh litems o upd m ⟨.keep o.hdr.key (upd l).live :: m.slots, m.retyped, (upd l).det ++ m.det, m.err⟩
  | swallowed (l : Node) : o.hdr.kind = Kind.referable → attrOf o.hdr.kind = lsh.keyAttr → AList.get o.hdr.key litems = some l →
      l.hdr.cls = o.hdr.cls → (upd l).err = some .keyError →
      StepCase lsh litems o upd m ⟨.keep o.hdr.key (upd l).live :: .add o :: m.slots, m.retyped, (upd l).det ++ m.det, m.err⟩
  | failed (l : Node) (e : Err) : o.hdr.kind = Kind.referable → attrOf o.hdr.kind = lsh.keyAttr → AList.get o.hdr.key litems = some l →
      l.hdr.cls = o.hdr.cls → (upd l).err = some e → e ≠ .keyError →
      StepCase lsh litems o upd m ⟨[.keep o.hdr.key (upd l).live], [], (upd l).det, some e⟩
  | copied (l : Node) : o.hdr.kind ≠ Kind.other → o.hdr.kind ≠ Kind.referable → attrOf o.hdr.kind = lsh.keyAttr →
      AList.get o.hdr.key litems = some l →
      StepCase lsh litems o upd m ⟨.keep o.hdr.key (copyItem l o) :: m.slots, m.retyped, m.det, m.err⟩

theorem matchStep_cases (lsh : SetHdr) (litems : Items) (o : Node) (upd : Node → R) (m : MatchRes) :
    StepCase lsh litems o upd m (matchStep lsh litems o upd m) := by
  unfold matchStep
  by_cases h1 : o.hdr.kind = Kind.other
  · rw [if_pos h1]; exact .typeErr h1
  · rw [if_neg h1]
    by_cases h2 : attrOf o.hdr.kind ≠ lsh.keyAttr
    · rw [if_pos h2]; exact .unmatched h1 (Or.inl h2)
    · rw [if_neg h2]
      have h2' : attrOf o.hdr.kind = lsh.keyAttr := by simpa using h2
      cases hg : AList.get o.hdr.key litems with
      | none => exact .unmatched h1 (Or.inr hg)
      | some l =>
        simp only []
        by_cases h3 : o.hdr.kind = Kind.referable
        · rw [if_pos h3]
          by_cases h4 : l.hdr.cls ≠ o.hdr.cls
          · rw [if_pos h4]; exact .retyped l h3 h2' hg h4
          · rw [if_neg h4]
            have h4' : l.hdr.cls = o.hdr.cls := by simpa using h4
            cases he : (upd l).err with
            | none => exact .updated l h3 h2' hg h4' he
            | some e =>
              simp only []
              by_cases h5 : e = Err.keyError
              · rw [if_pos h5]; subst h5; exact .swallowed l h3 h2' hg h4' he
              · rw [if_neg h5]; exact .failed l e h3 h2' hg h4' he h5
        · rw [if_neg h3]; exact .copied l h1 h3 h2' hg
theorem matchStep_det (P : Node → Prop) (lsh : SetHdr) (litems : Items) (o : Node) (upd : Node → R) (m : MatchRes)
    (hu : ∀ l, ∀ d ∈ (upd l).det, P d) (hm : ∀ d ∈ m.det, P d) :
    ∀ d ∈ (matchStep lsh litems o upd m).det, P d := by
  intro d hd
  have hc := matchStep_cases lsh litems o upd m
  generalize matchStep lsh litems o upd m = res at hc hd
  cases hc with
  | typeErr => cases hd
  | unmatched => exact hm d hd
  | retyped => exact hm d hd
  | updated l =>
    rcases List.mem_append.1 hd with h | h
    · exact hu l d h
    · exact hm d h
  | swallowed l =>
    rcases List.mem_append.1 hd with h | h
    · exact hu l d h
    · exact hm d h
  | failed l e => exact hu l d hd
  | copied l => exact hm d hd

theorem afterSet_det (P : Node → Prop) (name : String) (lsets : Sets) (s : SetRes) (next : Sets → SetsRes)
    (hs : ∀ d ∈ s.det, P d) (hn : ∀ x, ∀ d ∈ (next x).det, P d) :
    ∀ d ∈ (afterSet name lsets s next).det, P d := by
  intro d hd
  unfold afterSet at hd
  split at hd
  · exact hs d hd
  · simp only [List.mem_append] at hd
    rcases hd with h | h
    · exact hs d h
    · exact hn _ d h

mutual
theorem det_updateFrom (P : Node → Prop) (hP : ∀ b n, P (detach b n)) (other : Node) :
    ∀ (live : Node) (us : Bool), ∀ d ∈ (updateFrom live other us).det, P d := by
  cases other with
  | mk oh osets =>
    intro live us d hd
    simp only [updateFrom] at hd
    exact det_updateSets P hP osets _ _ _ d hd
theorem det_updateSets (P : Node → Prop) (hP : ∀ b n, P (detach b n)) (osets : Sets) :
    ∀ (puid : Uid) (pn : List String) (lsets : Sets), ∀ d ∈ (updateSets puid pn lsets osets).det, P d := by
  cases osets with
  | nil => intro puid pn lsets d hd; simp [updateSets] at hd
  | cons hd rest =>
    obtain ⟨osh, oitems⟩ := hd
    intro puid pn lsets d hd
    simp only [updateSets] at hd
    split at hd
    · simp at hd
    · exact afterSet_det P _ _ _ _
        (finishSet_det P hP _ _ _ _ _ _ _ (det_matchLoop P hP oitems _ _))
        (fun x => det_updateSets P hP rest _ _ x) d hd
theorem det_matchLoop (P : Node → Prop) (hP : ∀ b n, P (detach b n)) (oitems : Items) :
    ∀ (lsh : SetHdr) (litems : Items), ∀ d ∈ (matchLoop lsh litems oitems).det, P d := by
  cases oitems with
  | nil => intro lsh litems d hd; simp [matchLoop] at hd
  | cons hd rest =>
    obtain ⟨bk, o⟩ := hd
    intro lsh litems d hd
    simp only [matchLoop] at hd
    exact matchStep_det P _ _ _ _ _ (fun l => det_updateFrom P hP o l true) (det_matchLoop P hP rest _ _) d hd
end

/-! ### provenance of the objects in a merged set (`update_nss_from` = `finishSet ∘ matchLoop`) -/

theorem mem_set {k k' : Key} {v n : Node} {l : Items} (h : (k, n) ∈ AList.set k' v l) : (k, n) = (k', v) ∨ (k, n) ∈ l := by
  induction l with
  | nil => simp [AList.set] at h; exact Or.inl (by simp [h])
  | cons hd t ih =>
    obtain ⟨k2, v2⟩ := hd
    by_cases hk : k2 = k'
    · simp [AList.set, hk] at h
      rcases h with h | h
      · exact Or.inl (by simp [h])
      · exact Or.inr (List.mem_cons_of_mem _ h)
    · simp [AList.set, hk] at h
      rcases h with h | h
      · exact Or.inr (by simp [h])
      · rcases ih h with h' | h'
        · exact Or.inl h'
        · exact Or.inr (List.mem_cons_of_mem _ h')

theorem mem_applyKeeps {k : Key} {n : Node} : ∀ (slots : List Slot) (l : Items),
    (k, n) ∈ applyKeeps l slots → (k, n) ∈ l ∨ Slot.keep k n ∈ slots := by
  intro slots
  induction slots with
  | nil => intro l h; exact Or.inl h
  | cons s r ih =>
    intro l h
    cases s with
    | keep k' v =>
      simp only [applyKeeps] at h
      rcases ih _ h with h1 | h1
      · rcases mem_set h1 with h2 | h2
        · cases h2; exact Or.inr (List.mem_cons_self ..)
        · exact Or.inl h2
      · exact Or.inr (List.mem_cons_of_mem _ h1)
    | add o =>
      simp only [applyKeeps] at h
      rcases ih _ h with h1 | h1
      · exact Or.inl h1
      · exact Or.inr (List.mem_cons_of_mem _ h1)

theorem mem_keepItems {k : Key} {n : Node} (rm : List Key) : ∀ (slots : List Slot),
    (k, n) ∈ keepItems rm slots → Slot.keep k n ∈ slots := by
  intro slots
  induction slots with
  | nil => intro h; cases h
  | cons s r ih =>
    intro h
    cases s with
    | keep k' v =>
      simp only [keepItems] at h
      split at h
      · exact List.mem_cons_of_mem _ (ih h)
      · rcases List.mem_cons.1 h with h1 | h1
        · cases h1; exact List.mem_cons_self ..
        · exact List.mem_cons_of_mem _ (ih h1)
    | add o => simp only [keepItems] at h; exact List.mem_cons_of_mem _ (ih h)

/-- every object in the result of loop 3 is a matched (kept) object or an adopted object of `other` -/
theorem mem_resolve {k : Key} {n : Node} (puid : Uid) (lsh osh : SetHdr) (sib rm : List Key) :
    ∀ (slots : List Slot) (cur : List Key), (k, n) ∈ (resolve puid lsh osh sib rm cur slots).1 →
      Slot.keep k n ∈ slots ∨ ∃ o present, Slot.add o ∈ slots ∧ adopt puid lsh osh present o = .ok (k, n) := by
  intro slots
  induction slots with
  | nil => intro cur h; simp [resolve] at h
  | cons s r ih =>
    intro cur h
    cases s with
    | keep k' v =>
      simp only [resolve] at h
      split at h
      · rcases ih _ h with h1 | ⟨o, pr, h1, h2⟩
        · exact Or.inl (List.mem_cons_of_mem _ h1)
        · exact Or.inr ⟨o, pr, List.mem_cons_of_mem _ h1, h2⟩
      · rcases List.mem_cons.1 h with h1 | h1
        · cases h1; exact Or.inl (List.mem_cons_self ..)
        · rcases ih _ h1 with h2 | ⟨o, pr, h2, h3⟩
          · exact Or.inl (List.mem_cons_of_mem _ h2)
          · exact Or.inr ⟨o, pr, List.mem_cons_of_mem _ h2, h3⟩
    | add o =>
      simp only [resolve] at h
      split at h
      · exact Or.inl (List.mem_cons_of_mem _ (mem_keepItems rm r h))
      · rename_i k2 o2 hok
        rcases List.mem_cons.1 h with h1 | h1
        · cases h1; exact Or.inr ⟨o, _, List.mem_cons_self .., hok⟩
        · rcases ih _ h1 with h2 | ⟨o3, pr, h2, h3⟩
          · exact Or.inl (List.mem_cons_of_mem _ h2)
          · exact Or.inr ⟨o3, pr, List.mem_cons_of_mem _ h2, h3⟩

/-- what a matched (kept) slot is: the live object stored under the same key, updated in place from the object of
    `other` that carries this key -/
def KeepOrigin (litems oitems : Items) (k : Key) (n : Node) : Prop :=
  ∃ l o bk, (bk, o) ∈ oitems ∧ o.hdr.key = k ∧ AList.get k litems = some l ∧
    ((o.hdr.kind = Kind.referable ∧ l.hdr.cls = o.hdr.cls ∧ n = (updateFrom l o true).live) ∨
     (o.hdr.kind ≠ Kind.referable ∧ n = copyItem l o))

theorem matchLoop_slots (lsh : SetHdr) (litems : Items) : ∀ (oitems : Items),
    (∀ k n, Slot.keep k n ∈ (matchLoop lsh litems oitems).slots → KeepOrigin litems oitems k n) ∧
    (∀ o, Slot.add o ∈ (matchLoop lsh litems oitems).slots → ∃ bk, (bk, o) ∈ oitems) := by
  intro oitems
  induction oitems with
  | nil => simp [matchLoop]
  | cons hd rest ih =>
    obtain ⟨bk, o⟩ := hd
    have lift : ∀ k n, KeepOrigin litems rest k n → KeepOrigin litems ((bk, o) :: rest) k n := by
      intro k n ⟨l, o', bk', h1, h2⟩
      exact ⟨l, o', bk', List.mem_cons_of_mem _ h1, h2⟩
    have here : ∀ l, AList.get o.hdr.key litems = some l →
        ((o.hdr.kind = Kind.referable ∧ l.hdr.cls = o.hdr.cls ∧ (updateFrom l o true).live = (updateFrom l o true).live) ∨ True) → True := fun _ _ _ => trivial
    simp only [matchLoop]
    have hc := matchStep_cases lsh litems o (fun l => updateFrom l o true) (matchLoop lsh litems rest)
    generalize matchStep lsh litems o (fun l => updateFrom l o true) (matchLoop lsh litems rest) = res at hc
    obtain ⟨ihk, iha⟩ := ih
    have liftA : ∀ o', (∃ bk', (bk', o') ∈ rest) → ∃ bk', (bk', o') ∈ (bk, o) :: rest := by
      intro o' ⟨bk', h⟩; exact ⟨bk', List.mem_cons_of_mem _ h⟩
    cases hc with
    | typeErr => simp
    | unmatched =>
      simp only [addSlot]
      refine ⟨fun k n h => ?_, fun o' h => ?_⟩
      · rcases List.mem_cons.1 h with h1 | h1
        · cases h1
        · exact lift k n (ihk k n h1)
      · rcases List.mem_cons.1 h with h1 | h1
        · cases h1; exact ⟨bk, List.mem_cons_self ..⟩
        · exact liftA o' (iha o' h1)
    | retyped l =>
      simp only [addSlot]
      refine ⟨fun k n h => ?_, fun o' h => ?_⟩
      · rcases List.mem_cons.1 h with h1 | h1
        · cases h1
        · exact lift k n (ihk k n h1)
      · rcases List.mem_cons.1 h with h1 | h1
        · cases h1; exact ⟨bk, List.mem_cons_self ..⟩
        · exact liftA o' (iha o' h1)
    | updated l hk ha hg hcl he =>
      refine ⟨fun k n h => ?_, fun o' h => ?_⟩
      · rcases List.mem_cons.1 h with h1 | h1
        · cases h1; exact ⟨l, o, bk, List.mem_cons_self .., rfl, hg, Or.inl ⟨hk, hcl, rfl⟩⟩
        · exact lift k n (ihk k n h1)
      · rcases List.mem_cons.1 h with h1 | h1
        · cases h1
        · exact liftA o' (iha o' h1)
    | swallowed l hk ha hg hcl he =>
      refine ⟨fun k n h => ?_, fun o' h => ?_⟩
      · rcases List.mem_cons.1 h with h1 | h1
        · cases h1; exact ⟨l, o, bk, List.mem_cons_self .., rfl, hg, Or.inl ⟨hk, hcl, rfl⟩⟩
        · rcases List.mem_cons.1 h1 with h2 | h2
          · cases h2
          · exact lift k n (ihk k n h2)
      · rcases List.mem_cons.1 h with h1 | h1
        · cases h1
        · rcases List.mem_cons.1 h1 with h2 | h2
          · cases h2; exact ⟨bk, List.mem_cons_self ..⟩
          · exact liftA o' (iha o' h2)
    | failed l e hk ha hg hcl he hne =>
      refine ⟨fun k n h => ?_, fun o' h => ?_⟩
      · rcases List.mem_cons.1 h with h1 | h1
        · cases h1; exact ⟨l, o, bk, List.mem_cons_self .., rfl, hg, Or.inl ⟨hk, hcl, rfl⟩⟩
        · cases h1
      · rcases List.mem_cons.1 h with h1 | h1
        · cases h1
        · cases h1
    | copied l h1' hk ha hg =>
      refine ⟨fun k n h => ?_, fun o' h => ?_⟩
      · rcases List.mem_cons.1 h with h1 | h1
        · cases h1; exact ⟨l, o, bk, List.mem_cons_self .., rfl, hg, Or.inr ⟨hk, rfl⟩⟩
        · exact lift k n (ihk k n h1)
      · rcases List.mem_cons.1 h with h1 | h1
        · cases h1
        · exact liftA o' (iha o' h1)

/-- `self.update_nss_from(other)` for one NamespaceSet (what `updateSets` runs per set) -/
def updateNss (puid : Uid) (lsh osh : SetHdr) (sib : List Key) (litems oitems : Items) : SetRes :=
  finishSet puid lsh osh sib litems oitems (matchLoop lsh litems oitems)

theorem adopt_ok {puid : Uid} {lsh osh : SetHdr} {present : List Key} {o n : Node} {k : Key}
    (h : adopt puid lsh osh present o = .ok (k, n)) :
    n.hdr.uid = o.hdr.uid ∧ n.hdr.parent = some puid ∧ n.hdr.key = k ∧ k ≠ Key.none ∧ k ∉ present ∧
    n.hdr.cls = o.hdr.cls ∧ n.hdr.plain = o.hdr.plain ∧ n.sets = o.sets := by
  unfold adopt at h
  simp only [] at h
  repeat' split at h
  all_goals (try cases h)
  all_goals (cases o; simp_all [detach, Node.setHdr, Node.hdr, Node.sets])

theorem members_updateNss (puid : Uid) (lsh osh : SetHdr) (sib : List Key) (litems oitems : Items)
    (he : (updateNss puid lsh osh sib litems oitems).err = none) :
    ∀ k n, (k, n) ∈ (updateNss puid lsh osh sib litems oitems).items →
      (k, n) ∈ litems ∨ KeepOrigin litems oitems k n ∨
      ∃ o bk present, (bk, o) ∈ oitems ∧ adopt puid lsh osh present o = .ok (k, n) := by
  intro k n h
  have hs := matchLoop_slots lsh litems oitems
  unfold updateNss finishSet at h he
  split at h
  · rename_i e hm; simp [hm] at he
  · simp only [List.mem_append, List.mem_filter] at h
    rcases h with ⟨h1, _⟩ | h1
    · rcases mem_applyKeeps _ _ h1 with h2 | h2
      · exact Or.inl h2
      · exact Or.inr (Or.inl (hs.1 k n h2))
    · rcases mem_resolve _ _ _ _ _ _ _ h1 with h2 | ⟨o, pr, h2, h3⟩
      · exact Or.inr (Or.inl (hs.1 k n h2))
      · obtain ⟨bk, hb⟩ := hs.2 o h2
        exact Or.inr (Or.inr ⟨o, bk, pr, hb, h3⟩)

/-! ### a set without namesakes in the copy (lists: generated names are fresh per list object) -/

def slotUid : Slot → Uid
  | .keep _ n => n.hdr.uid
  | .add o => o.hdr.uid

def isAdd : Slot → Bool
  | .add _ => true
  | .keep _ _ => false

/-- loop 3 on slots that are all additions: without an error the adopted objects are those of the slots, in their order -/
theorem resolve_all_add (puid : Uid) (lsh osh : SetHdr) (sib rm : List Key) :
    ∀ (slots : List Slot) (cur : List Key), slots.all isAdd = true →
      (resolve puid lsh osh sib rm cur slots).2 = none →
      (resolve puid lsh osh sib rm cur slots).1.map (fun p => p.2.hdr.uid) = slots.map slotUid
  | [], _, _, _ => by simp [resolve]
  | .keep k n :: r, cur, h, _ => by simp [isAdd] at h
  | .add o :: r, cur, h, he => by
    have hr : r.all isAdd = true := by simpa [isAdd] using h
    unfold resolve at he ⊢
    cases ha : adopt puid lsh osh (cur ++ sib) o with
    | error e => simp [ha] at he
    | ok p =>
      obtain ⟨k, o'⟩ := p
      simp only [ha] at he ⊢
      have ih := resolve_all_add puid lsh osh sib rm r (k :: cur) hr he
      simp [slotUid, (adopt_ok ha).1, ih]


/-- loop 1 when no object of `other` has a namesake in the live set: every object becomes an addition, in `other`'s order -/
theorem matchLoop_disjoint (lsh : SetHdr) (litems : Items) : ∀ (oitems : Items),
    (∀ p ∈ oitems, p.2.hdr.kind ≠ Kind.other ∧ AList.get p.2.hdr.key litems = none) →
    matchLoop lsh litems oitems = ⟨oitems.map (fun p => Slot.add p.2), [], [], none⟩ := by
  intro oitems
  induction oitems with
  | nil => intro _; simp [matchLoop]
  | cons hd rest ih =>
    intro h
    obtain ⟨bk, o⟩ := hd
    have ho := h (bk, o) (List.mem_cons_self ..)
    have ihr := ih (fun p hp => h p (List.mem_cons_of_mem _ hp))
    simp only [matchLoop, ihr, matchStep, addSlot, List.map_cons]
    simp [ho.1, ho.2]


theorem applyKeeps_adds (l : Items) (os : Items) : applyKeeps l (os.map (fun p => Slot.add p.2)) = l := by
  induction os with
  | nil => rfl
  | cons p r ih => simpa [applyKeeps] using ih

theorem all_isAdd_adds (os : Items) : (os.map (fun p => Slot.add p.2)).all isAdd = true := by
  induction os with
  | nil => rfl
  | cons p r ih => simpa [isAdd] using ih

theorem slotUid_adds (os : Items) : (os.map (fun p => Slot.add p.2)).map slotUid = os.map (fun p => p.2.hdr.uid) := by
  induction os with
  | nil => rfl
  | cons p r ih => simp [slotUid]

/-- **A set none of whose members has a namesake in the copy is replaced by the copy's members, in the copy's order.**
    (The case of a `SubmodelElementList`: its items are filed under generated names, fresh per list object.) -/
theorem updateNss_disjoint_order (puid : Uid) (lsh osh : SetHdr) (sib : List Key) (litems oitems : Items)
    (hd : ∀ p ∈ oitems, p.2.hdr.kind ≠ Kind.other ∧ AList.get p.2.hdr.key litems = none)
    (hattr : lsh.keyAttr = osh.keyAttr)
    (hkeys : ∀ k ∈ AList.keys litems, k ∉ AList.keys oitems)
    (he : (updateNss puid lsh osh sib litems oitems).err = none) :
    (updateNss puid lsh osh sib litems oitems).items.map (fun p => p.2.hdr.uid) = oitems.map (fun p => p.2.hdr.uid) := by
  unfold updateNss finishSet at he ⊢
  rw [matchLoop_disjoint lsh litems oitems hd] at he ⊢
  simp only [applyKeeps_adds, hattr, if_true, List.nil_append] at he ⊢
  have hrm : (AList.keys litems).filter (fun k => k ∉ AList.keys oitems) = AList.keys litems := by
    apply List.filter_eq_self.2
    intro k hk; simpa using hkeys k hk
  simp only [hrm] at he ⊢
  have hstay : litems.filter (fun p => p.1 ∉ AList.keys litems ∧
      p.1 ∉ keepKeys (oitems.map (fun p => Slot.add p.2))) = [] := by
    apply List.filter_eq_nil_iff.2
    intro p hp
    have : p.1 ∈ AList.keys litems := by
      simp only [AList.keys]; exact List.mem_map_of_mem hp
    simp [this]
  have hcur : (AList.keys litems).filter (fun k => k ∉ AList.keys litems) = [] := by
    apply List.filter_eq_nil_iff.2
    intro k hk; simp [hk]
  simp only [hstay, hcur, List.nil_append] at he ⊢
  rw [resolve_all_add puid lsh osh sib _ _ [] (all_isAdd_adds oitems) he, slotUid_adds]


end Basyx.Update
