import Basyx.Model.Aasx
namespace Basyx.Aasx

theorem collectFiles_append (d : Descends) (parts : List Part) : ∀ (a b : List FileEl) (G : Files.St),
    collectFiles d parts G (a ++ b) =
      ((collectFiles d parts (collectFiles d parts G a).1 b).1,
       (collectFiles d parts G a).2 ++ (collectFiles d parts (collectFiles d parts G a).1 b).2)
  | [], b, G => by simp [collectFiles]
  | f :: r, b, G => by
    simp only [List.cons_append, collectFiles]
    split
    · split
      · split
        · split
          · simp [collectFiles_append d parts r b]
          · simp [collectFiles_append d parts r b]
        · simp [collectFiles_append d parts r b]
      · simp [collectFiles_append d parts r b]
    · simp [collectFiles_append d parts r b]

theorem collectParts_append (d : Descends) (F : Files.St) : ∀ (a b : List FileEl) (acc : List Part),
    collectParts d F (a ++ b) acc = collectParts d F b (collectParts d F a acc)
  | [], b, acc => by simp [collectParts]
  | f :: r, b, acc => by
    simp only [List.cons_append, collectParts]
    split
    · split
      · split
        · split
          · exact collectParts_append d F r b _
          · exact collectParts_append d F r b _
        · exact collectParts_append d F r b _
      · exact collectParts_append d F r b _
    · exact collectParts_append d F r b _

theorem collectPartsSeq_flatten (d : Descends) (F : Files.St) : ∀ (fss : List (List FileEl)) (acc : List Part),
    collectPartsSeq d F fss acc = collectParts d F fss.flatten acc
  | [], acc => by simp [collectPartsSeq, collectParts]
  | fs :: r, acc => by
    simp only [collectPartsSeq, List.flatten_cons, collectParts_append]
    exact collectPartsSeq_flatten d F r _

theorem collectFilesSeq_flatten (d : Descends) (parts : List Part) : ∀ (fss : List (List FileEl)) (G : Files.St),
    (collectFilesSeq d parts G fss).1 = (collectFiles d parts G fss.flatten).1 ∧
    (collectFilesSeq d parts G fss).2.flatten = (collectFiles d parts G fss.flatten).2
  | [], G => by simp [collectFilesSeq, collectFiles]
  | fs :: r, G => by
    have ih := collectFilesSeq_flatten d parts r (collectFiles d parts G fs).1
    simp only [collectFilesSeq, List.flatten_cons, collectFiles_append]
    exact ⟨ih.1, by rw [← ih.2]⟩

end Basyx.Aasx
