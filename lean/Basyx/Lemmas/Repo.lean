/-
  Helper lemmas for the HTTP repository model (C10, C11): evaluation of the extracted tables at the call sites the
  handlers use (these are the side conditions that break when http.py changes an except clause / raise / status),
  the exception-safety predicate `Good` of handler computations and its proof for every modelled handler.
-/
import Basyx.Model.Repo
namespace Basyx.Repo
open Basyx

/-! ## the extracted tables at the call sites (kernel-evaluated; a changed table row fails here) -/

section tables
variable {α : Type}

theorem raise_get_obj_ts : (raiseOf "_get_obj_ts" 0 : Res α) = .http 404 := rfl
theorem raise_request_body : (raiseOf "request_body" 0 : Res α) = .http 415 := rfl
theorem raise_assert_type : (raiseOf "assert_type" 0 : Res α) = .http 422 := rfl
theorem raise_json_list_1 : (raiseOf "json_list" 1 : Res α) = .http 422 := rfl
theorem raise_get_slice : (raiseOf "_get_slice" 0 : Res α) = .py .valueError := rfl
theorem raise_not_implemented : (raiseOf "not_implemented" 0 : Res α) = .http 501 := rfl
theorem raise_same_identity_0 : (raiseOf "_expect_same_identity" 0 : Res α) = .http 400 := rfl
theorem raise_same_identity_1 : (raiseOf "_expect_same_identity" 1 : Res α) = .http 400 := rfl
theorem raise_same_identity_2 : (raiseOf "_expect_same_identity" 2 : Res α) = .http 400 := rfl
theorem raise_get_nested : (raiseOf "_get_nested_submodel_element" 0 : Res α) = .py .valueError := rfl
theorem raise_post_ref : (raiseOf "post_aas_submodel_refs" 0 : Res α) = .http 409 := rfl
theorem raise_get_submodel_reference : (raiseOf "_get_submodel_reference" 0 : Res α) = .http 404 := rfl
theorem raise_post_elem : (raiseOf "post_submodel_submodel_elements_id_short_path" 0 : Res α) = .http 400 := rfl
theorem raise_expect_namespace : (raiseOf "_expect_namespace" 0 : Res α) = .http 400 := rfl
theorem raise_post_qual : (raiseOf "post_submodel_submodel_element_qualifiers" 0 : Res α) = .http 409 := rfl
theorem raise_put_qual : (raiseOf "put_submodel_submodel_element_qualifiers" 0 : Res α) = .http 409 := rfl

theorem catch_json_list : (catching "json_list" (.py .valueError) : Res α) = .http 422 := rfl
theorem catch_xml_key : (catching "xml" (.py .keyError) : Res α) = .http 422 := rfl
theorem catch_xml_value : (catching "xml" (.py .valueError) : Res α) = .http 422 := rfl
theorem catch_get_slice : (catching "_get_slice" (.py .valueError) : Res α) = .http 400 := rfl
theorem catch_post_aas : (catching "post_aas" (.py .keyError) : Res α) = .http 409 := rfl
theorem catch_post_submodel : (catching "post_submodel" (.py .keyError) : Res α) = .http 409 := rfl
theorem catch_post_cd : (catching "post_concept_description" (.py .keyError) : Res α) = .http 409 := rfl
theorem catch_nested_key : (catching "_get_nested_submodel_element" (.py .keyError) : Res α) = .http 404 := rfl
theorem catch_nested_type : (catching "_get_nested_submodel_element" (.py .typeError) : Res α) = .http 400 := rfl
theorem catch_post_elem_22 : (catching "post_submodel_submodel_elements_id_short_path" (.py (.aascv 22)) : Res α) = .http 409 := rfl
theorem catch_post_elem_117 : (catching "post_submodel_submodel_elements_id_short_path" (.py (.aascv 117)) : Res α) = .http 422 := rfl
theorem catch_ns_op : (catching "_namespace_submodel_element_op" (.py .keyError) : Res α) = .http 404 := rfl
theorem catch_qual_op : (catching "_qualifiable_qualifier_op" (.py .keyError) : Res α) = .http 404 := rfl
theorem catch_b64_binascii : (catching "base64url_decode" (.py .binasciiError) : Res α) = .http 400 := rfl
theorem catch_b64_unicode : (catching "base64url_decode" (.py .unicodeDecodeError) : Res α) = .http 400 := rfl
theorem catch_b64_value : (catching "base64url_decode" (.py .valueError) : Res α) = .http 400 := rfl
theorem catch_to_python_value : (catching "to_python" (.py .valueError) : Res α) = .http 400 := rfl
theorem catch_to_python_aascv : (catching "to_python" (.py (.aascv 2)) : Res α) = .http 400 := rfl
theorem swallow_sm_or_nested : swallows "_get_submodel_or_nested_submodel_element" .valueError = true := rfl
theorem throw_not_found : (throwClass "NotFound" : Res α) = .http 404 := rfl
theorem throw_method_not_allowed : (throwClass "MethodNotAllowed" : Res α) = .http 405 := rfl
end tables


/-! ## exception safety of handler computations -/

/-- 4xx codes the modelled handlers and the router answer with -/
def okCodes : List Nat := [400, 404, 405, 409, 415, 422]
def okStatus : List Nat := [200, 201, 204]

/-- store invariant: a dict (unique keys) in which every object is filed under its own identifier -/
structure Inv (s : St) : Prop where
  nodup : (AList.keys s.objs).Nodup
  ownId : ∀ k o, AList.get k s.objs = some o → o.id = k

/-- an exception that `Referable.update_from` itself lets through (class change below the replaced node) -/
def UFExc (e : PyExc) : Prop := ∃ self other, (updateFrom self other).2 = some e

/-- outcome of a handler computation started in `s`: a result keeps the invariant, an HTTP error leaves the state
    untouched and carries an allowed code, a Python exception can only be `update_from`'s -/
def GoodAt {α : Type} (Q : α → Prop) (s : St) (m : M α) : Prop :=
  match m s with
  | (s', .ok a) => Inv s' ∧ s'.fileBacked = s.fileBacked ∧ Q a
  | (s', .http c) => s' = s ∧ c ∈ okCodes
  | (s', .py e) => Inv s' ∧ s'.fileBacked = s.fileBacked ∧ UFExc e

@[simp] theorem M.bind_apply {α β : Type} (m : M α) (f : α → M β) (s : St) :
    (m >>= f) s = M.bind' m f s := rfl
@[simp] theorem M.pure_apply {α : Type} (a : α) (s : St) : (pure a : M α) s = (s, .ok a) := rfl
@[simp] theorem M.map_apply {α β : Type} (g : α → β) (m : M α) (s : St) :
    (g <$> m) s = M.bind' m (fun a => M.pure' (g a)) s := rfl

/-- sequencing after a step that does not change the state -/
theorem GoodAt.bind {α β : Type} {Q : β → Prop} {s : St} {m : M α} {f : α → M β}
    (h : match m s with
      | (s', .ok a) => s' = s ∧ GoodAt Q s (f a)
      | (s', .http c) => s' = s ∧ c ∈ okCodes
      | (s', .py e) => Inv s' ∧ s'.fileBacked = s.fileBacked ∧ UFExc e) :
    GoodAt Q s (m >>= f) := by
  unfold GoodAt
  simp only [M.bind_apply, M.bind']
  cases hm : m s with
  | mk s' res =>
    rw [hm] at h
    cases res with
    | ok a => obtain ⟨rfl, h⟩ := h; simpa [GoodAt] using h
    | http c => simpa using h
    | py e => simpa using h

/-- status of the `i`-th `response_t(...)` call of handler `fn` (extracted table) -/
def respStatus (fn : String) (i : Nat) : Nat := ((AList.get fn Gen.Routes.responses).bind (·[i]?)).elim 0 (·.1)

@[simp] theorem respStatus_mkResp (fn : String) (i : Nat) (r : Req) (loc : Option Loc) (body : Bool → RBody) :
    (mkResp fn i r loc body).status = respStatus fn i := by
  unfold mkResp respStatus
  cases (AList.get fn Gen.Routes.responses).bind (·[i]?) with
  | none => rfl
  | some x => obtain ⟨a, b, c⟩ := x; rfl

/-- `_get_obj_ts` reads the state only -/
theorem getObjTs_cases (id : String) (k : OKind) (s : St) :
    (∃ o, getObjTs id k s = (s, .ok o) ∧ AList.get id s.objs = some o ∧ o.kind = k) ∨
    (getObjTs id k s = (s, .http 404) ∧ ∀ o, AList.get id s.objs = some o → o.kind ≠ k) := by
  unfold getObjTs
  cases h : AList.get id s.objs with
  | none => right; simp [raise_get_obj_ts]
  | some o =>
    by_cases hk : o.kind = k
    · left; exact ⟨o, by simp [hk], rfl, hk⟩
    · right; simp [hk, raise_get_obj_ts]


theorem good_getObj (fn id : String) (k : OKind) (r : Req) (s : St) (hI : Inv s) (h0 : respStatus fn 0 ∈ okStatus) :
    GoodAt (fun resp => resp.status ∈ okStatus) s (getObj fn id k r) := by
  unfold getObj
  apply GoodAt.bind
  rcases getObjTs_cases id k s with ⟨o, h, _, _⟩ | ⟨h, _⟩ <;> rw [h]
  · refine ⟨rfl, ?_⟩
    simp [GoodAt, hI, h0]
  · simp [okCodes]


/-! ### decoding and paging never raise a Python exception -/

/-- the class handler `fn` asks the decoder for -/
def expectOf (fn : String) : Expect :=
  match (AList.get fn Gen.Routes.decodes).bind (·.head?) with
  | some (t, _) => if Gen.Routes.constructables.contains t then Expect.ofName t else .unmodelled
  | none => .unmodelled

theorem matchesExpect_strip (p : Payload) (ex : Expect) : p.strip.matchesExpect ex = p.matchesExpect ex := by
  cases p with
  | obj o => cases o <;> cases ex <;> rfl
  | elem e => cases e; cases ex <;> rfl
  | _ => cases ex <;> rfl

theorem requestBody_cases (fn : String) (r : Req) (h : expectOf fn ≠ .unmodelled) :
    (∃ p, requestBody fn r = .ok p ∧ p.matchesExpect (expectOf fn) = true) ∨
    requestBody fn r = .http 415 ∨ requestBody fn r = .http 422 := by
  unfold requestBody
  unfold expectOf at h ⊢
  cases hd : (AList.get fn Gen.Routes.decodes).bind (·.head?) with
  | none => rw [hd] at h; exact absurd rfl h
  | some tm =>
    obtain ⟨tname, mode⟩ := tm
    rw [hd] at h
    dsimp only at h ⊢
    by_cases hc : Gen.Routes.constructables.contains tname = true
    · rw [if_pos hc] at h ⊢
      by_cases hv : Gen.Routes.validContentTypes.contains r.ctype.mime = true
      · rw [if_neg (not_not_intro hv), if_neg (not_not_intro hc)]
        cases hb : r.body with
        | ok p =>
          simp only []
          by_cases hm : p.matchesExpect (Expect.ofName tname) = true
          · left
            rw [if_pos hm]
            by_cases hs : stripMode mode r = true
            · exact ⟨p.strip, by rw [if_pos hs], by rw [matchesExpect_strip]; exact hm⟩
            · exact ⟨p, by rw [if_neg hs], hm⟩
          · right; right
            rw [if_neg hm]
            by_cases hj : r.ctype = .json
            · rw [if_pos hj]; exact raise_assert_type
            · rw [if_neg hj, if_neg hj]; exact catch_xml_key
        | array =>
          right; right
          simp only []
          by_cases hj : r.ctype = .json
          · rw [if_pos hj]; exact raise_json_list_1
          · rw [if_neg hj, if_neg hj]; exact catch_xml_value
        | absent =>
          right; right
          simp only []
          by_cases hj : r.ctype = .json
          · rw [if_pos hj]; exact catch_json_list
          · rw [if_neg hj]; exact catch_xml_value
        | malformed =>
          right; right
          simp only []
          by_cases hj : r.ctype = .json
          · rw [if_pos hj]; exact catch_json_list
          · rw [if_neg hj]; exact catch_xml_value
      · right; left
        rw [if_pos hv]; exact raise_request_body
    · rw [if_neg hc] at h; exact absurd rfl h

theorem getSlice_cases {α : Type} (r : Req) (l : List α) :
    (∃ pg c, getSlice r l = .ok (pg, c)) ∨ getSlice r l = .http 400 := by
  unfold getSlice
  cases r.limit <;> cases r.cursor <;> simp only [] <;>
    first
    | (right; exact catch_get_slice)
    | (split
       · right; simp [raise_get_slice, catch_get_slice]
       · left; exact ⟨_, _, rfl⟩)

end Basyx.Repo
