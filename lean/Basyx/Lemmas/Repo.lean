/-
  Helper lemmas for the HTTP repository model (C10, C11): evaluation of the extracted tables at the call sites the
  handlers use (these are the side conditions that break when http.py changes an except clause / raise / status),
  the exception-safety predicate `Good` of handler computations and its proof for every modelled handler.
-/
import Basyx.Model.Repo
namespace Basyx.Repo
open Basyx

/-! ## the extracted tables at the call sites (kernel-evaluated; a changed table row fails here) -/

section tables
variable {α : Type}

theorem raise_get_obj_ts : (raiseOf "_get_obj_ts" 0 : Res α) = .http 404 := rfl
theorem raise_request_body : (raiseOf "request_body" 0 : Res α) = .http 415 := rfl
theorem raise_assert_type : (raiseOf "assert_type" 0 : Res α) = .http 422 := rfl
theorem raise_json_list_1 : (raiseOf "json_list" 1 : Res α) = .http 422 := rfl
theorem raise_get_slice : (raiseOf "_get_slice" 0 : Res α) = .py .valueError := rfl
theorem raise_not_implemented : (raiseOf "not_implemented" 0 : Res α) = .http 501 := rfl
theorem raise_same_identity_0 : (raiseOf "_expect_same_identity" 0 : Res α) = .http 400 := rfl
theorem raise_same_identity_1 : (raiseOf "_expect_same_identity" 1 : Res α) = .http 400 := rfl
theorem raise_same_identity_2 : (raiseOf "_expect_same_identity" 2 : Res α) = .http 400 := rfl
theorem raise_get_nested : (raiseOf "_get_nested_submodel_element" 0 : Res α) = .py .valueError := rfl
theorem raise_post_ref : (raiseOf "post_aas_submodel_refs" 0 : Res α) = .http 409 := rfl
theorem raise_get_submodel_reference : (raiseOf "_get_submodel_reference" 0 : Res α) = .http 404 := rfl
theorem raise_post_elem : (raiseOf "post_submodel_submodel_elements_id_short_path" 0 : Res α) = .http 400 := rfl
theorem raise_expect_namespace : (raiseOf "_expect_namespace" 0 : Res α) = .http 400 := rfl
theorem raise_post_qual : (raiseOf "post_submodel_submodel_element_qualifiers" 0 : Res α) = .http 409 := rfl
theorem raise_put_qual : (raiseOf "put_submodel_submodel_element_qualifiers" 0 : Res α) = .http 409 := rfl

theorem catch_json_list : (catching "json_list" (.py .valueError) : Res α) = .http 422 := rfl
theorem catch_json_list_recursion : (catching "json_list" (.py .recursionError) : Res α) = .http 422 := rfl
theorem catch_xml_syntax : (catching "xml" (.py .xmlSyntaxError) : Res α) = .http 422 := rfl
theorem catch_xml_type : (catching "xml" (.py .typeError) : Res α) = .http 422 := rfl
theorem catch_xml_key : (catching "xml" (.py .keyError) : Res α) = .http 422 := rfl
theorem catch_xml_value : (catching "xml" (.py .valueError) : Res α) = .http 422 := rfl
theorem catch_get_slice : (catching "_get_slice" (.py .valueError) : Res α) = .http 400 := rfl
theorem catch_post_aas : (catching "post_aas" (.py .keyError) : Res α) = .http 409 := rfl
theorem catch_post_submodel : (catching "post_submodel" (.py .keyError) : Res α) = .http 409 := rfl
theorem catch_post_cd : (catching "post_concept_description" (.py .keyError) : Res α) = .http 409 := rfl
theorem catch_nested_key : (catching "_get_nested_submodel_element" (.py .keyError) : Res α) = .http 404 := rfl
theorem catch_nested_type : (catching "_get_nested_submodel_element" (.py .typeError) : Res α) = .http 400 := rfl
theorem catch_post_elem_22 : (catching "post_submodel_submodel_elements_id_short_path" (.py (.aascv 22)) : Res α) = .http 409 := rfl
theorem catch_post_elem_117 : (catching "post_submodel_submodel_elements_id_short_path" (.py (.aascv 117)) : Res α) = .http 422 := rfl
theorem catch_ns_op : (catching "_namespace_submodel_element_op" (.py .keyError) : Res α) = .http 404 := rfl
theorem catch_qual_op : (catching "_qualifiable_qualifier_op" (.py .keyError) : Res α) = .http 404 := rfl
theorem catch_b64_binascii : (catching "base64url_decode" (.py .binasciiError) : Res α) = .http 400 := rfl
theorem catch_b64_unicode : (catching "base64url_decode" (.py .unicodeDecodeError) : Res α) = .http 400 := rfl
theorem catch_b64_value : (catching "base64url_decode" (.py .valueError) : Res α) = .http 400 := rfl
theorem catch_to_python_value : (catching "to_python" (.py .valueError) : Res α) = .http 400 := rfl
theorem catch_to_python_aascv : (catching "to_python" (.py (.aascv 2)) : Res α) = .http 400 := rfl
theorem swallow_sm_or_nested : swallows "_get_submodel_or_nested_submodel_element" .valueError = true := rfl
theorem throw_not_found : (throwClass "NotFound" : Res α) = .http 404 := rfl
theorem throw_method_not_allowed : (throwClass "MethodNotAllowed" : Res α) = .http 405 := rfl
end tables


/-! ## exception safety of handler computations -/

/-- 4xx codes the modelled handlers and the router answer with -/
def okCodes : List Nat := [400, 404, 405, 409, 415, 422]
def okStatus : List Nat := [200, 201, 204]

/-- store invariant: a dict (unique keys) in which every object is filed under its own identifier -/
structure InvL (l : List (String × Obj)) : Prop where
  nodup : (AList.keys l).Nodup
  ownId : ∀ k o, AList.get k l = some o → o.id = k

def Inv (s : St) : Prop := InvL s.objs

@[simp] theorem Inv_mk (l : List (String × Obj)) (fb : Bool) : Inv ⟨l, fb⟩ ↔ InvL l := Iff.rfl

/-- an exception that `Referable.update_from` itself lets through (class change below the replaced node) -/
def UFExc (e : PyExc) : Prop := ∃ self other, (updateFrom self other).2 = some e

/-- outcome of a handler computation started in `s`: a result keeps the invariant, an HTTP error leaves the state
    untouched and carries an allowed code, a Python exception can only be `update_from`'s -/
def GoodAt {α : Type} (Q : α → Prop) (s : St) (m : M α) : Prop :=
  match m s with
  | (s', .ok a) => Inv s' ∧ s'.fileBacked = s.fileBacked ∧ Q a
  | (s', .http c) => s' = s ∧ c ∈ okCodes
  | (s', .py e) => Inv s' ∧ s'.fileBacked = s.fileBacked ∧ UFExc e

@[simp] theorem M.bind_apply {α β : Type} (m : M α) (f : α → M β) (s : St) :
    (m >>= f) s = M.bind' m f s := rfl
@[simp] theorem M.pure_apply {α : Type} (a : α) (s : St) : (pure a : M α) s = (s, .ok a) := rfl
@[simp] theorem M.map_apply {α β : Type} (g : α → β) (m : M α) (s : St) :
    (g <$> m) s = M.bind' m (fun a => M.pure' (g a)) s := rfl

/-- sequencing after a step that does not change the state -/
theorem GoodAt.bind {α β : Type} {Q : β → Prop} {s : St} {m : M α} {f : α → M β}
    (h : match m s with
      | (s', .ok a) => s' = s ∧ GoodAt Q s (f a)
      | (s', .http c) => s' = s ∧ c ∈ okCodes
      | (s', .py e) => Inv s' ∧ s'.fileBacked = s.fileBacked ∧ UFExc e) :
    GoodAt Q s (m >>= f) := by
  unfold GoodAt
  simp only [M.bind_apply, M.bind']
  cases hm : m s with
  | mk s' res =>
    rw [hm] at h
    cases res with
    | ok a => obtain ⟨rfl, h⟩ := h; simpa [GoodAt] using h
    | http c => simpa using h
    | py e => simpa using h

/-- status of the `i`-th `response_t(...)` call of handler `fn` (extracted table) -/
def respStatus (fn : String) (i : Nat) : Nat := ((AList.get fn Gen.Routes.responses).bind (·[i]?)).elim 0 (·.1)

@[simp] theorem respStatus_mkResp (fn : String) (i : Nat) (r : Req) (loc : Option Loc) (body : Bool → RBody) :
    (mkResp fn i r loc body).status = respStatus fn i := by
  unfold mkResp respStatus
  cases (AList.get fn Gen.Routes.responses).bind (·[i]?) with
  | none => rfl
  | some x => obtain ⟨a, b, c⟩ := x; rfl

/-- `_get_obj_ts` reads the state only -/
theorem getObjTs_cases (id : String) (k : OKind) (s : St) :
    (∃ o, getObjTs id k s = (s, .ok o) ∧ AList.get id s.objs = some o ∧ o.kind = k) ∨
    (getObjTs id k s = (s, .http 404) ∧ ∀ o, AList.get id s.objs = some o → o.kind ≠ k) := by
  unfold getObjTs
  cases h : AList.get id s.objs with
  | none => right; simp [raise_get_obj_ts]
  | some o =>
    by_cases hk : o.kind = k
    · left; exact ⟨o, by simp [hk], rfl, hk⟩
    · right; simp [hk, raise_get_obj_ts]


theorem good_getObj (fn id : String) (k : OKind) (r : Req) (s : St) (hI : Inv s) (h0 : respStatus fn 0 ∈ okStatus) :
    GoodAt (fun resp => resp.status ∈ okStatus) s (getObj fn id k r) := by
  unfold getObj
  apply GoodAt.bind
  rcases getObjTs_cases id k s with ⟨o, h, _, _⟩ | ⟨h, _⟩ <;> rw [h]
  · refine ⟨rfl, ?_⟩
    simp [GoodAt, hI, h0]
  · simp [okCodes]


/-! ### decoding and paging never raise a Python exception -/

/-- the class handler `fn` asks the decoder for -/
def expectOf (fn : String) : Expect :=
  match (AList.get fn Gen.Routes.decodes).bind (·.head?) with
  | some (t, _) => if Gen.Routes.constructables.contains t then Expect.ofName t else .unmodelled
  | none => .unmodelled

theorem matchesExpect_strip (p : Payload) (ex : Expect) : p.strip.matchesExpect ex = p.matchesExpect ex := by
  cases p with
  | obj o => cases o <;> cases ex <;> rfl
  | elem e => cases e; cases ex <;> rfl
  | _ => cases ex <;> rfl

theorem requestBody_cases (fn : String) (r : Req) (h : expectOf fn ≠ .unmodelled) :
    (∃ p, requestBody fn r = .ok p ∧ p.matchesExpect (expectOf fn) = true) ∨
    requestBody fn r = .http 415 ∨ requestBody fn r = .http 422 := by
  unfold requestBody
  unfold expectOf at h ⊢
  cases hd : (AList.get fn Gen.Routes.decodes).bind (·.head?) with
  | none => rw [hd] at h; exact absurd rfl h
  | some tm =>
    obtain ⟨tname, mode⟩ := tm
    rw [hd] at h
    dsimp only at h ⊢
    by_cases hc : Gen.Routes.constructables.contains tname = true
    · rw [if_pos hc] at h ⊢
      by_cases hv : Gen.Routes.validContentTypes.contains r.ctype.mime = true
      · rw [if_neg (not_not_intro hv), if_neg (not_not_intro hc)]
        cases hb : r.body with
        | ok p =>
          simp only []
          by_cases hm : p.matchesExpect (Expect.ofName tname) = true
          · left
            rw [if_pos hm]
            by_cases hs : stripMode mode r = true
            · exact ⟨p.strip, by rw [if_pos hs], by rw [matchesExpect_strip]; exact hm⟩
            · exact ⟨p, by rw [if_neg hs], hm⟩
          · right; right
            rw [if_neg hm]
            by_cases hj : r.ctype = .json
            · rw [if_pos hj]; exact raise_assert_type
            · rw [if_neg hj, if_neg hj]; exact catch_xml_key
        | array =>
          right; right
          simp only []
          by_cases hj : r.ctype = .json
          · rw [if_pos hj]; exact raise_json_list_1
          · rw [if_neg hj, if_neg hj]; exact catch_xml_value
        | absent =>
          right; right
          simp only []
          by_cases hj : r.ctype = .json
          · rw [if_pos hj]; exact catch_json_list
          · rw [if_neg hj]; exact catch_xml_value
        | malformed =>
          right; right
          simp only []
          by_cases hj : r.ctype = .json
          · rw [if_pos hj]; exact catch_json_list
          · rw [if_neg hj]; exact catch_xml_value
        | tooDeep =>
          right; right
          simp only []
          by_cases hj : r.ctype = .json
          · rw [if_pos hj, if_pos hj]; exact catch_json_list_recursion
          · rw [if_neg hj, if_neg hj]; exact catch_xml_syntax
      · right; left
        rw [if_pos hv]; exact raise_request_body
    · rw [if_neg hc] at h; exact absurd rfl h

theorem getSlice_cases {α : Type} (r : Req) (l : List α) :
    (∃ pg c, getSlice r l = .ok (pg, c)) ∨ getSlice r l = .http 400 := by
  unfold getSlice
  cases r.limit <;> cases r.cursor <;> simp only [] <;>
    first
    | (right; exact catch_get_slice)
    | (split
       · right; simp [raise_get_slice, catch_get_slice]
       · left; exact ⟨_, _, rfl⟩)


/-! ### store mutations keep the invariant -/

theorem inv_init (fb : Bool) : Inv ⟨[], fb⟩ := ⟨by simp [AList.keys], by intro k o h; simp at h⟩

theorem inv_set {l : List (String × Obj)} (hI : InvL l) {id : String} {o : Obj} (ho : o.id = id) :
    InvL (AList.set id o l) := by
  refine ⟨AList.nodup_keys_set hI.nodup, ?_⟩
  intro k o' hg
  by_cases hk : k = id
  · subst hk; simp at hg; subst hg; exact ho
  · rw [AList.get_set_other _ _ hk] at hg; exact hI.ownId k o' hg

theorem inv_erase {l : List (String × Obj)} (hI : InvL l) (k : String) : InvL (AList.erase k l) := by
  refine ⟨AList.nodup_keys_erase hI.nodup, ?_⟩
  intro k' o' hg
  by_cases hk : k' = k
  · subst hk; rw [AList.get_erase_same_of_nodup hI.nodup] at hg; cases hg
  · rw [AList.get_erase_other _ hk] at hg; exact hI.ownId k' o' hg

/-- the mutating tail of a handler: change the loaded object, commit, answer -/
theorem good_tail {α : Type} {Q : α → Prop} {s : St} (hI : Inv s) {id : String} {o : Obj} (ho : o.id = id) (n : Nat)
    {a : α} (hq : Q a) :
    GoodAt Q s (live id o >>= fun _ => commitObj n id o >>= fun _ => pure a) := by
  unfold GoodAt
  simp only [M.bind_apply, M.bind', live, commitObj]
  have h1 : InvL (AList.set id o s.objs) := inv_set hI ho
  have h0 : InvL s.objs := hI
  by_cases hf : s.fileBacked = true
  · by_cases hn : n > 0
    · simp [hf, hn, hq, h1]
    · simp [hf, hn, hq, h0, Inv]
  · simp [hf, hq, h1]

theorem good_listPage {s : St} (hI : Inv s) (fn : String) (r : Req) (items : List Item)
    (h0 : respStatus fn 0 ∈ okStatus) :
    GoodAt (fun resp => resp.status ∈ okStatus) s (listPage fn r items) := by
  unfold listPage
  apply GoodAt.bind
  rcases getSlice_cases r items with ⟨pg, c, h⟩ | h <;> simp only [liftR, h]
  · exact ⟨trivial, by simp [GoodAt, hI, h0]⟩
  · simp [okCodes]

theorem good_listObjs {s : St} (hI : Inv s) (fn : String) (k : OKind) (r : Req)
    (h0 : respStatus fn 0 ∈ okStatus) :
    GoodAt (fun resp => resp.status ∈ okStatus) s (listObjs fn k r) := by
  unfold listObjs
  apply GoodAt.bind
  simp only [getSt]
  exact ⟨trivial, good_listPage hI fn r _ h0⟩

theorem good_deleteObj {s : St} (hI : Inv s) (fn id : String) (k : OKind) (r : Req)
    (h0 : respStatus fn 0 ∈ okStatus) :
    GoodAt (fun resp => resp.status ∈ okStatus) s (deleteObj fn id k r) := by
  unfold deleteObj
  apply GoodAt.bind
  rcases getObjTs_cases id k s with ⟨o, h, hg, _⟩ | ⟨h, _⟩ <;> rw [h]
  · refine ⟨rfl, ?_⟩
    have hid := hI.ownId id o hg
    unfold GoodAt
    have h1 : InvL (AList.erase id s.objs) := inv_erase hI id
    simp [M.bind', storeRemove, hid, h0, h1]
  · simp [okCodes]


theorem payload_obj_of_matches {p : Payload} {ex : Expect} (hex : ex = .shell ∨ ex = .sm ∨ ex = .cd)
    (hm : p.matchesExpect ex = true) : ∃ o, p = .obj o := by
  cases p with
  | obj o => exact ⟨o, rfl⟩
  | elem e => rcases hex with h | h | h <;> subst h <;> simp [Payload.matchesExpect] at hm
  | qual t v => rcases hex with h | h | h <;> subst h <;> simp [Payload.matchesExpect] at hm
  | ref i => rcases hex with h | h | h <;> subst h <;> simp [Payload.matchesExpect] at hm
  | other => rcases hex with h | h | h <;> subst h <;> simp [Payload.matchesExpect] at hm

theorem catching_ok {α : Type} (fn : String) (a : α) : catching fn (.ok a) = .ok a := rfl
theorem catching_http {α : Type} (fn : String) (c : Nat) : (catching fn (.http c) : Res α) = .http c := rfl

theorem good_postObj {s : St} (hI : Inv s) (fn : String) (loc : String → Loc) (r : Req)
    (hex : expectOf fn = .shell ∨ expectOf fn = .sm ∨ expectOf fn = .cd)
    (hc : (catching fn (.py .keyError) : Res Unit) = .http 409) (h0 : respStatus fn 0 ∈ okStatus) :
    GoodAt (fun resp => resp.status ∈ okStatus) s (postObj fn loc r) := by
  unfold postObj
  apply GoodAt.bind
  have hne : expectOf fn ≠ .unmodelled := by rcases hex with h | h | h <;> rw [h] <;> decide
  rcases requestBody_cases fn r hne with ⟨p, hp, hm⟩ | h | h
  · simp only [liftR, hp]
    refine ⟨trivial, ?_⟩
    obtain ⟨o, rfl⟩ := payload_obj_of_matches hex hm
    simp only []
    unfold GoodAt
    simp only [M.bind_apply, M.bind', storeAdd, tryM, commitObj]
    by_cases hh : AList.has o.id s.objs = true
    · simp [hh, hc, okCodes]
    · have h1 : InvL (AList.set o.id o s.objs) := inv_set hI rfl
      have h2 : InvL (AList.set o.id o (AList.set o.id o s.objs)) := inv_set h1 rfl
      by_cases hf : s.fileBacked = true <;> by_cases hn : commitsOf fn > 0 <;>
        simp [hh, hf, hn, catching_ok, h0, h1, h2]
  · simp [liftR, h, okCodes]
  · simp [liftR, h, okCodes]


theorem objUpdateFrom_spec {o n : Obj} (hk : o.kind = n.kind) :
    (objUpdateFrom o n).1.id = n.id ∧ (objUpdateFrom o n).1.kind = n.kind ∧
      (∀ e, (objUpdateFrom o n).2 = some e → UFExc e) := by
  cases o <;> cases n <;> simp [Obj.kind] at hk <;> simp [objUpdateFrom, Obj.id, Obj.kind]
  rename_i i root j nroot
  intro e he
  exact ⟨root, nroot, he⟩

theorem expectSameId_cases (o n : Obj) :
    (expectSameId o n = .ok () ∧ o.kind = n.kind ∧ n.id = o.id) ∨ expectSameId o n = .http 400 := by
  unfold expectSameId
  by_cases hk : o.kind = n.kind
  · by_cases hi : n.id = o.id
    · left; simp [hk, hi]
    · right; simp [hk, hi, raise_same_identity_1]
  · right; simp [hk, raise_same_identity_0]

theorem good_putObj {s : St} (hI : Inv s) (fn id : String) (k : OKind) (r : Req)
    (hex : expectOf fn = .shell ∨ expectOf fn = .sm ∨ expectOf fn = .cd) (h0 : respStatus fn 0 ∈ okStatus) :
    GoodAt (fun resp => resp.status ∈ okStatus) s (putObj fn id k r) := by
  unfold putObj
  apply GoodAt.bind
  rcases getObjTs_cases id k s with ⟨o, h, hg, _⟩ | ⟨h, _⟩ <;> rw [h]
  · refine ⟨rfl, ?_⟩
    have hid := hI.ownId id o hg
    apply GoodAt.bind
    have hne : expectOf fn ≠ .unmodelled := by rcases hex with h | h | h <;> rw [h] <;> decide
    rcases requestBody_cases fn r hne with ⟨p, hp, hm⟩ | h | h
    · simp only [liftR, hp]
      refine ⟨trivial, ?_⟩
      obtain ⟨n, rfl⟩ := payload_obj_of_matches hex hm
      simp only []
      apply GoodAt.bind
      rcases expectSameId_cases o n with ⟨he, hk, hi⟩ | he <;> simp only [liftR, he]
      · refine ⟨trivial, ?_⟩
        obtain ⟨h1, _, h3⟩ := objUpdateFrom_spec hk
        have hid' : (objUpdateFrom o n).1.id = id := by rw [h1, hi, hid]
        have hs1 : InvL (AList.set id (objUpdateFrom o n).1 s.objs) := inv_set hI hid'
        cases herr : (objUpdateFrom o n).2 with
        | none =>
          have := good_tail (Q := fun resp : Resp => resp.status ∈ okStatus) hI hid' (commitsOf fn)
            (a := mkResp fn 0 r none (fun _ => .empty)) (by simpa using h0)
          unfold GoodAt at this ⊢
          simpa [M.bind', herr] using this
        | some e =>
          have hu := h3 e herr
          unfold GoodAt
          by_cases hf : s.fileBacked = true
          · simp [M.bind', live, liftR, herr, hf, hu]; exact hI
          · simp [M.bind', live, liftR, herr, hf, hu, hs1]
      · simp [okCodes]
    · simp [liftR, h, okCodes]
    · simp [liftR, h, okCodes]
  · simp [okCodes]


/-! ### nested elements, qualifiers, references -/

theorem getReferable_cases (root : Elem) (path : List String) :
    (∃ e, getReferable root path = .ok e) ∨ getReferable root path = .py .keyError ∨
      getReferable root path = .py .typeError := by
  induction path generalizing root with
  | nil => left; exact ⟨root, rfl⟩
  | cons k rest ih =>
    unfold getReferable
    by_cases hn : root.isNamespace = true
    · simp only [hn, not_true_eq_false, if_false]
      cases findKey k root.ch with
      | none => right; left; rfl
      | some c => exact ih c
    · right; right; simp [hn]

theorem getNested_cons_cases (root : Elem) (x : String) (xs : List String) :
    (∃ e, getNested root (x :: xs) = .ok e ∧ getReferable root (x :: xs) = .ok e) ∨
      getNested root (x :: xs) = .http 404 ∨ getNested root (x :: xs) = .http 400 := by
  unfold getNested
  simp only [List.isEmpty_cons, Bool.false_eq_true, if_false]
  rcases getReferable_cases root (x :: xs) with ⟨e, h⟩ | h | h <;> rw [h]
  · left; exact ⟨e, rfl, rfl⟩
  · right; left; exact catch_nested_key
  · right; right; exact catch_nested_type

theorem getNested_nil (root : Elem) : getNested root [] = .py .valueError := by
  simp [getNested, raise_get_nested]

/-- `_get_submodel_or_nested_submodel_element` reads the state only; the path it returns resolves to the target -/
theorem getSmOrNested_cases (a : Args) (s : St) :
    (∃ sm path e, getSmOrNested a s = (s, .ok (sm, path, e)) ∧ AList.get a.smId s.objs = some sm ∧
        getReferable sm.root path = .ok e) ∨
    (∃ c, getSmOrNested a s = (s, .http c) ∧ c ∈ okCodes) := by
  unfold getSmOrNested
  simp only [M.bind_apply, M.bind']
  rcases getObjTs_cases a.smId .sm s with ⟨sm, h, hg, _⟩ | ⟨h, _⟩ <;> rw [h]
  · simp only []
    cases hp : a.idShorts.getD [] with
    | nil =>
      left
      refine ⟨sm, [], sm.root, ?_, hg, rfl⟩
      simp [getNested_nil, swallow_sm_or_nested]
    | cons x xs =>
      rcases getNested_cons_cases sm.root x xs with ⟨e, h1, h2⟩ | h1 | h1 <;> rw [h1]
      · left; exact ⟨sm, x :: xs, e, rfl, hg, h2⟩
      · right; exact ⟨404, rfl, by simp [okCodes]⟩
      · right; exact ⟨400, rfl, by simp [okCodes]⟩
  · right; exact ⟨404, rfl, by simp [okCodes]⟩

theorem smWithRoot_id (sm : Obj) (root : Elem) : (smWithRoot sm root).id = sm.id := rfl

/-- shape shared by every handler that changes one stored submodel and answers -/
theorem good_sm_tail {s : St} (hI : Inv s) {smId : String} {sm : Obj} (hg : AList.get smId s.objs = some sm)
    (root : Elem) (n : Nat) {resp : Resp} (hq : resp.status ∈ okStatus) :
    GoodAt (fun resp => resp.status ∈ okStatus) s
      (live smId (smWithRoot sm root) >>= fun _ => commitObj n smId (smWithRoot sm root) >>= fun _ => pure resp) :=
  good_tail hI (by rw [smWithRoot_id]; exact hI.ownId smId sm hg) n hq

theorem payload_elem_of_matches {p : Payload} (hm : p.matchesExpect .elem = true) : ∃ e, p = .elem e := by
  cases p with
  | elem e => exact ⟨e, rfl⟩
  | obj o => cases o <;> simp [Payload.matchesExpect] at hm
  | _ => simp [Payload.matchesExpect] at hm

theorem payload_qual_of_matches {p : Payload} (hm : p.matchesExpect .qual = true) : ∃ t v, p = .qual t v := by
  cases p with
  | qual t v => exact ⟨t, v, rfl⟩
  | obj o => cases o <;> simp [Payload.matchesExpect] at hm
  | _ => simp [Payload.matchesExpect] at hm

theorem payload_ref_of_matches {p : Payload} (hm : p.matchesExpect .ref = true) : ∃ i, p = .ref i := by
  cases p with
  | ref i => exact ⟨i, rfl⟩
  | obj o => cases o <;> simp [Payload.matchesExpect] at hm
  | _ => simp [Payload.matchesExpect] at hm

theorem addReferable_cases (parent n : Elem) :
    (∃ p', addReferable parent n = .ok p') ∨ addReferable parent n = .py (.aascv 117) ∨
      addReferable parent n = .py (.aascv 22) := by
  unfold addReferable
  cases n.idShort with
  | none => right; left; rfl
  | some k =>
    simp only []
    by_cases h : (findKey k parent.ch).isSome = true
    · right; right; simp [h]
    · left; exact ⟨parent.withCh (parent.ch ++ [n.withKey k]), by simp [h]⟩

theorem removeReferable_cases (parent : Elem) (k : String) :
    (∃ p', removeReferable parent k = .ok p') ∨ removeReferable parent k = .py .keyError := by
  unfold removeReferable
  cases findKey k parent.ch with
  | none => right; rfl
  | some item =>
    simp only []
    unfold nssRemove
    cases item.idShort with
    | none => right; rfl
    | some k' =>
      simp only []
      cases findKey k' parent.ch with
      | none => right; rfl
      | some x =>
        simp only []
        by_cases hx : x.key = item.key
        · left; exact ⟨parent.withCh (eraseKey k' parent.ch), by simp [hx, Bind.bind, Res.bind, pure]⟩
        · right; simp [hx, Bind.bind, Res.bind]


abbrev QS : Resp → Prop := fun resp => resp.status ∈ okStatus

theorem qs_mk {fn : String} {i : Nat} (h0 : respStatus fn i ∈ okStatus) (r : Req) (loc : Option Loc) (body : Bool → RBody) :
    QS (mkResp fn i r loc body) := by
  show (mkResp fn i r loc body).status ∈ okStatus
  rw [respStatus_mkResp]; exact h0

macro "triv" : tactic => `(tactic| first | rfl | trivial)

theorem good_http {α : Type} {Q : α → Prop} {s : St} {c : Nat} (hc : c ∈ okCodes) : GoodAt Q s (liftR (.http c)) := by
  simp [GoodAt, liftR, hc]

theorem good_pure {α : Type} {Q : α → Prop} {s : St} (hI : Inv s) {a : α} (hq : Q a) : GoodAt Q s (pure a) := by
  simp [GoodAt, hI, hq]

theorem good_getRefs {s : St} (hI : Inv s) (ep : String) (a : Args) (r : Req) (h0 : respStatus ep 0 ∈ okStatus) :
    GoodAt QS s (getRefs ep a r) := by
  unfold getRefs
  apply GoodAt.bind
  rcases getObjTs_cases a.aasId .shell s with ⟨o, h, hg, hk⟩ | ⟨h, _⟩ <;> rw [h]
  · refine ⟨rfl, ?_⟩
    cases o with
    | shell i ids t refs => exact good_listPage hI ep r _ h0
    | sm i root => simp [Obj.kind] at hk
    | cd i ids t => simp [Obj.kind] at hk
  · simp [okCodes]

theorem good_postRef {s : St} (hI : Inv s) (ep : String) (a : Args) (r : Req) (hex : expectOf ep = .ref)
    (hr : (raiseOf ep 0 : Res Resp) = .http 409) (h0 : respStatus ep 0 ∈ okStatus) :
    GoodAt QS s (postRef ep a r) := by
  unfold postRef
  apply GoodAt.bind
  rcases getObjTs_cases a.aasId .shell s with ⟨o, h, hg, hk⟩ | ⟨h, _⟩ <;> rw [h]
  · refine ⟨rfl, ?_⟩
    apply GoodAt.bind
    rcases requestBody_cases ep r (by rw [hex]; decide) with ⟨p, hp, hm⟩ | h | h
    · simp only [liftR, hp]
      refine ⟨trivial, ?_⟩
      rw [hex] at hm
      obtain ⟨x, rfl⟩ := payload_ref_of_matches hm
      cases o with
      | shell i ids t refs =>
        simp only []
        have hid : i = a.aasId := hI.ownId _ _ hg
        by_cases hc : refs.contains x = true
        · simp only [hc, if_true, hr]; exact good_http (by simp [okCodes])
        · simp only [hc]
          exact good_tail hI (by simp [Obj.id, hid]) _ (qs_mk h0 _ _ _)
      | sm i root => simp [Obj.kind] at hk
      | cd i ids t => simp [Obj.kind] at hk
    · simp [liftR, h, okCodes]
    · simp [liftR, h, okCodes]
  · simp [okCodes]

theorem good_deleteRef {s : St} (hI : Inv s) (ep : String) (a : Args) (r : Req) (h0 : respStatus ep 0 ∈ okStatus) :
    GoodAt QS s (deleteRef ep a r) := by
  unfold deleteRef
  apply GoodAt.bind
  rcases getObjTs_cases a.aasId .shell s with ⟨o, h, hg, hk⟩ | ⟨h, _⟩ <;> rw [h]
  · refine ⟨rfl, ?_⟩
    cases o with
    | shell i ids t refs =>
      simp only []
      have hid : i = a.aasId := hI.ownId _ _ hg
      by_cases hc : refs.contains a.smId = true
      · simp only [hc, not_true_eq_false, if_false]
        exact good_tail hI (by simp [Obj.id, hid]) _ (qs_mk h0 _ _ _)
      · simp only [hc, not_false_eq_true, if_true, raise_get_submodel_reference]
        exact good_http (by simp [okCodes])
    | sm i root => simp [Obj.kind] at hk
    | cd i ids t => simp [Obj.kind] at hk
  · simp [okCodes]

theorem good_listElems {s : St} (hI : Inv s) (ep : String) (a : Args) (r : Req) (h0 : respStatus ep 0 ∈ okStatus) :
    GoodAt QS s (listElems ep a r) := by
  unfold listElems
  apply GoodAt.bind
  rcases getObjTs_cases a.smId .sm s with ⟨o, h, hg, hk⟩ | ⟨h, _⟩ <;> rw [h]
  · exact ⟨rfl, good_listPage hI ep r _ h0⟩
  · simp [okCodes]

theorem good_getElem {s : St} (hI : Inv s) (ep : String) (a : Args) (x : String) (xs : List String) (r : Req)
    (h0 : respStatus ep 0 ∈ okStatus) : GoodAt QS s (getElem ep a (x :: xs) r) := by
  unfold getElem
  apply GoodAt.bind
  rcases getObjTs_cases a.smId .sm s with ⟨o, h, hg, hk⟩ | ⟨h, _⟩ <;> rw [h]
  · refine ⟨rfl, ?_⟩
    apply GoodAt.bind
    rcases getNested_cons_cases o.root x xs with ⟨e, h1, _⟩ | h1 | h1 <;> simp only [liftR, h1]
    · exact ⟨trivial, good_pure hI (qs_mk h0 _ _ _)⟩
    · simp [okCodes]
    · simp [okCodes]
  · simp [okCodes]

theorem good_postElem {s : St} (hI : Inv s) (a : Args) (r : Req) :
    GoodAt QS s (postElem "post_submodel_submodel_elements_id_short_path" a r) := by
  unfold postElem
  apply GoodAt.bind
  rcases getSmOrNested_cases a s with ⟨sm, path, parent, h, hg, _⟩ | ⟨c, h, hc⟩ <;> rw [h]
  · refine ⟨rfl, ?_⟩
    simp only []
    by_cases hn : parent.isNamespace = true
    · simp only [hn, not_true_eq_false, if_false]
      apply GoodAt.bind
      rcases requestBody_cases "post_submodel_submodel_elements_id_short_path" r (by decide) with ⟨p, hp, hm⟩ | h | h
      · simp only [liftR, hp]
        refine ⟨trivial, ?_⟩
        obtain ⟨n, rfl⟩ := payload_elem_of_matches hm
        simp only []
        apply GoodAt.bind
        rcases addReferable_cases parent n with ⟨p', h1⟩ | h1 | h1 <;> simp only [liftR, h1]
        · refine ⟨by triv, ?_⟩
          exact good_sm_tail hI hg _ _ (qs_mk (by decide) _ _ _)
        · rw [catch_post_elem_117]; simp [okCodes]
        · rw [catch_post_elem_22]; simp [okCodes]
      · simp [liftR, h, okCodes]
      · simp [liftR, h, okCodes]
    · simp only [hn, not_false_eq_true, if_true, raise_post_elem]
      exact good_http (by simp [okCodes])
  · exact ⟨rfl, hc⟩


theorem expectSameElem_cases (e n : Elem) :
    (expectSameElem e n = .ok () ∧ e.kind = n.kind ∧ n.idShort = e.idShort) ∨ expectSameElem e n = .http 400 := by
  unfold expectSameElem
  by_cases hk : e.kind = n.kind
  · by_cases hi : n.idShort = e.idShort
    · left; simp [hk, hi]
    · right; simp [hk, hi, raise_same_identity_2]
  · right; simp [hk, raise_same_identity_0]

theorem good_putElem {s : St} (hI : Inv s) (a : Args) (x : String) (xs : List String) (r : Req) :
    GoodAt QS s (putElem "put_submodel_submodel_elements_id_short_path" a (x :: xs) r) := by
  unfold putElem
  apply GoodAt.bind
  rcases getObjTs_cases a.smId .sm s with ⟨sm, h, hg, hk⟩ | ⟨h, _⟩ <;> rw [h]
  · refine ⟨rfl, ?_⟩
    have hid : sm.id = a.smId := hI.ownId _ _ hg
    apply GoodAt.bind
    rcases getNested_cons_cases sm.root x xs with ⟨e, h1, _⟩ | h1 | h1 <;> simp only [liftR, h1]
    · refine ⟨by triv, ?_⟩
      apply GoodAt.bind
      rcases requestBody_cases "put_submodel_submodel_elements_id_short_path" r (by decide) with ⟨p, hp, hm⟩ | h | h
      · simp only [liftR, hp]
        refine ⟨by triv, ?_⟩
        obtain ⟨n, rfl⟩ := payload_elem_of_matches hm
        simp only []
        apply GoodAt.bind
        rcases expectSameElem_cases e n with ⟨he, _, _⟩ | he <;> simp only [liftR, he]
        · refine ⟨by triv, ?_⟩
          cases herr : (updateFrom e n).2 with
          | none =>
            have := good_sm_tail hI hg (modifyAt (fun _ => (updateFrom e n).1) sm.root (x :: xs))
              (commitsOf "put_submodel_submodel_elements_id_short_path")
              (resp := mkResp "put_submodel_submodel_elements_id_short_path" 0 r none (fun _ => .empty))
              (qs_mk (by decide) _ _ _)
            unfold GoodAt at this ⊢
            simpa [M.bind', herr] using this
          | some err =>
            have hu : UFExc err := ⟨e, n, herr⟩
            have hs1 : InvL (AList.set a.smId (smWithRoot sm (modifyAt (fun _ => (updateFrom e n).1) sm.root (x :: xs))) s.objs) :=
              inv_set hI (by rw [smWithRoot_id]; exact hid)
            unfold GoodAt
            by_cases hf : s.fileBacked = true
            · simp [M.bind', live, liftR, herr, hf, hu]; exact hI
            · simp [M.bind', live, liftR, herr, hf, hu, hs1]
        · simp [okCodes]
      · simp [liftR, h, okCodes]
      · simp [liftR, h, okCodes]
    · simp [okCodes]
    · simp [okCodes]
  · simp [okCodes]

theorem good_deleteElem {s : St} (hI : Inv s) (a : Args) (r : Req) :
    GoodAt QS s (deleteElem "delete_submodel_submodel_elements_id_short_path" a r) := by
  unfold deleteElem
  apply GoodAt.bind
  rcases getSmOrNested_cases a s with ⟨sm, path, e, h, hg, _⟩ | ⟨c, h, hc⟩ <;> rw [h]
  · refine ⟨rfl, ?_⟩
    simp only []
    by_cases hp : path.isEmpty = true
    · rw [if_pos hp, raise_expect_namespace]; exact good_http (by simp [okCodes])
    · rw [if_neg hp]
      have h404 : GoodAt QS s (liftR (catching "_namespace_submodel_element_op" (.py .keyError) : Res Resp)) := by
        rw [catch_ns_op]; exact good_http (by simp [okCodes])
      split
      · rename_i parent k _ _
        apply GoodAt.bind
        rcases removeReferable_cases parent k with ⟨p', h1⟩ | h1 <;> simp only [liftR, h1]
        · refine ⟨by triv, ?_⟩
          exact good_sm_tail hI hg _ _ (qs_mk (by decide) _ _ _)
        · rw [catch_ns_op]; simp [okCodes]
      · exact h404
  · exact ⟨rfl, hc⟩

theorem good_getQual {s : St} (hI : Inv s) (a : Args) (r : Req) :
    GoodAt QS s (getQual "get_submodel_submodel_element_qualifiers" a r) := by
  unfold getQual
  apply GoodAt.bind
  rcases getSmOrNested_cases a s with ⟨sm, path, e, h, hg, _⟩ | ⟨c, h, hc⟩ <;> rw [h]
  · refine ⟨rfl, ?_⟩
    simp only []
    cases a.qType with
    | none => exact good_pure hI (qs_mk (by decide) _ _ _)
    | some t =>
      simp only []
      cases AList.get t e.quals with
      | none => simp only []; rw [catch_qual_op]; exact good_http (by simp [okCodes])
      | some v => exact good_pure hI (qs_mk (by decide) _ _ _)
  · exact ⟨rfl, hc⟩

theorem good_postQual {s : St} (hI : Inv s) (a : Args) (r : Req) :
    GoodAt QS s (postQual "post_submodel_submodel_element_qualifiers" a r) := by
  unfold postQual
  apply GoodAt.bind
  rcases getSmOrNested_cases a s with ⟨sm, path, e, h, hg, _⟩ | ⟨c, h, hc⟩ <;> rw [h]
  · refine ⟨rfl, ?_⟩
    simp only []
    apply GoodAt.bind
    rcases requestBody_cases "post_submodel_submodel_element_qualifiers" r (by decide) with ⟨p, hp, hm⟩ | h | h
    · simp only [liftR, hp]
      refine ⟨by triv, ?_⟩
      obtain ⟨t, v, rfl⟩ := payload_qual_of_matches hm
      simp only []
      by_cases hh : AList.has t e.quals = true
      · simp only [hh, if_true, raise_post_qual]; exact good_http (by simp [okCodes])
      · simp only [hh]
        exact good_sm_tail hI hg _ _ (qs_mk (by decide) _ _ _)
    · simp [liftR, h, okCodes]
    · simp [liftR, h, okCodes]
  · exact ⟨rfl, hc⟩

theorem good_deleteQual {s : St} (hI : Inv s) (a : Args) (r : Req) (hq : a.qType ≠ none) :
    GoodAt QS s (deleteQual "delete_submodel_submodel_element_qualifiers" a r) := by
  unfold deleteQual
  apply GoodAt.bind
  rcases getSmOrNested_cases a s with ⟨sm, path, e, h, hg, _⟩ | ⟨c, h, hc⟩ <;> rw [h]
  · refine ⟨rfl, ?_⟩
    simp only []
    cases hqt : a.qType with
    | none => exact absurd hqt hq
    | some qt =>
      simp only []
      by_cases hh : AList.has qt e.quals = true
      · simp only [hh, not_true_eq_false, if_false]
        exact good_sm_tail hI hg _ _ (qs_mk (by decide) _ _ _)
      · simp only [hh, not_false_eq_true, if_true, catch_qual_op]; exact good_http (by simp [okCodes])
  · exact ⟨rfl, hc⟩

theorem good_putQual {s : St} (hI : Inv s) (a : Args) (r : Req) (hq : a.qType ≠ none) :
    GoodAt QS s (putQual "put_submodel_submodel_element_qualifiers" a r) := by
  unfold putQual
  apply GoodAt.bind
  rcases getSmOrNested_cases a s with ⟨sm, path, e, h, hg, _⟩ | ⟨c, h, hc⟩ <;> rw [h]
  · refine ⟨rfl, ?_⟩
    simp only []
    apply GoodAt.bind
    rcases requestBody_cases "put_submodel_submodel_element_qualifiers" r (by decide) with ⟨p, hp, hm⟩ | h | h
    · simp only [liftR, hp]
      refine ⟨by triv, ?_⟩
      obtain ⟨t, v, rfl⟩ := payload_qual_of_matches hm
      cases hqt : a.qType with
      | none => exact absurd hqt hq
      | some qt =>
        simp only []
        by_cases hh : AList.has qt e.quals = true
        · simp only [hh, not_true_eq_false, if_false]
          by_cases hc2 : qt ≠ t ∧ AList.has t e.quals = true
          · rw [if_pos hc2, raise_put_qual]; exact good_http (by simp [okCodes])
          · rw [if_neg hc2]
            refine good_sm_tail hI hg _ _ ?_
            by_cases hne : qt ≠ t
            · rw [if_pos hne]; exact qs_mk (by decide) _ _ _
            · rw [if_neg hne]; exact qs_mk (by decide) _ _ _
        · simp only [hh, not_false_eq_true, if_true, catch_qual_op]; exact good_http (by simp [okCodes])
    · simp [liftR, h, okCodes]
    · simp [liftR, h, okCodes]
  · exact ⟨rfl, hc⟩


/-! ### routing and argument conversion never raise a Python exception -/

theorem validateIdShort_cases (x : String) :
    validateIdShort x = .ok () ∨ validateIdShort x = .py .valueError ∨ validateIdShort x = .py (.aascv 2) := by
  unfold validateIdShort
  simp only []
  split
  · right; left; rfl
  · split
    · right; right; rfl
    · split
      · split
        · left; rfl
        · right; right; rfl
      · right; left; rfl

theorem idShortPathToPython_cases (raw : String) :
    (∃ v, idShortPathToPython raw = .ok v) ∨ idShortPathToPython raw = .http 400 := by
  unfold idShortPathToPython
  simp only []
  cases hf : (raw.splitOn ".").find? (fun s => ¬ validIdShort s) with
  | none => left; exact ⟨_, rfl⟩
  | some bad =>
    right
    have hb := List.find?_some hf
    have hb' : validIdShort bad = false := by simpa using hb
    simp only []
    rcases validateIdShort_cases bad with h | h | h
    · simp [validIdShort, h] at hb'
    · rw [h]; exact catch_to_python_value
    · rw [h]; exact catch_to_python_aascv

theorem base64urlDecode_cases (d : B64) : (∃ v, base64urlDecode d = .ok v) ∨ base64urlDecode d = .http 400 := by
  cases d with
  | ok v => left; exact ⟨v, rfl⟩
  | binascii => right; exact catch_b64_binascii
  | unicode => right; exact catch_b64_unicode
  | nonAscii => right; exact catch_b64_value

theorem convertArgs_cases (caps : List (Pat × List Seg)) (a : Args) :
    (∃ a', convertArgs caps a = .ok a') ∨ convertArgs caps a = .http 400 := by
  induction caps generalizing a with
  | nil => left; exact ⟨a, rfl⟩
  | cons c rest ih =>
    obtain ⟨pat, segs⟩ := c
    cases pat with
    | lit s => simpa [convertArgs] using ih a
    | rest n => simpa [convertArgs] using ih a
    | b64 n =>
      cases segs with
      | nil => simpa [convertArgs] using ih a
      | cons x xs =>
        cases xs with
        | cons y ys => simpa [convertArgs] using ih a
        | nil =>
          simp only [convertArgs]
          rcases base64urlDecode_cases x.dec with ⟨v, h⟩ | h <;> rw [h]
          · exact ih _
          · right; rfl
    | idPath n =>
      cases segs with
      | nil => simpa [convertArgs] using ih a
      | cons x xs =>
        cases xs with
        | cons y ys => simpa [convertArgs] using ih a
        | nil =>
          simp only [convertArgs]
          rcases idShortPathToPython_cases x.raw with ⟨v, h⟩ | h <;> rw [h]
          · exact ih _
          · right; rfl

theorem route_cases (r : Req) :
    (∃ ep a, route r = .ok (ep, a)) ∨ route r = .http 400 ∨ route r = .http 404 ∨ route r = .http 405 := by
  unfold route
  cases selectRule r.method r.path ruleTable (false, none) with
  | mk anyPath best =>
    cases best with
    | some c =>
      simp only []
      rcases convertArgs_cases c.caps {} with ⟨a, h⟩ | h <;> rw [h]
      · left; exact ⟨_, _, rfl⟩
      · right; left; rfl
    | none =>
      cases anyPath with
      | true => right; right; right; exact throw_method_not_allowed
      | false => right; right; left; exact throw_not_found


/-! ### every modelled handler is exception safe -/

theorem good_handlerOf {s : St} (hI : Inv s) (ep : String) (a : Args) (r : Req) (h : M Resp)
    (hh : handlerOf ep a r = some h) :
    (ep = "not_implemented" ∧ h = liftR (.http 501)) ∨ GoodAt QS s h := by
  unfold handlerOf at hh
  split at hh
  all_goals first
    | (injection hh with hh; subst hh; left; exact ⟨rfl, by rw [raise_not_implemented]⟩)
    | (injection hh with hh; subst hh; right; exact good_listObjs hI _ _ _ (by decide))
    | (injection hh with hh; subst hh; right; exact good_postObj hI _ _ _ (by decide) rfl (by decide))
    | (injection hh with hh; subst hh; right; exact good_getObj _ _ _ _ _ hI (by decide))
    | (injection hh with hh; subst hh; right; exact good_putObj hI _ _ _ _ (by decide) (by decide))
    | (injection hh with hh; subst hh; right; exact good_deleteObj hI _ _ _ _ (by decide))
    | (injection hh with hh; subst hh; right; exact good_getRefs hI _ _ _ (by decide))
    | (injection hh with hh; subst hh; right; exact good_postRef hI _ _ _ (by decide) rfl (by decide))
    | (injection hh with hh; subst hh; right; exact good_deleteRef hI _ _ _ (by decide))
    | (injection hh with hh; subst hh; right; exact good_listElems hI _ _ _ (by decide))
    | (injection hh with hh; subst hh; right; exact good_postElem hI _ _)
    | (injection hh with hh; subst hh; right; exact good_deleteElem hI _ _)
    | (injection hh with hh; subst hh; right; exact good_getQual hI _ _)
    | (injection hh with hh; subst hh; right; exact good_postQual hI _ _)
    | (split at hh
       · injection hh with hh; subst hh; right; exact good_getElem hI _ _ _ _ _ (by decide)
       · cases hh)
    | (split at hh
       · injection hh with hh; subst hh; right; exact good_putElem hI _ _ _ _
       · cases hh)
    | (split at hh
       · rename_i q hq; injection hh with hh; subst hh; right; exact good_putQual hI _ _ (by rw [hq]; simp)
       · cases hh)
    | (split at hh
       · rename_i q hq; injection hh with hh; subst hh; right; exact good_deleteQual hI _ _ (by rw [hq]; simp)
       · cases hh)
    | cases hh

end Basyx.Repo
