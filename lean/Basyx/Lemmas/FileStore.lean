/- Helper lemmas for the local-file store model (C14, C15). -/
import Basyx.Model.FileStore
namespace Basyx.FileStore

/-! ### file-system association list -/

theorem get_bump_other {n n' : FName} (k : Nat) (fs : FS) (h : n' ≠ n) :
    AList.get n' (bump n k fs) = AList.get n' fs := by
  unfold bump; split
  · exact AList.get_set_other _ _ h
  · rfl

theorem get_bump_same (n : FName) (k : Nat) (fs : FS) :
    AList.get n (bump n k fs) = (AList.get n fs).map (fun c => { c with n := c.n + k }) := by
  unfold bump; split
  · next c hc => simp [hc]
  · next hc => simp [hc]

theorem doc_ne_tmp (i j : Id) : FName.doc i ≠ FName.tmp j := by intro h; cases h
theorem tmp_ne_doc (i j : Id) : FName.tmp i ≠ FName.doc j := by intro h; cases h

theorem mem_listing {fs : FS} {i : Id} (h : i ∈ listing fs) : (AList.get (.doc i) fs).isSome := by
  induction fs with
  | nil => simp [listing] at h
  | cons hd t ih =>
    obtain ⟨n, c⟩ := hd
    by_cases hn : n = .doc i
    · simp [AList.get, hn]
    · simp only [AList.get, hn, if_false]
      apply ih
      cases n with
      | doc j =>
        have : j ≠ i := fun e => hn (by rw [e])
        simp only [listing, List.filterMap_cons, List.mem_cons] at h
        rcases h with h | h
        · exact absurd h.symm this
        · exact h
      | tmp j => simpa [listing, List.filterMap_cons] using h

/-! ### instance table, weak caches -/

theorem getAt_setAt_same {α : Type} (l : List (List α)) (k : Nat) (v : List α) : getAt (setAt l k v) k = v := by
  induction k generalizing l with
  | zero => cases l <;> simp [setAt, getAt]
  | succ k ih =>
    cases l with
    | nil => simpa [setAt, getAt] using ih []
    | cons h t => simpa [setAt, getAt] using ih t

theorem getAt_setAt_other {α : Type} (l : List (List α)) {k j : Nat} (v : List α) (h : j ≠ k) :
    getAt (setAt l k v) j = getAt l j := by
  induction k generalizing l j with
  | zero =>
    cases j with
    | zero => exact absurd rfl h
    | succ j => cases l <;> simp [setAt, getAt]
  | succ k ih =>
    cases j with
    | zero => cases l <;> simp [setAt, getAt]
    | succ j =>
      have hj : j ≠ k := fun e => h (by rw [e])
      cases l with
      | nil => simpa [setAt, getAt] using ih [] hj
      | cons hd t => simpa [setAt, getAt] using ih t hj

theorem get_filter_of_nodup {κ ν : Type} [DecidableEq κ] (p : κ × ν → Bool) {l : List (κ × ν)}
    (hn : (AList.keys l).Nodup) {k : κ} {v : ν} (hg : AList.get k l = some v) (hp : p (k, v) = true) :
    AList.get k (l.filter p) = some v := by
  induction l with
  | nil => simp [AList.get] at hg
  | cons hd t ih =>
    obtain ⟨k2, v2⟩ := hd
    have hn' : k2 ∉ AList.keys t ∧ (AList.keys t).Nodup := by simpa [AList.keys, List.nodup_cons] using hn
    by_cases hk : k2 = k
    · subst hk
      simp [AList.get] at hg; subst hg
      simp [List.filter, hp, AList.get]
    · simp [AList.get, hk] at hg
      by_cases hp2 : p (k2, v2) = true
      · simp [List.filter, hp2, AList.get, hk, ih hn'.2 hg]
      · simp [List.filter, hp2, ih hn'.2 hg]

theorem get_filter_some {κ ν : Type} [DecidableEq κ] (p : κ × ν → Bool) {l : List (κ × ν)}
    (hn : (AList.keys l).Nodup) {k : κ} {v : ν} (hg : AList.get k (l.filter p) = some v) :
    AList.get k l = some v := by
  induction l with
  | nil => simp [AList.get] at hg
  | cons hd t ih =>
    obtain ⟨k2, v2⟩ := hd
    have hn' : k2 ∉ AList.keys t ∧ (AList.keys t).Nodup := by simpa [AList.keys, List.nodup_cons] using hn
    by_cases hp2 : p (k2, v2) = true
    · simp only [List.filter, hp2] at hg
      by_cases hk : k2 = k
      · simp [AList.get, hk] at hg ⊢; exact hg
      · simp [AList.get, hk] at hg ⊢; exact ih hn'.2 hg
    · simp only [List.filter, hp2] at hg
      have := ih hn'.2 hg
      have hk : k2 ≠ k := by
        intro e; subst e; exact hn'.1 (AList.mem_keys_of_get this)
      simp [AList.get, hk, this]

theorem keys_filter_sublist {κ ν : Type} (p : κ × ν → Bool) (l : List (κ × ν)) :
    (AList.keys (l.filter p)).Sublist (AList.keys l) := by
  unfold AList.keys
  exact (List.filter_sublist).map _

end Basyx.FileStore
