/- Helper lemmas for the local-file store model (C14, C15). -/
import Basyx.Model.FileStore
namespace Basyx.FileStore

/-! ### file-system association list -/

theorem get_bump_other {n n' : FName} (k : Nat) (fs : FS) (h : n' ≠ n) :
    AList.get n' (bump n k fs) = AList.get n' fs := by
  unfold bump; split
  · exact AList.get_set_other _ _ h
  · rfl

theorem get_bump_same (n : FName) (k : Nat) (fs : FS) :
    AList.get n (bump n k fs) = (AList.get n fs).map (fun c => { c with n := c.n + k }) := by
  unfold bump; split
  · next c hc => simp [hc]
  · next hc => simp [hc]

theorem doc_ne_tmp (i j : Id) : FName.doc i ≠ FName.tmp j := by intro h; cases h
theorem tmp_ne_doc (i j : Id) : FName.tmp i ≠ FName.doc j := by intro h; cases h

theorem mem_listing {fs : FS} {i : Id} (h : i ∈ listing fs) : (AList.get (.doc i) fs).isSome := by
  induction fs with
  | nil => simp [listing] at h
  | cons hd t ih =>
    obtain ⟨n, c⟩ := hd
    by_cases hn : n = .doc i
    · simp [AList.get, hn]
    · simp only [AList.get, hn, if_false]
      apply ih
      cases n with
      | doc j =>
        have : j ≠ i := fun e => hn (by rw [e])
        simp only [listing, List.filterMap_cons, List.mem_cons] at h
        rcases h with h | h
        · exact absurd h.symm this
        · exact h
      | tmp j => simpa [listing, List.filterMap_cons] using h

/-! ### instance table, weak caches -/

theorem getAt_setAt_same {α : Type} (l : List (List α)) (k : Nat) (v : List α) : getAt (setAt l k v) k = v := by
  induction k generalizing l with
  | zero => cases l <;> simp [setAt, getAt]
  | succ k ih =>
    cases l with
    | nil => simpa [setAt, getAt] using ih []
    | cons h t => simpa [setAt, getAt] using ih t

theorem getAt_setAt_other {α : Type} (l : List (List α)) {k j : Nat} (v : List α) (h : j ≠ k) :
    getAt (setAt l k v) j = getAt l j := by
  induction k generalizing l j with
  | zero =>
    cases j with
    | zero => exact absurd rfl h
    | succ j => cases l <;> simp [setAt, getAt]
  | succ k ih =>
    cases j with
    | zero => cases l <;> simp [setAt, getAt]
    | succ j =>
      have hj : j ≠ k := fun e => h (by rw [e])
      cases l with
      | nil => simpa [setAt, getAt] using ih [] hj
      | cons hd t => simpa [setAt, getAt] using ih t hj

theorem get_filter_of_nodup {κ ν : Type} [DecidableEq κ] (p : κ × ν → Bool) {l : List (κ × ν)}
    (hn : (AList.keys l).Nodup) {k : κ} {v : ν} (hg : AList.get k l = some v) (hp : p (k, v) = true) :
    AList.get k (l.filter p) = some v := by
  induction l with
  | nil => simp [AList.get] at hg
  | cons hd t ih =>
    obtain ⟨k2, v2⟩ := hd
    have hn' : k2 ∉ AList.keys t ∧ (AList.keys t).Nodup := by simpa [AList.keys, List.nodup_cons] using hn
    by_cases hk : k2 = k
    · subst hk
      simp [AList.get] at hg; subst hg
      simp [List.filter, hp, AList.get]
    · simp [AList.get, hk] at hg
      by_cases hp2 : p (k2, v2) = true
      · simp [List.filter, hp2, AList.get, hk, ih hn'.2 hg]
      · simp [List.filter, hp2, ih hn'.2 hg]

theorem get_filter_some {κ ν : Type} [DecidableEq κ] (p : κ × ν → Bool) {l : List (κ × ν)}
    (hn : (AList.keys l).Nodup) {k : κ} {v : ν} (hg : AList.get k (l.filter p) = some v) :
    AList.get k l = some v := by
  induction l with
  | nil => simp [AList.get] at hg
  | cons hd t ih =>
    obtain ⟨k2, v2⟩ := hd
    have hn' : k2 ∉ AList.keys t ∧ (AList.keys t).Nodup := by simpa [AList.keys, List.nodup_cons] using hn
    by_cases hp2 : p (k2, v2) = true
    · simp only [List.filter, hp2] at hg
      by_cases hk : k2 = k
      · simp [AList.get, hk] at hg ⊢; exact hg
      · simp [AList.get, hk] at hg ⊢; exact ih hn'.2 hg
    · simp only [List.filter, hp2] at hg
      have := ih hn'.2 hg
      have hk : k2 ≠ k := by
        intro e; subst e; exact hn'.1 (AList.mem_keys_of_get this)
      simp [AList.get, hk, this]

theorem keys_filter_sublist {κ ν : Type} (p : κ × ν → Bool) (l : List (κ × ν)) :
    (AList.keys (l.filter p)).Sublist (AList.keys l) := by
  unfold AList.keys
  exact (List.filter_sublist).map _

/-! ### the sequential world: invariant and its preservation by the building blocks of the operations -/

/-- Representation invariant of the world: one file per identifier, one cache entry per identifier and instance,
    and a cached object carries the identifier it is cached under. -/
structure Inv (w : W) : Prop where
  diskNodup : (AList.keys w.disk).Nodup
  cacheNodup : ∀ k, (AList.keys (cacheOf w k)).Nodup
  cacheId : ∀ k i r, AList.get i (cacheOf w k) = some r → ∃ o, w.heap[r]? = some o ∧ o.id = i

theorem inv_init : Inv init := by
  refine ⟨by simp [init, AList.keys], ?_, ?_⟩
  · intro k; simp [cacheOf, getAt, init, AList.keys]
  · intro k i r h; simp [cacheOf, getAt, init] at h

/-- replace object `r` by `o'` -/
def modObj (w : W) (r : Ref) (o' : Obj) : W := { w with heap := w.heap.set r o' }
/-- replace the cache of instance `k` -/
def modCache (w : W) (k : Nat) (c : List (Id × Ref)) : W := { w with caches := setAt w.caches k c }
/-- allocate a new object -/
def alloc (w : W) (o : Obj) : W := { w with heap := w.heap ++ [o] }

@[simp] theorem cacheOf_modObj (w r o' k) : cacheOf (modObj w r o') k = cacheOf w k := rfl
@[simp] theorem cacheOf_alloc (w o k) : cacheOf (alloc w o) k = cacheOf w k := rfl
@[simp] theorem cacheOf_modCache_same (w k c) : cacheOf (modCache w k c) k = c := getAt_setAt_same _ _ _
theorem cacheOf_modCache_other (w) {k j} (c) (h : j ≠ k) : cacheOf (modCache w k c) j = cacheOf w j :=
  getAt_setAt_other _ _ h
@[simp] theorem disk_modObj (w r o') : (modObj w r o').disk = w.disk := rfl
@[simp] theorem disk_alloc (w o) : (alloc w o).disk = w.disk := rfl
@[simp] theorem disk_modCache (w k c) : (modCache w k c).disk = w.disk := rfl
@[simp] theorem heap_modCache (w k c) : (modCache w k c).heap = w.heap := rfl

theorem heap_modObj_get (w : W) (r r' : Ref) (o o' : Obj) (h : w.heap[r]? = some o) :
    (modObj w r o').heap[r']? = if r' = r then some o' else w.heap[r']? := by
  have hr : r < w.heap.length := by
    rcases Nat.lt_or_ge r w.heap.length with h' | h'
    · exact h'
    · rw [List.getElem?_eq_none_iff.2 h'] at h; cases h
  simp only [modObj, List.getElem?_set]
  by_cases e : r' = r
  · subst e; simp [hr]
  · have : r ≠ r' := fun x => e x.symm
    simp [e, this]

theorem heap_alloc_get (w : W) (o : Obj) (r' : Ref) (o' : Obj) (h : w.heap[r']? = some o') :
    (alloc w o).heap[r']? = some o' := by
  have hr : r' < w.heap.length := by
    rcases Nat.lt_or_ge r' w.heap.length with h' | h'
    · exact h'
    · rw [List.getElem?_eq_none_iff.2 h'] at h; cases h
  simp only [alloc]
  rw [List.getElem?_append_left hr]; exact h

theorem heap_alloc_new (w : W) (o : Obj) : (alloc w o).heap[w.heap.length]? = some o := by
  simp [alloc]

/-- changing an object without changing its identifier keeps the invariant -/
theorem inv_modObj {w : W} {r : Ref} {o o' : Obj} (hI : Inv w) (h : w.heap[r]? = some o) (hid : o'.id = o.id) :
    Inv (modObj w r o') := by
  refine ⟨hI.diskNodup, fun k => hI.cacheNodup k, ?_⟩
  intro k i r' hc
  obtain ⟨o2, h2, hi⟩ := hI.cacheId k i r' hc
  rw [heap_modObj_get w r r' o o' h]
  by_cases e : r' = r
  · subst e; rw [h] at h2; injection h2 with h2; subst h2
    exact ⟨o', by simp, by rw [hid, hi]⟩
  · exact ⟨o2, by simp [e, h2], hi⟩

theorem inv_alloc {w : W} (o : Obj) (hI : Inv w) : Inv (alloc w o) := by
  refine ⟨hI.diskNodup, fun k => hI.cacheNodup k, ?_⟩
  intro k i r' hc
  obtain ⟨o2, h2, hi⟩ := hI.cacheId k i r' hc
  exact ⟨o2, heap_alloc_get w o r' o2 h2, hi⟩

/-- caching object `r` under its own identifier keeps the invariant -/
theorem inv_cache_set {w : W} {k : Nat} {i : Id} {r : Ref} {o : Obj} (hI : Inv w) (h : w.heap[r]? = some o) (hid : o.id = i) :
    Inv (modCache w k (AList.set i r (cacheOf w k))) := by
  refine ⟨hI.diskNodup, ?_, ?_⟩
  · intro j
    by_cases e : j = k
    · subst e; rw [cacheOf_modCache_same]; exact AList.nodup_keys_set (hI.cacheNodup j)
    · rw [cacheOf_modCache_other _ _ e]; exact hI.cacheNodup j
  · intro j i' r' hc
    by_cases e : j = k
    · subst e; rw [cacheOf_modCache_same] at hc
      by_cases ei : i' = i
      · subst ei; rw [AList.get_set_same] at hc; injection hc with hc; subst hc; exact ⟨o, h, hid⟩
      · rw [AList.get_set_other _ _ ei] at hc; exact hI.cacheId j i' r' hc
    · rw [cacheOf_modCache_other _ _ e] at hc; exact hI.cacheId j i' r' hc

theorem inv_cache_erase {w : W} {k : Nat} {i : Id} (hI : Inv w) :
    Inv (modCache w k (AList.erase i (cacheOf w k))) := by
  refine ⟨hI.diskNodup, ?_, ?_⟩
  · intro j
    by_cases e : j = k
    · subst e; rw [cacheOf_modCache_same]; exact AList.nodup_keys_erase (hI.cacheNodup j)
    · rw [cacheOf_modCache_other _ _ e]; exact hI.cacheNodup j
  · intro j i' r' hc
    by_cases e : j = k
    · subst e; rw [cacheOf_modCache_same] at hc
      by_cases ei : i' = i
      · subst ei; rw [AList.get_erase_same_of_nodup (hI.cacheNodup j)] at hc; cases hc
      · rw [AList.get_erase_other _ ei] at hc; exact hI.cacheId j i' r' hc
    · rw [cacheOf_modCache_other _ _ e] at hc; exact hI.cacheId j i' r' hc

theorem inv_disk {w : W} {d : List (Id × Ver)} (hI : Inv w) (hd : (AList.keys d).Nodup) : Inv { w with disk := d } :=
  ⟨hd, hI.cacheNodup, hI.cacheId⟩


theorem get_cases (w : W) (k : Nat) (i : Id) :
    (AList.get i w.disk = none ∧ get w k i = (w, .keyError)) ∨
    (∃ v, AList.get i w.disk = some v ∧
      ((∃ r o, AList.get i (cacheOf w k) = some r ∧ w.heap[r]? = some o ∧ o.bound = true ∧
          get w k i = (modObj w r { o with ver := v, live := true }, .obj r)) ∨
       ((∀ r o, AList.get i (cacheOf w k) = some r → w.heap[r]? = some o → o.bound = false) ∧
          get w k i = (modCache (alloc w ⟨i, v, true, true⟩) k (AList.set i w.heap.length (cacheOf w k)),
                       .obj w.heap.length)))) := by
  unfold get
  cases hd : AList.get i w.disk with
  | none => left; exact ⟨rfl, rfl⟩
  | some v =>
    right; refine ⟨v, rfl, ?_⟩
    simp only []
    cases hc : AList.get i (cacheOf w k) with
    | none => right; exact ⟨(by intro r o h; cases h), rfl⟩
    | some r =>
      simp only []
      cases hh : w.heap[r]? with
      | none => right; refine ⟨?_, rfl⟩; intro r' o' h1 h2; injection h1 with h1; subst h1; rw [hh] at h2; cases h2
      | some o =>
        simp only []
        by_cases hb : o.bound = true
        · left; exact ⟨r, o, rfl, hh, hb, by simp [hb, modObj]⟩
        · right; refine ⟨?_, (by simp [hb]; rfl)⟩
          intro r' o' h1 h2; injection h1 with h1; subst h1; rw [hh] at h2; injection h2 with h2; subst h2
          simpa using hb

/-! ### retrieval -/

/-- object `r` exists, has identifier `i` and holds the stored version -/
def Holds (w : W) (r : Ref) (i : Id) : Prop :=
  ∃ o, w.heap[r]? = some o ∧ o.id = i ∧ AList.get i w.disk = some o.ver

/-- everything one `get` guarantees -/
structure GetPost (w : W) (k : Nat) (i : Id) (w' : W) (out : Out) : Prop where
  miss : AList.get i w.disk = none → w' = w ∧ out = .keyError
  hit : ∀ v, AList.get i w.disk = some v →
      ∃ r o, out = .obj r ∧ w'.heap[r]? = some o ∧ o.id = i ∧ o.ver = v ∧ o.bound = true ∧ o.live = true ∧
        AList.get i (cacheOf w' k) = some r
  same : ∀ r, AList.get i (cacheOf w k) = some r → (∃ o, w.heap[r]? = some o ∧ o.bound = true) →
      (AList.get i w.disk).isSome → out = .obj r
  disk : w'.disk = w.disk
  inv : Inv w'
  holds : ∀ (r' : Ref) (i' : Id), Holds w r' i' → Holds w' r' i'
  cacheKeep : ∀ (k' : Nat) (i' : Id) (r' : Ref), (k' ≠ k ∨ i' ≠ i) → AList.get i' (cacheOf w k') = some r' → AList.get i' (cacheOf w' k') = some r'
  heapKeep : ∀ (r' : Ref) (o' : Obj), w.heap[r']? = some o' →
      ∃ o'' : Obj, w'.heap[r']? = some o'' ∧ o''.id = o'.id ∧ o''.bound = o'.bound ∧ (o'.live = true → o''.live = true)

theorem get_post (w : W) (k : Nat) (i : Id) (hI : Inv w) : GetPost w k i (get w k i).1 (get w k i).2 := by
  rcases get_cases w k i with ⟨hd, hg⟩ | ⟨v, hd, ⟨r, o, hc, hh, hb, hg⟩ | ⟨hnb, hg⟩⟩
  · rw [hg]
    exact ⟨fun _ => ⟨rfl, rfl⟩, fun v h => (by rw [hd] at h; cases h), fun r _ _ h => (by rw [hd] at h; cases h), rfl, hI,
           fun _ _ h => h, fun _ _ _ _ h => h, fun r' o' h => ⟨o', h, rfl, rfl, fun x => x⟩⟩
  · -- refresh the cached replica
    rw [hg]
    obtain ⟨o2, h2, hid⟩ := hI.cacheId k i r hc
    rw [hh] at h2; injection h2 with h2; subst h2
    have hget := fun r' => heap_modObj_get w r r' o { o with ver := v, live := true } hh
    refine ⟨fun h => (by rw [hd] at h; cases h), ?_, ?_, rfl, inv_modObj hI hh rfl, ?_, fun _ _ _ _ h => h, ?_⟩
    · intro v' hv; rw [hd] at hv; injection hv with hv; subst hv
      exact ⟨r, { o with ver := v, live := true }, rfl, (by rw [hget r]; simp), hid, rfl, hb, rfl, hc⟩
    · intro r' hc' _ _; rw [hc] at hc'; injection hc' with hc'; rw [hc']
    · intro r' i' ⟨o', ho', hi', hv'⟩
      by_cases e : r' = r
      · subst e; rw [hh] at ho'; injection ho' with ho'; subst ho'
        refine ⟨{ o with ver := v, live := true }, (by rw [hget r']; simp), hi', ?_⟩
        simp only [disk_modObj]
        rw [← hi', hid]; exact hd
      · exact ⟨o', (by rw [hget r']; simp [e, ho']), hi', hv'⟩
    · intro r' o' ho'
      by_cases e : r' = r
      · subst e; rw [hh] at ho'; injection ho' with ho'; subst ho'
        exact ⟨{ o with ver := v, live := true }, (by rw [hget r']; simp), rfl, rfl, fun _ => rfl⟩
      · exact ⟨o', (by rw [hget r']; simp [e, ho']), rfl, rfl, fun x => x⟩
  · -- a new replica
    rw [hg]
    have hnew := heap_alloc_new w ⟨i, v, true, true⟩
    have hI1 : Inv (alloc w ⟨i, v, true, true⟩) := inv_alloc _ hI
    have hI2 := inv_cache_set (k := k) hI1 hnew rfl
    refine ⟨fun h => (by rw [hd] at h; cases h), ?_, ?_, rfl, hI2, ?_, ?_, ?_⟩
    · intro v' hv; rw [hd] at hv; injection hv with hv; subst hv
      exact ⟨w.heap.length, ⟨i, v, true, true⟩, rfl, hnew, rfl, rfl, rfl, rfl, (by simp)⟩
    · intro r' hc' ⟨o', ho', hb'⟩ _
      have := hnb r' o' hc' ho'; rw [this] at hb'; cases hb'
    · intro r' i' ⟨o', ho', hi', hv'⟩
      exact ⟨o', heap_alloc_get w _ r' o' ho', hi', hv'⟩
    · intro k' i' r' hne hc'
      by_cases e : k' = k
      · subst e
        have : i' ≠ i := by rcases hne with h | h; exact absurd rfl h; exact h
        simp only [cacheOf_modCache_same]
        rw [AList.get_set_other _ _ this]; exact hc'
      · rw [cacheOf_modCache_other _ _ e]; exact hc'
    · intro r' o' ho'
      exact ⟨o', heap_alloc_get w _ r' o' ho', rfl, rfl, fun x => x⟩

/-! ### garbage collection, iteration, pinned replicas -/

theorem liveObj_some {w : W} {r : Ref} {o : Obj} (h : liveObj w r = some o) : w.heap[r]? = some o ∧ o.live = true := by
  unfold liveObj at h
  cases hh : w.heap[r]? with
  | none => simp [hh] at h
  | some o' =>
    simp only [hh] at h
    by_cases hl : o'.live = true
    · simp [hl] at h; subst h; exact ⟨rfl, hl⟩
    · simp [hl] at h

theorem getAt_map {α : Type} (f : List α → List α) (hf : f [] = []) (l : List (List α)) (k : Nat) :
    getAt (l.map f) k = f (getAt l k) := by
  unfold getAt
  simp only [List.getElem?_map]
  cases l[k]? <;> simp [hf]

theorem cacheOf_gc (w : W) (k : Nat) : cacheOf (gc w) k = (cacheOf w k).filter (fun e => isLive w e.2) := by
  unfold cacheOf gc
  exact getAt_map _ rfl _ _

theorem inv_gc {w : W} (hI : Inv w) : Inv (gc w) := by
  refine ⟨hI.diskNodup, ?_, ?_⟩
  · intro k; rw [cacheOf_gc]; exact (keys_filter_sublist _ _).nodup (hI.cacheNodup k)
  · intro k i r h; rw [cacheOf_gc] at h
    exact hI.cacheId k i r (get_filter_some _ (hI.cacheNodup k) h)

/-- the object stays cached under its identifier in instance `k`, bound to the document and alive, and the
    document exists -/
def Pinned (w : W) (k : Nat) (i : Id) (r : Ref) : Prop :=
  AList.get i (cacheOf w k) = some r ∧
  (∃ o, w.heap[r]? = some o ∧ o.id = i ∧ o.bound = true ∧ o.live = true) ∧
  (AList.get i w.disk).isSome

theorem get_pinned {w : W} {k0 : Nat} {i0 : Id} {r0 : Ref} (k : Nat) (i : Id) (hI : Inv w) (hp : Pinned w k0 i0 r0) :
    Pinned (get w k i).1 k0 i0 r0 := by
  have P := get_post w k i hI
  obtain ⟨hc, ⟨o, ho, hid, hb, hl⟩, hd⟩ := hp
  obtain ⟨o2, ho2, hid2, hb2, hl2⟩ := P.heapKeep r0 o ho
  refine ⟨?_, ⟨o2, ho2, by rw [hid2, hid], by rw [hb2, hb], hl2 hl⟩, by rw [P.disk]; exact hd⟩
  by_cases e : k = k0 ∧ i = i0
  · obtain ⟨e1, e2⟩ := e; subst e1; subst e2
    have hout := P.same r0 hc ⟨o, ho, hb⟩ hd
    cases hv : AList.get i w.disk with
    | none => rw [hv] at hd; cases hd
    | some v =>
      obtain ⟨r, o', hout', _, _, _, _, _, hc'⟩ := P.hit v hv
      rw [hout] at hout'; injection hout' with hout'; subst hout'; exact hc'
  · apply P.cacheKeep k0 i0 r0 _ hc
    by_cases e1 : k0 = k
    · right; intro e2; exact e ⟨e1.symm, e2.symm⟩
    · left; exact e1

inductive AllHold (w : W) : List Id → List Ref → Prop where
  | nil : AllHold w [] []
  | cons {i r l rs} : Holds w r i → AllHold w l rs → AllHold w (i :: l) (r :: rs)

theorem AllHold.mono {w w' : W} (h : ∀ (r : Ref) (i : Id), Holds w r i → Holds w' r i) {l rs} (a : AllHold w l rs) :
    AllHold w' l rs := by
  induction a with
  | nil => exact .nil
  | cons h1 _ ih => exact .cons (h _ _ h1) ih

/-- `__iter__`: every listed document is retrieved. -/
theorem iterIds_post (k : Nat) : ∀ (l : List Id) (w : W), Inv w → (∀ i ∈ l, (AList.get i w.disk).isSome) →
    ∃ w' rs, iterIds w k l = (w', some rs) ∧ w'.disk = w.disk ∧ Inv w' ∧
      AllHold w' l rs ∧
      (∀ (r' : Ref) (i' : Id), Holds w r' i' → Holds w' r' i') ∧
      (∀ k0 i0 r0, Pinned w k0 i0 r0 → Pinned w' k0 i0 r0) := by
  intro l
  induction l with
  | nil => intro w hI _; exact ⟨w, [], rfl, rfl, hI, AllHold.nil, fun _ _ h => h, fun _ _ _ h => h⟩
  | cons i rest ih =>
    intro w hI hall
    have P := get_post w k i hI
    have hi := hall i (by simp)
    cases hv : AList.get i w.disk with
    | none => rw [hv] at hi; cases hi
    | some v =>
      obtain ⟨r, o, hout, ho, hid, hver, _, _, _⟩ := P.hit v hv
      have hall' : ∀ j ∈ rest, (AList.get j (get w k i).1.disk).isSome := by
        intro j hj; rw [P.disk]; exact hall j (by simp [hj])
      obtain ⟨w'', rs, hit, hdisk, hI'', hf, hkeep, hpin⟩ := ih (get w k i).1 P.inv hall'
      refine ⟨w'', r :: rs, ?_, by rw [hdisk, P.disk], hI'', ?_, ?_, ?_⟩
      · simp only [iterIds]
        have : get w k i = ((get w k i).1, .obj r) := by rw [← hout]
        rw [this]; simp only [hit]
      · refine AllHold.cons ?_ hf
        apply hkeep
        exact ⟨o, ho, hid, by rw [P.disk, hver]; exact hv⟩
      · intro r' i' h; exact hkeep r' i' (P.holds r' i' h)
      · intro k0 i0 r0 h; exact hpin k0 i0 r0 (get_pinned k i hI h)


/-- what iteration shows of object `r`: identifier and content -/
def pairOf (w : W) (r : Ref) : Option (Id × Ver) := (w.heap[r]?).map (fun o => (o.id, o.ver))

theorem allHold_pairs {w : W} {l : List Id} {rs : List Ref} (a : AllHold w l rs) :
    rs.filterMap (pairOf w) = l.filterMap (fun i => (AList.get i w.disk).map (fun v => (i, v))) := by
  induction a with
  | nil => rfl
  | cons h _ ih =>
    obtain ⟨o, ho, hid, hv⟩ := h
    simp only [List.filterMap_cons, pairOf, ho, hv, Option.map_some, ih, hid]

theorem filterMap_congr' {α β : Type} {f g : α → Option β} {l : List α} (h : ∀ x ∈ l, f x = g x) :
    l.filterMap f = l.filterMap g := by
  induction l with
  | nil => rfl
  | cons a t ih =>
    simp only [List.filterMap_cons, h a (by simp)]
    rw [ih (fun x hx => h x (by simp [hx]))]

theorem keys_pairs_self (d : List (Id × Ver)) (hn : (AList.keys d).Nodup) :
    (AList.keys d).filterMap (fun i => (AList.get i d).map (fun v => (i, v))) = d := by
  induction d with
  | nil => rfl
  | cons hd t ih =>
    obtain ⟨k, v⟩ := hd
    have hn' : k ∉ AList.keys t ∧ (AList.keys t).Nodup := by simpa [AList.keys, List.nodup_cons] using hn
    simp only [AList.keys, List.map_cons, List.filterMap_cons, AList.get, if_true, Option.map_some]
    congr 1
    refine Eq.trans (filterMap_congr' ?_) (ih hn'.2)
    intro i hi
    have : k ≠ i := fun e => hn'.1 (by rw [e]; exact hi)
    simp only [this, if_false]

/-! ### bulk insertion -/

theorem add_fail_state (w : W) (k : Nat) (r : Ref) (h : (add w k r).2 ≠ .unit) : (add w k r).1 = w := by
  unfold add at *
  cases hl : liveObj w r with
  | none => simp
  | some o =>
    by_cases hh : AList.has o.id w.disk = true
    · simp [hh]
    · simp [hl, hh] at h

/-- the bulk insertion is the history of its `add`s, stopped at the first one that fails; that one's exception is the result
    and it - like everything after it - leaves no trace -/
theorem addMany_spec (k : Nat) : ∀ (rs : List Ref) (w : W),
    ((addMany w k rs).2 = .unit ∧ (addMany w k rs).1 = run w (rs.map (Op.add k))) ∨
    (∃ p r s, rs = p ++ r :: s ∧ (addMany w k p).2 = .unit ∧
      (addMany w k rs).1 = run w (p.map (Op.add k)) ∧
      (addMany w k rs).2 = (add (run w (p.map (Op.add k))) k r).2 ∧ (addMany w k rs).2 ≠ .unit)
  | [], w => by left; simp [addMany, run]
  | r :: rs, w => by
    cases hadd : add w k r with
    | mk w' o =>
      by_cases ho : o = .unit
      · subst ho
        have hs : (step w (Op.add k r)).1 = w' := by simp [step, hadd]
        rcases addMany_spec k rs w' with ⟨h1, h2⟩ | ⟨p, x, s, hrs, hp, hst, hout, hne⟩
        · left
          simp only [addMany, hadd, List.map_cons, run, hs]
          exact ⟨h1, h2⟩
        · right
          refine ⟨r :: p, x, s, by simp [hrs], ?_, ?_, ?_, ?_⟩
          · simp only [addMany, hadd]; exact hp
          · simp only [addMany, hadd, List.map_cons, run, hs]; exact hst
          · simp only [addMany, hadd, List.map_cons, run, hs]; exact hout
          · simp only [addMany, hadd]; exact hne
      · right
        have hw : w' = w := by
          have := add_fail_state w k r (by rw [hadd]; exact ho)
          rw [hadd] at this; exact this
        refine ⟨[], r, rs, rfl, by simp [addMany], ?_, ?_, ?_⟩
        · cases o <;> simp_all [addMany, run]
        · cases o <;> simp_all [addMany, run]
        · cases o <;> simp_all [addMany]


end Basyx.FileStore
