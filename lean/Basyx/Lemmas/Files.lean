import Basyx.Model.Files
import Basyx.Lemmas.Fmt
namespace Basyx.Files
open Basyx.Fmt

/-! ### `_append_counter` is injective in the counter -/

theorem appendCounter_injective (name : Name) {i j : Nat}
    (h : appendCounter name i = appendCounter name j) : i = j := by
  unfold appendCounter at h
  have h1 := List.append_cancel_left (List.append_cancel_right h)
  exact pad4_injective (List.tail_eq_of_cons_eq h1)

theorem cand_succ_injective (name : Name) {i j : Nat} (h : cand name (i + 1) = cand name (j + 1)) :
    i = j := by
  simp [cand] at h
  have := appendCounter_injective name h
  omega

/-! ### the conflict loop -/

theorem findSlot_fresh {names : List (Name × (Hash × CT))} {name d fuel i n}
    (h : findSlot names name d fuel i = .fresh n) : AList.get n names = none ∧ ∃ j, n = cand name j := by
  induction fuel generalizing i with
  | zero => simp [findSlot] at h
  | succ f ih =>
    simp only [findSlot] at h
    split at h
    · next hg => injection h with h; subst h; exact ⟨hg, i, rfl⟩
    · next d' hg =>
      split at h
      · cases h
      · exact ih h

theorem findSlot_same {names : List (Name × (Hash × CT))} {name d fuel i n}
    (h : findSlot names name d fuel i = .same n) : AList.get n names = some d := by
  induction fuel generalizing i with
  | zero => simp [findSlot] at h
  | succ f ih =>
    simp only [findSlot] at h
    split at h
    · cases h
    · next d' hg =>
      split at h
      · next hd => injection h with h; subst h; subst hd; exact hg
      · exact ih h

/-- if the loop runs out of fuel, every candidate it looked at is a key of the name map -/
theorem findSlot_exhausted {names : List (Name × (Hash × CT))} {name d fuel i}
    (h : findSlot names name d fuel i = .exhausted) :
    ∀ j, i ≤ j → j < i + fuel → cand name j ∈ AList.keys names := by
  induction fuel generalizing i with
  | zero => intro j h1 h2; omega
  | succ f ih =>
    simp only [findSlot] at h
    split at h
    · cases h
    · next d' hg =>
      split at h
      · cases h
      · intro j h1 h2
        by_cases hj : j = i
        · subst hj; exact AList.mem_keys_of_get hg
        · exact ih h j (by omega) (by omega)

/-- Termination of the `while True` loop: `|names| + 2` iterations always suffice (pigeonhole over the
    pairwise distinct generated names). -/
theorem findSlot_not_exhausted (names : List (Name × (Hash × CT))) (name : Name) (d : Hash × CT) :
    findSlot names name d (names.length + 2) 0 ≠ .exhausted := by
  intro h
  have hall := findSlot_exhausted h
  let cs := (List.range (names.length + 1)).map (fun k => cand name (k + 1))
  have hnd : cs.Nodup := by
    refine List.pairwise_map.2 (List.Pairwise.imp ?_ List.nodup_range)
    intro a b hab e
    exact hab (cand_succ_injective name e)
  have hsub : cs ⊆ AList.keys names := by
    intro x hx
    simp only [cs, List.mem_map, List.mem_range] at hx
    obtain ⟨k, hk, rfl⟩ := hx
    exact hall (k + 1) (by omega) (by omega)
  have := hnd.length_le_of_subset hsub
  simp [cs, AList.keys] at this
  omega

/-! ### counting names per content hash -/

def cnt (h : Hash) (names : List (Name × (Hash × CT))) : Nat :=
  (names.filter (fun e => e.2.1 = h)).length

theorem cnt_set_new {h h' : Hash} {ct : CT} {n : Name} {names : List (Name × (Hash × CT))}
    (hn : n ∉ AList.keys names) :
    cnt h (AList.set n (h', ct) names) = cnt h names + (if h' = h then 1 else 0) := by
  induction names with
  | nil => simp [AList.set, cnt, List.filter]; split <;> simp_all
  | cons hd t ih =>
    obtain ⟨k2, v2⟩ := hd
    simp [AList.keys] at hn
    have hk : k2 ≠ n := fun e => hn.1 e.symm
    have := ih (by simpa [AList.keys] using hn.2)
    simp only [AList.set, hk, if_false]
    unfold cnt at *
    simp only [List.filter_cons]
    split <;> simp_all <;> omega

theorem cnt_erase {h h' : Hash} {ct : CT} {n : Name} {names : List (Name × (Hash × CT))}
    (hg : AList.get n names = some (h', ct)) :
    cnt h (AList.erase n names) + (if h' = h then 1 else 0) = cnt h names := by
  induction names with
  | nil => simp [AList.get] at hg
  | cons hd t ih =>
    obtain ⟨k2, v2⟩ := hd
    by_cases hk : k2 = n
    · simp [AList.get, hk] at hg
      subst hg
      simp only [AList.erase, hk, if_true]
      unfold cnt
      simp only [List.filter_cons]
      split <;> simp_all
    · simp [AList.get, hk] at hg
      have := ih hg
      simp only [AList.erase, hk, if_false]
      unfold cnt at *
      simp only [List.filter_cons]
      split <;> simp_all <;> omega

theorem cnt_pos_of_get {h : Hash} {ct : CT} {n : Name} {names : List (Name × (Hash × CT))}
    (hg : AList.get n names = some (h, ct)) : 0 < cnt h names := by
  have := cnt_erase (h := h) hg
  simp at this; omega

theorem exists_get_of_cnt_pos {h : Hash} {names : List (Name × (Hash × CT))}
    (hn : (AList.keys names).Nodup) (hp : 0 < cnt h names) : ∃ n ct, AList.get n names = some (h, ct) := by
  induction names with
  | nil => simp [cnt] at hp
  | cons hd t ih =>
    obtain ⟨k2, h2, c2⟩ := hd
    by_cases hh : h2 = h
    · exact ⟨k2, c2, by simp [AList.get, hh]⟩
    · have hn' : k2 ∉ AList.keys t ∧ (AList.keys t).Nodup := by
        simpa [AList.keys, List.nodup_cons] using hn
      have hp' : 0 < cnt h t := by
        unfold cnt at *; simp only [List.filter_cons] at hp; simp [hh] at hp; simpa using hp
      obtain ⟨n, ct, hg⟩ := ih hn'.2 hp'
      refine ⟨n, ct, ?_⟩
      have : k2 ≠ n := by
        intro e; subst e
        exact hn'.1 (AList.mem_keys_of_get hg)
      simp [AList.get, this, hg]

end Basyx.Files
