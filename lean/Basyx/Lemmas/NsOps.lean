/-
  Helper lemmas for property C01, part 2: specifications of the two base operations `NamespaceSet.add` / `.remove`
  (`baseAdd`, `baseRemove`) under the unordered part of the invariant.
-/
import Basyx.Lemmas.Ns
namespace Basyx.Ns

theorem modify_congr_at {α : Type} {l : List α} {i : Nat} {a : α} {f f' : α → α} (h : l[i]? = some a) (hf : f a = f' a) :
    l.modify i f = l.modify i f' := by
  apply List.ext_getElem?
  intro j
  simp only [List.getElem?_modify]
  by_cases hij : i = j
  · subst hij; simp [h, hf]
  · simp [hij]

theorem modify_self_at {α : Type} {l : List α} {i : Nat} {a : α} {f : α → α} (h : l[i]? = some a) (hf : f a = a) :
    l.modify i f = l := by
  rw [modify_congr_at (f' := id) h (by simpa using hf), List.modify_id]

theorem modify_none {α : Type} {l : List α} {i : Nat} {f : α → α} (h : l[i]? = none) : l.modify i f = l :=
  List.modify_eq_self (by simpa using h)

theorem getElem?_modify_same {α : Type} {l : List α} {i : Nat} {f : α → α} : (l.modify i f)[i]? = (l[i]?).map f := by
  simp [List.getElem?_modify]

theorem getElem?_modify_ne {α : Type} {l : List α} {i j : Nat} {f : α → α} (h : j ≠ i) : (l.modify i f)[j]? = l[j]? := by
  have : i ≠ j := fun e => h e.symm
  simp [List.getElem?_modify, this]

/-! ### attach / detach phrased with `modify` equations -/

theorem attachU_modify {s s' : St} {g e : Nat} {k : Key} {S : NSet} {el : Elem}
    (hI : InvU s) (hS : s.sets[g]? = some S) (hE : s.elems[e]? = some el) (hdet : el.parent = none)
    (hkind : el.kind = S.attr)
    (hfree : ∀ (g' : Nat) (T : NSet), s.sets[g']? = some T → T.ns = S.ns → T.attr = S.attr → k ∉ AList.keys T.backend)
    (hsets : s'.sets = s.sets.modify g (fun S => { S with backend := S.backend ++ [(k, e)] }))
    (helems : s'.elems = s.elems.modify e (fun x => { x with key := some k, parent := some S.ns }))
    (hctr : s.ctr ≤ s'.ctr) (hgen : ∀ i, k = .gen i → i < s'.ctr) (hnc : s'.nsCount = s.nsCount) : InvU s' := by
  apply attachU (S' := { S with backend := S.backend ++ [(k, e)] })
    (el' := { el with key := some k, parent := some S.ns }) hI hS hE hdet hfree
  · rw [helems, getElem?_modify_same, hE]; rfl
  · rfl
  · rfl
  · exact hkind
  · intro x hx; rw [helems, getElem?_modify_ne hx]
  · rw [hsets, getElem?_modify_same, hS]; rfl
  · rfl
  · rfl
  · rfl
  · intro x hx; rw [hsets, getElem?_modify_ne hx]
  · exact hctr
  · exact hgen
  · exact hnc

theorem detachU_modify {s s' : St} {g e : Nat} {k : Key} {S : NSet} {el : Elem} {b' : List (Key × Nat)} {hooked : Bool}
    (hI : InvU s) (hS : s.sets[g]? = some S) (hm : (k, e) ∈ S.backend) (hE : s.elems[e]? = some el)
    (hsub : b'.Sublist S.backend) (hb : ∀ p, p ∈ b' ↔ p ∈ S.backend ∧ p ≠ (k, e))
    (hsets : s'.sets = s.sets.modify g (fun S => { S with backend := b' }))
    (helems : s'.elems = s.elems.modify e (fun x => { x with parent := none, key := if hooked then none else x.key }))
    (hctr : s.ctr ≤ s'.ctr) (hnc : s'.nsCount = s.nsCount) : InvU s' := by
  apply detachU (S' := { S with backend := b' })
    (el' := { el with parent := none, key := if hooked then none else el.key }) hI hS hm
  · rw [helems, getElem?_modify_same, hE]; rfl
  · rfl
  · intro i hi
    cases hooked
    · simp at hi; exact Nat.lt_of_lt_of_le (hI.genFresh _ _ _ hE hi) hctr
    · simp at hi
  · intro x hx; rw [helems, getElem?_modify_ne hx]
  · rw [hsets, getElem?_modify_same, hS]; rfl
  · rfl
  · rfl
  · exact hsub
  · exact hb
  · intro x hx; rw [hsets, getElem?_modify_ne hx]
  · exact hctr
  · exact hnc

/-! ### `_validate_namespace_constraints` -/

theorem validateAux_none {el : Elem} {n : Nat} {ss : List NSet} (h : validateAux el n ss = none) :
    ∀ S ∈ ss, S.ns = n → S.attr = el.kind → ∃ k, el.key = some k ∧ k ∉ AList.keys S.backend := by
  induction ss with
  | nil => intro S hS; cases hS
  | cons T r ih =>
    intro S hS hn ha
    unfold validateAux at h
    by_cases hc : T.ns = n ∧ T.attr = el.kind
    · rw [if_pos hc] at h
      cases hk : el.key with
      | none => rw [hk] at h; simp at h
      | some k =>
        rw [hk] at h
        simp only at h
        by_cases hh : AList.has k T.backend = true
        · rw [if_pos hh] at h; cases h
        · rw [if_neg hh] at h
          simp at hS
          rcases hS with rfl | hS
          · exact ⟨k, rfl, AList.has_eq_false_iff.1 (by simpa using hh)⟩
          · have := ih h S hS hn ha
            rw [hk] at this; exact this
    · rw [if_neg hc] at h
      simp at hS
      rcases hS with rfl | hS
      · exact absurd ⟨hn, ha⟩ hc
      · exact ih h S hS hn ha

/-- a key that no set of the namespace (with the element's attribute) holds passes the validation -/
theorem validateAux_of_free {el : Elem} {n : Nat} {ss : List NSet} {k : Key} (hk : el.key = some k)
    (hfree : ∀ S ∈ ss, S.ns = n → S.attr = el.kind → k ∉ AList.keys S.backend) : validateAux el n ss = none := by
  induction ss with
  | nil => rfl
  | cons T r ih =>
    unfold validateAux
    by_cases hc : T.ns = n ∧ T.attr = el.kind
    · rw [if_pos hc, hk]
      simp only
      have := hfree T (by simp) hc.1 hc.2
      rw [if_neg (by rw [AList.has_eq_false_iff.2 this]; simp)]
      exact ih (fun S hS => hfree S (by simp [hS]))
    · rw [if_neg hc]; exact ih (fun S hS => hfree S (by simp [hS]))

/-! ### `NamespaceSet.add` -/

/-- what a successful `baseAdd` did -/
structure AddOk (s s' : St) (g e : Nat) : Prop where
  ex : ∃ (S : NSet) (el : Elem) (k : Key), s.sets[g]? = some S ∧ s.elems[e]? = some el ∧ el.parent = none ∧
    el.kind = S.attr ∧ e ∉ vals S ∧ k ∉ AList.keys S.backend ∧ (S.hooks = none → el.key = some k) ∧
    (S.hooks.isSome → el.key = none) ∧
    s'.sets = s.sets.modify g (fun S => { S with backend := S.backend ++ [(k, e)] }) ∧
    s'.elems = s.elems.modify e (fun x => { x with key := some k, parent := some S.ns })

theorem not_mem_vals_of_detached {s : St} (hI : InvU s) {g e : Nat} {S : NSet} {el : Elem}
    (hS : s.sets[g]? = some S) (hE : s.elems[e]? = some el) (hdet : el.parent = none) : e ∉ vals S := by
  intro h
  simp [vals] at h
  obtain ⟨k, hm⟩ := h
  obtain ⟨el', h1, _, h3, _⟩ := hI.member _ _ _ _ hS hm
  rw [hE] at h1; cases h1; rw [hdet] at h3; cases h3

theorem baseAdd_spec {s : St} (hI : InvU s) (g e : Nat) :
    InvU (baseAdd s g e).1 ∧ (baseAdd s g e).1.nsCount = s.nsCount ∧ s.ctr ≤ (baseAdd s g e).1.ctr ∧
    (∀ x, (baseAdd s g e).2 ≠ .elem x) ∧
    ((baseAdd s g e).2 = .ok → AddOk s (baseAdd s g e).1 g e) ∧
    ((baseAdd s g e).2 ≠ .ok → (baseAdd s g e).1.sets = s.sets ∧ (baseAdd s g e).1.elems = s.elems) := by
  have hsame : InvU s ∧ s.nsCount = s.nsCount ∧ s.ctr ≤ s.ctr := ⟨hI, rfl, Nat.le_refl _⟩
  unfold baseAdd
  cases hS : s.sets[g]? with
  | none => simp [hI]
  | some S =>
    cases hE : s.elems[e]? with
    | none => simp [hI]
    | some el =>
      simp only
      by_cases hkind : el.kind ≠ S.attr
      · rw [if_pos hkind]; simp [hI]
      · rw [if_neg hkind]
        have hkind' : el.kind = S.attr := by simpa using hkind
        by_cases hpar : el.parent.isSome ∧ el.parent ≠ some S.ns
        · rw [if_pos hpar]; simp [hI]
        · rw [if_neg hpar]
          cases hH : S.hooks with
          | none =>
            simp only
            cases hv : validateAux el S.ns s.sets with
            | some x => simp [hI]
            | none =>
              simp only
              obtain ⟨k, hk, hnk⟩ := validateAux_none hv S (List.mem_of_getElem? hS) rfl hkind'.symm
              rw [hk]
              simp only
              -- the element was detached: a parent link would make it a member, whose key validation had found
              have hdet : el.parent = none := by
                cases hp : el.parent with
                | none => rfl
                | some n =>
                  exfalso
                  have hn : n = S.ns := by
                    by_cases h : n = S.ns
                    · exact h
                    · exact absurd ⟨by simp [hp], by rw [hp]; simpa using h⟩ hpar
                  subst hn
                  obtain ⟨g', T, k', hT, hTn, hm⟩ := hI.parent _ _ _ hE hp
                  obtain ⟨el', h1, h2, _, h4⟩ := hI.member _ _ _ _ hT hm
                  rw [hE] at h1; cases h1
                  rw [hk] at h2; cases h2
                  obtain ⟨k2, hk2, hnk2⟩ := validateAux_none hv T (List.mem_of_getElem? hT) hTn h4.symm
                  rw [hk] at hk2; cases hk2
                  apply hnk2; simp [AList.keys]; exact ⟨_, hm⟩
              have hsets : (commit s g e S.ns k).sets =
                  s.sets.modify g (fun S => { S with backend := S.backend ++ [(k, e)] }) := by
                simp only [commit, updSet, updElem]
                exact modify_congr_at hS (by rw [AList.set_of_not_mem hnk])
              have helems : (commit s g e S.ns k).elems =
                  s.elems.modify e (fun x => { x with key := some k, parent := some S.ns }) := by
                simp only [commit, updSet, updElem]
                exact modify_congr_at hE (by rw [← hk])
              have hfree : ∀ (g' : Nat) (T : NSet), s.sets[g']? = some T → T.ns = S.ns → T.attr = S.attr →
                  k ∉ AList.keys T.backend := by
                intro g' T hT hTn hTa
                obtain ⟨k2, hk2, hnk2⟩ := validateAux_none hv T (List.mem_of_getElem? hT) hTn (by rw [hTa, hkind'])
                rw [hk] at hk2; cases hk2; exact hnk2
              refine ⟨attachU_modify hI hS hE hdet hkind' hfree hsets helems (Nat.le_refl _) ?_ rfl, rfl,
                Nat.le_refl _, by simp, fun _ => ⟨S, el, k, hS, hE, hdet, hkind', not_mem_vals_of_detached hI hS hE hdet, hnk,
                  fun _ => hk, by simp [hH], hsets, helems⟩, by simp⟩
              intro i hi; subst hi; exact hI.genFresh _ _ _ hE hk
          | some cfg =>
            simp only
            by_cases h120 : el.key.isSome ∨ el.parent.isSome
            · rw [if_pos h120]; simp [hI]
            · rw [if_neg h120]
              have hkey : el.key = none := by
                cases h : el.key with
                | none => rfl
                | some _ => exact absurd (Or.inl (by simp [h])) h120
              have hdet : el.parent = none := by
                cases h : el.parent with
                | none => rfl
                | some _ => exact absurd (Or.inr (by simp [h])) h120
              -- the generated key is fresh: validation cannot fail
              have hfree : ∀ (g' : Nat) (T : NSet), s.sets[g']? = some T → T.ns = S.ns → T.attr = S.attr →
                  Key.gen s.ctr ∉ AList.keys T.backend := by
                intro g' T hT _ _ hmem
                simp [AList.keys] at hmem
                obtain ⟨x, hm⟩ := hmem
                obtain ⟨el', h1, h2, _, _⟩ := hI.member _ _ _ _ hT hm
                exact Nat.lt_irrefl _ (hI.genFresh _ _ _ h1 h2)
              have hv : validateAux { el with key := some (Key.gen s.ctr) } S.ns s.sets = none := by
                apply validateAux_of_free (k := Key.gen s.ctr) rfl
                intro T hT hTn hTa
                obtain ⟨g', hg'⟩ := List.mem_iff_getElem?.1 hT
                exact hfree g' T hg' hTn (by rw [hTa]; exact hkind')
              simp only [updElem_sets]
              rw [hv]
              simp only
              split
              · next x hh =>
                have helems : (s.elems.modify e (fun x => { x with key := some (Key.gen s.ctr) })).modify e
                    (fun y => { y with key := none, parent := none }) = s.elems := by
                  rw [List.modify_modify_eq]
                  apply modify_self_at hE
                  simp; cases el; simp_all
                refine ⟨?_, rfl, Nat.le_succ _, by simp, by simp, fun _ => ⟨rfl, ?_⟩⟩
                · apply retagU (e := s.elems.length) hI
                  · intro el' h; simp at h
                  · intro el' h; simp [updElem, helems] at h
                  · intro x _; simp [updElem, helems]
                  · rfl
                  · exact Nat.le_succ _
                  · exact Nat.le_refl _
                · simp [updElem, helems]
              · next hh =>
                have hnk : Key.gen s.ctr ∉ AList.keys S.backend := hfree g S hS rfl rfl
                have hsets : (commit { updElem s e (fun x => { x with key := some (Key.gen s.ctr) }) with ctr := s.ctr + 1 } g e S.ns (Key.gen s.ctr)).sets =
                    s.sets.modify g (fun S => { S with backend := S.backend ++ [(Key.gen s.ctr, e)] }) := by
                  simp only [commit, updSet, updElem]
                  exact modify_congr_at hS (by rw [AList.set_of_not_mem hnk])
                have helems : (commit { updElem s e (fun x => { x with key := some (Key.gen s.ctr) }) with ctr := s.ctr + 1 } g e S.ns (Key.gen s.ctr)).elems =
                    s.elems.modify e (fun x => { x with key := some (Key.gen s.ctr), parent := some S.ns }) := by
                  simp only [commit, updSet, updElem]
                  rw [List.modify_modify_eq]; rfl
                refine ⟨attachU_modify hI hS hE hdet hkind' hfree hsets helems (Nat.le_succ _) ?_ rfl, rfl,
                  Nat.le_succ _, by simp, fun _ => ⟨S, el, Key.gen s.ctr, hS, hE, hdet, hkind',
                    not_mem_vals_of_detached hI hS hE hdet, hnk, by simp [hH], fun _ => hkey, hsets, helems⟩, by simp⟩
                intro i hi; cases hi; exact Nat.lt_succ_self _

/-! ### `NamespaceSet.remove` -/

/-- what a successful `baseRemove` did -/
structure RemOk (s s' : St) (g e : Nat) : Prop where
  ex : ∃ (S : NSet) (el : Elem) (k : Key), s.sets[g]? = some S ∧ s.elems[e]? = some el ∧ (k, e) ∈ S.backend ∧
    el.key = some k ∧
    s'.sets = s.sets.modify g (fun S => { S with backend := AList.erase k S.backend }) ∧
    s'.elems = s.elems.modify e (fun x => { x with parent := none, key := if S.hooks.isSome then none else x.key })

theorem mem_vals_iff {S : NSet} {e : Nat} : e ∈ vals S ↔ ∃ k, (k, e) ∈ S.backend := by
  simp [vals]

theorem mem_vals_erase {s : St} (hI : InvU s) {g e : Nat} {S : NSet} {k : Key} (hS : s.sets[g]? = some S)
    (hm : (k, e) ∈ S.backend) (x : Nat) :
    x ∈ (AList.erase k S.backend).map Prod.snd ↔ x ∈ vals S ∧ x ≠ e := by
  have hn := hI.keysNodup _ _ hS
  simp only [vals, List.mem_map]
  constructor
  · rintro ⟨p, hp, rfl⟩
    obtain ⟨h1, h2⟩ := (AList.mem_erase_iff hn hm p).1 hp
    refine ⟨⟨p, h1, rfl⟩, ?_⟩
    intro he
    obtain ⟨k', x⟩ := p
    simp at he; subst he
    have := (hI.entry_unique hS hm hS h1).2
    subst this; exact h2 rfl
  · rintro ⟨⟨p, hp, rfl⟩, hne⟩
    refine ⟨p, (AList.mem_erase_iff hn hm p).2 ⟨hp, ?_⟩, rfl⟩
    intro h; subst h; exact hne rfl

theorem baseRemove_spec {s : St} (hI : InvU s) (g e : Nat) :
    InvU (baseRemove s g e).1 ∧ (baseRemove s g e).1.nsCount = s.nsCount ∧ (baseRemove s g e).1.ctr = s.ctr ∧
    (∀ x, (baseRemove s g e).2 ≠ .elem x) ∧
    ((baseRemove s g e).2 = .ok → RemOk s (baseRemove s g e).1 g e) ∧
    ((baseRemove s g e).2 ≠ .ok → (baseRemove s g e).1 = s) ∧
    (∀ S, s.sets[g]? = some S → e ∈ vals S → (baseRemove s g e).2 = .ok) := by
  unfold baseRemove
  cases hS : s.sets[g]? with
  | none => simp [hI]
  | some S =>
    cases hE : s.elems[e]? with
    | none =>
      simp [hI]
      intro hv; obtain ⟨k, hm⟩ := mem_vals_iff.1 hv
      obtain ⟨el, h1, _⟩ := hI.member _ _ _ _ hS hm
      rw [hE] at h1; cases h1
    | some el =>
      simp only
      have hmemok : ∀ k, (k, e) ∈ S.backend → el.kind = S.attr ∧ el.key = some k ∧ AList.get k S.backend = some e := by
        intro k hm
        obtain ⟨el', h1, h2, _, h4⟩ := hI.member _ _ _ _ hS hm
        rw [hE] at h1; cases h1
        exact ⟨h4, h2, AList.get_of_mem_nodup (hI.keysNodup _ _ hS) hm⟩
      by_cases hkind : el.kind ≠ S.attr
      · rw [if_pos hkind]; simp [hI]
        intro hv; obtain ⟨k, hm⟩ := mem_vals_iff.1 hv; exact absurd (hmemok k hm).1 hkind
      · rw [if_neg hkind]
        cases hk : el.key with
        | none =>
          simp [hI]
          intro hv; obtain ⟨k, hm⟩ := mem_vals_iff.1 hv; have := (hmemok k hm).2.1; rw [hk] at this; cases this
        | some k =>
          simp only
          cases hg : AList.get k S.backend with
          | none =>
            simp [hI]
            intro hv; obtain ⟨k', hm⟩ := mem_vals_iff.1 hv
            obtain ⟨_, h2, h3⟩ := hmemok k' hm
            rw [hk] at h2; cases h2; rw [hg] at h3; cases h3
          | some e' =>
            simp only
            by_cases hee : e' ≠ e
            · rw [if_pos hee]; simp [hI]
              intro hv; obtain ⟨k', hm⟩ := mem_vals_iff.1 hv
              obtain ⟨_, h2, h3⟩ := hmemok k' hm
              rw [hk] at h2; cases h2; rw [hg] at h3; cases h3; exact hee rfl
            · rw [if_neg hee]
              have hee' : e' = e := by simpa using hee
              subst hee'
              have hm : (k, e') ∈ S.backend := AList.mem_of_get hg
              have hsets : (delHook (updSet s g (fun S => { S with backend := AList.erase k S.backend })) S.hooks.isSome e').sets =
                  s.sets.modify g (fun S => { S with backend := AList.erase k S.backend }) := rfl
              have helems : (delHook (updSet s g (fun S => { S with backend := AList.erase k S.backend })) S.hooks.isSome e').elems =
                  s.elems.modify e' (fun x => { x with parent := none, key := if S.hooks.isSome then none else x.key }) := rfl
              have hsets2 : (delHook (updSet s g (fun S => { S with backend := AList.erase k S.backend })) S.hooks.isSome e').sets =
                  s.sets.modify g (fun T => { T with backend := AList.erase k S.backend }) := by
                rw [hsets]; exact modify_congr_at hS rfl
              refine ⟨detachU_modify (b' := AList.erase k S.backend) (hooked := S.hooks.isSome) hI hS hm hE
                  (AList.erase_sublist _ _) (AList.mem_erase_iff (hI.keysNodup _ _ hS) hm) hsets2 helems (Nat.le_refl _) rfl,
                rfl, rfl, by simp, fun _ => ⟨S, el, k, hS, hE, hm, hk, hsets, helems⟩, by simp, by simp⟩

/-! ### effect of the base operations on `vals` of the sets -/

theorem vals_append (S : NSet) (k : Key) (e : Nat) : vals { S with backend := S.backend ++ [(k, e)] } = vals S ++ [e] := by
  simp [vals]

end Basyx.Ns
