/-
  Helper lemmas for property C01, part 5: the re-keying setters (`_set_id_short`, `Qualifier.type`, `Extension.name`,
  `HasSemantics.semantic_id`): discard from the one containing set, change the attribute, add again.
-/
import Basyx.Lemmas.NsNs
namespace Basyx.Ns

/-- namespace, attribute and hooks of every set stay what they are -/
def SameShape (s s' : St) : Prop :=
  ∀ g : Nat, (s'.sets[g]?).map (fun S : NSet => (S.ns, S.attr, S.hooks)) = (s.sets[g]?).map (fun S : NSet => (S.ns, S.attr, S.hooks))

theorem SameShape.refl (s : St) : SameShape s s := fun _ => rfl
theorem SameShape.trans {a b c : St} (h1 : SameShape a b) (h2 : SameShape b c) : SameShape a c :=
  fun g => (h2 g).trans (h1 g)

theorem SameShape_modify {s s' : St} {g : Nat} {F : NSet → NSet} (hsets : s'.sets = s.sets.modify g F)
    (hF : ∀ S, (F S).ns = S.ns ∧ (F S).attr = S.attr ∧ (F S).hooks = S.hooks) : SameShape s s' := by
  intro x
  rw [hsets]
  by_cases hx : x = g
  · subst hx; rw [getElem?_modify_same]
    cases s.sets[x]? with
    | none => rfl
    | some S => simp [hF S]
  · rw [getElem?_modify_ne hx]

theorem SameShape_of_eq {s s' : St} (h : s'.sets = s.sets) : SameShape s s' := by
  intro g; rw [h]

theorem SameShape.get {s s' : St} (h : SameShape s s') {g : Nat} {S : NSet} (hS : s.sets[g]? = some S) :
    ∃ S', s'.sets[g]? = some S' ∧ S'.ns = S.ns ∧ S'.attr = S.attr ∧ S'.hooks = S.hooks := by
  have := h g
  rw [hS] at this
  cases hS' : s'.sets[g]? with
  | none => rw [hS'] at this; simp at this
  | some S' =>
    rw [hS'] at this; simp at this
    exact ⟨S', rfl, this.1, this.2.1, this.2.2⟩

theorem baseRemove_shape (s : St) (g e : Nat) : SameShape s (baseRemove s g e).1 := by
  unfold baseRemove
  split
  · split
    · exact SameShape.refl s
    · split
      · exact SameShape.refl s
      · split
        · exact SameShape.refl s
        · split
          · exact SameShape.refl s
          · exact SameShape_modify (F := fun S => { S with backend := AList.erase _ S.backend }) rfl (fun _ => ⟨rfl, rfl, rfl⟩)
  · exact SameShape.refl s

theorem setOrder_shape (s : St) (g : Nat) (f : List Nat → List Nat) : SameShape s (setOrder s g f) :=
  SameShape_modify (F := fun S => { S with order := S.order.map f }) rfl (fun _ => ⟨rfl, rfl, rfl⟩)

theorem orderRemove_shape (s : St) (g e : Nat) : SameShape s (orderRemove s g e).1 := by
  unfold orderRemove
  split
  · split
    · exact setOrder_shape _ _ _
    · exact SameShape.refl s
  · exact SameShape.refl s

theorem setRemove_shape (s : St) (g e : Nat) : SameShape s (setRemove s g e).1 := by
  unfold setRemove
  have h := baseRemove_shape s g e
  cases hr : baseRemove s g e with
  | mk s1 out =>
    rw [hr] at h
    cases out with
    | ok => exact h.trans (orderRemove_shape s1 g e)
    | elem x => exact h
    | raise x => exact h
    | bad => exact h

/-! ### where the element is -/

theorem mem_setsOf {s : St} {n g : Nat} : g ∈ setsOf s n ↔ ∃ S, s.sets[g]? = some S ∧ S.ns = n := by
  unfold setsOf
  rw [List.mem_filter, List.mem_range]
  constructor
  · rintro ⟨hlt, h⟩
    cases hS : s.sets[g]? with
    | none => rw [hS] at h; simp at h
    | some S => rw [hS] at h; exact ⟨S, rfl, by simpa using h⟩
  · rintro ⟨S, hS, hn⟩
    exact ⟨(List.getElem?_eq_some_iff.1 hS).1, by rw [hS]; simpa using hn⟩

theorem setsOf_nodup (s : St) (n : Nat) : (setsOf s n).Nodup :=
  (List.filter_sublist).nodup List.nodup_range

theorem containsAt_of_member {s : St} (hI : InvU s) {g e : Nat} {S : NSet} {k : Key} (hS : s.sets[g]? = some S)
    (hm : (k, e) ∈ S.backend) : containsAt s g e = true := by
  obtain ⟨el, hE, hk, _, hkd⟩ := hI.member _ _ _ _ hS hm
  simp [containsAt, hS, hE, containsE, hkd, hk, lookup, AList.get_of_mem_nodup (hI.keysNodup _ _ hS) hm]

theorem containsAt_false_of_detached {s : St} (hI : InvU s) {g e : Nat}
    (hdet : ∀ el, s.elems[e]? = some el → el.parent = none) : containsAt s g e = false := by
  cases h : containsAt s g e with
  | false => rfl
  | true =>
    exfalso
    unfold containsAt at h
    cases hS : s.sets[g]? with
    | none => rw [hS] at h; simp at h
    | some S =>
      cases hE : s.elems[e]? with
      | none => rw [hS, hE] at h; simp at h
      | some el =>
        have hc : containsAt s g e = true := by unfold containsAt; rw [hS, hE]; rw [hS, hE] at h; exact h
        exact not_mem_vals_of_detached hI hS hE (hdet _ hE) (containsAt_mem hS hc)

theorem discardAll_detached {s : St} (hI : InvU s) {e : Nat} (hdet : ∀ el, s.elems[e]? = some el → el.parent = none)
    (gs : List Nat) : discardAll s e gs = (s, [], .ok) := by
  induction gs with
  | nil => rfl
  | cons g r ih =>
    unfold discardAll
    rw [containsAt_false_of_detached hI hdet]
    simpa using ih

/-- under the invariant the discard loop removes the element from exactly the one set that holds it -/
theorem discardAll_unique {s : St} (hI : Inv s) {e g0 : Nat} {S : NSet} {k : Key} (hS : s.sets[g0]? = some S)
    (hm : (k, e) ∈ S.backend) (gs : List Nat) (hnd : gs.Nodup) (hg0 : g0 ∈ gs) :
    discardAll s e gs = ((setRemove s g0 e).1, [g0], .ok) := by
  induction gs with
  | nil => cases hg0
  | cons g r ih =>
    unfold discardAll
    have hnd' := List.nodup_cons.1 hnd
    by_cases hg : g = g0
    · subst hg
      rw [containsAt_of_member hI.u hS hm]
      simp only [if_true]
      obtain ⟨h1, h2, h3, h4, h5⟩ := setRemove_inv hI g e
      have hok := h3 S hS (mem_vals_iff.2 ⟨k, hm⟩)
      obtain ⟨el', hE', hp'⟩ := h5 hok
      cases hr : setRemove s g e with
      | mk s1 out =>
        rw [hr] at hok h1 hE'; simp only at hok h1 hE'; subst hok
        simp only
        rw [discardAll_detached h1.u (by intro el h; rw [hE'] at h; cases h; exact hp') r]
    · have hc : containsAt s g e = false := by
        cases h : containsAt s g e with
        | false => rfl
        | true =>
          exfalso
          cases hT : s.sets[g]? with
          | none => simp [containsAt, hT] at h
          | some T =>
            obtain ⟨k', hm'⟩ := mem_vals_iff.1 (containsAt_mem hT h)
            exact hg (hI.u.entry_unique hS hm hT hm').1
      rw [hc]
      simp only [Bool.false_eq_true, if_false]
      have : g0 ∈ r := by
        simp at hg0; rcases hg0 with h | h
        · exact absurd h.symm hg
        · exact h
      exact ih hnd'.2 this

/-- `relink` in closed form -/
theorem relink_eq {s : St} (hI : Inv s) {e n : Nat} {el : Elem} (f : Elem → Elem) (hE : s.elems[e]? = some el)
    (hp : el.parent = some n) :
    ∃ (g0 : Nat) (S : NSet) (k : Key), s.sets[g0]? = some S ∧ S.ns = n ∧ (k, e) ∈ S.backend ∧
      relink s e n f =
        (match setAdd (updElem (setRemove s g0 e).1 e f) g0 e with
         | (s2, .ok) => (updElem s2 e f, Out.ok)
         | r => r) := by
  obtain ⟨g0, S, k, hS, hn, hm⟩ := hI.u.parent _ _ _ hE hp
  refine ⟨g0, S, k, hS, hn, hm, ?_⟩
  unfold relink
  rw [discardAll_unique hI hS hm _ (setsOf_nodup s n) (mem_setsOf.2 ⟨S, hS, hn⟩)]
  simp only [readdAll]
  cases setAdd (updElem (setRemove s g0 e).1 e f) g0 e with
  | mk s2 out => cases out <;> rfl

theorem Inv_updElem_detached {s : St} (hI : Inv s) {e : Nat} {el : Elem} (f : Elem → Elem) (hE : s.elems[e]? = some el)
    (hp : el.parent = none) (hfp : (f el).parent = none) (hfk : ∀ i, (f el).key = some (.gen i) → el.key = some (.gen i)) :
    Inv (updElem s e f) := by
  refine ⟨?_, InvO_of_sets_eq hI.o rfl⟩
  apply retagU (e := e) hI.u
  · intro el' h; rw [hE] at h; cases h; exact hp
  · intro el' h
    rw [updElem_get, if_pos rfl, hE] at h; simp at h; subst h
    exact ⟨hfp, fun i hi => hI.u.genFresh _ _ _ hE (hfk i hi)⟩
  · intro x hx; rw [updElem_get, if_neg hx]
  · rfl
  · exact Nat.le_refl _
  · exact Nat.le_refl _

theorem Inv_updElem_touch {s : St} (hI : Inv s) {e : Nat} (f : Elem → Elem)
    (hf : ∀ el, s.elems[e]? = some el → (f el).key = el.key ∧ (f el).parent = el.parent ∧ (f el).kind = el.kind) :
    Inv (updElem s e f) := by
  refine ⟨?_, InvO_of_sets_eq hI.o rfl⟩
  apply touchU (e := e) hI.u
  · intro el' h
    rw [updElem_get, if_pos rfl] at h
    cases hE : s.elems[e]? with
    | none => rw [hE] at h; cases h
    | some el => rw [hE] at h; simp at h; subst h; exact ⟨el, rfl, hf el hE⟩
  · intro x hx; rw [updElem_get, if_neg hx]
  · simp [updElem]
  · rfl
  · exact Nat.le_refl _
  · exact Nat.le_refl _

/-- `relink` preserves the invariant, for an attribute change `f` that leaves parent and kind alone, never invents a
    generated key, and either leaves the key alone (semantic_id) or sets a constant proper key (id_short / type / name;
    a set with list hooks then refuses the re-add, because the element already has a key). -/
theorem relink_inv {s : St} (hI : Inv s) {e n : Nat} {el : Elem} (f : Elem → Elem) (hE : s.elems[e]? = some el)
    (hp : el.parent = some n)
    (hf : ∀ x, (f x).parent = x.parent ∧ (f x).kind = x.kind ∧ ∀ i, (f x).key = some (.gen i) → x.key = some (.gen i))
    (hkey : (∀ x, (f x).key = x.key) ∨
      ((∀ x, (f x).key.isSome) ∧ ∀ x y, (f x).key = (f y).key)) :
    Inv (relink s e n f).1 := by
  obtain ⟨g0, S, k, hS, hn, hm, heq⟩ := relink_eq hI f hE hp
  rw [heq]
  obtain ⟨h1, _, h3, _, h5⟩ := setRemove_inv hI g0 e
  have hok := h3 S hS (mem_vals_iff.2 ⟨k, hm⟩)
  obtain ⟨el1, hE1, hp1⟩ := h5 hok
  have hsh := setRemove_shape s g0 e
  generalize (setRemove s g0 e).1 = s1 at h1 hE1 hsh
  have h1' : Inv (updElem s1 e f) :=
    Inv_updElem_detached h1 f hE1 hp1 (by rw [(hf el1).1]; exact hp1) (hf el1).2.2
  have hE1' : (updElem s1 e f).elems[e]? = some (f el1) := by rw [updElem_get, if_pos rfl, hE1]; rfl
  obtain ⟨h2, _⟩ := setAdd_inv h1' g0 e
  -- what `setAdd` did to the element
  have hadd : ∀ s2, setAdd (updElem s1 e f) g0 e = (s2, .ok) →
      ∃ S1 k', s1.sets[g0]? = some S1 ∧ (S1.hooks = none → (f el1).key = some k') ∧ (S1.hooks.isSome → (f el1).key = none) ∧
        s2.elems[e]? = some { f el1 with key := some k', parent := some S1.ns } := by
    intro s2 h
    unfold setAdd at h
    obtain ⟨_, _, _, _, hok', _⟩ := baseAdd_spec h1'.u g0 e
    cases hr : baseAdd (updElem s1 e f) g0 e with
    | mk s2' out =>
      rw [hr] at h hok'
      cases out with
      | ok =>
        simp only at h
        obtain ⟨S1, el1', k', hS1, hE1'', _, _, _, _, hk1, hk1', _, helems⟩ := (hok' rfl).ex
        rw [hE1'] at hE1''; cases hE1''
        refine ⟨S1, k', hS1, hk1, hk1', ?_⟩
        have : s2 = setOrder s2' g0 (fun o => o ++ [e]) := by cases h; rfl
        subst this
        show s2'.elems[e]? = _
        simp only at helems
        rw [helems, getElem?_modify_same, hE1']; rfl
      | elem x => cases h
      | raise x => cases h
      | bad => cases h
  cases hr : setAdd (updElem s1 e f) g0 e with
  | mk s2 out =>
    rw [hr] at h2
    cases out with
    | ok =>
      simp only
      obtain ⟨S1, k', hS1, hk1, hk1', hE2⟩ := hadd s2 hr
      apply Inv_updElem_touch h2 f
      intro el2 hel2
      rw [hE2] at hel2; cases hel2
      refine ⟨?_, (hf _).1, (hf _).2.1⟩
      rcases hkey with hkey | ⟨hnl, hconst⟩
      · exact hkey _
      · cases hh : S1.hooks with
        | none =>
          have := hk1 hh
          show (f _).key = some k'
          rw [← this]; exact hconst _ _
        | some cfg =>
          have := hk1' (by simp [hh])
          have h2 := hnl el1
          rw [this] at h2; simp at h2
    | elem x => exact h2
    | raise x => exact h2
    | bad => exact h2

theorem rename_inv {s : St} (hI : Inv s) (e : Nat) (nk : Option String) : Inv (rename s e nk).1 := by
  unfold rename
  cases hE : s.elems[e]? with
  | none => exact hI
  | some el =>
    simp only
    have hdetached : ∀ (k : Option Key), (∀ i, k ≠ some (.gen i)) → el.parent = none →
        Inv (updElem s e (fun x => { x with key := k })) := by
      intro k hk hp
      exact Inv_updElem_detached hI _ hE hp hp (fun i hi => absurd hi (hk i))
    have hrel : ∀ (k : Key) (n : Nat), (∀ i, k ≠ .gen i) → el.parent = some n →
        Inv (relink s e n (fun x => { x with key := some k })).1 := by
      intro k n hk hp
      exact relink_inv hI _ hE hp (fun x => ⟨rfl, rfl, fun i hi => by simp at hi; exact absurd hi (hk i)⟩)
        (Or.inr ⟨fun _ => rfl, fun _ _ => rfl⟩)
    cases hkd : el.kind with
    | ref =>
      simp only
      split
      · exact hI
      · split
        · exact hI
        · cases hp : el.parent with
          | none => exact hdetached _ (by intro i; cases nk <;> simp) hp
          | some n =>
            simp only
            cases nk with
            | none => exact hI
            | some str =>
              simp only [Option.map]
              split
              · exact hI
              · split
                · exact hI
                · exact hrel _ _ (by intro i; simp) hp
    | qual =>
      simp only
      cases nk with
      | none => exact hI
      | some str =>
        simp only
        split
        · exact hI
        · cases hp : el.parent with
          | none => exact hdetached _ (by intro i; simp) hp
          | some n =>
            simp only
            split
            · exact hI
            · exact hrel _ _ (by intro i; simp) hp
    | ext =>
      simp only
      cases nk with
      | none => exact hI
      | some str =>
        simp only
        split
        · exact hI
        · cases hp : el.parent with
          | none => exact hdetached _ (by intro i; simp) hp
          | some n =>
            simp only
            split
            · exact hI
            · exact hrel _ _ (by intro i; simp) hp

theorem setSem_inv {s : St} (hI : Inv s) (e : Nat) (sem : Option Nat) : Inv (setSem s e sem).1 := by
  unfold setSem
  cases hE : s.elems[e]? with
  | none => exact hI
  | some el =>
    simp only
    cases hp : el.parent with
    | none => exact Inv_updElem_touch hI _ (fun _ _ => ⟨rfl, rfl, rfl⟩)
    | some n =>
      exact relink_inv hI _ hE hp (fun x => ⟨rfl, rfl, fun i hi => hi⟩) (Or.inl (fun _ => rfl))

end Basyx.Ns
