/-
  Helper lemmas for property C01, part 4: namespace level operations (add_…, remove_…_by_…), extend, element creation and
  the constructors (registration + initial fill with rollback).
-/
import Basyx.Lemmas.NsSet
namespace Basyx.Ns

/-! ### `_add_object` / `_remove_object` -/

theorem nsAdd_inv {s : St} (hI : Inv s) (n e : Nat) :
    Inv (nsAdd s n e).1 ∧ ((nsAdd s n e).2 ≠ .ok → Unch s (nsAdd s n e).1) := by
  unfold nsAdd
  cases hE : s.elems[e]? with
  | none => exact ⟨hI, fun _ => Unch.rfl'⟩
  | some el =>
    simp only
    split
    · exact setAdd_inv hI _ e
    · exact ⟨hI, fun _ => Unch.rfl'⟩

theorem nsRemoveAux_inv {s : St} (hI : Inv s) (a : Kind) (k : Key) (gs : List Nat) :
    Inv (nsRemoveAux s a k gs).1 ∧ ((nsRemoveAux s a k gs).2 ≠ .ok → (nsRemoveAux s a k gs).1 = s) := by
  induction gs with
  | nil => exact ⟨hI, fun _ => rfl⟩
  | cons g r ih =>
    unfold nsRemoveAux
    cases hS : s.sets[g]? with
    | none => exact ih
    | some S =>
      simp only
      split
      · obtain ⟨h1, h2, h3, h4⟩ := setRemoveKey_inv hI g k
        cases hr : setRemoveKey s g k with
        | mk s1 out =>
          rw [hr] at h1 h2 h3 h4
          cases out with
          | ok => exact ⟨h1, fun h => absurd rfl h⟩
          | elem x => exact absurd rfl (h3 x)
          | bad => exact ⟨h1, fun _ => h2 (by simp)⟩
          | raise x =>
            have hx := h4 x rfl; subst hx
            have hs1 : s1 = s := h2 (by simp)
            subst hs1
            exact ih
      · exact ih

theorem nsRemove_inv {s : St} (hI : Inv s) (n : Nat) (a : Kind) (k : Key) :
    Inv (nsRemove s n a k).1 ∧ ((nsRemove s n a k).2 ≠ .ok → (nsRemove s n a k).1 = s) :=
  nsRemoveAux_inv hI a k _

/-! ### extend -/

theorem setExtend_inv {s : St} (hI : Inv s) (g : Nat) (es : List Nat) : Inv (setExtend s g es).1 := by
  induction es generalizing s with
  | nil => exact hI
  | cons e r ih =>
    unfold setExtend
    obtain ⟨h1, _⟩ := setAppend_inv hI g e
    cases hr : setAppend s g e with
    | mk s1 out =>
      rw [hr] at h1
      cases out with
      | ok => exact ih h1
      | elem x => exact h1
      | raise x => exact h1
      | bad => exact h1

/-! ### new elements, counters -/

theorem Inv_mkElem {s : St} (hI : Inv s) (el : Elem) (hp : el.parent = none) (hk : ∀ i, el.key ≠ some (.gen i)) :
    Inv (mkElem s el) := by
  refine ⟨?_, InvO_of_sets_eq hI.o rfl⟩
  apply retagU (e := s.elems.length) hI.u
  · intro el' h; simp at h
  · intro el' h
    simp [mkElem] at h; subst h
    exact ⟨hp, fun i hi => absurd hi (hk i)⟩
  · intro x hx
    simp only [mkElem]
    by_cases hlt : x < s.elems.length
    · rw [List.getElem?_append_left hlt]
    · have hge : s.elems.length ≤ x := Nat.le_of_not_lt hlt
      have hgt : s.elems.length < x := Nat.lt_of_le_of_ne hge (fun h => hx h.symm)
      rw [List.getElem?_eq_none (by simp; omega), List.getElem?_eq_none (by omega)]
  · rfl
  · exact Nat.le_refl _
  · exact Nat.le_refl _

theorem Inv_nsCount {s : St} (hI : Inv s) (c : Nat) (h : s.nsCount ≤ c) : Inv { s with nsCount := c } := by
  refine ⟨?_, InvO_of_sets_eq hI.o rfl⟩
  apply retagU (e := s.elems.length) hI.u
  · intro el' h; simp at h
  · intro el' h; simp at h
  · intro x _; rfl
  · rfl
  · exact Nat.le_refl _
  · exact h

theorem Inv_appendSet {s : St} (hI : Inv s) (S0 : NSet) (hb : S0.backend = []) (ho : S0.order = none ∨ S0.order = some [])
    (hn : S0.ns < s.nsCount) : Inv { s with sets := s.sets ++ [S0] } := by
  refine ⟨appendSetU hI.u hb hn, ?_⟩
  intro g S o hS hSo
  simp only at hS
  rw [List.getElem?_append] at hS
  split at hS
  · exact hI.o _ _ _ hS hSo
  · have : S = S0 := by
      cases hx : g - s.sets.length with
      | zero => rw [hx] at hS; simp at hS; exact hS.symm
      | succ n => rw [hx] at hS; simp at hS
    subst this
    rcases ho with ho | ho
    · rw [ho] at hSo; cases hSo
    · rw [ho] at hSo; cases hSo; simp [vals, hb]

/-! ### constructors -/

theorem fillSet_inv {s : St} (hI : Inv s) (g : Nat) (es : List Nat) :
    Inv (fillSet s g es).1 ∧ (fillSet s g es).1.nsCount = s.nsCount := by
  induction es generalizing s with
  | nil => exact ⟨hI, rfl⟩
  | cons e r ih =>
    unfold fillSet
    obtain ⟨h1, _⟩ := setAdd_inv hI g e
    have hnc : (setAdd s g e).1.nsCount = s.nsCount := by
      unfold setAdd
      obtain ⟨_, hn, _⟩ := baseAdd_spec hI.u g e
      cases hr : baseAdd s g e with
      | mk s1 out => rw [hr] at hn; cases out <;> exact hn
    cases hr : setAdd s g e with
    | mk s1 out =>
      rw [hr] at h1 hnc
      have hcl : Inv (setClear s1 g).1 ∧ (setClear s1 g).1.nsCount = s.nsCount := by
        refine ⟨(setClear_inv h1 g).1, ?_⟩
        unfold setClear
        cases hS : s1.sets[g]? with
        | none => exact hnc
        | some S =>
          simp only
          rw [updSet_nsCount, (foldl_delHook_sets _ _ _).2.2]; exact hnc
      cases out with
      | ok => obtain ⟨a, b⟩ := ih h1; exact ⟨a, by rw [b]; exact hnc⟩
      | elem x => exact hcl
      | raise x => exact hcl
      | bad => exact hcl

theorem buildSets_inv {s : St} (hI : Inv s) (n : Nat) (hn : n < s.nsCount) (cfg : ListCfg) (layout : List (Kind × Bool))
    (items : List (List Nat)) : Inv (buildSets s n cfg layout items).1 := by
  induction layout generalizing s items with
  | nil => exact hI
  | cons hd r ih =>
    obtain ⟨a, isVal⟩ := hd
    unfold buildSets
    split
    · exact hI
    · simp only
      have happ : Inv { s with sets := s.sets ++ [⟨n, a, [], if isVal then some [] else none, if isVal then some cfg else none⟩] } := by
        apply Inv_appendSet hI _ rfl _ hn
        cases isVal <;> simp
      obtain ⟨h1, h2⟩ := fillSet_inv happ s.sets.length (items.headD [])
      cases hr : fillSet { s with sets := s.sets ++ [⟨n, a, [], if isVal then some [] else none, if isVal then some cfg else none⟩] } s.sets.length (items.headD []) with
      | mk s1 out =>
        rw [hr] at h1 h2
        cases out with
        | ok => exact ih h1 (by rw [h2]; exact hn) _
        | elem x => exact h1
        | raise x => exact h1
        | bad => exact h1

theorem construct_inv {s : St} (hI : Inv s) (kind : NsKind) (key : Option String) (items : List (List Nat)) (cfg : ListCfg) :
    Inv (construct s kind key items cfg).1 := by
  unfold construct
  have h0 : Inv { s with nsCount := s.nsCount + 1 } := Inv_nsCount hI _ (Nat.le_succ _)
  simp only
  split
  · exact h0
  · have hb := buildSets_inv h0 s.nsCount (Nat.lt_succ_self _) cfg (nsLayout kind) items
    cases hr : buildSets { s with nsCount := s.nsCount + 1 } s.nsCount cfg (nsLayout kind) items with
    | mk s1 out =>
      rw [hr] at hb
      cases out with
      | ok =>
        simp only
        split
        · apply Inv_mkElem hb _ rfl
          intro i; cases key <;> simp
        · exact hb
      | elem x => exact hb
      | raise x => exact hb
      | bad => exact hb

end Basyx.Ns
