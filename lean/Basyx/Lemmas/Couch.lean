/-
  Helper lemmas for C16 (Model/Couch.lean): percent-quoting round trip, association-list membership facts, server facts,
  what one `request` can do, and the frame calculus (`Frame`) from which the revision-store invariant follows.
-/
import Basyx.Model.Couch
namespace Basyx.Couch
open Basyx

/-! ### `_transform_id`: quote / unquote -/


theorem hexVal_hexDigit : ∀ n, n < 16 → hexVal (hexDigit n) = some n := by decide

set_option maxRecDepth 8192 in
theorem unreserved_ne_pct : ∀ b : Byte, unreserved b.val = true → b.val ≠ 37 := by decide

theorem ofNat_val (b : Byte) : Fin.ofNat 256 b.val = b := by
  apply Fin.ext; simp [Fin.ofNat, Nat.mod_eq_of_lt b.isLt]

set_option maxRecDepth 8192 in
theorem byte_split : ∀ b : Byte, Fin.ofNat 256 (b.val / 16 * 16 + b.val % 16) = b := by decide

theorem unquote_quoteByte (b : Byte) (r : Quoted) : unquote (quoteByte b ++ r) = b :: unquote r := by
  unfold quoteByte
  split
  · rename_i h
    have h37 := unreserved_ne_pct b h
    have hlt : b.val < 256 := b.isLt
    cases r with
    | nil => simp [unquote, lit, hlt]
    | cons a t =>
      cases t with
      | nil => simp [unquote, lit, hlt]
      | cons a2 t2 => simp [unquote, h37, lit, hlt]
  · have h1 : hexVal (hexDigit (b.val / 16)) = some (b.val / 16) := hexVal_hexDigit _ (by omega)
    have h2 : hexVal (hexDigit (b.val % 16)) = some (b.val % 16) := hexVal_hexDigit _ (by omega)
    simp [unquote, h1, h2, byte_split]

theorem unquote_quote (i : Ident) : unquote (quote i) = i := by
  induction i with
  | nil => simp [quote, unquote]
  | cons b r ih => simp [quote, unquote_quoteByte, ih]

theorem quote_injective {i j : Ident} (h : quote i = quote j) : i = j := by
  have := congrArg unquote h
  simpa [unquote_quote] using this

def urlSafe (c : Nat) : Bool := unreserved c || c == 37

set_option maxRecDepth 8192 in
theorem quoteByte_safe : ∀ b : Byte, ∀ c ∈ quoteByte b, urlSafe c = true := by decide

theorem quote_safe (i : Ident) : ∀ c ∈ quote i, urlSafe c = true := by
  induction i with
  | nil => simp [quote]
  | cons b r ih =>
    intro c hc
    simp [quote] at hc
    rcases hc with hc | hc
    · exact quoteByte_safe b c hc
    · exact ih c hc

theorem slash_not_mem_quote (i : Ident) : 47 ∉ quote i := by
  intro h
  have := quote_safe i 47 h
  revert this; decide



/-! ### association-list facts used below -/
section alist
variable {κ ν : Type} [DecidableEq κ]

theorem mem_set {k : κ} {v : ν} {l : List (κ × ν)} {p : κ × ν} (h : p ∈ AList.set k v l) : p = (k, v) ∨ p ∈ l := by
  induction l with
  | nil => simp [AList.set] at h; exact Or.inl h
  | cons hd t ih =>
    obtain ⟨k', v'⟩ := hd
    by_cases hk : k' = k
    · simp [AList.set, hk] at h
      rcases h with h | h
      · exact Or.inl h
      · exact Or.inr (List.mem_cons_of_mem _ h)
    · simp [AList.set, hk] at h
      rcases h with h | h
      · exact Or.inr (by rw [h]; exact List.mem_cons_self)
      · rcases ih h with h | h
        · exact Or.inl h
        · exact Or.inr (List.mem_cons_of_mem _ h)

theorem mem_erase {k : κ} {l : List (κ × ν)} {p : κ × ν} (h : p ∈ AList.erase k l) : p ∈ l := by
  induction l with
  | nil => simp [AList.erase] at h
  | cons hd t ih =>
    obtain ⟨k', v'⟩ := hd
    by_cases hk : k' = k
    · simp [AList.erase, hk] at h; exact List.mem_cons_of_mem _ h
    · simp [AList.erase, hk] at h
      rcases h with h | h
      · rw [h]; exact List.mem_cons_self
      · exact List.mem_cons_of_mem _ (ih h)

theorem get_eraseKey_same (k : κ) (l : List (κ × ν)) : AList.get k (eraseKey k l) = none := by
  induction l with
  | nil => rfl
  | cons hd t ih =>
    obtain ⟨k', v'⟩ := hd
    unfold eraseKey at ih ⊢
    by_cases hk : k' = k
    · simp [List.filter, hk] at ih ⊢; exact ih
    · simp [List.filter, hk, AList.get] at ih ⊢; exact ih

theorem get_eraseKey_other {k k' : κ} (l : List (κ × ν)) (h : k' ≠ k) : AList.get k' (eraseKey k l) = AList.get k' l := by
  induction l with
  | nil => rfl
  | cons hd t ih =>
    obtain ⟨k2, v2⟩ := hd
    unfold eraseKey at ih ⊢
    by_cases hk : k2 = k
    · subst hk
      simp [List.filter, AList.get, Ne.symm h] at ih ⊢; exact ih
    · by_cases hk' : k2 = k'
      · subst hk'; simp [List.filter, hk, AList.get]
      · simp [List.filter, hk, AList.get, hk'] at ih ⊢; exact ih

theorem mem_eraseKey {k : κ} {l : List (κ × ν)} {p : κ × ν} (h : p ∈ eraseKey k l) : p ∈ l := by
  unfold eraseKey at h
  exact (List.mem_filter.1 h).1

theorem mem_of_get {k : κ} {v : ν} {l : List (κ × ν)} (h : AList.get k l = some v) : (k, v) ∈ l := by
  induction l with
  | nil => simp [AList.get] at h
  | cons hd t ih =>
    obtain ⟨k', v'⟩ := hd
    by_cases hk : k' = k
    · simp [AList.get, hk] at h; simp [hk, h]
    · simp [AList.get, hk] at h; exact List.mem_cons_of_mem _ (ih h)

end alist

/-! ### server facts -/

theorem lookup_write_same (sv : Server) (i : Ident) (b : Option Data) :
    lookup (write sv i b) i = some ⟨genOf sv i + 1, b⟩ := by
  simp [lookup, write]

theorem lookup_write_other (sv : Server) {i j : Ident} (b : Option Data) (h : j ≠ i) :
    lookup (write sv i b) j = lookup sv j := by
  simp [lookup, write, AList.get_set_other _ _ h]

theorem genOf_write_same (sv : Server) (i : Ident) (b : Option Data) : genOf (write sv i b) i = genOf sv i + 1 := by
  simp [genOf, lookup_write_same]

theorem genOf_write_other (sv : Server) {i j : Ident} (b : Option Data) (h : j ≠ i) :
    genOf (write sv i b) j = genOf sv j := by
  simp [genOf, lookup_write_other sv b h]

theorem genOf_write_mono (sv : Server) (i j : Ident) (b : Option Data) : genOf sv j ≤ genOf (write sv i b) j := by
  by_cases h : j = i
  · subst h; rw [genOf_write_same]; omega
  · rw [genOf_write_other sv b h]; exact Nat.le_refl _

theorem live_write_same (sv : Server) (i : Ident) (d : Data) : live (write sv i (some d)) i = some (genOf sv i + 1, d) := by
  simp [live, lookup_write_same]

theorem live_write_none (sv : Server) (i : Ident) : live (write sv i none) i = none := by
  simp [live, lookup_write_same]

theorem live_write_other (sv : Server) {i j : Ident} (b : Option Data) (h : j ≠ i) : live (write sv i b) j = live sv j := by
  simp [live, lookup_write_other sv b h]

theorem live_gen {sv : Server} {i : Ident} {g : Rev} {d : Data} (h : live sv i = some (g, d)) : genOf sv i = g := by
  unfold live at h; unfold genOf
  split at h <;> simp_all

theorem serveDoc_cases (sv : Server) (i : Ident) (rq : Req) :
    (serveDoc sv i rq).1 = sv ∨ ∃ b, (serveDoc sv i rq).1 = write sv i b := by
  unfold serveDoc
  repeat' split
  all_goals first | (left; rfl) | (right; exact ⟨_, rfl⟩)

/-- what one request can do to the server: nothing, or one new revision of the addressed document -/
theorem serve_cases (sv : Server) (rq : Req) :
    (serve sv rq).1 = sv ∨ ∃ q b, rq.target = .doc q ∧ (serve sv rq).1 = write sv (unquote q) b := by
  unfold serve
  split
  · split <;> simp
  · split <;> simp
  · rename_i q hq
    split
    · simp
    · rcases serveDoc_cases sv (unquote q) rq with h | ⟨b, h⟩
      · left; exact h
      · right; exact ⟨q, b, hq, h⟩

theorem serve_gen_mono (sv : Server) (rq : Req) (j : Ident) : genOf sv j ≤ genOf (serve sv rq).1 j := by
  rcases serve_cases sv rq with h | ⟨q, b, _, h⟩
  · rw [h]; exact Nat.le_refl _
  · rw [h]; exact genOf_write_mono _ _ _ _




/-! ### one request -/

theorem classify_fault_ok {m : Method} {k : FaultKind} {b : Body} (h : classify m (faultWire k) = .ok b) : b = .error := by
  cases k with
  | transport t => cases t <;> simp [faultWire, classify] at h
  | status c jt jb =>
    cases jb <;> simp [faultWire, classify] at h <;> (repeat' split at h) <;> simp_all

theorem classify_fault_headers {m : Method} {k : FaultKind} {e : Option Rev} (h : classify m (faultWire k) = .headers e) :
    e = none := by
  cases k with
  | transport t => cases t <;> simp [faultWire, classify] at h
  | status c jt jb =>
    cases jb <;> simp [faultWire, classify] at h <;> (repeat' split at h) <;> simp_all

theorem request_cases (w : W) (rq : Req) :
    (request w rq).1.cl = w.cl ∧
    (((request w rq).1.sv = (serve w.sv rq).1 ∧ (request w rq).2 = classify rq.method (.resp (serve w.sv rq).2)) ∨
     (∃ k, ((request w rq).1.sv = w.sv ∨ (request w rq).1.sv = (serve w.sv rq).1) ∧
        (request w rq).2 = classify rq.method (faultWire k))) := by
  unfold request
  split
  · rename_i f rest hp
    refine ⟨rfl, Or.inr ⟨f.kind, ?_, rfl⟩⟩
    cases f.processed <;> simp
  · exact ⟨rfl, Or.inl ⟨rfl, rfl⟩⟩
  · exact ⟨rfl, Or.inl ⟨rfl, rfl⟩⟩

theorem request_cl (w : W) (rq : Req) : (request w rq).1.cl = w.cl := (request_cases w rq).1

theorem request_gen_mono (w : W) (rq : Req) (j : Ident) : genOf w.sv j ≤ genOf (request w rq).1.sv j := by
  rcases (request_cases w rq).2 with ⟨h, _⟩ | ⟨k, h | h, _⟩
  · rw [h]; exact serve_gen_mono _ _ _
  · rw [h]; exact Nat.le_refl _
  · rw [h]; exact serve_gen_mono _ _ _

theorem eq_of_request {w w' : W} {rq : Req} {o : Outcome} (h : request w rq = (w', o)) :
    w' = (request w rq).1 ∧ o = (request w rq).2 := by
  rw [h]; exact ⟨rfl, rfl⟩

/-- a successful GET of a document: the server was not changed and the answer is the live document -/
theorem request_get_doc {w : W} {q : Quoted} {rv dt} {i : Ident} {g : Rev} {d : Data}
    (h : (request w ⟨.GET, .doc q, rv, dt⟩).2 = .ok (.doc i g d)) :
    i = unquote q ∧ (request w ⟨.GET, .doc q, rv, dt⟩).1.sv = w.sv ∧ live w.sv (unquote q) = some (g, d) := by
  rcases (request_cases w ⟨.GET, .doc q, rv, dt⟩).2 with ⟨hs, ho⟩ | ⟨k, _, ho⟩
  · rw [ho] at h
    rw [hs]
    simp only [serve, serveDoc] at h ⊢
    by_cases hq : 47 ∈ q
    · simp [hq, classify, err] at h
    · simp only [hq, if_false] at h ⊢
      cases hl : live w.sv (unquote q) with
      | none => simp [hl, classify, err] at h
      | some p =>
        obtain ⟨g', d'⟩ := p
        simp [hl, classify] at h ⊢
        obtain ⟨h1, h2, h3⟩ := h
        exact ⟨h1.symm, h2, h3⟩
  · rw [ho] at h
    have := classify_fault_ok h
    cases this

/-- a successful write: the answer's revision is the document's revision counter afterwards -/
theorem request_written {w : W} {m : Method} {q : Quoted} {rv dt} {i : Ident} {g : Rev}
    (h : (request w ⟨m, .doc q, rv, dt⟩).2 = .ok (.written i g)) :
    i = unquote q ∧ genOf (request w ⟨m, .doc q, rv, dt⟩).1.sv (unquote q) = g := by
  rcases (request_cases w ⟨m, .doc q, rv, dt⟩).2 with ⟨hs, ho⟩ | ⟨k, _, ho⟩
  · rw [ho] at h
    rw [hs]
    simp only [serve] at h ⊢
    by_cases hq : 47 ∈ q
    · simp [hq, classify, err] at h
    · simp only [hq, if_false] at h ⊢
      unfold serveDoc at h ⊢
      cases m <;> simp only at h ⊢
      · cases hl : live w.sv (unquote q) with
        | none => simp [hl, classify, err] at h
        | some p => obtain ⟨g', d'⟩ := p; simp [hl, classify] at h
      · cases hl : live w.sv (unquote q) with
        | none => simp [hl, classify] at h
        | some p => obtain ⟨g', d'⟩ := p; simp [hl, classify] at h
      · cases dt with
        | none => simp [classify, err] at h
        | some d =>
          cases hl : live w.sv (unquote q) with
          | none =>
            by_cases hr : rv = none
            · simp [hl, hr, classify] at h ⊢
              exact ⟨h.1.symm, by rw [genOf_write_same]; exact h.2⟩
            · simp [hl, hr, classify, err] at h
          | some p =>
            obtain ⟨g', d'⟩ := p
            by_cases hr : rv = some g'
            · simp [hl, hr, classify] at h ⊢
              exact ⟨h.1.symm, by rw [genOf_write_same, live_gen hl]; exact h.2⟩
            · simp [hl, hr, classify, err] at h
      · cases hl : live w.sv (unquote q) with
        | none => simp [hl, classify, err] at h
        | some p =>
          obtain ⟨g', d'⟩ := p
          by_cases hr : rv = some g'
          · simp [hl, hr, classify] at h ⊢
            exact ⟨h.1.symm, by rw [genOf_write_same, live_gen hl]; exact h.2⟩
          · simp [hl, hr, classify, err] at h
  · rw [ho] at h
    have := classify_fault_ok h
    cases this

/-- a HEAD answer carrying an ETag: it is the live revision -/
theorem request_head {w : W} {q : Quoted} {rv dt} {g : Rev}
    (h : (request w ⟨.HEAD, .doc q, rv, dt⟩).2 = .headers (some g)) :
    (request w ⟨.HEAD, .doc q, rv, dt⟩).1.sv = w.sv ∧ ∃ d, live w.sv (unquote q) = some (g, d) := by
  rcases (request_cases w ⟨.HEAD, .doc q, rv, dt⟩).2 with ⟨hs, ho⟩ | ⟨k, _, ho⟩
  · rw [ho] at h
    rw [hs]
    simp only [serve, serveDoc] at h ⊢
    by_cases hq : 47 ∈ q
    · simp [hq, classify, err] at h
    · simp only [hq, if_false] at h ⊢
      cases hl : live w.sv (unquote q) with
      | none => simp [hl, classify] at h
      | some p =>
        obtain ⟨g', d'⟩ := p
        simp [hl, classify] at h ⊢
        exact h
  · rw [ho] at h
    have := classify_fault_headers h
    cases this

/-! ### the frame calculus -/

/-- From `w` to `w'` the server's revision counters only grew, and every entry of the revision store is an old entry or a
    revision, learnt for a key in `A`, that is not ahead of the server. -/
def DocsInv (sv : Server) : Prop := (AList.keys sv.docs).Nodup

theorem docsInv_write {sv : Server} (i : Ident) (b : Option Data) (h : DocsInv sv) : DocsInv (write sv i b) :=
  AList.nodup_keys_set h

theorem docsInv_serve {sv : Server} (rq : Req) (h : DocsInv sv) : DocsInv (serve sv rq).1 := by
  rcases serve_cases sv rq with e | ⟨q, b, _, e⟩
  · rw [e]; exact h
  · rw [e]; exact docsInv_write _ _ h

theorem docsInv_request {w : W} (rq : Req) (h : DocsInv w.sv) : DocsInv (request w rq).1.sv := by
  rcases (request_cases w rq).2 with ⟨e, _⟩ | ⟨_, e | e, _⟩
  · rw [e]; exact docsInv_serve _ h
  · rw [e]; exact h
  · rw [e]; exact docsInv_serve _ h

def Frame (w w' : W) (A : Quoted → Prop) : Prop :=
  (∀ j, genOf w.sv j ≤ genOf w'.sv j) ∧
  (∀ q r, (q, r) ∈ w'.cl.revs → (q, r) ∈ w.cl.revs ∨ (A q ∧ r ≤ genOf w'.sv (unquote q))) ∧
  (DocsInv w.sv → DocsInv w'.sv)

theorem Frame.refl (w : W) (A : Quoted → Prop) : Frame w w A := ⟨fun _ => Nat.le_refl _, fun _ _ h => Or.inl h, id⟩

theorem Frame.trans {w w' w'' : W} {A : Quoted → Prop} (h1 : Frame w w' A) (h2 : Frame w' w'' A) : Frame w w'' A := by
  refine ⟨fun j => Nat.le_trans (h1.1 j) (h2.1 j), fun q r hm => ?_, fun h => h2.2.2 (h1.2.2 h)⟩
  rcases h2.2.1 q r hm with hm' | hm'
  · rcases h1.2.1 q r hm' with hm'' | ⟨ha, hle⟩
    · exact Or.inl hm''
    · exact Or.inr ⟨ha, Nat.le_trans hle (h2.1 _)⟩
  · exact Or.inr hm'

theorem Frame.mono {w w' : W} {A B : Quoted → Prop} (h : Frame w w' A) (hab : ∀ q, A q → B q) : Frame w w' B :=
  ⟨h.1, fun q r hm => (h.2.1 q r hm).imp id (fun ⟨ha, hl⟩ => ⟨hab q ha, hl⟩), h.2.2⟩

theorem frame_same {w w' : W} (A : Quoted → Prop) (hs : w'.sv = w.sv) (hr : w'.cl.revs = w.cl.revs) : Frame w w' A :=
  ⟨fun j => by rw [hs]; exact Nat.le_refl _, fun q r hm => Or.inl (by rw [hr] at hm; exact hm), fun h => by rw [hs]; exact h⟩

theorem frame_request (w : W) (rq : Req) (A : Quoted → Prop) : Frame w (request w rq).1 A :=
  ⟨request_gen_mono w rq, fun q r hm => Or.inl (by rw [request_cl] at hm; exact hm), docsInv_request rq⟩

theorem frame_setRev {w : W} {q : Quoted} {r : Rev} {A : Quoted → Prop} (ha : A q) (hr : r ≤ genOf w.sv (unquote q)) :
    Frame w (setRev w q r) A := by
  refine ⟨fun j => Nat.le_refl _, fun q' r' hm => ?_, id⟩
  rcases mem_set hm with h | h
  · cases h; exact Or.inr ⟨ha, hr⟩
  · exact Or.inl h

theorem frame_eraseRev (w : W) (q : Quoted) (A : Quoted → Prop) :
    Frame w { w with cl := { w.cl with revs := eraseKey q w.cl.revs } } A :=
  ⟨fun j => Nat.le_refl _, fun _ _ hm => Or.inl (mem_eraseKey hm), id⟩

/-! ### frames of the client operations -/

theorem frame_freshObj (w : W) (i : Ident) (d : Data) (A : Quoted → Prop) : Frame w (freshObj w i d).1 A :=
  frame_same _ rfl rfl

theorem frame_adopt (w : W) (i : Ident) (d : Data) (A : Quoted → Prop) : Frame w (adopt w i d).1 A := by
  unfold adopt
  repeat' split
  all_goals first | exact frame_freshObj _ _ _ _ | exact frame_same _ rfl rfl

theorem frame_getByCouchId (w : W) (i : Ident) : Frame w (getByCouchId w i).1 (· = quote i) := by
  unfold getByCouchId
  split
  · rename_i w1 i' rev d heq
    obtain ⟨hw, ho⟩ := eq_of_request heq
    obtain ⟨hi, hsv, hl⟩ := request_get_doc ho.symm
    have f1 : Frame w w1 (· = quote i) := hw ▸ frame_request w _ _
    have hg : rev ≤ genOf w1.sv (unquote (quote i)) := by
      rw [hw, hsv, live_gen hl]; exact Nat.le_refl _
    exact f1.trans ((frame_setRev (A := (· = quote i)) rfl hg).trans (frame_adopt _ _ _ _))
  all_goals
    rename_i heq
    first
      | exact (eq_of_request heq).1 ▸ frame_request w _ _
      | (rename_i h1 h2; exact (eq_of_request h1).1 ▸ frame_request w _ _)


theorem frame_add (w : W) (h : Nat) :
    Frame w (add w h).1 (fun q => ∃ x, getObj w h = some x ∧ q = quote x.id) := by
  unfold add
  split
  · exact Frame.refl _ _
  · rename_i x hx
    split
    · rename_i w1 i' rev heq
      obtain ⟨hw, ho⟩ := eq_of_request heq
      obtain ⟨hi, hg⟩ := request_written ho.symm
      have f1 : Frame w w1 (fun q => ∃ x, getObj w h = some x ∧ q = quote x.id) := hw ▸ frame_request w _ _
      have hg' : rev ≤ genOf w1.sv (unquote (quote x.id)) := by rw [hw, hg]; exact Nat.le_refl _
      exact f1.trans ((frame_setRev (A := fun q => ∃ x, getObj w h = some x ∧ q = quote x.id) ⟨x, hx, rfl⟩ hg').trans
        (frame_same _ rfl rfl))
    all_goals
      rename_i heq
      first
        | exact (eq_of_request heq).1 ▸ frame_request w _ _
        | (rename_i h1 h2; exact (eq_of_request h1).1 ▸ frame_request w _ _)

theorem frame_commit (w : W) (h : Nat) :
    Frame w (commit w h).1 (fun q => ∃ x, getObj w h = some x ∧ x.source = some q) := by
  unfold commit
  split
  · exact Frame.refl _ _
  · rename_i x hx
    split
    · exact Frame.refl _ _
    · rename_i q hq
      split
      · exact Frame.refl _ _
      · rename_i rev hrev
        split
        · rename_i w1 i' rev' heq
          obtain ⟨hw, ho⟩ := eq_of_request heq
          obtain ⟨hi, hg⟩ := request_written ho.symm
          have f1 : Frame w w1 (fun q => ∃ x, getObj w h = some x ∧ x.source = some q) := hw ▸ frame_request w _ _
          have hg' : rev' ≤ genOf w1.sv (unquote q) := by rw [hw, hg]; exact Nat.le_refl _
          exact f1.trans (frame_setRev (A := fun q => ∃ x, getObj w h = some x ∧ x.source = some q) ⟨x, hx, hq⟩ hg')
        all_goals
          rename_i heq
          first
            | exact (eq_of_request heq).1 ▸ frame_request w _ _
            | (rename_i h1 h2; exact (eq_of_request h1).1 ▸ frame_request w _ _)
            | (rename_i h1 h2 h3; exact (eq_of_request h1).1 ▸ frame_request w _ _)

theorem frame_update (w : W) (h : Nat) :
    Frame w (update w h).1 (fun q => ∃ x, getObj w h = some x ∧ x.source = some q) := by
  unfold update
  split
  · exact Frame.refl _ _
  · rename_i x hx
    split
    · exact Frame.refl _ _
    · rename_i q hq
      split
      · rename_i w1 i' rev d heq
        obtain ⟨hw, ho⟩ := eq_of_request heq
        obtain ⟨hi, hsv, hl⟩ := request_get_doc ho.symm
        have f1 : Frame w w1 (fun q => ∃ x, getObj w h = some x ∧ x.source = some q) := hw ▸ frame_request w _ _
        have hg : rev ≤ genOf w1.sv (unquote q) := by rw [hw, hsv, live_gen hl]; exact Nat.le_refl _
        exact f1.trans ((frame_setRev (A := fun q => ∃ x, getObj w h = some x ∧ x.source = some q) ⟨x, hx, hq⟩ hg).trans
          (frame_same _ rfl rfl))
      all_goals
        rename_i heq
        first
          | exact (eq_of_request heq).1 ▸ frame_request w _ _
          | (rename_i h1 h2; exact (eq_of_request h1).1 ▸ frame_request w _ _)

theorem frame_discardWith (fixed : Bool) (w : W) (h : Nat) (x : Obj) (q : Quoted) (rev : Rev) (A : Quoted → Prop) :
    Frame w (discardWith fixed w h x q rev).1 A := by
  unfold discardWith
  split
  · rename_i w1 b heq
    have f1 : Frame w w1 A := (eq_of_request heq).1 ▸ frame_request w _ _
    split
    · exact f1
    · split
      · exact f1.trans (frame_eraseRev _ _ _)
      · refine f1.trans ((frame_eraseRev w1 q A).trans (frame_same _ rfl rfl))
  all_goals
    rename_i heq
    first
      | exact (eq_of_request heq).1 ▸ frame_request w _ _
      | (rename_i h1 h2; exact (eq_of_request h1).1 ▸ frame_request w _ _)
      | (rename_i h1 h2 h3; exact (eq_of_request h1).1 ▸ frame_request w _ _)

theorem frame_discardG (fixed : Bool) (w : W) (h : Nat) (safe : Bool) (A : Quoted → Prop) :
    Frame w (discardG fixed w h safe).1 A := by
  unfold discardG
  split
  · exact Frame.refl _ _
  · split
    · exact frame_discardWith _ _ _ _ _ _ _
    · exact Frame.refl _ _
    · split
      · rename_i w1 rev heq
        exact ((eq_of_request heq).1 ▸ frame_request w _ A).trans (frame_discardWith _ _ _ _ _ _ _)
      all_goals
        rename_i heq
        first
          | exact (eq_of_request heq).1 ▸ frame_request w _ _
          | (rename_i h1 h2; exact (eq_of_request h1).1 ▸ frame_request w _ _)
          | (rename_i h1 h2 h3; exact (eq_of_request h1).1 ▸ frame_request w _ _)

theorem frame_contains (w : W) (i : Ident) (A : Quoted → Prop) : Frame w (contains w i).1 A := by
  unfold contains
  split
  all_goals
    rename_i heq
    first
      | exact (eq_of_request heq).1 ▸ frame_request w _ _
      | (rename_i h1 h2; exact (eq_of_request h1).1 ▸ frame_request w _ _)
      | (rename_i h1 h2 h3; exact (eq_of_request h1).1 ▸ frame_request w _ _)

theorem frame_len (w : W) (A : Quoted → Prop) : Frame w (len w).1 A := by
  unfold len
  split
  all_goals
    rename_i heq
    first
      | exact (eq_of_request heq).1 ▸ frame_request w _ _
      | (rename_i h1 h2; exact (eq_of_request h1).1 ▸ frame_request w _ _)
      | (rename_i h1 h2 h3; exact (eq_of_request h1).1 ▸ frame_request w _ _)

theorem frame_iterLoop (ids : List Ident) : ∀ (w : W) (acc : List Nat), Frame w (iterLoop w ids acc).1 (fun _ => True) := by
  induction ids with
  | nil => intro w acc; exact Frame.refl _ _
  | cons i rest ih =>
    intro w acc
    unfold iterLoop
    have fg : Frame w (getByCouchId w i).1 (fun _ => True) := (frame_getByCouchId w i).mono (fun _ _ => trivial)
    split
    · rename_i w1 h heq
      have : w1 = (getByCouchId w i).1 := by rw [heq]
      exact (this ▸ fg).trans (ih _ _)
    · rename_i w1 e heq
      have : w1 = (getByCouchId w i).1 := by rw [heq]
      exact this ▸ fg
    · rename_i w1 o h1 h2 heq
      have : w1 = (getByCouchId w i).1 := by rw [heq]
      exact this ▸ fg

theorem frame_iter (w : W) : Frame w (iter w).1 (fun _ => True) := by
  unfold iter
  split
  · rename_i w1 ids heq
    exact ((eq_of_request heq).1 ▸ frame_request w _ _).trans (frame_iterLoop _ _ _)
  all_goals
    rename_i heq
    first
      | exact (eq_of_request heq).1 ▸ frame_request w _ _
      | (rename_i h1 h2; exact (eq_of_request h1).1 ▸ frame_request w _ _)
      | (rename_i h1 h2 h3; exact (eq_of_request h1).1 ▸ frame_request w _ _)

/-- the revision-store keys a client call may (re)learn -/
def addrs (w : W) : COp → Quoted → Prop
  | .add h => fun q => ∃ x, getObj w h = some x ∧ q = quote x.id
  | .get i => fun q => q = quote i
  | .commit h => fun q => ∃ x, getObj w h = some x ∧ x.source = some q
  | .update h => fun q => ∃ x, getObj w h = some x ∧ x.source = some q
  | .iter => fun _ => True
  | _ => fun _ => False

theorem frame_cstep (w : W) (op : COp) : Frame w (cstep w op).1 (addrs w op) := by
  cases op with
  | mk i d => exact frame_same _ rfl rfl
  | modify h d =>
    simp only [cstep, modify]
    split
    · exact Frame.refl _ _
    · exact frame_same _ rfl rfl
  | drop h => exact frame_same _ rfl rfl
  | add h => exact frame_add w h
  | get i => exact frame_getByCouchId w i
  | commit h => exact frame_commit w h
  | update h => exact frame_update w h
  | discard h s => exact frame_discardG true w h s _
  | contains i => exact frame_contains w i _
  | len => exact frame_len w _
  | iter => exact frame_iter w




/-! ### concrete requests against a known server state -/

theorem serve_doc_quote (sv : Server) (i : Ident) (m : Method) (rv : Option Rev) (dt : Option Data) :
    serve sv ⟨m, .doc (quote i), rv, dt⟩ = serveDoc sv i ⟨m, .doc (quote i), rv, dt⟩ := by
  simp [serve, slash_not_mem_quote, unquote_quote]

theorem extPut_eq (sv : Server) (i : Ident) (d : Data) : extPut sv i d = write sv i (some d) := by
  unfold extPut
  rw [serve_doc_quote]
  cases hl : live sv i with
  | none => simp [serveDoc, hl]
  | some p => obtain ⟨g, d'⟩ := p; simp [serveDoc, hl]

theorem extDelete_eq (sv : Server) (i : Ident) :
    extDelete sv i = if (live sv i).isSome then write sv i none else sv := by
  unfold extDelete
  rw [serve_doc_quote]
  cases hl : live sv i with
  | none => simp [serveDoc, hl]
  | some p => obtain ⟨g, d'⟩ := p; simp [serveDoc, hl]

/-- a PUT that carries a revision other than the live one changes nothing and is answered with an error -/
theorem serveDoc_put_stale (sv : Server) (i : Ident) (q : Quoted) (r : Rev) (dt : Option Data)
    (h : ∀ d, live sv i ≠ some (r, d)) :
    (serveDoc sv i ⟨.PUT, .doc q, some r, dt⟩).1 = sv ∧
    ((serveDoc sv i ⟨.PUT, .doc q, some r, dt⟩).2 = err 409 ∨ (serveDoc sv i ⟨.PUT, .doc q, some r, dt⟩).2 = err 400) := by
  unfold serveDoc
  cases dt with
  | none => simp
  | some d =>
    cases hl : live sv i with
    | none => simp
    | some p =>
      obtain ⟨g, d'⟩ := p
      have : r ≠ g := fun e => h d' (by rw [hl, e])
      simp [this]

theorem serveDoc_delete_stale (sv : Server) (i : Ident) (q : Quoted) (r : Rev) (dt : Option Data)
    (h : ∀ d, live sv i ≠ some (r, d)) :
    (serveDoc sv i ⟨.DELETE, .doc q, some r, dt⟩).1 = sv ∧
    ((serveDoc sv i ⟨.DELETE, .doc q, some r, dt⟩).2 = err 409 ∨ (serveDoc sv i ⟨.DELETE, .doc q, some r, dt⟩).2 = err 404) := by
  unfold serveDoc
  cases hl : live sv i with
  | none => simp
  | some p =>
    obtain ⟨g, d'⟩ := p
    have : r ≠ g := fun e => h d' (by rw [hl, e])
    simp [this]

theorem serve_stale (sv : Server) (m : Method) (hm : m = .PUT ∨ m = .DELETE) (q : Quoted) (r : Rev) (dt : Option Data)
    (h : ∀ d, live sv (unquote q) ≠ some (r, d)) :
    (serve sv ⟨m, .doc q, some r, dt⟩).1 = sv ∧ ∃ c, (c = 400 ∨ c = 404 ∨ c = 409) ∧ (serve sv ⟨m, .doc q, some r, dt⟩).2 = err c := by
  simp only [serve]
  by_cases hq : 47 ∈ q
  · simp only [hq, if_true]; exact ⟨trivial, 404, by simp, rfl⟩
  · simp only [hq, if_false]
    rcases hm with hm | hm <;> subst hm
    · obtain ⟨h1, h2⟩ := serveDoc_put_stale sv (unquote q) q r dt h
      exact ⟨h1, by rcases h2 with h2 | h2 <;> exact ⟨_, by simp, h2⟩⟩
    · obtain ⟨h1, h2⟩ := serveDoc_delete_stale sv (unquote q) q r dt h
      exact ⟨h1, by rcases h2 with h2 | h2 <;> exact ⟨_, by simp, h2⟩⟩

theorem classify_err_not_ok {m : Method} {c : Nat} (hc : ¬ (200 ≤ c ∧ c < 300)) (b : Body) :
    classify m (.resp (err c)) ≠ .ok b := by
  intro h
  simp only [classify, err] at h
  by_cases h2 : m = .HEAD <;> simp [hc, h2] at h

/-- the injected answer is an error answer (non-2xx, or not JSON, or a transport failure) — not a 2xx JSON document -/
def FaultKind.genuine (k : FaultKind) : Prop := ∀ m b, classify m (faultWire k) ≠ .ok b

/-- a write request with a stale revision: whatever the fault plan, the server is unchanged and the call does not see a
    successful answer — unless the planned "fault" is itself a 2xx JSON answer -/
theorem request_stale (w : W) (m : Method) (hm : m = .PUT ∨ m = .DELETE) (q : Quoted) (r : Rev) (dt : Option Data)
    (h : ∀ d, live w.sv (unquote q) ≠ some (r, d)) :
    (request w ⟨m, .doc q, some r, dt⟩).1.sv = w.sv ∧
    ∀ b, (request w ⟨m, .doc q, some r, dt⟩).2 = .ok b →
      b = .error ∧ ∃ f rest, w.plan = some f :: rest ∧ ¬ f.kind.genuine := by
  obtain ⟨hs, c, hc, hr⟩ := serve_stale w.sv m hm q r dt h
  have hc' : ¬ (200 ≤ c ∧ c < 300) := by rcases hc with h | h | h <;> subst h <;> decide
  unfold request
  split
  · rename_i f rest hp
    refine ⟨by simp only []; cases f.processed <;> simp [hs], fun b hb => ?_⟩
    simp only [] at hb
    exact ⟨classify_fault_ok hb, f, rest, hp, fun hg => hg _ _ hb⟩
  · refine ⟨hs, fun b hb => ?_⟩
    simp only [hr] at hb
    exact absurd hb (classify_err_not_ok hc' b)
  · refine ⟨hs, fun b hb => ?_⟩
    simp only [hr] at hb
    exact absurd hb (classify_err_not_ok hc' b)

end Basyx.Couch
