/-
  Helper lemmas for property C01, part 6: Python slice facts (get / delete / assign on a duplicate free list) and the
  slice operations of the ordered set (`del set[slice]`, `set[slice] = …`, `value = …`).
-/
import Basyx.Lemmas.NsRelink
namespace Basyx.Ns

/-! ### pure list facts -/

theorem split3 (l : List Nat) (a b : Nat) :
    l = l.take a ++ (l.take b).drop a ++ l.drop (max a b) := by
  by_cases h : a ≤ b
  · rw [Nat.max_eq_right h]
    have h1 : (l.take b).take a = l.take a := by rw [List.take_take, Nat.min_eq_left h]
    have h2 := List.take_append_drop a (l.take b)
    rw [h1] at h2
    rw [h2, List.take_append_drop]
  · have h' : b ≤ a := Nat.le_of_lt (Nat.lt_of_not_le h)
    rw [Nat.max_eq_left h']
    have : (l.take b).drop a = [] := by
      apply List.drop_eq_nil_of_le
      rw [List.length_take]; omega
    rw [this, List.append_nil, List.take_append_drop]

theorem step1_mem {l : List Nat} (hn : l.Nodup) (a b : Nat) (x : Nat) :
    (x ∈ l.take a ∨ x ∈ l.drop (max a b)) ↔ (x ∈ l ∧ x ∉ (l.take b).drop a) := by
  have h := split3 l a b
  have hn' := hn
  rw [h] at hn'
  rw [List.nodup_append] at hn'
  obtain ⟨h12, h3, hd⟩ := hn'
  rw [List.nodup_append] at h12
  obtain ⟨h1, h2, hd12⟩ := h12
  have hmem : x ∈ l ↔ x ∈ l.take a ∨ x ∈ (l.take b).drop a ∨ x ∈ l.drop (max a b) := by
    conv => lhs; rw [h]
    simp [or_assoc]
  rw [hmem]
  constructor
  · rintro (hx | hx)
    · exact ⟨Or.inl hx, fun hm => hd12 _ hx _ hm rfl⟩
    · exact ⟨Or.inr (Or.inr hx), fun hm => hd _ (by simp [hm]) _ hx rfl⟩
  · rintro ⟨hx | hx | hx, hnm⟩
    · exact Or.inl hx
    · exact absurd hx hnm
    · exact Or.inr hx

theorem step1_nodup {l new : List Nat} (hn : l.Nodup) (hnew : new.Nodup) (hdis : ∀ x ∈ new, x ∉ l) (a b : Nat) :
    (l.take a ++ new ++ l.drop (max a b)).Nodup := by
  have h := split3 l a b
  have hn' := hn
  rw [h] at hn'
  rw [List.nodup_append] at hn'
  obtain ⟨h12, h3, hd⟩ := hn'
  rw [List.nodup_append] at h12
  obtain ⟨h1, h2, hd12⟩ := h12
  rw [List.nodup_append]
  refine ⟨?_, h3, ?_⟩
  · rw [List.nodup_append]
    refine ⟨h1, hnew, ?_⟩
    intro x hx y hy hxy
    subst hxy
    exact hdis _ hy (List.mem_of_mem_take hx)
  · intro x hx y hy hxy
    subst hxy
    simp at hx
    rcases hx with hx | hx
    · exact hd _ (by simp [hx]) _ hy rfl
    · exact hdis _ hx (List.mem_of_mem_drop hy)

theorem sliceIdxs_spec {sl : Slice} {len : Nat} {ps : List Nat} (h : sliceIdxs sl len = some ps) :
    ps.Nodup ∧ ∀ i ∈ ps, i < len := by
  unfold sliceIdxs at h
  split at h
  · cases h
  · simp only [Option.some.injEq] at h
    subst h
    exact ⟨List.filter_sublist.nodup List.nodup_range, fun i hi => List.mem_range.1 (List.mem_filter.1 hi).1⟩
  · simp only [Option.some.injEq] at h
    subst h
    refine ⟨(List.reverse_perm _).nodup_iff.2 (List.filter_sublist.nodup List.nodup_range), fun i hi => ?_⟩
    rw [List.mem_reverse] at hi
    exact List.mem_range.1 (List.mem_filter.1 hi).1

theorem mem_delPositions {l ps : List Nat} {x : Nat} :
    x ∈ delPositions l ps ↔ ∃ i, l[i]? = some x ∧ i ∉ ps := by
  unfold delPositions
  simp only [List.mem_map, List.mem_filter]
  constructor
  · rintro ⟨⟨y, i⟩, ⟨hm, hp⟩, rfl⟩
    exact ⟨i, List.mk_mem_zipIdx_iff_getElem?.1 hm, by simpa using hp⟩
  · rintro ⟨i, hi, hp⟩
    exact ⟨(x, i), ⟨List.mk_mem_zipIdx_iff_getElem?.2 hi, by simpa using hp⟩, rfl⟩

theorem delPositions_sublist (l ps : List Nat) : (delPositions l ps).Sublist l := by
  unfold delPositions
  have := (List.filter_sublist (p := fun p : Nat × Nat => !ps.contains p.2) (l := l.zipIdx)).map Prod.fst
  rwa [List.zipIdx_map_fst] at this

theorem ext_del_mem {l ps : List Nat} (hn : l.Nodup) (x : Nat) :
    x ∈ delPositions l ps ↔ x ∈ l ∧ x ∉ ps.filterMap (fun i => l[i]?) := by
  rw [mem_delPositions]
  constructor
  · rintro ⟨i, hi, hp⟩
    refine ⟨List.mem_of_getElem? hi, ?_⟩
    rw [List.mem_filterMap]
    rintro ⟨j, hj, hjx⟩
    have : i = j := (List.getElem?_inj (List.getElem?_eq_some_iff.1 hi).1 hn).1 (by rw [hi, hjx])
    subst this; exact hp hj
  · rintro ⟨hx, hnd⟩
    obtain ⟨i, hi⟩ := List.mem_iff_getElem?.1 hx
    refine ⟨i, hi, fun hp => hnd ?_⟩
    rw [List.mem_filterMap]; exact ⟨i, hp, hi⟩

theorem sliceGet_spec {l : List Nat} {sl : Slice} {d : List Nat} (hn : l.Nodup) (hd : sliceGet l sl = some d) :
    d.Nodup ∧ ∀ x ∈ d, x ∈ l := by
  unfold sliceGet at hd
  by_cases h1 : isStep1 sl = true
  · rw [if_pos h1] at hd
    simp only [Option.some.injEq] at hd
    subst hd
    exact ⟨(List.drop_sublist _ _).nodup ((List.take_sublist _ _).nodup hn),
      fun x hx => List.mem_of_mem_take (List.mem_of_mem_drop hx)⟩
  · rw [if_neg h1] at hd
    cases hps : sliceIdxs sl l.length with
    | none => rw [hps] at hd; cases hd
    | some ps =>
      rw [hps] at hd
      simp only [Option.map_some, Option.some.injEq] at hd
      subst hd
      obtain ⟨hpn, hpl⟩ := sliceIdxs_spec hps
      refine ⟨?_, ?_⟩
      · clear hps hpl
        induction ps with
        | nil => simp
        | cons p r ih =>
          have hc := List.nodup_cons.1 hpn
          simp only [List.filterMap_cons]
          cases hp : l[p]? with
          | none => simp only; exact ih hc.2
          | some y =>
            simp only
            refine List.nodup_cons.2 ⟨?_, ih hc.2⟩
            rw [List.mem_filterMap]
            rintro ⟨j, hj, hjy⟩
            have : p = j := (List.getElem?_inj (List.getElem?_eq_some_iff.1 hp).1 hn).1 (by rw [hp, hjy])
            subst this; exact hc.1 hj
      · intro x hx
        rw [List.mem_filterMap] at hx
        obtain ⟨i, _, hi⟩ := hx
        exact List.mem_of_getElem? hi

/-- what `del l[slice]` leaves, relative to `l[slice]` -/
theorem sliceDel_spec {l : List Nat} {sl : Slice} {d l' : List Nat} (hn : l.Nodup) (hd : sliceGet l sl = some d)
    (hl' : sliceDel l sl = some l') : l'.Nodup ∧ (∀ x, x ∈ l' ↔ x ∈ l ∧ x ∉ d) ∧ d.Nodup ∧ ∀ x ∈ d, x ∈ l := by
  unfold sliceGet at hd
  unfold sliceDel at hl'
  by_cases h1 : isStep1 sl = true
  · rw [if_pos h1] at hd hl'
    simp only [Option.some.injEq] at hd hl'
    subst hd; subst hl'
    refine ⟨?_, fun x => ?_, ?_, ?_⟩
    · have := step1_nodup (new := []) hn (by simp) (by simp) (boundsPos sl l.length).1 (boundsPos sl l.length).2
      simpa using this
    · rw [List.mem_append]; exact step1_mem hn _ _ x
    · exact (List.drop_sublist _ _).nodup ((List.take_sublist _ _).nodup hn)
    · intro x hx; exact List.mem_of_mem_take (List.mem_of_mem_drop hx)
  · rw [if_neg h1] at hd hl'
    cases hps : sliceIdxs sl l.length with
    | none => rw [hps] at hd; cases hd
    | some ps =>
      rw [hps] at hd hl'
      simp only [Option.map_some, Option.some.injEq] at hd hl'
      subst hd; subst hl'
      obtain ⟨hpn, hpl⟩ := sliceIdxs_spec hps
      refine ⟨(delPositions_sublist _ _).nodup hn, ext_del_mem hn, ?_, ?_⟩
      · -- distinct positions of a duplicate free list carry distinct values
        clear hps hpl
        induction ps with
        | nil => simp
        | cons p r ih =>
          have hc := List.nodup_cons.1 hpn
          simp only [List.filterMap_cons]
          cases hp : l[p]? with
          | none => simp only; exact ih hc.2
          | some y =>
            simp only
            refine List.nodup_cons.2 ⟨?_, ih hc.2⟩
            rw [List.mem_filterMap]
            rintro ⟨j, hj, hjy⟩
            have : p = j := (List.getElem?_inj (List.getElem?_eq_some_iff.1 hp).1 hn).1 (by rw [hp, hjy])
            subst this; exact hc.1 hj
      · intro x hx
        rw [List.mem_filterMap] at hx
        obtain ⟨i, _, hi⟩ := hx
        exact List.mem_of_getElem? hi

/-! ### `for o in items: super().remove(o)` -/

theorem removeAll_spec {s : St} (hI : InvU s) {g : Nat} {S : NSet} (hS : s.sets[g]? = some S) (L : List Nat) (hn : L.Nodup)
    (hin : ∀ x ∈ L, x ∈ vals S) :
    (removeAll s g L).2 = .ok ∧ InvU (removeAll s g L).1 ∧ (removeAll s g L).1.nsCount = s.nsCount ∧
    ∃ b', (removeAll s g L).1.sets = s.sets.modify g (fun T => { T with backend := b' }) ∧
      ∀ x, x ∈ b'.map Prod.snd ↔ x ∈ vals S ∧ x ∉ L := by
  induction L generalizing s S with
  | nil =>
    refine ⟨rfl, hI, rfl, S.backend, ?_, fun x => by simp [vals]⟩
    exact (modify_self_at hS rfl).symm
  | cons e r ih =>
    unfold removeAll
    obtain ⟨hU, hnc, hctr, hne, hok, hfail, hmust⟩ := baseRemove_spec hI g e
    have hokk := hmust S hS (hin e (by simp))
    cases hr : baseRemove s g e with
    | mk s1 out =>
      rw [hr] at hokk hok hU hnc; simp only at hokk hU hnc; subst hokk
      simp only
      obtain ⟨S', el, k, hS', hE, hm, hk, hsets, helems⟩ := (hok rfl).ex
      rw [hS] at hS'; cases hS'
      simp only at hsets
      have hS1 := get_of_modify hsets hS
      have hc := List.nodup_cons.1 hn
      have hv1 : ∀ x, x ∈ vals ({ S with backend := AList.erase k S.backend } : NSet) ↔ x ∈ vals S ∧ x ≠ e :=
        fun x => mem_vals_erase hI hS hm x
      obtain ⟨h1, h2, h3, b', h4, h5⟩ := ih hU hS1 hc.2 (by
        intro x hx; rw [hv1]; exact ⟨hin x (by simp [hx]), fun h => hc.1 (h ▸ hx)⟩)
      refine ⟨h1, h2, by rw [h3, hnc], b', ?_, ?_⟩
      · rw [h4, hsets, List.modify_modify_eq]; rfl
      · intro x; rw [h5, hv1]; simp; constructor
        · rintro ⟨⟨a, b⟩, c⟩; exact ⟨a, b, c⟩
        · rintro ⟨a, b, c⟩; exact ⟨⟨a, b⟩, c⟩

/-! ### `del set[slice]`, `del set[i]` -/

theorem setDelSlice_inv {s : St} (hI : Inv s) (g : Nat) (sl : Slice) :
    Inv (setDelSlice s g sl).1 ∧ ((setDelSlice s g sl).2 ≠ .ok → (setDelSlice s g sl).1 = s) := by
  unfold setDelSlice
  cases hS : s.sets[g]? with
  | none => exact ⟨hI, fun _ => rfl⟩
  | some S =>
    simp only
    cases ho : S.order with
    | none => exact ⟨hI, fun _ => rfl⟩
    | some o =>
      simp only
      obtain ⟨hon, hom⟩ := hI.o _ _ _ hS ho
      cases hd : sliceGet o sl with
      | none => exact ⟨hI, fun _ => rfl⟩
      | some d =>
        cases hl' : sliceDel o sl with
        | none => exact ⟨hI, fun _ => rfl⟩
        | some o' =>
          simp only
          obtain ⟨ho'n, ho'm, hdn, hdm⟩ := sliceDel_spec hon hd hl'
          obtain ⟨h1, h2, h3, b', h4, h5⟩ := removeAll_spec hI.u hS d hdn (fun x hx => (hom x).1 (hdm x hx))
          cases hr : removeAll s g d with
          | mk s1 out =>
            rw [hr] at h1 h2 h3 h4; simp only at h1 h2 h3 h4; subst h1
            simp only
            refine ⟨⟨InvU_setOrder h2 _ _, ?_⟩, fun h => absurd rfl h⟩
            have hfin : (setOrder s1 g (fun _ => o')).sets =
                s.sets.modify g (fun T => { T with backend := b', order := T.order.map (fun _ => o') }) := by
              show s1.sets.modify g _ = _
              rw [h4, List.modify_modify_eq]; rfl
            apply InvO_modify hI.o hfin
            intro S0 o'' hS0 ho''
            rw [hS] at hS0; cases hS0
            simp [ho] at ho''
            subst ho''
            refine ⟨ho'n, fun x => ?_⟩
            show _ ↔ x ∈ b'.map Prod.snd
            rw [ho'm, h5, hom]

theorem setDelItem_inv {s : St} (hI : Inv s) (g : Nat) (i : Int) :
    Inv (setDelItem s g i).1 ∧ ((setDelItem s g i).2 ≠ .ok → (setDelItem s g i).1 = s) := by
  unfold setDelItem
  split
  · split
    · exact ⟨hI, fun _ => rfl⟩
    · split
      · exact ⟨hI, fun _ => rfl⟩
      · exact setDelSlice_inv hI g _
  · exact ⟨hI, fun _ => rfl⟩

/-! ### `for i in new_items: super().add(i)` -/

theorem addAll_spec {s : St} (hI : InvU s) {g : Nat} {S : NSet} (hS : s.sets[g]? = some S) (L : List Nat) :
    InvU (addAll s g L).1 ∧ (addAll s g L).1.nsCount = s.nsCount ∧
    ((addAll s g L).2.2 = .ok → (addAll s g L).2.1 = L) ∧
    (addAll s g L).2.1.Nodup ∧ (∀ x ∈ (addAll s g L).2.1, x ∉ vals S) ∧
    ∃ added : List (Key × Nat), added.map Prod.snd = (addAll s g L).2.1 ∧
      (addAll s g L).1.sets = s.sets.modify g (fun T => { T with backend := T.backend ++ added }) := by
  induction L generalizing s S with
  | nil =>
    refine ⟨hI, rfl, fun _ => rfl, by simp [addAll], by simp [addAll], [], rfl, ?_⟩
    exact (modify_self_at hS (by simp)).symm
  | cons e r ih =>
    unfold addAll
    obtain ⟨hU, hnc, hctr, hne, hok, hfail⟩ := baseAdd_spec hI g e
    cases hr : baseAdd s g e with
    | mk s1 out =>
      rw [hr] at hU hnc hok hfail hne
      cases out with
      | ok =>
        simp only
        obtain ⟨S', el, k, hS', hE, hdet, hkind, hnv, hnk, _, _, hsets, helems⟩ := (hok rfl).ex
        rw [hS] at hS'; cases hS'
        simp only at hsets hU hnc
        have hS1 := get_of_modify hsets hS
        have ih' := ih hU hS1
        generalize addAll s1 g r = res at ih' ⊢
        obtain ⟨s2, done, o⟩ := res
        obtain ⟨h1, h2, h3, h4, h5, added, h6, h7⟩ := ih'
        simp only at h1 h2 h3 h4 h5 h6 h7 ⊢
        have hv : ∀ x, x ∈ vals ({ S with backend := S.backend ++ [(k, e)] } : NSet) ↔ x ∈ vals S ∨ x = e := by
          intro x; rw [vals_append]; simp
        refine ⟨h1, by rw [h2, hnc], ?_, ?_, ?_, (k, e) :: added, ?_, ?_⟩
        · intro h; rw [h3 h]
        · exact List.nodup_cons.2 ⟨fun h => (h5 e h) ((hv e).2 (Or.inr rfl)), h4⟩
        · intro x hx
          simp at hx
          rcases hx with rfl | hx
          · exact hnv
          · exact fun h => h5 x hx ((hv x).2 (Or.inl h))
        · simp [h6]
        · rw [h7, hsets, List.modify_modify_eq]
          exact modify_congr_at hS (by simp)
      | elem x => exact absurd rfl (hne x)
      | raise x =>
        obtain ⟨a, b⟩ := hfail (by simp)
        exact ⟨hU, hnc, by simp, by simp, by simp, [], rfl, by rw [a]; exact (modify_self_at hS (by simp)).symm⟩
      | bad =>
        obtain ⟨a, b⟩ := hfail (by simp)
        exact ⟨hU, hnc, by simp, by simp, by simp, [], rfl, by rw [a]; exact (modify_self_at hS (by simp)).symm⟩

/-- the list fact `set[slice] = new` needs about Python's slice assignment -/
def AssignSpec (sl : Slice) : Prop :=
  ∀ (o new d o' : List Nat), o.Nodup → new.Nodup → (∀ x ∈ new, x ∉ o) → sliceGet o sl = some d →
    sliceAssign o sl new = some o' → (isStep1 sl = true ∨ new.length = d.length) →
    o'.Nodup ∧ ∀ x, x ∈ o' ↔ (x ∈ o ∧ x ∉ d) ∨ x ∈ new

theorem assignSpec_step1 {sl : Slice} (h1 : isStep1 sl = true) : AssignSpec sl := by
  intro o new d o' hon hnn hdis hd ho' _
  unfold sliceGet at hd
  unfold sliceAssign at ho'
  rw [if_pos h1] at hd ho'
  simp only [Option.some.injEq] at hd ho'
  subst hd; subst ho'
  refine ⟨step1_nodup hon hnn hdis _ _, fun x => ?_⟩
  rw [← step1_mem hon]
  simp only [List.mem_append]
  constructor
  · rintro ((h | h) | h)
    · exact Or.inl (Or.inl h)
    · exact Or.inr h
    · exact Or.inl (Or.inr h)
  · rintro ((h | h) | h)
    · exact Or.inl (Or.inl h)
    · exact Or.inr h
    · exact Or.inl (Or.inr h)

theorem setSetSlice_inv {s : St} (hI : Inv s) (g : Nat) (sl : Slice) (new : List Nat) (hA : AssignSpec sl) :
    Inv (setSetSlice s g sl new).1 := by
  unfold setSetSlice
  cases hS : s.sets[g]? with
  | none => exact hI
  | some S =>
    simp only
    cases ho : S.order with
    | none => exact hI
    | some o =>
      simp only
      obtain ⟨hon, hom⟩ := hI.o _ _ _ hS ho
      cases hd : sliceGet o sl with
      | none => exact hI
      | some d =>
        cases hl' : sliceAssign o sl new with
        | none => exact hI
        | some o' =>
          simp only
          split
          · exact hI
          · next hlen =>
            obtain ⟨hU1, hnc1, hall, hdn, hdv, added, hadded, hsets1⟩ := addAll_spec hI.u hS new
            cases hr : addAll s g new with
            | mk s1 rest =>
              obtain ⟨done, out⟩ := rest
              rw [hr] at hU1 hnc1 hall hdn hdv hadded hsets1
              simp only at hU1 hnc1 hall hdn hdv hadded hsets1
              have hS1 := get_of_modify hsets1 hS
              have hv1 : ∀ x, x ∈ vals ({ S with backend := S.backend ++ added } : NSet) ↔ x ∈ vals S ∨ x ∈ done := by
                intro x; simp [vals, ← hadded]
              -- the rollback / failure branch: remove what was added
              have hroll : ∀ out', out ≠ .ok → Inv (match removeAll s1 g done with | (s2, .ok) => (s2, out') | r => r).1 := by
                intro out' _
                obtain ⟨h1, h2, h3, b', h4, h5⟩ := removeAll_spec hU1 hS1 done hdn (fun x hx => (hv1 x).2 (Or.inr hx))
                cases hr2 : removeAll s1 g done with
                | mk s2 out2 =>
                  rw [hr2] at h1 h2 h4; simp only at h1 h2 h4; subst h1
                  simp only
                  refine ⟨h2, ?_⟩
                  have hfin : s2.sets = s.sets.modify g (fun T => { T with backend := b' }) := by
                    rw [h4, hsets1, List.modify_modify_eq]; rfl
                  apply InvO_modify hI.o hfin
                  intro S0 o'' hS0 ho''
                  rw [hS] at hS0; cases hS0
                  simp [ho] at ho''
                  subst ho''
                  refine ⟨hon, fun x => ?_⟩
                  show _ ↔ x ∈ b'.map Prod.snd
                  rw [h5, hv1, hom]
                  constructor
                  · intro h; exact ⟨Or.inl h, fun hx => hdv x hx h⟩
                  · rintro ⟨h | h, hx⟩
                    · exact h
                    · exact absurd h hx
              cases out with
              | ok =>
                simp only
                have hdone : done = new := hall rfl
                subst hdone
                obtain ⟨hdn', hdm⟩ := sliceGet_spec hon hd
                let s2 := setOrder s1 g (fun _ => o')
                have hU2 : InvU s2 := InvU_setOrder hU1 _ _
                have hsets2 : s2.sets = s.sets.modify g (fun T : NSet =>
                    ({ T with backend := T.backend ++ added, order := T.order.map (fun _ => o') } : NSet)) := by
                  show s1.sets.modify g _ = _
                  rw [hsets1, List.modify_modify_eq]; rfl
                have hS2 : s2.sets[g]? = some ({ S with backend := S.backend ++ added, order := S.order.map (fun _ => o') } : NSet) :=
                  get_of_modify hsets2 hS
                have hv2 : ∀ x, x ∈ vals ({ S with backend := S.backend ++ added, order := S.order.map (fun _ => o') } : NSet) ↔
                    x ∈ vals S ∨ x ∈ done := by
                  intro x; simp [vals, ← hadded]
                obtain ⟨h1, h2, h3, b', h4, h5⟩ := removeAll_spec hU2 hS2 d hdn'
                  (fun x hx => (hv2 x).2 (Or.inl ((hom x).1 (hdm x hx))))
                show Inv (removeAll s2 g d).1
                refine ⟨h2, ?_⟩
                have hfin : (removeAll s2 g d).1.sets = s.sets.modify g (fun T : NSet =>
                    ({ T with backend := b', order := T.order.map (fun _ => o') } : NSet)) := by
                  rw [h4, hsets2, List.modify_modify_eq]; rfl
                apply InvO_modify hI.o hfin
                intro S0 o'' hS0 ho''
                rw [hS] at hS0; cases hS0
                simp [ho] at ho''
                subst ho''
                have hdis : ∀ x ∈ done, x ∉ o := fun x hx h => hdv x hx ((hom x).1 h)
                have hlen' : isStep1 sl = true ∨ done.length = d.length := by
                  by_cases h1 : isStep1 sl = true
                  · exact Or.inl h1
                  · right
                    cases hq : decide (done.length = d.length) with
                    | true => simpa using hq
                    | false =>
                      exfalso; apply hlen
                      exact ⟨by simpa using h1, by simpa using hq⟩
                obtain ⟨hn', hm'⟩ := hA o done d o' hon hdn hdis hd hl' hlen'
                refine ⟨hn', fun x => ?_⟩
                show _ ↔ x ∈ b'.map Prod.snd
                rw [hm', h5, hv2, hom]
                constructor
                · rintro (⟨h, hx⟩ | h)
                  · exact ⟨Or.inl h, hx⟩
                  · exact ⟨Or.inr h, fun hx => hdis x h (hdm x hx)⟩
                · rintro ⟨h | h, hx⟩
                  · exact Or.inl ⟨h, hx⟩
                  · exact Or.inr h
              | elem x => exact hroll _ (by simp)
              | raise x => exact hroll _ (by simp)
              | bad => exact hroll _ (by simp)

/-! ### extended slice assignment -/

theorem lookup_zip_of_getElem {ps new : List Nat} (hn : ps.Nodup) {j i y : Nat} (hp : ps[j]? = some i) (hy : new[j]? = some y) :
    (ps.zip new).lookup i = some y := by
  induction ps generalizing new j with
  | nil => simp at hp
  | cons p r ih =>
    cases new with
    | nil => simp at hy
    | cons n0 nr =>
      have hc := List.nodup_cons.1 hn
      rw [List.zip_cons_cons, List.lookup_cons]
      cases j with
      | zero =>
        simp at hp hy; subst hp; subst hy; simp
      | succ j' =>
        simp at hp hy
        have hne : i ≠ p := by rintro rfl; exact hc.1 (List.mem_of_getElem? hp)
        have : (i == p) = false := by simpa using hne
        rw [this]
        exact ih hc.2 hp hy

theorem lookup_zip_some {ps new : List Nat} {i y : Nat} (h : (ps.zip new).lookup i = some y) :
    ∃ j : Nat, ps[j]? = some i ∧ new[j]? = some y := by
  induction ps generalizing new with
  | nil => simp at h
  | cons p r ih =>
    cases new with
    | nil => simp at h
    | cons n0 nr =>
      rw [List.zip_cons_cons, List.lookup_cons] at h
      by_cases hip : i = p
      · subst hip; simp at h; subst h; exact ⟨0, by simp, by simp⟩
      · have : (i == p) = false := by simpa using hip
        rw [this] at h
        obtain ⟨j, h1, h2⟩ := ih h
        exact ⟨j + 1, by simpa using h1, by simpa using h2⟩

theorem lookup_zip_none {ps new : List Nat} {i : Nat} (hi : i ∉ ps) : (ps.zip new).lookup i = none := by
  cases h : (ps.zip new).lookup i with
  | none => rfl
  | some y =>
    obtain ⟨j, h1, _⟩ := lookup_zip_some h
    exact absurd (List.mem_of_getElem? h1) hi

theorem length_filterMap_get {o ps : List Nat} (h : ∀ i ∈ ps, i < o.length) :
    (ps.filterMap (fun i => o[i]?)).length = ps.length := by
  induction ps with
  | nil => rfl
  | cons p r ih =>
    have hp : p < o.length := h p (by simp)
    simp only [List.filterMap_cons]
    rw [List.getElem?_eq_getElem hp]
    simp [ih (fun i hi => h i (by simp [hi]))]

theorem assignPositions_getElem? (o ps new : List Nat) (i : Nat) :
    (assignPositions o ps new)[i]? =
      (o[i]?).map (fun v => match (ps.zip new).lookup i with | some y => y | none => v) := by
  unfold assignPositions
  rw [List.getElem?_map, List.getElem?_zipIdx]
  cases o[i]? with
  | none => rfl
  | some v =>
    simp only [Option.map_some, Nat.zero_add]
    cases List.lookup i (ps.zip new) <;> rfl

theorem assignSpec_ext {sl : Slice} (h1 : ¬ isStep1 sl = true) : AssignSpec sl := by
  intro o new d o' hon hnn hdis hd ho' hlen
  unfold sliceGet at hd
  unfold sliceAssign at ho'
  rw [if_neg h1] at hd ho'
  cases hps : sliceIdxs sl o.length with
  | none => rw [hps] at hd; cases hd
  | some ps =>
    rw [hps] at hd ho'
    simp only [Option.map_some, Option.some.injEq] at hd ho'
    subst hd; subst ho'
    obtain ⟨hpn, hpl⟩ := sliceIdxs_spec hps
    have hlen' : new.length = ps.length := by
      rcases hlen with h | h
      · exact absurd h h1
      · rw [h, length_filterMap_get hpl]
    -- value at a selected position
    have hsel : ∀ (j i : Nat), ps[j]? = some i → ∃ y, new[j]? = some y ∧ (ps.zip new).lookup i = some y := by
      intro j i hj
      have hjl : j < new.length := by rw [hlen']; exact (List.getElem?_eq_some_iff.1 hj).1
      exact ⟨new[j], List.getElem?_eq_getElem hjl, lookup_zip_of_getElem hpn hj (List.getElem?_eq_getElem hjl)⟩
    have hmemd : ∀ x, x ∈ ps.filterMap (fun i => o[i]?) ↔ ∃ i ∈ ps, o[i]? = some x := by
      intro x; rw [List.mem_filterMap]
    constructor
    · -- duplicate free
      rw [List.nodup_iff_pairwise_ne, List.pairwise_iff_getElem]
      intro i j hi hj hij heq
      have hi' : i < o.length := by simpa [assignPositions] using hi
      have hj' : j < o.length := by simpa [assignPositions] using hj
      have e1 := assignPositions_getElem? o ps new i
      have e2 := assignPositions_getElem? o ps new j
      rw [List.getElem?_eq_getElem hi, List.getElem?_eq_getElem hi'] at e1
      rw [List.getElem?_eq_getElem hj, List.getElem?_eq_getElem hj'] at e2
      simp only [Option.map_some, Option.some.injEq] at e1 e2
      rw [heq] at e1
      rw [e1] at e2
      cases hli : (ps.zip new).lookup i with
      | some y =>
        cases hlj : (ps.zip new).lookup j with
        | some y' =>
          rw [hli, hlj] at e2; simp only at e2; subst e2
          obtain ⟨a, ha1, ha2⟩ := lookup_zip_some hli
          obtain ⟨b, hb1, hb2⟩ := lookup_zip_some hlj
          have hab : a = b := (List.getElem?_inj (List.getElem?_eq_some_iff.1 ha2).1 hnn).1 (by rw [ha2, hb2])
          subst hab
          rw [ha1] at hb1; cases hb1; exact Nat.lt_irrefl _ hij
        | none =>
          rw [hli, hlj] at e2; simp only at e2
          obtain ⟨a, _, ha2⟩ := lookup_zip_some hli
          exact hdis y (List.mem_of_getElem? ha2) (by rw [e2]; exact List.getElem_mem hj')
      | none =>
        cases hlj : (ps.zip new).lookup j with
        | some y' =>
          rw [hli, hlj] at e2; simp only at e2
          obtain ⟨b, _, hb2⟩ := lookup_zip_some hlj
          exact hdis y' (List.mem_of_getElem? hb2) (by rw [← e2]; exact List.getElem_mem hi')
        | none =>
          rw [hli, hlj] at e2; simp only at e2
          exact Nat.ne_of_lt hij ((List.getElem_inj hon).1 e2)
    · intro x
      constructor
      · intro hx
        obtain ⟨i, hi⟩ := List.mem_iff_getElem?.1 hx
        rw [assignPositions_getElem?] at hi
        cases hoi : o[i]? with
        | none => rw [hoi] at hi; cases hi
        | some v =>
          rw [hoi] at hi; simp only [Option.map_some, Option.some.injEq] at hi
          cases hl : (ps.zip new).lookup i with
          | some y =>
            rw [hl] at hi; simp only at hi; subst hi
            obtain ⟨a, _, ha2⟩ := lookup_zip_some hl
            exact Or.inr (List.mem_of_getElem? ha2)
          | none =>
            rw [hl] at hi; simp only at hi; subst hi
            refine Or.inl ⟨List.mem_of_getElem? hoi, ?_⟩
            rw [hmemd]
            rintro ⟨i', hi'p, hi'o⟩
            have : i = i' := (List.getElem?_inj (List.getElem?_eq_some_iff.1 hoi).1 hon).1 (by rw [hoi, hi'o])
            subst this
            obtain ⟨j, hj⟩ := List.mem_iff_getElem?.1 hi'p
            obtain ⟨y, _, hy⟩ := hsel j i hj
            rw [hl] at hy; cases hy
      · rintro (⟨hxo, hxd⟩ | hxn)
        · obtain ⟨i, hi⟩ := List.mem_iff_getElem?.1 hxo
          have hnp : i ∉ ps := fun hp => hxd ((hmemd x).2 ⟨i, hp, hi⟩)
          apply List.mem_iff_getElem?.2
          refine ⟨i, ?_⟩
          rw [assignPositions_getElem?, hi, lookup_zip_none hnp]; rfl
        · obtain ⟨j, hj⟩ := List.mem_iff_getElem?.1 hxn
          have hjl : j < ps.length := by rw [← hlen']; exact (List.getElem?_eq_some_iff.1 hj).1
          have hpj : ps[j]? = some ps[j] := List.getElem?_eq_getElem hjl
          have hil : ps[j] < o.length := hpl _ (List.getElem_mem hjl)
          apply List.mem_iff_getElem?.2
          refine ⟨ps[j], ?_⟩
          rw [assignPositions_getElem?, List.getElem?_eq_getElem hil, lookup_zip_of_getElem hpn hpj hj]; rfl

theorem assignSpec_all (sl : Slice) : AssignSpec sl := by
  by_cases h : isStep1 sl = true
  · exact assignSpec_step1 h
  · exact assignSpec_ext h

/-! ### `SubmodelElementList.value = …` -/

theorem setValue_inv {s : St} (hI : Inv s) (n : Nat) (es : List Nat) : Inv (setValue s n es).1 := by
  unfold setValue
  split
  · next g _ =>
    obtain ⟨h1, _⟩ := setDelSlice_inv hI g ⟨none, none, none⟩
    cases hr : setDelSlice s g ⟨none, none, none⟩ with
    | mk s1 out =>
      rw [hr] at h1
      cases out with
      | ok => exact setExtend_inv h1 g es
      | elem x => exact h1
      | raise x => exact h1
      | bad => exact h1
  · exact hI

end Basyx.Ns
