/-
  Helper lemmas for property C01, part 7: a rename (`_set_id_short`, `Qualifier.type`, `Extension.name`) that passes its
  checks cannot fail afterwards — so a rename that raises has changed nothing.
-/
import Basyx.Lemmas.NsSlice
namespace Basyx.Ns

/-- shape stays, backends only lose keys -/
def Shrinks (s s' : St) : Prop :=
  ∀ (g : Nat) (S' : NSet), s'.sets[g]? = some S' →
    ∃ S, s.sets[g]? = some S ∧ S'.ns = S.ns ∧ S'.attr = S.attr ∧ S'.hooks = S.hooks ∧
      ∀ k, k ∈ AList.keys S'.backend → k ∈ AList.keys S.backend

theorem Shrinks.refl (s : St) : Shrinks s s := fun _ S' h => ⟨S', h, rfl, rfl, rfl, fun _ hk => hk⟩

theorem Shrinks.trans {a b c : St} (h1 : Shrinks a b) (h2 : Shrinks b c) : Shrinks a c := by
  intro g S'' h
  obtain ⟨S', hS', a1, a2, a3, a4⟩ := h2 g S'' h
  obtain ⟨S, hS, b1, b2, b3, b4⟩ := h1 g S' hS'
  exact ⟨S, hS, a1.trans b1, a2.trans b2, a3.trans b3, fun k hk => b4 k (a4 k hk)⟩

theorem Shrinks_modify {s s' : St} {g : Nat} {F : NSet → NSet} (hsets : s'.sets = s.sets.modify g F)
    (hF : ∀ S, (F S).ns = S.ns ∧ (F S).attr = S.attr ∧ (F S).hooks = S.hooks ∧
      ∀ k, k ∈ AList.keys (F S).backend → k ∈ AList.keys S.backend) : Shrinks s s' := by
  intro x S' hS'
  rw [hsets] at hS'
  by_cases hx : x = g
  · subst hx
    rw [getElem?_modify_same] at hS'
    cases hS : s.sets[x]? with
    | none => rw [hS] at hS'; cases hS'
    | some S =>
      rw [hS] at hS'; simp at hS'; subst hS'
      obtain ⟨a, b, c, d⟩ := hF S
      exact ⟨S, rfl, a, b, c, d⟩
  · rw [getElem?_modify_ne hx] at hS'; exact ⟨S', hS', rfl, rfl, rfl, fun _ hk => hk⟩

theorem baseRemove_shrinks (s : St) (g e : Nat) : Shrinks s (baseRemove s g e).1 := by
  unfold baseRemove
  split
  · split
    · exact Shrinks.refl s
    · split
      · exact Shrinks.refl s
      · split
        · exact Shrinks.refl s
        · split
          · exact Shrinks.refl s
          · exact Shrinks_modify (F := fun S => { S with backend := AList.erase _ S.backend }) rfl
              (fun S => ⟨rfl, rfl, rfl, fun k' hk' => (AList.keys_erase_sublist _ S.backend).subset hk'⟩)
  · exact Shrinks.refl s

theorem setOrder_shrinks (s : St) (g : Nat) (f : List Nat → List Nat) : Shrinks s (setOrder s g f) :=
  Shrinks_modify (F := fun S => { S with order := S.order.map f }) rfl (fun _ => ⟨rfl, rfl, rfl, fun _ h => h⟩)

theorem orderRemove_shrinks (s : St) (g e : Nat) : Shrinks s (orderRemove s g e).1 := by
  unfold orderRemove
  split
  · split
    · exact setOrder_shrinks _ _ _
    · exact Shrinks.refl s
  · exact Shrinks.refl s

theorem setRemove_shrinks (s : St) (g e : Nat) : Shrinks s (setRemove s g e).1 := by
  unfold setRemove
  have h := baseRemove_shrinks s g e
  cases hr : baseRemove s g e with
  | mk s1 out =>
    rw [hr] at h
    cases out with
    | ok => exact h.trans (orderRemove_shrinks s1 g e)
    | elem x => exact h
    | raise x => exact h
    | bad => exact h

theorem anyHas_false {s : St} {n : Nat} {a : Kind} {k : Key} (h : anyHas s n a k = false) {g : Nat} {S : NSet}
    (hS : s.sets[g]? = some S) (hn : S.ns = n) (ha : S.attr = a) : k ∉ AList.keys S.backend := by
  unfold anyHas at h
  rw [List.any_eq_false] at h
  have := h S (List.mem_of_getElem? hS)
  simp [hn, ha] at this
  exact AList.has_eq_false_iff.1 this

/-- after the checks of the setter, `relink` with a proper new key succeeds -/
theorem relink_ok {s : St} (hI : Inv s) {e n : Nat} {el : Elem} {k : Key} (hE : s.elems[e]? = some el)
    (hp : el.parent = some n) (hfree : anyHas s n el.kind k = false)
    (hH : ∀ (g : Nat) (S : NSet) (k' : Key), s.sets[g]? = some S → (k', e) ∈ S.backend → S.hooks = none) :
    (relink s e n (fun x => { x with key := some k })).2 = .ok := by
  obtain ⟨g0, S, k0, hS, hn, hm, heq⟩ := relink_eq hI (fun x => { x with key := some k }) hE hp
  rw [heq]
  obtain ⟨h1, _, h3, _, h5⟩ := setRemove_inv hI g0 e
  have hok := h3 S hS (mem_vals_iff.2 ⟨k0, hm⟩)
  obtain ⟨el1, hE1, hp1⟩ := h5 hok
  have hsh := setRemove_shrinks s g0 e
  have hshape := setRemove_shape s g0 e
  -- the kind of the element survives the removal
  have hkind1 : el1.kind = el.kind := by
    have := setRemove_inv hI g0 e
    -- from the explicit description of baseRemove / orderRemove: only parent and key of `e` change
    unfold setRemove at hE1
    obtain ⟨_, _, _, _, hokb, hfailb, _⟩ := baseRemove_spec hI.u g0 e
    cases hr : baseRemove s g0 e with
    | mk s1 out =>
      rw [hr] at hE1 hokb hfailb
      cases out with
      | ok =>
        obtain ⟨S', el', k', _, hE', _, _, _, helems⟩ := (hokb rfl).ex
        rw [hE] at hE'; cases hE'
        have he1 : s1.elems[e]? = some { el with parent := none, key := if S'.hooks.isSome then none else el.key } := by
          simp only at helems
          rw [helems, getElem?_modify_same, hE]; rfl
        have : (orderRemove s1 g0 e).1.elems = s1.elems := by
          unfold orderRemove; split
          · split <;> rfl
          · rfl
        simp only at hE1
        rw [this, he1] at hE1
        cases hE1; rfl
      | elem x => simp only at hE1; have := hfailb (by simp); simp only at this; rw [this, hE] at hE1; cases hE1; rfl
      | raise x => simp only at hE1; have := hfailb (by simp); simp only at this; rw [this, hE] at hE1; cases hE1; rfl
      | bad => simp only at hE1; have := hfailb (by simp); simp only at this; rw [this, hE] at hE1; cases hE1; rfl
  generalize (setRemove s g0 e).1 = s1 at h1 hE1 hsh hshape
  obtain ⟨S1, hS1, hns1, hattr1, hhooks1⟩ := hshape.get hS
  obtain ⟨el0, hE0, hk0, _, hkd0⟩ := hI.u.member _ _ _ _ hS hm
  rw [hE] at hE0; cases hE0
  have hE1' : (updElem s1 e (fun x => { x with key := some k })).elems[e]? = some { el1 with key := some k } := by
    rw [updElem_get, if_pos rfl, hE1]; rfl
  have hval : validateAux { el1 with key := some k } S1.ns s1.sets = none := by
    apply validateAux_of_free (k := k) rfl
    intro T hT hTn hTa
    obtain ⟨g', hg'⟩ := List.mem_iff_getElem?.1 hT
    obtain ⟨T0, hT0, a1, a2, _, a4⟩ := hsh g' T hg'
    intro hk
    exact anyHas_false hfree hT0 (by rw [← a1, hTn, hns1, hn]) (by rw [← a2, hTa]; exact hkind1) (a4 k hk)
  have hadd : (baseAdd (updElem s1 e (fun x => { x with key := some k })) g0 e).2 = .ok := by
    unfold baseAdd
    rw [updElem_sets, hS1, hE1']
    simp only
    rw [if_neg (by simp [hattr1, hkind1, hkd0])]
    rw [if_neg (by simp [hp1])]
    rw [hhooks1, hH _ _ _ hS hm]
    simp only
    rw [hval]
  unfold setAdd
  cases hr : baseAdd (updElem s1 e (fun x => { x with key := some k })) g0 e with
  | mk s2 out => rw [hr] at hadd; simp only at hadd; subst hadd; rfl

/-- a rename that does not succeed leaves the state as it was -/
theorem rename_atomic {s : St} (hI : Inv s) (e : Nat) (nk : Option String)
    (hH : ∀ (g : Nat) (S : NSet) (k : Key), s.sets[g]? = some S → (k, e) ∈ S.backend → S.attr ≠ .ref → S.hooks = none)
    (hr : (rename s e nk).2 ≠ .ok) : (rename s e nk).1 = s := by
  unfold rename at hr ⊢
  cases hE : s.elems[e]? with
  | none => rfl
  | some el =>
    rw [hE] at hr
    simp only at hr ⊢
    have hrel : ∀ (k : Key) (n : Nat), el.parent = some n → anyHas s n el.kind k = false →
        (∀ (g : Nat) (S : NSet) (k' : Key), s.sets[g]? = some S → (k', e) ∈ S.backend → S.hooks = none) →
        (relink s e n (fun x => { x with key := some k })).2 = .ok :=
      fun k n hp hf hh => relink_ok hI hE hp hf hh
    cases hkd : el.kind with
    | ref =>
      rw [hkd] at hr; simp only at hr ⊢
      split
      · rfl
      · next hne =>
        rw [if_neg hne] at hr
        split
        · rfl
        · next hv =>
          rw [hv] at hr; simp only at hr
          cases hp : el.parent with
          | none => rw [hp] at hr; simp at hr
          | some n =>
            rw [hp] at hr; simp only at hr ⊢
            cases nk with
            | none => rfl
            | some str =>
              simp only [Option.map] at hr ⊢
              split
              · rfl
              · next hl =>
                rw [if_neg hl] at hr
                split
                · rfl
                · next ha =>
                  rw [if_neg ha] at hr
                  exfalso; apply hr
                  apply hrel _ _ hp (by rw [hkd]; simpa using ha)
                  intro g S k' hS hm
                  -- the namespace is no SubmodelElementList: none of its sets carries hooks
                  obtain ⟨el', h1, _, h3, _⟩ := hI.u.member _ _ _ _ hS hm
                  rw [hE] at h1; cases h1
                  rw [hp] at h3
                  have hn : S.ns = n := (Option.some.inj h3).symm
                  have hg : g ∈ setsOf s n := mem_setsOf.2 ⟨S, hS, hn⟩
                  have hnl : listSetOf s n = none := by
                    cases h : listSetOf s n with
                    | none => rfl
                    | some x => exfalso; apply hl; simp [isList, h]
                  have := List.find?_eq_none.1 hnl g hg
                  rw [hS] at this
                  cases hh : S.hooks with
                  | none => rfl
                  | some c => simp [hh] at this
    | qual =>
      rw [hkd] at hr; simp only at hr ⊢
      cases nk with
      | none => rfl
      | some str =>
        simp only at hr ⊢
        split
        · rfl
        · next hv =>
          rw [hv] at hr; simp only at hr
          cases hp : el.parent with
          | none => rw [hp] at hr; simp at hr
          | some n =>
            rw [hp] at hr; simp only at hr ⊢
            split
            · rfl
            · next ha =>
              rw [if_neg ha] at hr
              exfalso; apply hr
              apply hrel _ _ hp (by rw [hkd]; simpa using ha)
              intro g S k' hS hm
              obtain ⟨el', h1, _, _, h4⟩ := hI.u.member _ _ _ _ hS hm
              rw [hE] at h1; cases h1
              exact hH g S k' hS hm (by rw [← h4, hkd]; simp)
    | ext =>
      rw [hkd] at hr; simp only at hr ⊢
      cases nk with
      | none => rfl
      | some str =>
        simp only at hr ⊢
        split
        · rfl
        · next hv =>
          rw [hv] at hr; simp only at hr
          cases hp : el.parent with
          | none => rw [hp] at hr; simp at hr
          | some n =>
            rw [hp] at hr; simp only at hr ⊢
            split
            · rfl
            · next ha =>
              rw [if_neg ha] at hr
              exfalso; apply hr
              apply hrel _ _ hp (by rw [hkd]; simpa using ha)
              intro g S k' hS hm
              obtain ⟨el', h1, _, _, h4⟩ := hI.u.member _ _ _ _ hS hm
              rw [hE] at h1; cases h1
              exact hH g S k' hS hm (by rw [← h4, hkd]; simp)

end Basyx.Ns
