/-
  Helper lemmas for property C01 (namespace containment).  Model: `Basyx/Model/Ns.lean`; theorems: `Basyx/Props/C01.lean`.

  Part 1 (this file): the invariant, pointwise descriptions of the state primitives, and the three "state surgery" lemmas
  (`attachU`, `detachU`, `retagU`) every operation's invariant proof reduces to.
-/
import Basyx.Model.Ns
namespace Basyx

namespace AList
variable {κ : Type} {ν : Type} [DecidableEq κ]

theorem set_of_not_mem {k : κ} {v : ν} {l : List (κ × ν)} (h : k ∉ keys l) : set k v l = l ++ [(k, v)] := by
  induction l with
  | nil => simp [set]
  | cons hd t ih =>
    obtain ⟨k2, v2⟩ := hd
    simp [keys] at h
    have hk : k2 ≠ k := fun e => h.1 e.symm
    simp [set, hk]
    exact ih (by simpa [keys] using h.2)

theorem has_eq_false_iff {k : κ} {l : List (κ × ν)} : has k l = false ↔ k ∉ keys l := by
  rw [← get_isSome_iff_mem_keys]; simp [has]

theorem mem_of_get {k : κ} {v : ν} {l : List (κ × ν)} (h : get k l = some v) : (k, v) ∈ l := by
  induction l with
  | nil => simp [get] at h
  | cons hd t ih =>
    obtain ⟨k2, v2⟩ := hd
    by_cases hk : k2 = k
    · simp [get, hk] at h; subst hk; subst h; simp
    · simp [get, hk] at h; simp [ih h]

theorem get_of_mem_nodup {k : κ} {v : ν} {l : List (κ × ν)} (hn : (keys l).Nodup) (h : (k, v) ∈ l) : get k l = some v := by
  induction l with
  | nil => simp at h
  | cons hd t ih =>
    obtain ⟨k2, v2⟩ := hd
    simp [keys] at hn
    simp at h
    rcases h with ⟨rfl, rfl⟩ | h
    · simp [get]
    · have : k2 ≠ k := by
        rintro rfl; exact hn.1 _ h
      simp [get, this]; exact ih (by simpa [keys] using hn.2) h

theorem erase_sublist (k : κ) (l : List (κ × ν)) : (erase k l).Sublist l := by
  induction l with
  | nil => simp [erase]
  | cons hd t ih =>
    obtain ⟨k2, v2⟩ := hd
    by_cases hk : k2 = k
    · simp [erase, hk]
    · simp [erase, hk]; exact ih

theorem mem_erase_iff {k : κ} {v : ν} {l : List (κ × ν)} (hn : (keys l).Nodup) (h : (k, v) ∈ l) (p : κ × ν) :
    p ∈ erase k l ↔ p ∈ l ∧ p ≠ (k, v) := by
  induction l with
  | nil => simp at h
  | cons hd t ih =>
    obtain ⟨k2, v2⟩ := hd
    simp [keys] at hn
    by_cases hk : k2 = k
    · subst hk
      have hv : v2 = v := by
        simp at h; rcases h with h | h
        · exact h.symm
        · exact absurd h (hn.1 _)
      subst hv
      simp [erase]
      constructor
      · intro hp; refine ⟨Or.inr hp, ?_⟩; rintro rfl; exact hn.1 _ hp
      · rintro ⟨hp | hp, hne⟩
        · exact absurd hp hne
        · exact hp
    · have h' : (k, v) ∈ t := by
        simp at h; rcases h with ⟨h1, _⟩ | h
        · exact absurd h1.symm hk
        · exact h
      simp [erase, hk]
      rw [ih (by simpa [keys] using hn.2) h']
      constructor
      · rintro (rfl | ⟨h1, h2⟩)
        · refine ⟨Or.inl rfl, ?_⟩; intro e; cases e; exact hk rfl
        · exact ⟨Or.inr h1, h2⟩
      · rintro ⟨rfl | h1, h2⟩
        · exact Or.inl rfl
        · exact Or.inr ⟨h1, h2⟩

end AList

namespace Ns

/-! ### pointwise descriptions of the primitives -/

@[simp] theorem updElem_sets (s : St) (e f) : (updElem s e f).sets = s.sets := rfl
@[simp] theorem updElem_ctr (s : St) (e f) : (updElem s e f).ctr = s.ctr := rfl
@[simp] theorem updElem_nsCount (s : St) (e f) : (updElem s e f).nsCount = s.nsCount := rfl
@[simp] theorem updSet_elems (s : St) (g f) : (updSet s g f).elems = s.elems := rfl
@[simp] theorem updSet_ctr (s : St) (g f) : (updSet s g f).ctr = s.ctr := rfl
@[simp] theorem updSet_nsCount (s : St) (g f) : (updSet s g f).nsCount = s.nsCount := rfl

theorem updElem_get (s : St) (e x : Nat) (f) :
    (updElem s e f).elems[x]? = if x = e then (s.elems[e]?).map f else s.elems[x]? := by
  simp only [updElem, List.getElem?_modify]
  by_cases h : x = e
  · subst h; simp
  · have : e ≠ x := fun h' => h h'.symm
    simp [h, this]

theorem updSet_get (s : St) (g x : Nat) (f) :
    (updSet s g f).sets[x]? = if x = g then (s.sets[g]?).map f else s.sets[x]? := by
  simp only [updSet, List.getElem?_modify]
  by_cases h : x = g
  · subst h; simp
  · have : g ≠ x := fun h' => h h'.symm
    simp [h, this]

structure InvU (s : St) : Prop where
  member : ∀ (g : Nat) (S : NSet) (k : Key) (e : Nat), s.sets[g]? = some S → (k, e) ∈ S.backend →
     ∃ el, s.elems[e]? = some el ∧ el.key = some k ∧ el.parent = some S.ns ∧ el.kind = S.attr
  keysNodup : ∀ (g : Nat) (S : NSet), s.sets[g]? = some S → (AList.keys S.backend).Nodup
  unique : ∀ (g g' : Nat) (S S' : NSet) (k : Key), s.sets[g]? = some S → s.sets[g']? = some S' → S.ns = S'.ns → S.attr = S'.attr →
     k ∈ AList.keys S.backend → k ∈ AList.keys S'.backend → g = g'
  parent : ∀ (e : Nat) (el : Elem) (n : Nat), s.elems[e]? = some el → el.parent = some n →
     ∃ (g : Nat) (S : NSet) (k : Key), s.sets[g]? = some S ∧ S.ns = n ∧ (k, e) ∈ S.backend
  genFresh : ∀ (e : Nat) (el : Elem) (i : Nat), s.elems[e]? = some el → el.key = some (.gen i) → i < s.ctr
  nsBound : ∀ (g : Nat) (S : NSet), s.sets[g]? = some S → S.ns < s.nsCount

/-- attach: s' is s with element e (detached before) now carrying key k, parent S.ns, entered at the end of set g's backend -/
theorem attachU {s s' : St} {g e : Nat} {k : Key} {S S' : NSet} {el el' : Elem}
    (hI : InvU s) (hS : s.sets[g]? = some S) (hE : s.elems[e]? = some el) (hdet : el.parent = none)
    (hfree : ∀ (g' : Nat) (T : NSet), s.sets[g']? = some T → T.ns = S.ns → T.attr = S.attr → k ∉ AList.keys T.backend)
    (hE' : s'.elems[e]? = some el') (hk : el'.key = some k) (hp : el'.parent = some S.ns) (hkind : el'.kind = S.attr)
    (hEo : ∀ x, x ≠ e → s'.elems[x]? = s.elems[x]?)
    (hS' : s'.sets[g]? = some S') (hns : S'.ns = S.ns) (hattr : S'.attr = S.attr)
    (hb : S'.backend = S.backend ++ [(k, e)])
    (hSo : ∀ x, x ≠ g → s'.sets[x]? = s.sets[x]?)
    (hctr : s.ctr ≤ s'.ctr) (hgen : ∀ i, k = .gen i → i < s'.ctr) (hnc : s'.nsCount = s.nsCount) : InvU s' := by
  have hnotmem : ∀ (g' : Nat) (T : NSet) (k' : Key), s.sets[g']? = some T → (k', e) ∉ T.backend := by
    intro g' T k' hT hm
    obtain ⟨el0, h1, _, h3, _⟩ := hI.member g' T k' e hT hm
    rw [hE] at h1; cases h1; rw [hdet] at h3; cases h3
  constructor
  · intro g' T k' e' hT hm
    by_cases hg : g' = g
    · subst hg; rw [hS'] at hT; cases hT
      rw [hb] at hm
      simp at hm
      rcases hm with hm | ⟨rfl, rfl⟩
      · have hne : e' ≠ e := by rintro rfl; exact hnotmem _ _ _ hS hm
        rw [hEo _ hne, hns, hattr]; exact hI.member _ _ _ _ hS hm
      · exact ⟨el', hE', hk, by rw [hp, hns], by rw [hkind, hattr]⟩
    · rw [hSo _ hg] at hT
      have hne : e' ≠ e := by rintro rfl; exact hnotmem _ _ _ hT hm
      rw [hEo _ hne]; exact hI.member _ _ _ _ hT hm
  · intro g' T hT
    by_cases hg : g' = g
    · subst hg; rw [hS'] at hT; cases hT
      rw [hb]; simp [AList.keys]
      have := hI.keysNodup _ _ hS
      have hf := hfree _ _ hS rfl rfl
      rw [List.nodup_append]; refine ⟨by simpa [AList.keys] using this, by simp, ?_⟩
      intro a ha b hb'; simp at hb'; subst hb'
      intro h; subst h; apply hf; simpa [AList.keys] using ha
    · rw [hSo _ hg] at hT; exact hI.keysNodup _ _ hT
  · intro g1 g2 T1 T2 k' h1 h2 hn ha hk1 hk2
    by_cases hg1 : g1 = g <;> by_cases hg2 : g2 = g
    · rw [hg1, hg2]
    · subst hg1; rw [hS'] at h1; cases h1; rw [hSo _ hg2] at h2
      rw [hb] at hk1; simp [AList.keys] at hk1
      rcases hk1 with ⟨x, hk1⟩ | rfl
      · exact hI.unique _ _ _ _ _ hS h2 (by rw [← hns]; exact hn) (by rw [← hattr]; exact ha)
          (by simp [AList.keys]; exact ⟨x, hk1⟩) hk2
      · exact absurd hk2 (hfree _ _ h2 (by rw [← hn, hns]) (by rw [← ha, hattr]))
    · subst hg2; rw [hS'] at h2; cases h2; rw [hSo _ hg1] at h1
      rw [hb] at hk2; simp [AList.keys] at hk2
      rcases hk2 with ⟨x, hk2⟩ | rfl
      · exact hI.unique _ _ _ _ _ h1 hS (by rw [hn, hns]) (by rw [ha, hattr]) hk1
          (by simp [AList.keys]; exact ⟨x, hk2⟩)
      · exact absurd hk1 (hfree _ _ h1 (by rw [hn, hns]) (by rw [ha, hattr]))
    · rw [hSo _ hg1] at h1; rw [hSo _ hg2] at h2; exact hI.unique _ _ _ _ _ h1 h2 hn ha hk1 hk2
  · intro x elx n hx hpx
    by_cases hxe : x = e
    · subst hxe; rw [hE'] at hx; cases hx; rw [hp] at hpx; cases hpx
      exact ⟨g, S', k, hS', hns, by rw [hb]; simp⟩
    · rw [hEo _ hxe] at hx
      obtain ⟨g', T, k', hT, hn', hm⟩ := hI.parent _ _ _ hx hpx
      by_cases hg : g' = g
      · subst hg; rw [hS] at hT; cases hT
        exact ⟨g', S', k', hS', by rw [hns]; exact hn', by rw [hb]; simp [hm]⟩
      · exact ⟨g', T, k', by rw [hSo _ hg]; exact hT, hn', hm⟩
  · intro x elx i hx hkx
    by_cases hxe : x = e
    · subst hxe; rw [hE'] at hx; cases hx; rw [hk] at hkx; cases hkx; exact hgen _ rfl
    · rw [hEo _ hxe] at hx; exact Nat.lt_of_lt_of_le (hI.genFresh _ _ _ hx hkx) hctr
  · intro g' T hT
    rw [hnc]
    by_cases hg : g' = g
    · subst hg; rw [hS'] at hT; cases hT; rw [hns]; exact hI.nsBound _ _ hS
    · rw [hSo _ hg] at hT; exact hI.nsBound _ _ hT

/-- every backend entry that mentions a member `e` of set `g` IS that entry -/
theorem InvU.entry_unique {s : St} (hI : InvU s) {g g' : Nat} {S T : NSet} {k k' : Key} {e : Nat}
    (hS : s.sets[g]? = some S) (hm : (k, e) ∈ S.backend) (hT : s.sets[g']? = some T) (hm' : (k', e) ∈ T.backend) :
    g' = g ∧ k' = k := by
  obtain ⟨el, h1, h2, h3, h4⟩ := hI.member _ _ _ _ hS hm
  obtain ⟨el', h1', h2', h3', h4'⟩ := hI.member _ _ _ _ hT hm'
  rw [h1] at h1'; cases h1'
  rw [h2] at h2'; cases h2'
  have hns : T.ns = S.ns := by rw [h3] at h3'; exact (Option.some.inj h3').symm
  refine ⟨?_, rfl⟩
  exact hI.unique _ _ _ _ k hT hS hns (by rw [← h4, ← h4'])
    (by simp [AList.keys]; exact ⟨_, hm'⟩) (by simp [AList.keys]; exact ⟨_, hm⟩)

/-- the values of a backend are duplicate free -/
theorem InvU.vals_nodup {s : St} (hI : InvU s) {g : Nat} {S : NSet} (hS : s.sets[g]? = some S) : (vals S).Nodup := by
  have hk := hI.keysNodup _ _ hS
  have hkey : ∀ p ∈ S.backend, ∀ q ∈ S.backend, p.2 = q.2 → p.1 = q.1 := by
    intro p hp q hq h
    obtain ⟨k, e⟩ := p; obtain ⟨k', e'⟩ := q
    simp at h; subst h
    exact ((hI.entry_unique hS hq hS hp).2)
  unfold vals
  generalize S.backend = b at hk hkey
  induction b with
  | nil => simp
  | cons hd t ih =>
    simp [AList.keys] at hk
    simp
    refine ⟨?_, ih (by simpa [AList.keys] using hk.2) (fun p hp q hq => hkey p (by simp [hp]) q (by simp [hq]))⟩
    intro a hx
    have := hkey hd (by simp) (a, hd.2) (by simp [hx]) rfl
    exact hk.1 hd.2 (by rw [this]; exact hx)

/-- detach: `s'` is `s` with the entry `(k, e)` taken out of set `g`'s backend and `e`'s parent link reset -/
theorem detachU {s s' : St} {g e : Nat} {k : Key} {S S' : NSet} {el' : Elem}
    (hI : InvU s) (hS : s.sets[g]? = some S) (hm : (k, e) ∈ S.backend)
    (hE' : s'.elems[e]? = some el') (hp : el'.parent = none) (hgen : ∀ i, el'.key = some (.gen i) → i < s'.ctr)
    (hEo : ∀ x, x ≠ e → s'.elems[x]? = s.elems[x]?)
    (hS' : s'.sets[g]? = some S') (hns : S'.ns = S.ns) (hattr : S'.attr = S.attr)
    (hsub : S'.backend.Sublist S.backend) (hb : ∀ p, p ∈ S'.backend ↔ p ∈ S.backend ∧ p ≠ (k, e))
    (hSo : ∀ x, x ≠ g → s'.sets[x]? = s.sets[x]?)
    (hctr : s.ctr ≤ s'.ctr) (hnc : s'.nsCount = s.nsCount) : InvU s' := by
  have hsubk : (AList.keys S'.backend).Sublist (AList.keys S.backend) := by
    unfold AList.keys; exact hsub.map _
  constructor
  · intro g' T k' e' hT hm'
    by_cases hg : g' = g
    · subst hg; rw [hS'] at hT; cases hT
      obtain ⟨hin, hne⟩ := (hb _).1 hm'
      have hne' : e' ≠ e := by
        rintro rfl
        have := (hI.entry_unique hS hm hS hin).2
        subst this; exact hne rfl
      rw [hEo _ hne', hns, hattr]; exact hI.member _ _ _ _ hS hin
    · rw [hSo _ hg] at hT
      have hne' : e' ≠ e := by
        rintro rfl; exact hg (hI.entry_unique hS hm hT hm').1
      rw [hEo _ hne']; exact hI.member _ _ _ _ hT hm'
  · intro g' T hT
    by_cases hg : g' = g
    · subst hg; rw [hS'] at hT; cases hT; exact hsubk.nodup (hI.keysNodup _ _ hS)
    · rw [hSo _ hg] at hT; exact hI.keysNodup _ _ hT
  · intro g1 g2 T1 T2 k' h1 h2 hn ha hk1 hk2
    by_cases hg1 : g1 = g <;> by_cases hg2 : g2 = g
    · rw [hg1, hg2]
    · subst hg1; rw [hS'] at h1; cases h1; rw [hSo _ hg2] at h2
      exact hI.unique _ _ _ _ _ hS h2 (by rw [← hns]; exact hn) (by rw [← hattr]; exact ha) (hsubk.subset hk1) hk2
    · subst hg2; rw [hS'] at h2; cases h2; rw [hSo _ hg1] at h1
      exact hI.unique _ _ _ _ _ h1 hS (by rw [hn, hns]) (by rw [ha, hattr]) hk1 (hsubk.subset hk2)
    · rw [hSo _ hg1] at h1; rw [hSo _ hg2] at h2; exact hI.unique _ _ _ _ _ h1 h2 hn ha hk1 hk2
  · intro x elx n hx hpx
    by_cases hxe : x = e
    · subst hxe; rw [hE'] at hx; cases hx; rw [hp] at hpx; cases hpx
    · rw [hEo _ hxe] at hx
      obtain ⟨g', T, k', hT, hn', hm'⟩ := hI.parent _ _ _ hx hpx
      by_cases hg : g' = g
      · subst hg; rw [hS] at hT; cases hT
        refine ⟨g', S', k', hS', by rw [hns]; exact hn', (hb _).2 ⟨hm', ?_⟩⟩
        intro h; cases h; exact hxe rfl
      · exact ⟨g', T, k', by rw [hSo _ hg]; exact hT, hn', hm'⟩
  · intro x elx i hx hkx
    by_cases hxe : x = e
    · subst hxe; rw [hE'] at hx; cases hx; exact hgen _ hkx
    · rw [hEo _ hxe] at hx; exact Nat.lt_of_lt_of_le (hI.genFresh _ _ _ hx hkx) hctr
  · intro g' T hT
    rw [hnc]
    by_cases hg : g' = g
    · subst hg; rw [hS'] at hT; cases hT; rw [hns]; exact hI.nsBound _ _ hS
    · rw [hSo _ hg] at hT; exact hI.nsBound _ _ hT

/-- retag: only element `e`, detached before and after, changes (or comes into being); counters may grow -/
theorem retagU {s s' : St} {e : Nat}
    (hI : InvU s) (hdet : ∀ el, s.elems[e]? = some el → el.parent = none)
    (hE' : ∀ el', s'.elems[e]? = some el' → el'.parent = none ∧ ∀ i, el'.key = some (.gen i) → i < s'.ctr)
    (hEo : ∀ x, x ≠ e → s'.elems[x]? = s.elems[x]?)
    (hSets : s'.sets = s.sets) (hctr : s.ctr ≤ s'.ctr) (hnc : s.nsCount ≤ s'.nsCount) : InvU s' := by
  have hne : ∀ (g : Nat) (T : NSet) (k : Key) (x : Nat), s.sets[g]? = some T → (k, x) ∈ T.backend → x ≠ e := by
    rintro g T k x hT hm rfl
    obtain ⟨el, h1, _, h3, _⟩ := hI.member _ _ _ _ hT hm
    rw [hdet _ h1] at h3; cases h3
  constructor
  · intro g T k x hT hm
    rw [hSets] at hT
    rw [hEo _ (hne _ _ _ _ hT hm)]; exact hI.member _ _ _ _ hT hm
  · intro g T hT; rw [hSets] at hT; exact hI.keysNodup _ _ hT
  · intro g1 g2 T1 T2 k h1 h2; rw [hSets] at h1 h2; exact hI.unique _ _ _ _ _ h1 h2
  · intro x elx n hx hpx
    by_cases hxe : x = e
    · subst hxe; rw [(hE' _ hx).1] at hpx; cases hpx
    · rw [hEo _ hxe] at hx; rw [hSets]; exact hI.parent _ _ _ hx hpx
  · intro x elx i hx hkx
    by_cases hxe : x = e
    · subst hxe; exact (hE' _ hx).2 _ hkx
    · rw [hEo _ hxe] at hx; exact Nat.lt_of_lt_of_le (hI.genFresh _ _ _ hx hkx) hctr
  · intro g T hT; rw [hSets] at hT; exact Nat.lt_of_lt_of_le (hI.nsBound _ _ hT) hnc

/-- touch: fields of `e` other than key / parent / kind change -/
theorem touchU {s s' : St} {e : Nat}
    (hI : InvU s)
    (hE' : ∀ el', s'.elems[e]? = some el' → ∃ el, s.elems[e]? = some el ∧ el'.key = el.key ∧ el'.parent = el.parent ∧ el'.kind = el.kind)
    (hEo : ∀ x, x ≠ e → s'.elems[x]? = s.elems[x]?)
    (hlen : s'.elems.length = s.elems.length)
    (hSets : s'.sets = s.sets) (hctr : s.ctr ≤ s'.ctr) (hnc : s.nsCount ≤ s'.nsCount) : InvU s' := by
  constructor
  · intro g T k x hT hm
    rw [hSets] at hT
    obtain ⟨el, h1, h2, h3, h4⟩ := hI.member _ _ _ _ hT hm
    by_cases hxe : x = e
    · subst hxe
      have hlt : x < s'.elems.length := by rw [hlen]; exact (List.getElem?_eq_some_iff.1 h1).1
      obtain ⟨el', hel'⟩ : ∃ el', s'.elems[x]? = some el' := ⟨_, List.getElem?_eq_getElem hlt⟩
      obtain ⟨el0, h0, hk, hp, hkd⟩ := hE' _ hel'
      rw [h1] at h0; cases h0
      exact ⟨el', hel', by rw [hk, h2], by rw [hp, h3], by rw [hkd, h4]⟩
    · rw [hEo _ hxe]; exact ⟨el, h1, h2, h3, h4⟩
  · intro g T hT; rw [hSets] at hT; exact hI.keysNodup _ _ hT
  · intro g1 g2 T1 T2 k h1 h2; rw [hSets] at h1 h2; exact hI.unique _ _ _ _ _ h1 h2
  · intro x elx n hx hpx
    rw [hSets]
    by_cases hxe : x = e
    · subst hxe
      obtain ⟨el0, h0, hk, hp, hkd⟩ := hE' _ hx
      exact hI.parent _ _ _ h0 (by rw [← hp]; exact hpx)
    · rw [hEo _ hxe] at hx; exact hI.parent _ _ _ hx hpx
  · intro x elx i hx hkx
    by_cases hxe : x = e
    · subst hxe
      obtain ⟨el0, h0, hk, hp, hkd⟩ := hE' _ hx
      exact Nat.lt_of_lt_of_le (hI.genFresh _ _ _ h0 (by rw [← hk]; exact hkx)) hctr
    · rw [hEo _ hxe] at hx; exact Nat.lt_of_lt_of_le (hI.genFresh _ _ _ hx hkx) hctr
  · intro g T hT; rw [hSets] at hT; exact Nat.lt_of_lt_of_le (hI.nsBound _ _ hT) hnc

/-- a new, empty set is registered -/
theorem appendSetU {s : St} {S0 : NSet} (hI : InvU s) (hb : S0.backend = []) (hn : S0.ns < s.nsCount) :
    InvU { s with sets := s.sets ++ [S0] } := by
  have hget : ∀ (g : Nat) (T : NSet), (s.sets ++ [S0])[g]? = some T → s.sets[g]? = some T ∨ T = S0 := by
    intro g T h
    rw [List.getElem?_append] at h
    split at h
    · exact Or.inl h
    · right
      cases hx : g - s.sets.length with
      | zero => rw [hx] at h; simp at h; exact h.symm
      | succ n => rw [hx] at h; simp at h
  have hold : ∀ (g : Nat) (T : NSet), s.sets[g]? = some T → (s.sets ++ [S0])[g]? = some T := by
    intro g T h
    rw [List.getElem?_append, if_pos (List.getElem?_eq_some_iff.1 h).1]; exact h
  constructor
  · intro g T k x hT hm
    rcases hget _ _ hT with h | rfl
    · exact hI.member _ _ _ _ h hm
    · rw [hb] at hm; cases hm
  · intro g T hT
    rcases hget _ _ hT with h | rfl
    · exact hI.keysNodup _ _ h
    · rw [hb]; simp [AList.keys]
  · intro g1 g2 T1 T2 k h1 h2 hn' ha hk1 hk2
    rcases hget _ _ h1 with h1' | rfl
    · rcases hget _ _ h2 with h2' | rfl
      · exact hI.unique _ _ _ _ _ h1' h2' hn' ha hk1 hk2
      · rw [hb] at hk2; simp [AList.keys] at hk2
    · rw [hb] at hk1; simp [AList.keys] at hk1
  · intro x elx n hx hpx
    obtain ⟨g, T, k, hT, h1, h2⟩ := hI.parent _ _ _ hx hpx
    exact ⟨g, T, k, hold _ _ hT, h1, h2⟩
  · exact hI.genFresh
  · intro g T hT
    rcases hget _ _ hT with h | rfl
    · exact hI.nsBound _ _ h
    · exact hn

end Ns
end Basyx
