import Basyx.Model.Compliance
namespace Basyx.Compliance
open Basyx.Codec (Val)

/-! ### overall status -/

theorem overall_ge : ∀ (steps : List Status) (s : Status), s ∈ steps → s.rank ≤ (overall steps).rank
  | [], _, h => by cases h
  | x :: r, s, h => by
    simp only [overall]
    rcases List.mem_cons.1 h with rfl | h'
    · split <;> omega
    · have := overall_ge r s h'
      split <;> omega

theorem overall_mem : ∀ (steps : List Status), steps ≠ [] → overall steps ∈ steps ∨ overall steps = .success
  | [], h => absurd rfl h
  | x :: r, _ => by
    simp only [overall]
    split
    · exact Or.inl (List.mem_cons_self ..)
    · cases r with
      | nil => right; rfl
      | cons y t =>
        rcases overall_mem (y :: t) (by simp) with h | h
        · exact Or.inl (List.mem_cons_of_mem _ h)
        · exact Or.inr h

/-! ### scripts -/

/-- the outcomes are possible outcomes of the phases' calls -/
def Consistent : List Phase → List Outcome → Prop
  | _, [] => True
  | [], _ :: _ => True
  | p :: ps, o :: os => (match o with | .raises e => e ∈ p.raisable | .ok _ => True) ∧ Consistent ps os

def Covered (ps : List Phase) : Prop := ∀ p ∈ ps, ∀ e ∈ p.raisable, catches p.caught e = true

theorem runScript_total : ∀ (ps : List Phase) (os : List Outcome), Covered ps → Consistent ps os →
    ∃ r, runScript ps os = .ok r ∧ r.length = ps.length
  | [], os, _, _ => ⟨[], by simp [runScript], rfl⟩
  | p :: ps, [], _, _ => ⟨_, rfl, by simp⟩
  | p :: ps, o :: os, hc, hk => by
    simp only [Consistent] at hk
    cases o with
    | ok logged =>
      obtain ⟨r, hr, hl⟩ := runScript_total ps os (fun q hq => hc q (List.mem_cons_of_mem _ hq)) hk.2
      refine ⟨(p.step, if logged && p.failsReport then Status.failed else Status.success) :: r, ?_, by simp [hl]⟩
      simp [runScript, hr, Except.map]
    | raises e =>
      have : catches p.caught e = true := hc p (List.mem_cons_self ..) e hk.1
      refine ⟨(p.step, .failed) :: ps.map (fun q => (q.step, .notExecuted)), ?_, by simp⟩
      simp [runScript, this]

/-! ### data checker -/

mutual
theorem beqVal_eq : ∀ (v w : Val), beqVal v w = true → v = w
  | .none, w, h => by cases w <;> simp_all [beqVal]
  | .tok s f, w, h => by cases w <;> simp_all [beqVal]
  | .list xs, w, h => by
    cases w with
    | list ys => simp only [beqVal] at h; rw [beqList_eq xs ys h]
    | _ => simp [beqVal] at h
  | .node c fs, w, h => by
    cases w with
    | node c' fs' =>
      simp only [beqVal, Bool.and_eq_true, beq_iff_eq] at h
      rw [h.1, beqList_eq fs fs' h.2]
    | _ => simp [beqVal] at h
theorem beqList_eq : ∀ (xs ys : List Val), beqList xs ys = true → xs = ys
  | [], ys, h => by cases ys <;> simp_all [beqList]
  | x :: xs, ys, h => by
    cases ys with
    | nil => simp [beqList] at h
    | cons y ys =>
      simp only [beqList, Bool.and_eq_true] at h
      rw [beqVal_eq x y h.1, beqList_eq xs ys h.2]
end

mutual
theorem beqVal_refl : ∀ (v : Val), beqVal v v = true
  | .none => rfl
  | .tok s f => by simp [beqVal]
  | .list xs => by simp [beqVal, beqList_refl xs]
  | .node c fs => by simp [beqVal, beqList_refl fs]
theorem beqList_refl : ∀ (xs : List Val), beqList xs xs = true
  | [] => rfl
  | x :: xs => by simp [beqList, beqVal_refl x, beqList_refl xs]
end

def allCompared (hs : List (String × How)) : Bool := hs.all (fun a => a.2 == .eq || a.2 == .recurse)

theorem complete_coverOf (C : List Cover) (hC : complete C = true) (c : String) : allCompared (coverOf C c) = true := by
  unfold coverOf
  split
  · next x hf =>
    have hm := List.mem_of_find?_eq_some hf
    simp only [complete, List.all_eq_true] at hC
    simp only [allCompared, List.all_eq_true]
    exact hC x hm
  · rfl

mutual
/-- With a complete coverage table a passing comparison means the two values are identical: ANY difference, in any
    attribute at any depth, makes a check fail. -/
theorem checkEq_sound (C : List Cover) (hC : complete C = true) : ∀ (v w : Val), checkEq C v w = true → v = w
  | .none, w, h => by cases w <;> simp_all [checkEq, beqVal]
  | .tok s f, w, h => by
    have : beqVal (.tok s f) w = true := by cases w <;> simp_all [checkEq]
    exact beqVal_eq _ _ this
  | .list xs, w, h => by
    cases w with
    | list ys => simp only [checkEq] at h; rw [checkList_sound C hC xs ys h]
    | _ => simp [checkEq, beqVal] at h
  | .node c fs, w, h => by
    cases w with
    | node c' fs' =>
      simp only [checkEq, Bool.and_eq_true, beq_iff_eq] at h
      obtain ⟨hc, hf⟩ := h
      subst hc
      rw [checkFields_sound C hC (coverOf C c) fs fs' (complete_coverOf C hC c) hf]
    | _ => simp [checkEq, beqVal] at h
theorem checkList_sound (C : List Cover) (hC : complete C = true) : ∀ (xs ys : List Val), checkList C xs ys = true → xs = ys
  | [], ys, h => by cases ys <;> simp_all [checkList]
  | x :: xs, ys, h => by
    cases ys with
    | nil => simp [checkList] at h
    | cons y ys =>
      simp only [checkList, Bool.and_eq_true] at h
      rw [checkEq_sound C hC x y h.1, checkList_sound C hC xs ys h.2]
theorem checkFields_sound (C : List Cover) (hC : complete C = true) : ∀ (hs : List (String × How)) (vs ws : List Val),
    allCompared hs = true → checkFields C hs vs ws = true → vs = ws
  | [], vs, ws, _, h => by
    cases vs <;> cases ws <;> simp_all [checkFields]
  | (n, how) :: hs, vs, ws, ha, h => by
    cases vs with
    | nil => simp [checkFields] at h
    | cons v vs =>
      cases ws with
      | nil => simp [checkFields] at h
      | cons w ws =>
        simp only [allCompared, List.all_cons, Bool.and_eq_true, Bool.or_eq_true, beq_iff_eq] at ha
        simp only [checkFields, Bool.and_eq_true] at h
        have hrest := checkFields_sound C hC hs vs ws (by simpa [allCompared] using ha.2) h.2
        rcases ha.1 with he | he
        · simp only [he] at h
          rw [beqVal_eq v w h.1, hrest]
        · simp only [he] at h
          rw [checkEq_sound C hC v w h.1, hrest]
end

/-! ### no false failures: a value whose objects carry the attributes the table lists compares equal to itself -/

mutual
/-- every object has exactly the attributes the coverage table lists for its class (what `T.to_val` produces) -/
def shaped (C : List Cover) : Val → Bool
  | .node c fs => fs.length == (coverOf C c).length && shapedList C fs
  | .list xs => shapedList C xs
  | _ => true
def shapedList (C : List Cover) : List Val → Bool
  | [] => true
  | x :: xs => shaped C x && shapedList C xs
end

mutual
theorem checkEq_refl (C : List Cover) : ∀ (v : Val), shaped C v = true → checkEq C v v = true
  | .none, _ => by simp [checkEq, beqVal]
  | .tok s f, _ => by simp [checkEq, beqVal]
  | .list xs, h => by
    simp only [shaped] at h
    simp only [checkEq]
    exact checkList_refl C xs h
  | .node c fs, h => by
    simp only [shaped, Bool.and_eq_true, beq_iff_eq] at h
    simp only [checkEq, beq_self_eq_true, Bool.true_and]
    exact checkFields_refl C (coverOf C c) fs h.1 h.2
theorem checkList_refl (C : List Cover) : ∀ (xs : List Val), shapedList C xs = true → checkList C xs xs = true
  | [], _ => rfl
  | x :: xs, h => by
    simp only [shapedList, Bool.and_eq_true] at h
    simp only [checkList, Bool.and_eq_true]
    exact ⟨checkEq_refl C x h.1, checkList_refl C xs h.2⟩
theorem checkFields_refl (C : List Cover) : ∀ (hs : List (String × How)) (vs : List Val),
    vs.length = hs.length → shapedList C vs = true → checkFields C hs vs vs = true
  | [], [], _, _ => rfl
  | [], _ :: _, hl, _ => by simp at hl
  | _ :: _, [], hl, _ => by simp at hl
  | (n, how) :: hs, v :: vs, hl, h => by
    simp only [shapedList, Bool.and_eq_true] at h
    simp only [List.length_cons, Nat.add_right_cancel_iff] at hl
    simp only [checkFields, Bool.and_eq_true]
    refine ⟨?_, checkFields_refl C hs vs hl h.2⟩
    cases how with
    | eq => exact beqVal_refl v
    | recurse => exact checkEq_refl C v h.1
    | existsOnly => cases v <;> simp
    | selfCompare => rfl
    | notCompared => rfl
end

end Basyx.Compliance
