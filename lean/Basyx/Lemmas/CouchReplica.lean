import Basyx.Lemmas.Couch
namespace Basyx.Couch

theorem discardWith_unit_or_cl (w : W) (h : Nat) (x : Obj) (q : Quoted) (rev : Rev) :
    (discardWith true w h x q rev).2 = .unit ∨ (discardWith true w h x q rev).1.cl = w.cl := by
  unfold discardWith
  have hcl := request_cl w ⟨.DELETE, .doc q, some rev, none⟩
  split
  · left; simp
  all_goals
    right
    rename_i heq
    rw [heq] at hcl
    exact hcl

theorem discard_unit_or_cl (w : W) (h : Nat) (safe : Bool) :
    (discard w h safe).2 = .unit ∨ (discard w h safe).1.cl = w.cl := by
  unfold discard discardG
  split
  · right; rfl
  · split
    · exact discardWith_unit_or_cl _ _ _ _ _
    · right; rfl
    · have hcl := request_cl w ⟨.HEAD, .doc (quote ‹Obj›.id), none, none⟩
      split
      · rename_i heq
        rw [heq] at hcl
        rcases discardWith_unit_or_cl _ h ‹Obj› (quote ‹Obj›.id) ‹Rev› with hu | hc
        · left; exact hu
        · right; rw [hc]; exact hcl
      all_goals
        right
        rename_i heq
        rw [heq] at hcl
        exact hcl

end Basyx.Couch
