import Basyx.Model.Ns
namespace Basyx.Ns

theorem normIdx_lt {i : Int} {len j : Nat} (h : normIdx i len = some j) : j < len := by
  unfold normIdx at h
  split at h
  · split at h
    · cases h; assumption
    · cases h
  · split at h
    · cases h; omega
    · cases h

theorem clampPos_ofNat (j len : Nat) (h : j ≤ len) : clampPos (Int.ofNat j) len = j := by
  unfold clampPos
  simp
  omega

theorem sliceGet_one (l : List Nat) (j : Nat) (h : j < l.length) :
    sliceGet l ⟨some (Int.ofNat j), some (Int.ofNat j + 1), none⟩ = some [l[j]] := by
  have h1 : (Int.ofNat j + 1) = Int.ofNat (j + 1) := rfl
  simp only [sliceGet, isStep1, Option.getD_none, decide_true, if_true, boundsPos, h1,
    clampPos_ofNat j l.length (by omega), clampPos_ofNat (j + 1) l.length (by omega)]
  have h2 : List.take 1 (List.drop j l) = [l[j]] := by
    have := List.drop_eq_getElem_cons h
    rw [this]
    rfl
  simpa [List.drop_take] using h2

theorem sliceDel_one (l : List Nat) (j : Nat) (h : j < l.length) :
    sliceDel l ⟨some (Int.ofNat j), some (Int.ofNat j + 1), none⟩ = some (l.eraseIdx j) := by
  have h1 : (Int.ofNat j + 1) = Int.ofNat (j + 1) := rfl
  simp only [sliceDel, isStep1, Option.getD_none, decide_true, if_true, boundsPos, h1,
    clampPos_ofNat j l.length (by omega), clampPos_ofNat (j + 1) l.length (by omega)]
  congr 1
  rw [List.eraseIdx_eq_take_drop_succ]
  congr 2
  omega

end Basyx.Ns
