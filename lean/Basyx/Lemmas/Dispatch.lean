import Basyx.Model.Dispatch
import Basyx.Gen.Dispatch
namespace Basyx.Dispatch

theorem modelType_derive (known : List String) (n : String) (c : PyClass) (hn : known.contains n = false) :
    modelTypeOf .mroFirstHit known (derive n c) = modelTypeOf .mroFirstHit known c := by
  have h : decide (n ∈ known) = false := by simpa using hn
  simp [modelTypeOf, derive, h]

theorem modelType_deriveMany (known : List String) (ns : List String) (c : PyClass)
    (hn : ∀ n ∈ ns, known.contains n = false) :
    modelTypeOf .mroFirstHit known (deriveMany ns c) = modelTypeOf .mroFirstHit known c := by
  induction ns with
  | nil => rfl
  | cons n ns ih =>
    simp only [deriveMany]
    rw [modelType_derive known n _ (hn n (by simp))]
    exact ih (fun m hm => hn m (by simp [hm]))

theorem find?_ext {α} (p q : α → Bool) : ∀ (l : List α), (∀ x ∈ l, p x = q x) → l.find? p = l.find? q
  | [], _ => rfl
  | x :: xs, h => by
    simp only [List.find?, h x (by simp)]
    cases q x
    · exact find?_ext p q xs (fun y hy => h y (by simp [hy]))
    · rfl

theorem listOf_derive (rows : List (String × String)) (n : String) (c : PyClass)
    (hn : ∀ r ∈ rows, r.1 ≠ n) :
    listOf .isinstance rows (derive n c) = listOf .isinstance rows c := by
  simp only [listOf, derive]
  congr 1
  apply find?_ext
  intro r hr
  have := hn r hr
  simp [this]

theorem listOf_deriveMany (rows : List (String × String)) (ns : List String) (c : PyClass)
    (hn : ∀ n ∈ ns, ∀ r ∈ rows, r.1 ≠ n) :
    listOf .isinstance rows (deriveMany ns c) = listOf .isinstance rows c := by
  induction ns with
  | nil => rfl
  | cons n ns ih =>
    simp only [deriveMany]
    rw [listOf_derive rows n _ (hn n (by simp))]
    exact ih (fun m hm => hn m (by simp [hm]))

end Basyx.Dispatch
