import Basyx.Model.Codec
namespace Basyx.Codec

/-! ### Conformance of a value to the SPEC side of a table (which attribute values are possible at all) -/

/-- leaf-level side conditions of a row's SPEC domain on a non-None value -/
def DomOk (r : Row) (v : Val) : Prop :=
  (r.noFalsy = true → truthyVal v = true) ∧
  (r.enumVals ≠ [] → ∃ s, v = .tok s false ∧ s ∈ r.enumVals) ∧
  (r.canBeEmpty = false → isEmptyTok v = false)

mutual
def ConfV (T : Table) : Kind → Val → Prop
  | .leaf, .tok _ _ => True
  | .list k, .list xs => ConfL T k xs
  | .node c, .node c' fs => c' = c ∧ ConfF T (rowsOf T c') fs
  | .poly cs, .node c' fs =>
      cs.contains c' = true ∧ (∃ t, tagOf T c' = some t) ∧ ConfF T (rowsOf T c') fs
  | _, _ => False
def ConfL (T : Table) (k : Kind) : List Val → Prop
  | [] => True
  | v :: r => ConfV T k v ∧ ConfL T k r
def ConfF (T : Table) : List Row → List Val → Prop
  | [], [] => True
  | r :: rows, v :: fs =>
      ((v = .none ∧ r.optional = true) ∨ (v ≠ .none ∧ ConfV T r.kind v ∧ DomOk r v)) ∧ ConfF T rows fs
  | _, _ => False
end

structure WF (T : Table) : Prop where
  rowsWF : ∀ c, ∀ r ∈ rowsOf T c, wfRowB r = true
  nodup : ∀ c, ((rowsOf T c).map (·.member)).Nodup
  tags : ∀ c t, tagOf T c = some t → classOfTag T t = some c

theorem nodup_of_nodupB : ∀ (l : List String), nodupB l = true → l.Nodup
  | [], _ => List.nodup_nil
  | x :: r, h => by
    simp only [nodupB, Bool.and_eq_true, Bool.not_eq_true', List.contains_eq_mem, decide_eq_false_iff_not] at h
    exact List.nodup_cons.2 ⟨h.1, nodup_of_nodupB r h.2⟩

theorem wf_of_wfTableB (T : Table) (h : wfTableB T = true) : WF T := by
  have hall : ∀ ct ∈ T, wfClassB T ct = true := by
    simpa [wfTableB, List.all_eq_true] using h
  constructor
  · intro c r hr
    unfold rowsOf at hr
    split at hr
    · next ct hf =>
      have := hall ct (List.mem_of_find?_eq_some hf)
      simp only [wfClassB, Bool.and_eq_true, List.all_eq_true] at this
      exact this.1.1 r hr
    · cases hr
  · intro c
    unfold rowsOf
    split
    · next ct hf =>
      have := hall ct (List.mem_of_find?_eq_some hf)
      simp only [wfClassB, Bool.and_eq_true] at this
      exact nodup_of_nodupB _ this.1.2
    · exact List.nodup_nil
  · intro c t ht
    unfold tagOf at ht
    split at ht
    · next ct hf =>
      have hm := List.mem_of_find?_eq_some hf
      have hc : ct.cls = c := by simpa using List.find?_some hf
      have := hall ct hm
      simp only [wfClassB, Bool.and_eq_true] at this
      have h3 := this.2
      rw [ht] at h3
      simp only [beq_iff_eq] at h3
      rw [h3, hc]
    · cases ht

/-! ### strip is the identity in full mode -/

mutual
theorem strip_false (T : Table) : ∀ v, strip T false v = v
  | .none => rfl
  | .tok _ _ => rfl
  | .list xs => by simp only [strip, stripList_false T xs]
  | .node c fs => by
    simp only [strip]
    congr 1
    exact (stripFields_false T (rowsOf T c) fs)
theorem stripList_false (T : Table) : ∀ xs, stripList T false xs = xs
  | [] => rfl
  | v :: r => by simp only [stripList, strip_false T v, stripList_false T r]
theorem stripFields_false (T : Table) : ∀ rows fs, stripFields T false rows fs = fs
  | [], fs => by cases fs <;> rfl
  | _ :: _, [] => rfl
  | r :: rows, v :: fs => by
    simp only [stripFields, Bool.false_and, Bool.false_eq_true, if_false, strip_false T v, stripFields_false T rows fs]
end

/-! ### guards lose nothing -/

/-- field-level conformance, as it appears inside `ConfF` -/
def ConfRow (T : Table) (r : Row) (v : Val) : Prop :=
  (v = .none ∧ r.optional = true) ∨ (v ≠ .none ∧ ConfV T r.kind v ∧ DomOk r v)

theorem confV_tok {T : Table} {k : Kind} {s : String} {f : Bool} (h : ConfV T k (.tok s f)) : k = .leaf := by
  cases k <;> simp [ConfV] at h ⊢
theorem confV_list {T : Table} {k : Kind} {xs : List Val} (h : ConfV T k (.list xs)) : ∃ k', k = .list k' := by
  cases k <;> simp [ConfV] at h ⊢

theorem wfRow_lossless {r : Row} (hw : wfRowB r = true) : losslessB r = true := by
  simp only [wfRowB, Bool.and_eq_true] at hw; exact hw.1.1.1.1.1.2

theorem lossless_sound {T : Table} {r : Row} {v : Val} (hw : wfRowB r = true) (hc : ConfRow T r v)
    (hg : guardPass r.guard v = false) : v = r.dflt := by
  have hl : losslessB r = true := wfRow_lossless hw
  unfold losslessB at hl
  cases hgd : r.guard with
  | always => simp [guardPass, hgd] at hg
  | notNone =>
    rw [hgd] at hl hg
    have hv : v = .none := by cases v <;> simp [guardPass, isNone] at hg ⊢
    subst hv
    rcases hc with ⟨_, ho⟩ | ⟨hne, _⟩
    · simp [ho] at hl
      cases hd : r.dflt <;> simp [hd, isNone] at hl ⊢
    · exact absurd rfl hne
  | truthy =>
    rw [hgd] at hl hg
    simp only [guardPass] at hg
    rcases hc with ⟨hv, ho⟩ | ⟨hne, hcv, hdom⟩
    · subst hv
      have hdn : isNone r.dflt = true := by
        cases hk : isListKind r.kind <;> cases hk2 : isLeafKind r.kind <;> simp_all
      cases hd : r.dflt <;> simp [hd, isNone] at hdn ⊢
    · cases v with
      | none => exact absurd rfl hne
      | tok s f =>
        have hk := confV_tok hcv
        simp only [truthyVal, Bool.not_eq_false'] at hg
        subst hg
        have hnf : r.noFalsy = true := by simp_all [isListKind, isLeafKind]
        have := hdom.1 hnf
        simp [truthyVal] at this
      | list xs =>
        obtain ⟨k', hk⟩ := confV_list hcv
        have hx : xs = [] := by
          cases xs <;> simp [truthyVal] at hg ⊢
        subst hx
        simp only [hk, isListKind, if_true] at hl
        by_cases ho : r.optional = true
        · simp only [ho, if_true, Bool.and_eq_true] at hl
          have := hdom.1 hl.1
          simp [truthyVal] at this
        · simp only [ho] at hl
          cases hd : r.dflt with
          | list ys => cases ys <;> simp_all
          | _ => simp_all
      | node c fs => simp [truthyVal] at hg
  | isTok t =>
    rw [hgd] at hl hg
    simp only [Bool.and_eq_true, Bool.not_eq_true'] at hl
    obtain ⟨⟨⟨ho, _⟩, hne⟩, hd⟩ := hl
    rcases hc with ⟨_, ho'⟩ | ⟨_, _, hdom⟩
    · rw [ho] at ho'; cases ho'
    · have hne' : r.enumVals ≠ [] := by
        intro e; simp [e] at hne
      obtain ⟨s, hv, hs⟩ := hdom.2.1 hne'
      subst hv
      cases hdf : r.dflt with
      | tok d fd =>
        cases fd with
        | true => simp [hdf] at hd
        | false =>
          simp only [hdf, List.all_eq_true, Bool.or_eq_true, beq_iff_eq] at hd
          simp only [guardPass, beq_eq_false_iff_ne] at hg
          rcases hd s hs with h | h
          · exact absurd h hg
          · rw [h]
      | _ => simp [hdf] at hd

theorem alwaysPasses_sound {T : Table} {r : Row} {v : Val} (ha : alwaysPassesB r = true) (hc : ConfRow T r v) :
    guardPass r.guard v = true := by
  unfold alwaysPassesB at ha
  cases hgd : r.guard with
  | always => rfl
  | notNone =>
    rw [hgd] at ha
    rcases hc with ⟨_, ho⟩ | ⟨hne, _, _⟩
    · simp [ho] at ha
    · cases v <;> simp_all [guardPass, isNone]
  | truthy =>
    rw [hgd] at ha
    simp only [Bool.and_eq_true, Bool.not_eq_true', Bool.or_eq_true] at ha
    rcases hc with ⟨_, ho⟩ | ⟨hne, hcv, hdom⟩
    · rw [ha.1] at ho; cases ho
    · simp only [guardPass]
      rcases ha.2 with ⟨_, hnf⟩ | hnode
      · exact hdom.1 hnf
      · cases v with
        | none => exact absurd rfl hne
        | tok s f => have := confV_tok hcv; rw [this] at hnode; simp [isNodeKind] at hnode
        | list xs => obtain ⟨k', hk⟩ := confV_list hcv; rw [hk] at hnode; simp [isNodeKind] at hnode
        | node _ _ => rfl
  | isTok t => rw [hgd] at ha; simp at ha

/-! ### what the reader has after decoding what the writer emitted -/

def decodedOf (T : Table) (se sd : Bool) : List Row → List Val → List (String × Val)
  | r :: rows, v :: fs =>
    if emits se r v && reads sd r then (r.member, strip T (se || sd) v) :: decodedOf T se sd rows fs
    else decodedOf T se sd rows fs
  | _, _ => []

theorem keys_decodedOf (T : Table) (se sd : Bool) : ∀ rows fs k,
    k ∈ (decodedOf T se sd rows fs).map Prod.fst → k ∈ rows.map (·.member)
  | [], _, k, h => by simp [decodedOf] at h
  | _ :: _, [], k, h => by simp [decodedOf] at h
  | r :: rows, v :: fs, k, h => by
    simp only [decodedOf] at h
    split at h
    · simp only [List.map_cons, List.mem_cons] at h ⊢
      rcases h with h | h
      · exact Or.inl h
      · exact Or.inr (keys_decodedOf T se sd rows fs k h)
    · simp only [List.map_cons, List.mem_cons]
      exact Or.inr (keys_decodedOf T se sd rows fs k h)

theorem lookupV_append_of_not_mem (name : String) : ∀ (P Q : List (String × Val)),
    name ∉ P.map Prod.fst → lookupV name (P ++ Q) = lookupV name Q
  | [], _, _ => rfl
  | (k, v) :: P, Q, h => by
    simp only [List.map_cons, List.mem_cons, not_or] at h
    have hk : k ≠ name := fun e => h.1 e.symm
    simp only [List.cons_append, lookupV, hk, if_false]
    exact lookupV_append_of_not_mem name P Q h.2

theorem lookupV_none_of_not_mem (name : String) : ∀ (Q : List (String × Val)),
    name ∉ Q.map Prod.fst → lookupV name Q = none
  | [], _ => rfl
  | (k, v) :: Q, h => by
    simp only [List.map_cons, List.mem_cons, not_or] at h
    have hk : k ≠ name := fun e => h.1 e.symm
    simp only [lookupV, hk, if_false]
    exact lookupV_none_of_not_mem name Q h.2

theorem strip_simple {T : Table} {s : Bool} {d : Val} (h : simpleDflt d = true) : strip T s d = d := by
  cases d with
  | none => rfl
  | tok _ _ => rfl
  | list xs => cases xs <;> simp [simpleDflt] at h ⊢ <;> simp [strip, stripList]
  | node _ _ => simp [simpleDflt] at h

/-- Reader side of one object: from the decoded members the attribute list is rebuilt exactly (when writer or
    reader run in stripped mode: with the detachable attributes at their defaults). -/
theorem assemble_decoded (T : Table) (se sd : Bool) : ∀ (rows : List Row) (fs : List Val) (P : List (String × Val)),
    (rows.map (·.member)).Nodup → (∀ r ∈ rows, wfRowB r = true) → ConfF T rows fs →
    (∀ r ∈ rows, r.member ∉ P.map Prod.fst) →
    assemble sd (P ++ decodedOf T se sd rows fs) rows = .ok (stripFields T (se || sd) rows fs)
  | [], [], P, _, _, _, _ => by simp [assemble, stripFields]
  | [], _ :: _, _, _, _, hc, _ => by simp [ConfF] at hc
  | _ :: _, [], _, _, _, hc, _ => by simp [ConfF] at hc
  | r :: rows, v :: fs, P, hnd, hwf, hc, hP => by
    simp only [ConfF] at hc
    obtain ⟨hcr, hcf⟩ := hc
    have hnd' : r.member ∉ rows.map (·.member) ∧ (rows.map (·.member)).Nodup := by
      simpa [List.nodup_cons] using hnd
    have hw := hwf r (List.mem_cons_self ..)
    have hw' := hw
    simp only [wfRowB, Bool.and_eq_true, Bool.or_eq_true, Bool.not_eq_true', beq_iff_eq] at hw'
    obtain ⟨⟨⟨⟨⟨⟨⟨hreads, hreq⟩, _⟩, hstrip⟩, hsg⟩, hsimple⟩, hsr⟩, _⟩ := hw'
    have hrP : r.member ∉ P.map Prod.fst := hP r (List.mem_cons_self ..)
    have hrest : r.member ∉ (decodedOf T se sd rows fs).map Prod.fst :=
      fun h => hnd'.1 (keys_decodedOf T se sd rows fs _ h)
    -- the reader consults the row iff it is not (reader stripped ∧ detachable)
    have hreads_iff : reads sd r = !(sd && r.encStrip) := by simp [reads, hreads, hstrip]
    simp only [assemble, decodedOf, stripFields]
    by_cases he : (emits se r v && reads sd r) = true
    · -- emitted and read: the reader finds the decoded child
      simp only [he, if_true]
      have hrd : reads sd r = true := by simp only [Bool.and_eq_true] at he; exact he.2
      have hem : emits se r v = true := by simp only [Bool.and_eq_true] at he; exact he.1
      have hlk : lookupV r.member (P ++ (r.member, strip T (se || sd) v) :: decodedOf T se sd rows fs)
          = some (strip T (se || sd) v) := by
        rw [lookupV_append_of_not_mem _ _ _ hrP]; simp [lookupV]
      simp only [hrd, if_true, hlk]
      have hns : ((se || sd) && r.encStrip) = false := by
        rw [hreads_iff] at hrd
        simp only [emits, Bool.and_eq_true, Bool.not_eq_true'] at hem
        cases se <;> cases sd <;> cases hE : r.encStrip <;> simp_all
      have ih := assemble_decoded T se sd rows fs (P ++ [(r.member, strip T (se || sd) v)]) hnd'.2
        (fun r' hr' => hwf r' (List.mem_cons_of_mem _ hr')) hcf
        (by
          intro r' hr' hm
          simp only [List.map_append, List.map_cons, List.map_nil, List.mem_append, List.mem_singleton] at hm
          rcases hm with hm | hm
          · exact hP r' (List.mem_cons_of_mem _ hr') hm
          · exact hnd'.1 (by rw [← hm]; exact List.mem_map_of_mem hr'))
      rw [List.append_assoc, List.singleton_append] at ih
      rw [ih]
      simp [Except.map, hns]
    · -- not available to the reader: default
      simp only [he, Bool.false_eq_true, if_false]
      have hlk : (if reads sd r = true then lookupV r.member (P ++ decodedOf T se sd rows fs) else none) = none := by
        split
        · rw [lookupV_append_of_not_mem _ _ _ hrP]; exact lookupV_none_of_not_mem _ _ hrest
        · rfl
      rw [hlk]
      have ih := assemble_decoded T se sd rows fs P hnd'.2
        (fun r' hr' => hwf r' (List.mem_cons_of_mem _ hr')) hcf
        (fun r' hr' => hP r' (List.mem_cons_of_mem _ hr'))
      rw [ih]
      -- which value does the attribute get?
      by_cases hst : ((se || sd) && r.encStrip) = true
      · -- some side is in stripped mode and the member is detachable: the reader's default
        have hnreq : r.decRequired = false := by
          rcases hsr with h | h
          · simp only [Bool.and_eq_true] at hst; rw [hst.2] at h; cases h
          · exact h
        simp [hnreq, hst, Except.map]
      · -- the writer's guard suppressed it
        have hst' : ((se || sd) && r.encStrip) = false := by simpa using hst
        have hrd : reads sd r = true := by
          rw [hreads_iff]; cases se <;> cases sd <;> cases hE : r.encStrip <;> simp_all
        have hgp : guardPass r.guard v = false := by
          have : emits se r v = false := by simpa [hrd] using he
          simp only [emits] at this
          cases se <;> cases sd <;> cases hE : r.encStrip <;> simp_all
        have hvd : v = r.dflt := lossless_sound hw hcr hgp
        have hnreq : r.decRequired = false := by
          rcases hreq with h | h
          · exact h
          · have := alwaysPasses_sound h hcr
            rw [this] at hgp; cases hgp
        simp only [hnreq, Bool.false_and, Bool.false_eq_true, if_false, Except.map, hst']
        rw [hvd, strip_simple hsimple]

theorem findRow_of_mem : ∀ (rows : List Row) (r : Row), (rows.map (·.member)).Nodup → r ∈ rows →
    findRow rows r.member = some r
  | [], _, _, h => by cases h
  | r0 :: rows, r, hnd, h => by
    have hnd' : r0.member ∉ rows.map (·.member) ∧ (rows.map (·.member)).Nodup := by
      simpa [List.nodup_cons] using hnd
    rcases List.mem_cons.1 h with rfl | h'
    · simp [findRow, List.find?]
    · have hne : r0.member ≠ r.member := by
        intro e; apply hnd'.1; rw [e]; exact List.mem_map_of_mem h'
      have ih := findRow_of_mem rows r hnd'.2 h'
      simp only [findRow, List.find?, hne, decide_false] at ih ⊢
      exact ih

theorem isEmptyTok_strip {T : Table} {s : Bool} (v : Val) : isEmptyTok (strip T s v) = isEmptyTok v := by
  cases v <;> simp [strip, isEmptyTok]

theorem emptyAction_keep {T : Table} {s : Bool} {r : Row} {v : Val} (hw : wfRowB r = true) (hc : ConfRow T r v)
    (hne : v ≠ .none) : emptyAction r (strip T s v) = .keep := by
  unfold emptyAction
  rw [isEmptyTok_strip]
  by_cases he : isEmptyTok v = true
  · rcases hc with ⟨hv, _⟩ | ⟨_, _, hdom⟩
    · exact absurd hv hne
    · have hcb : r.canBeEmpty = true := by
        cases h : r.canBeEmpty
        · have := hdom.2.2 h; rw [this] at he; cases he
        · rfl
      have hx : r.emptyText = .exact := by
        simp only [wfRowB, Bool.and_eq_true, Bool.or_eq_true, Bool.not_eq_true', beq_iff_eq] at hw
        rcases hw.2 with h | h
        · rw [hcb] at h; cases h
        · exact h
      simp [he, hx]
  · simp [he]

theorem emitted_ne_none {T : Table} {s : Bool} {r : Row} {v : Val} (hw : wfRowB r = true) (hc : ConfRow T r v)
    (he : emits s r v = true) : v ≠ .none ∧ ConfV T r.kind v := by
  rcases hc with ⟨hv, ho⟩ | ⟨hne, hcv, _⟩
  · subst hv
    exfalso
    have hl : losslessB r = true := wfRow_lossless hw
    simp only [emits, Bool.and_eq_true] at he
    have hg := he.2
    unfold losslessB at hl
    cases hgd : r.guard <;> rw [hgd] at hl hg <;> simp_all [guardPass, isNone, truthyVal]
  · exact ⟨hne, hcv⟩

mutual
/-- **Generic round trip**: reading (reader mode `sd`) what the writer produced (writer mode `se`) gives the value
    back — with its detachable parts removed iff writer or reader ran stripped — for every conforming value at every
    nesting depth. -/
theorem rt_val (T : Table) (se sd : Bool) (hWF : WF T) : ∀ (k : Kind) (v : Val), ConfV T k v →
    dec T sd k (enc T se v) = .ok (strip T (se || sd) v)
  | k, .none, h => by cases k <;> simp [ConfV] at h
  | k, .tok t f, h => by
    have := confV_tok h; subst this; simp [enc, dec, strip]
  | k, .list xs, h => by
    obtain ⟨k', rfl⟩ := confV_list h
    simp only [ConfV] at h
    simp only [enc, dec, strip, rt_list T se sd hWF k' xs h, Except.map]
  | k, .node c fs, h => by
    cases k with
    | leaf => simp [ConfV] at h
    | list _ => simp [ConfV] at h
    | node c0 =>
      simp only [ConfV] at h
      obtain ⟨rfl, hf⟩ := h
      simp only [enc, dec]
      rw [rt_members T se sd hWF (rowsOf T c) (rowsOf T c) fs
        (fun r hr => findRow_of_mem _ r (hWF.nodup c) hr) (hWF.rowsWF c) hf]
      have := assemble_decoded T se sd (rowsOf T c) fs [] (hWF.nodup c) (hWF.rowsWF c) hf (by simp)
      simp only [List.nil_append] at this
      simp only [this, Except.map, strip]
    | poly cs =>
      simp only [ConfV] at h
      obtain ⟨hcs, ⟨t, ht⟩, hf⟩ := h
      simp only [enc, ht, dec, hWF.tags c t ht, hcs, if_true]
      rw [rt_members T se sd hWF (rowsOf T c) (rowsOf T c) fs
        (fun r hr => findRow_of_mem _ r (hWF.nodup c) hr) (hWF.rowsWF c) hf]
      have := assemble_decoded T se sd (rowsOf T c) fs [] (hWF.nodup c) (hWF.rowsWF c) hf (by simp)
      simp only [List.nil_append] at this
      simp only [this, Except.map, strip]
theorem rt_list (T : Table) (se sd : Bool) (hWF : WF T) : ∀ (k : Kind) (xs : List Val), ConfL T k xs →
    decList T sd k (encList T se xs) = .ok (stripList T (se || sd) xs)
  | _, [], _ => rfl
  | k, v :: r, h => by
    simp only [ConfL] at h
    simp only [encList, decList, rt_val T se sd hWF k v h.1, rt_list T se sd hWF k r h.2, Except.map, stripList]
theorem rt_members (T : Table) (se sd : Bool) (hWF : WF T) (R : List Row) : ∀ (rows : List Row) (fs : List Val),
    (∀ r ∈ rows, findRow R r.member = some r) → (∀ r ∈ rows, wfRowB r = true) → ConfF T rows fs →
    decMembers T sd R (encFields T se rows fs) = .ok (decodedOf T se sd rows fs)
  | [], [], _, _, _ => rfl
  | [], _ :: _, _, _, hc => by simp [ConfF] at hc
  | _ :: _, [], _, _, hc => by simp [ConfF] at hc
  | r :: rows, v :: fs, hfind, hwf, hc => by
    simp only [ConfF] at hc
    obtain ⟨hcr, hcf⟩ := hc
    have ih := rt_members T se sd hWF R rows fs (fun r' hr' => hfind r' (List.mem_cons_of_mem _ hr'))
      (fun r' hr' => hwf r' (List.mem_cons_of_mem _ hr')) hcf
    simp only [encFields, decodedOf]
    by_cases hem : emits se r v = true
    · simp only [hem, if_true, Bool.true_and]
      simp only [decMembers, hfind r (List.mem_cons_self ..)]
      by_cases hrd : reads sd r = true
      · obtain ⟨hne, hcv⟩ := emitted_ne_none (hwf r (List.mem_cons_self ..)) hcr hem
        simp only [hrd, if_true, rt_val T se sd hWF r.kind v hcv, ih, Except.map,
          emptyAction_keep (hwf r (List.mem_cons_self ..)) hcr hne]
      · simp only [hrd, Bool.false_eq_true, if_false, ih]
    · simp only [hem, Bool.false_eq_true, if_false, Bool.false_and, ih]
end

/-! ### The stripped writer = the full writer's output minus the detachable members, at every depth (C18) -/

mutual
theorem enc_strip_val (T : Table) (hWF : WF T) : ∀ (k : Kind) (v : Val), ConfV T k v →
    enc T true v = stripW T k (enc T false v)
  | k, .none, h => by cases k <;> simp [ConfV] at h
  | k, .tok t f, h => by
    have := confV_tok h; subst this; simp [enc, stripW]
  | k, .list xs, h => by
    obtain ⟨k', rfl⟩ := confV_list h
    simp only [ConfV] at h
    simp only [enc, stripW, enc_strip_list T hWF k' xs h]
  | k, .node c fs, h => by
    cases k with
    | leaf => simp [ConfV] at h
    | list _ => simp [ConfV] at h
    | node c0 =>
      simp only [ConfV] at h
      obtain ⟨rfl, hf⟩ := h
      simp only [enc, stripW]
      rw [enc_strip_fields T hWF (rowsOf T c) (rowsOf T c) fs
        (fun r hr => findRow_of_mem _ r (hWF.nodup c) hr) (hWF.rowsWF c) hf]
    | poly cs =>
      simp only [ConfV] at h
      obtain ⟨hcs, ⟨t, ht⟩, hf⟩ := h
      simp only [enc, ht, stripW, hWF.tags c t ht]
      rw [enc_strip_fields T hWF (rowsOf T c) (rowsOf T c) fs
        (fun r hr => findRow_of_mem _ r (hWF.nodup c) hr) (hWF.rowsWF c) hf]
theorem enc_strip_list (T : Table) (hWF : WF T) : ∀ (k : Kind) (xs : List Val), ConfL T k xs →
    encList T true xs = stripWL T k (encList T false xs)
  | _, [], _ => rfl
  | k, v :: r, h => by
    simp only [ConfL] at h
    simp only [encList, stripWL, enc_strip_val T hWF k v h.1, enc_strip_list T hWF k r h.2]
theorem enc_strip_fields (T : Table) (hWF : WF T) (R : List Row) : ∀ (rows : List Row) (fs : List Val),
    (∀ r ∈ rows, findRow R r.member = some r) → (∀ r ∈ rows, wfRowB r = true) → ConfF T rows fs →
    encFields T true rows fs = stripWM T R (encFields T false rows fs)
  | [], [], _, _, _ => rfl
  | [], _ :: _, _, _, hc => by simp [ConfF] at hc
  | _ :: _, [], _, _, hc => by simp [ConfF] at hc
  | r :: rows, v :: fs, hfind, hwf, hc => by
    simp only [ConfF] at hc
    obtain ⟨hcr, hcf⟩ := hc
    have ih := enc_strip_fields T hWF R rows fs (fun r' hr' => hfind r' (List.mem_cons_of_mem _ hr'))
      (fun r' hr' => hwf r' (List.mem_cons_of_mem _ hr')) hcf
    simp only [encFields]
    by_cases hg : guardPass r.guard v = true
    · have hemF : emits false r v = true := by simp [emits, hg]
      obtain ⟨_, hcv⟩ := emitted_ne_none (hwf r (List.mem_cons_self ..)) hcr hemF
      by_cases hs : r.encStrip = true
      · simp [emits, hg, hs, stripWM, hfind r (List.mem_cons_self ..), ih]
      · have hs' : r.encStrip = false := by simpa using hs
        simp [emits, hg, hs', stripWM, hfind r (List.mem_cons_self ..), ih, enc_strip_val T hWF r.kind v hcv]
    · have hg' : guardPass r.guard v = false := by simpa using hg
      simp [emits, hg', ih]
end

end Basyx.Codec
