/-!
  How a writer decides which metamodel class an object is - and hence whether an instance of an application-defined
  subclass of a metamodel class is written like an instance of that class (the readers support deriving: every constructor
  takes `object_class`).

  A Python class is seen through its method resolution order: the list of class names, the class itself first.
  `derive n c` is `class n(c): ...` (single inheritance: the MRO of the base with the new name in front).
-/
namespace Basyx.Dispatch

structure PyClass where
  mro : List String
deriving Repr, DecidableEq

def PyClass.name (c : PyClass) : String := c.mro.headD ""

/-- `class n(c)` -/
def derive (n : String) (c : PyClass) : PyClass := ⟨n :: c.mro⟩

/-- a class of the SDK with the given ancestors (nearest first) -/
def sdkClass (n : String) (ancestors : List String) : PyClass := ⟨n :: ancestors⟩

inductive NameBy where
  | mroFirstHit      -- next(t for t in inspect.getmro(type(obj)) if t in KEY_TYPES_CLASSES).__name__
  | ownName          -- obj.__class__.__name__
  | exactOrRaise     -- the same, after `if type(obj) not in KEY_TYPES_CLASSES: raise TypeError`
deriving Repr, DecidableEq

def nameByOf : String → Option NameBy
  | "mroFirstHit" => some .mroFirstHit
  | "ownName" => some .ownName
  | "exactOrRaise" => some .exactOrRaise
  | _ => none

/-- the `modelType` written for an object of class `c` (`none`: TypeError); `known` = the keys of KEY_TYPES_CLASSES -/
def modelTypeOf (by_ : NameBy) (known : List String) (c : PyClass) : Option String :=
  match by_ with
  | .mroFirstHit => c.mro.find? (known.contains ·)
  | .ownName => some c.name
  | .exactOrRaise => if known.contains c.name then some c.name else none

inductive SortBy where
  | isinstance       -- if isinstance(obj, A): ... elif isinstance(obj, B): ...
  | typeTable        -- TABLE.get(type(obj))
deriving Repr, DecidableEq

def sortByOf : String → Option SortBy
  | "isinstance" => some .isinstance
  | "typeTable" => some .typeTable
  | _ => none

/-- the top-level list an object of class `c` is sorted into (`none`: the object is left out of the document) -/
def listOf (by_ : SortBy) (rows : List (String × String)) (c : PyClass) : Option String :=
  match by_ with
  | .isinstance => (rows.find? (fun r => c.mro.contains r.1)).map (·.2)
  | .typeTable => (rows.find? (fun r => r.1 == c.name)).map (·.2)

/-- deriving any number of times: `class n₁(c)`, `class n₂(n₁)`, ... -/
def deriveMany : List String → PyClass → PyClass
  | [], c => c
  | n :: ns, c => derive n (deriveMany ns c)

end Basyx.Dispatch
