/-
  Model of `basyx.aas.adapter.aasx.DictSupplementaryFileContainer` (property C19).

  Transcribed branch by branch from the Python class:
    _store          : Dict[hash, bytes]          ↦ `store`
    _name_map       : Dict[name, (hash, ctype)]  ↦ `names`
    _store_refcount : Dict[hash, int]            ↦ `refc`
  `hash` is sha256 in the code; it is modelled as the identity on the content (i.e. assumed
  injective — named in the trusted base).  The `while True` conflict loop of `add_file` is modelled
  with fuel `|names| + 2`; `Props/C19.lean` proves that this fuel is never exhausted.
-/
import Basyx.Model.AList
import Basyx.Model.Fmt
namespace Basyx.Files
open Basyx.Fmt (pad4)

abbrev Name := List Char
abbrev Content := List Char      -- bytes, abstractly
abbrev Hash := Content
abbrev CT := List Char

def hash (c : Content) : Hash := c

structure St where
  store : List (Hash × Content)
  names : List (Name × (Hash × CT))
  refc  : List (Hash × Nat)
deriving Repr, DecidableEq

def init : St := ⟨[], [], []⟩

/-! ### `_append_counter` -/

/-- split a list at the LAST occurrence of `c`: `(before, after)`; `none` if `c` does not occur. -/
def splitLast (c : Char) : List Char → Option (List Char × List Char)
  | [] => none
  | x :: r =>
    match splitLast c r with
    | some (a, b) => some (x :: a, b)
    | none => if x = c then some ([], r) else none

/-- the two context strings around the inserted `_NNNN`: `name = pre ++ post` and
    `_append_counter(name, i) = pre ++ "_" ++ pad4 i ++ post`. -/
def ctx (name : Name) : List Char × List Char :=
  -- directory part: everything up to and including the last '/'
  let (dir, base) := match splitLast '/' name with
    | some (a, b) => (a ++ ['/'], b)
    | none => ([], name)
  -- split2 = base.split('.'); len(split2) > 1 ⇔ base contains '.'; index -2 is the segment before the last '.'
  match splitLast '.' base with
  | some (a, b) => (dir ++ a, '.' :: b)
  | none => (dir ++ base, [])

def appendCounter (name : Name) (i : Nat) : Name :=
  (ctx name).1 ++ ('_' :: pad4 i) ++ (ctx name).2

/-- the i-th candidate name tried by the conflict loop (`i = 0` is the proposed name itself). -/
def cand (name : Name) (i : Nat) : Name := if i = 0 then name else appendCounter name i

inductive Slot where
  | fresh (n : Name)      -- name not in use: insert
  | same (n : Name)       -- name in use with identical (hash, content type): return it
  | exhausted             -- fuel ran out (proved impossible)
deriving Repr, DecidableEq

def findSlot (names : List (Name × (Hash × CT))) (name : Name) (d : Hash × CT) : Nat → Nat → Slot
  | 0, _ => .exhausted
  | fuel + 1, i =>
    match AList.get (cand name i) names with
    | none => .fresh (cand name i)
    | some d' => if d' = d then .same (cand name i) else findSlot names name d fuel (i + 1)

inductive Out where
  | name (n : Name)
  | content (c : Content)
  | ctype (c : CT)
  | hash (h : Hash)
  | bool (b : Bool)
  | names (ns : List Name)
  | unit
  | keyError
  | fuel
deriving Repr, DecidableEq

def addFile (s : St) (name : Name) (data : Content) (ct : CT) : St × Out :=
  let h := hash data
  let s1 : St := if AList.has h s.store then s
                 else { s with store := AList.set h data s.store, refc := AList.set h 0 s.refc }
  match findSlot s1.names name (h, ct) (s1.names.length + 2) 0 with
  | .fresh n =>
    ({ s1 with names := AList.set n (h, ct) s1.names,
               refc := AList.set h ((AList.get h s1.refc).getD 0 + 1) s1.refc }, .name n)
  | .same n => (s1, .name n)
  | .exhausted => (s1, .fuel)

def deleteFile (s : St) (name : Name) : St × Out :=
  match AList.get name s.names with
  | none => (s, .keyError)
  | some (h, _) =>
    match AList.get h s.refc with
    | none => (s, .keyError)                -- `self._store_refcount[hash]` would raise (unreachable under Inv)
    | some n =>
      -- Python: refc[h] -= 1 ; if refc[h] == 0: del store[h]; del refc[h] ; del name_map[name]
      if n - 1 = 0 ∧ n ≠ 0 then
        ({ store := AList.erase h s.store, refc := AList.erase h s.refc,
           names := AList.erase name s.names }, .unit)
      else
        ({ s with refc := AList.set h (n - 1) s.refc, names := AList.erase name s.names }, .unit)

def getContentType (s : St) (name : Name) : Out :=
  match AList.get name s.names with
  | none => .keyError
  | some (_, ct) => .ctype ct

def getSha (s : St) (name : Name) : Out :=
  match AList.get name s.names with
  | none => .keyError
  | some (h, _) => .hash h

def writeFile (s : St) (name : Name) : Out :=
  match AList.get name s.names with
  | none => .keyError
  | some (h, _) =>
    match AList.get h s.store with
    | none => .keyError
    | some c => .content c

def contains (s : St) (name : Name) : Out := .bool (AList.has name s.names)
def iter (s : St) : Out := .names (AList.keys s.names)

inductive Op where
  | add (name : Name) (data : Content) (ct : CT)
  | delete (name : Name)
  | ctype (name : Name)
  | sha (name : Name)
  | write (name : Name)
  | contains (name : Name)
  | iter
deriving Repr, DecidableEq

def step (s : St) : Op → St × Out
  | .add n d c => addFile s n d c
  | .delete n => deleteFile s n
  | .ctype n => (s, getContentType s n)
  | .sha n => (s, getSha s n)
  | .write n => (s, writeFile s n)
  | .contains n => (s, contains s n)
  | .iter => (s, iter s)

/-- run a history, collecting the outputs -/
def run (s : St) : List Op → St × List Out
  | [] => (s, [])
  | op :: r =>
    let (s', o) := step s op
    let (s'', os) := run s' r
    (s'', o :: os)

/-! ### The abstract specification: a map from name to (content, content type) -/

abbrev Spec := List (Name × (Content × CT))

/-- the spec uses the same candidate-naming policy (`name`, `name_0001`, …) over the abstract map -/
abbrev specFind (m : Spec) (name : Name) (d : Content × CT) (fuel i : Nat) : Slot :=
  findSlot m name d fuel i

def specStep (m : Spec) : Op → Spec × Out
  | .add n d c =>
    match specFind m n (d, c) (m.length + 2) 0 with
    | .fresh k => (AList.set k (d, c) m, .name k)
    | .same k => (m, .name k)
    | .exhausted => (m, .fuel)
  | .delete n =>
    match AList.get n m with
    | none => (m, .keyError)
    | some _ => (AList.erase n m, .unit)
  | .ctype n => (m, match AList.get n m with | none => .keyError | some (_, c) => .ctype c)
  | .sha n => (m, match AList.get n m with | none => .keyError | some (d, _) => .hash (hash d))
  | .write n => (m, match AList.get n m with | none => .keyError | some (d, _) => .content d)
  | .contains n => (m, .bool (AList.has n m))
  | .iter => (m, .names (AList.keys m))

def specRun (m : Spec) : List Op → Spec × List Out
  | [] => (m, [])
  | op :: r =>
    let (m', o) := specStep m op
    let (m'', os) := specRun m' r
    (m'', o :: os)

end Basyx.Files
