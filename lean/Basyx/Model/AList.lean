/-
  Insertion-ordered association lists: the model of a CPython `dict` used by every state-machine
  model.  `set` on an existing key replaces in place (CPython keeps the position), on a new key
  appends; `erase` removes the first (and, under `Keys.Nodup`, the only) binding.
  Import-free on purpose (the driver interprets these files).
-/
namespace Basyx

namespace AList
variable {κ : Type} {ν : Type} [DecidableEq κ]

def get (k : κ) : List (κ × ν) → Option ν
  | [] => none
  | (k', v) :: r => if k' = k then some v else get k r

def has (k : κ) (l : List (κ × ν)) : Bool := (get k l).isSome

def set (k : κ) (v : ν) : List (κ × ν) → List (κ × ν)
  | [] => [(k, v)]
  | (k', v') :: r => if k' = k then (k, v) :: r else (k', v') :: set k v r

def erase (k : κ) : List (κ × ν) → List (κ × ν)
  | [] => []
  | (k', v') :: r => if k' = k then r else (k', v') :: erase k r

def keys (l : List (κ × ν)) : List κ := l.map Prod.fst

@[simp] theorem get_nil (k : κ) : get k ([] : List (κ × ν)) = none := rfl

@[simp] theorem get_set_same (k : κ) (v : ν) (l : List (κ × ν)) : get k (set k v l) = some v := by
  induction l with
  | nil => simp [set, get]
  | cons h t ih =>
    obtain ⟨k', v'⟩ := h
    by_cases hk : k' = k <;> simp [set, get, hk, ih]

theorem get_set_other {k k' : κ} (v : ν) (l : List (κ × ν)) (h : k' ≠ k) :
    get k' (set k v l) = get k' l := by
  induction l with
  | nil => simp [set, get, Ne.symm h]
  | cons hd t ih =>
    obtain ⟨k2, v2⟩ := hd
    by_cases hk : k2 = k
    · subst hk; simp [set, get, Ne.symm h]
    · by_cases hk' : k2 = k'
      · subst hk'; simp [set, get, hk]
      · simp [set, get, hk, hk', ih]

theorem get_erase_other {k k' : κ} (l : List (κ × ν)) (h : k' ≠ k) :
    get k' (erase k l) = get k' l := by
  induction l with
  | nil => simp [erase]
  | cons hd t ih =>
    obtain ⟨k2, v2⟩ := hd
    by_cases hk : k2 = k
    · subst hk; simp [erase, get, Ne.symm h]
    · by_cases hk' : k2 = k'
      · subst hk'; simp [erase, get, hk]
      · simp [erase, get, hk, hk', ih]

theorem get_none_of_not_mem_keys {k : κ} {l : List (κ × ν)} (h : k ∉ keys l) : get k l = none := by
  induction l with
  | nil => rfl
  | cons hd t ih =>
    obtain ⟨k2, v2⟩ := hd
    simp [keys] at h
    have h1 : k2 ≠ k := fun e => h.1 e.symm
    simp [get, h1]
    exact ih (by simpa [keys] using h.2)

theorem mem_keys_of_get {k : κ} {v : ν} {l : List (κ × ν)} (h : get k l = some v) : k ∈ keys l := by
  induction l with
  | nil => simp [get] at h
  | cons hd t ih =>
    obtain ⟨k2, v2⟩ := hd
    by_cases hk : k2 = k
    · simp [keys, hk]
    · simp [get, hk] at h
      simp [keys]; right; simpa [keys] using ih h

theorem get_isSome_iff_mem_keys {k : κ} {l : List (κ × ν)} : (get k l).isSome ↔ k ∈ keys l := by
  constructor
  · intro h
    cases hg : get k l with
    | none => simp [hg] at h
    | some v => exact mem_keys_of_get hg
  · intro h
    cases hg : get k l with
    | none =>
      exfalso
      induction l with
      | nil => simp [keys] at h
      | cons hd t ih =>
        obtain ⟨k2, v2⟩ := hd
        by_cases hk : k2 = k
        · simp [get, hk] at hg
        · simp [get, hk] at hg
          simp [keys] at h
          rcases h with h | h
          · exact hk h.symm
          · exact ih (by simpa [keys] using h) hg
    | some v => simp

theorem get_erase_same_of_nodup {k : κ} {l : List (κ × ν)} (h : (keys l).Nodup) :
    get k (erase k l) = none := by
  induction l with
  | nil => simp [erase]
  | cons hd t ih =>
    obtain ⟨k2, v2⟩ := hd
    simp [keys] at h
    by_cases hk : k2 = k
    · subst hk
      simp [erase]
      exact get_none_of_not_mem_keys (by simpa [keys] using h.1)
    · simp [erase, get, hk]
      exact ih (by simpa [keys] using h.2)

theorem keys_set_of_mem {k : κ} {v : ν} {l : List (κ × ν)} (h : k ∈ keys l) :
    keys (set k v l) = keys l := by
  induction l with
  | nil => simp [keys] at h
  | cons hd t ih =>
    obtain ⟨k2, v2⟩ := hd
    by_cases hk : k2 = k
    · simp [set, keys, hk]
    · simp [keys] at h
      rcases h with h | h
      · exact absurd h.symm hk
      · simp [set, hk, keys]
        simpa [keys] using ih (by simpa [keys] using h)

theorem keys_set_of_not_mem {k : κ} {v : ν} {l : List (κ × ν)} (h : k ∉ keys l) :
    keys (set k v l) = keys l ++ [k] := by
  induction l with
  | nil => simp [set, keys]
  | cons hd t ih =>
    obtain ⟨k2, v2⟩ := hd
    simp [keys] at h
    have hk : k2 ≠ k := fun e => h.1 e.symm
    simp [set, hk, keys]
    simpa [keys] using ih (by simpa [keys] using h.2)

theorem nodup_keys_set {k : κ} {v : ν} {l : List (κ × ν)} (h : (keys l).Nodup) :
    (keys (set k v l)).Nodup := by
  by_cases hm : k ∈ keys l
  · rw [keys_set_of_mem hm]; exact h
  · rw [keys_set_of_not_mem hm]
    rw [List.nodup_append]
    refine ⟨h, by simp, ?_⟩
    intro a ha b hb
    simp at hb; subst hb
    intro e; subst e; exact hm ha

theorem keys_erase_sublist (k : κ) (l : List (κ × ν)) : (keys (erase k l)).Sublist (keys l) := by
  induction l with
  | nil => simp [erase, keys]
  | cons hd t ih =>
    obtain ⟨k2, v2⟩ := hd
    by_cases hk : k2 = k
    · simp [erase, hk, keys]
    · simp [erase, hk, keys]
      simpa [keys] using ih

theorem nodup_keys_erase {k : κ} {l : List (κ × ν)} (h : (keys l).Nodup) :
    (keys (erase k l)).Nodup := (keys_erase_sublist k l).nodup h

theorem length_set_of_not_mem {k : κ} {v : ν} {l : List (κ × ν)} (h : k ∉ keys l) :
    (set k v l).length = l.length + 1 := by
  have := congrArg List.length (keys_set_of_not_mem (v := v) h)
  simpa [keys] using this

end AList
end Basyx
