/-
  Model of referable trees, keys, model references and the update()/commit() walks
  (properties C07 and C17).

  Transcribed from  sdk/basyx/aas/model/base.py  (KeyTypes, Key, Key.from_referable, Reference,
  ModelReference.__init__/resolve/from_referable, SpecificAssetId, Referable.update/find_source/commit/
  _direct_source_commit/_path_segment, UniqueIdShortNamespace.get_referable, Namespace._get_object),
  sdk/basyx/aas/model/__init__.py (KEY_TYPES_CLASSES), sdk/basyx/aas/model/provider.py (DictObjectStore.
  get_identifiable, ObjectProviderMultiplexer) and sdk/basyx/aas/backend/backends.py (get_backend).

  The tree the model was developed against is /repo HEAD + fixes/C07-negative-list-index.patch +
  fixes/C17-list-index-path-segment.patch (model state after a fix = fixed behaviour).

  A node is addressed by the list of child positions from the root (`Path`); Python object identity
  corresponds to (uid of the root object, path).  Children of all id_short namespace sets of an object
  are kept in ONE list, in the order `for namespace_set in namespace_element_sets: for x in namespace_set`
  (for an Operation: input, output, in-output variables).
-/
import Basyx.Gen.TreeCfg
namespace Basyx.Tree

abbrev Str := List Char
abbrev Path := List Nat

/-! ### classes, key types, KEY_TYPES_CLASSES -/

/-- the concrete Referable classes -/
inductive Kind where
  | aas | conceptDescription | submodel
  | collection | list | entity | operation | annotatedRel | relationship
  | property | mlp | range | blob | file | refElem | capability | basicEvent
deriving DecidableEq, Repr

/-- classes that occur in MROs and as `type_` of a ModelReference -/
inductive Cls where
  | referable | identifiable | uniqueIdShortNamespace | submodelElement | dataElement | eventElement
  | k (kind : Kind)
deriving DecidableEq, Repr

/-- `KeyTypes` (the public members) -/
inductive KeyType where
  | assetAdministrationShell | conceptDescription | submodel
  | annotatedRelationshipElement | basicEventElement | blob | capability | dataElement | entity | eventElement
  | file | multiLanguageProperty | operation | property | range | referenceElement | relationshipElement
  | submodelElement | submodelElementCollection | submodelElementList
  | globalReference | fragmentReference
deriving DecidableEq, Repr

namespace KeyType
/-- `KeyTypes.is_aas_identifiable` -/
def isAasIdentifiable (t : KeyType) : Bool :=
  t == assetAdministrationShell || t == conceptDescription || t == submodel
/-- `KeyTypes.is_generic_globally_identifiable` -/
def isGenericGloballyIdentifiable (t : KeyType) : Bool := t == globalReference
/-- `KeyTypes.is_generic_fragment_key` -/
def isGenericFragmentKey (t : KeyType) : Bool := t == fragmentReference
/-- `KeyTypes.is_aas_submodel_element` (the 17-tuple) -/
def isAasSubmodelElement (t : KeyType) : Bool :=
  t == annotatedRelationshipElement || t == basicEventElement || t == blob || t == capability || t == dataElement
  || t == entity || t == eventElement || t == file || t == multiLanguageProperty || t == operation || t == property
  || t == range || t == referenceElement || t == relationshipElement || t == submodelElement
  || t == submodelElementCollection || t == submodelElementList
/-- `KeyTypes.is_aas_referable_non_identifiable` -/
def isAasReferableNonIdentifiable (t : KeyType) : Bool := t.isAasSubmodelElement
/-- `KeyTypes.is_fragment_key_element` -/
def isFragmentKeyElement (t : KeyType) : Bool := t.isAasReferableNonIdentifiable || t.isGenericFragmentKey
/-- `KeyTypes.is_globally_identifiable` -/
def isGloballyIdentifiable (t : KeyType) : Bool := t.isAasIdentifiable || t.isGenericGloballyIdentifiable
end KeyType

/-- `inspect.getmro(cls)` restricted to the classes the code looks at (members of KEY_TYPES_CLASSES, Referable,
    Identifiable, UniqueIdShortNamespace), in MRO order -/
def mro : Kind → List Cls
  | .aas => [.k .aas, .identifiable, .referable, .uniqueIdShortNamespace]
  | .conceptDescription => [.k .conceptDescription, .identifiable, .referable]
  | .submodel => [.k .submodel, .identifiable, .referable, .uniqueIdShortNamespace]
  | .collection => [.k .collection, .submodelElement, .referable, .uniqueIdShortNamespace]
  | .list => [.k .list, .submodelElement, .referable, .uniqueIdShortNamespace]
  | .entity => [.k .entity, .submodelElement, .referable, .uniqueIdShortNamespace]
  | .operation => [.k .operation, .submodelElement, .referable, .uniqueIdShortNamespace]
  | .annotatedRel => [.k .annotatedRel, .k .relationship, .submodelElement, .referable, .uniqueIdShortNamespace]
  | .relationship => [.k .relationship, .submodelElement, .referable]
  | .property => [.k .property, .dataElement, .submodelElement, .referable]
  | .mlp => [.k .mlp, .dataElement, .submodelElement, .referable]
  | .range => [.k .range, .dataElement, .submodelElement, .referable]
  | .blob => [.k .blob, .dataElement, .submodelElement, .referable]
  | .file => [.k .file, .dataElement, .submodelElement, .referable]
  | .refElem => [.k .refElem, .dataElement, .submodelElement, .referable]
  | .capability => [.k .capability, .submodelElement, .referable]
  | .basicEvent => [.k .basicEvent, .eventElement, .submodelElement, .referable]

/-- `KEY_TYPES_CLASSES` (model/__init__.py), in dict order -/
def keyTypesClasses : List (Cls × KeyType) :=
  [(.k .aas, .assetAdministrationShell), (.k .conceptDescription, .conceptDescription), (.k .submodel, .submodel),
   (.k .entity, .entity), (.k .basicEvent, .basicEventElement), (.eventElement, .eventElement), (.k .blob, .blob),
   (.k .file, .file), (.k .operation, .operation), (.k .capability, .capability), (.k .property, .property),
   (.k .mlp, .multiLanguageProperty), (.k .range, .range), (.k .refElem, .referenceElement),
   (.dataElement, .dataElement), (.k .collection, .submodelElementCollection), (.k .list, .submodelElementList),
   (.k .annotatedRel, .annotatedRelationshipElement), (.k .relationship, .relationshipElement),
   (.submodelElement, .submodelElement)]

def lookupCls (c : Cls) : List (Cls × KeyType) → Option KeyType
  | [] => none
  | (c', t) :: r => if c' = c then some t else lookupCls c r

/-- `next(iter(KEY_TYPES_CLASSES[t] for t in inspect.getmro(type(referable)) if t in KEY_TYPES_CLASSES))`,
    `except StopIteration: KeyTypes.PROPERTY` -/
def keyTypeOf (k : Kind) : KeyType :=
  ((mro k).findSome? (fun c => lookupCls c keyTypesClasses)).getD .property

/-- `next(iter(t for t in inspect.getmro(type(referable)) if t in KEY_TYPES_CLASSES))`, `except StopIteration: Referable` -/
def refTypeOf (k : Kind) : Cls :=
  ((mro k).find? (fun c => (lookupCls c keyTypesClasses).isSome)).getD .referable

/-- `isinstance(obj, cls)` -/
def isInstance (k : Kind) (c : Cls) : Bool := (mro k).contains c
def isIdentifiable (k : Kind) : Bool := isInstance k .identifiable
def isNamespace (k : Kind) : Bool := isInstance k .uniqueIdShortNamespace

/-! ### errors -/

inductive Err where
  | keyError | valueError | typeError | unexpectedType | aascv (n : Nat) | assertion | attributeError
  | unknownBackend
  | noNode          -- the line addresses a node that is not in the tree (harness error, no Python counterpart)
deriving DecidableEq, Repr

/-! ### strings: `str(int)`, `int(str)`, `str.isnumeric`, `check_identifier` -/

/-- `str(i)` for a list position -/
def natStr (i : Nat) : Str := Nat.toDigits 10 i

/-- decimal digit value as `int()` sees it: ASCII digits and (as one non-ASCII representative) ARABIC-INDIC digits -/
def digitVal (c : Char) : Option Nat :=
  if c.isDigit then some (c.toNat - 48)
  else if 0x660 ≤ c.toNat ∧ c.toNat ≤ 0x669 then some (c.toNat - 0x660)
  else none

/-- the `str` predicate of the AASd-128 check on the characters the generators use — `isnumeric()`: decimal digits as
    above plus SUPERSCRIPT TWO; `isdecimal()`: decimal digits only. Which one the code calls is extracted from the source
    on every run (`Basyx.Gen.TreeCfg.aasd128Decimal`). -/
def isNumericChar (c : Char) : Bool := (digitVal c).isSome || (!Basyx.Gen.TreeCfg.aasd128Decimal && c = '²')
def isNumeric (s : Str) : Bool := !s.isEmpty && s.all isNumericChar

/-- whitespace stripped by `int()` (the ASCII part of `str.isspace`) -/
def isSpace (c : Char) : Bool := c = ' ' || (9 ≤ c.toNat && c.toNat ≤ 13) || (28 ≤ c.toNat && c.toNat ≤ 31)
def strip (s : Str) : Str := ((s.dropWhile isSpace).reverse.dropWhile isSpace).reverse

/-- digits of an `int()` literal: non-empty, single underscores only between digits. `prev` = previous char was a digit -/
def parseDigits : Str → Nat → Bool → Option Nat
  | [], acc, prev => if prev then some acc else none
  | c :: cs, acc, prev =>
    if c = '_' then (if prev then parseDigits cs acc false else none)
    else match digitVal c with
      | some d => parseDigits cs (10 * acc + d) true
      | none => none

/-- Python `int(s)` for a `str` argument, base 10: `none` = ValueError -/
def pyInt (s : Str) : Option Int :=
  match strip s with
  | [] => none
  | c :: r =>
    if c = '-' then (parseDigits r 0 false).map (fun n => - (n : Int))
    else if c = '+' then (parseDigits r 0 false).map (fun n => (n : Int))
    else (parseDigits (c :: r) 0 false).map (fun n => (n : Int))

/-- AASd-130 character repertoire (`_string_constraints.AASD130_RE`) -/
def aasd130Char (c : Char) : Bool :=
  let n := c.toNat
  n = 9 || n = 10 || n = 13 || (0x20 ≤ n && n ≤ 0xD7FF) || (0xE000 ≤ n && n ≤ 0xFFFD) || 0x10000 ≤ n

/-- `_string_constraints.check_identifier` passes -/
def validIdentifier (s : Str) : Bool := 1 ≤ s.length && s.length ≤ 2000 && s.all aasd130Char

/-! ### keys and model references -/

structure Key where
  type : KeyType
  value : Str
deriving DecidableEq, Repr

/-- `Key.__init__` : `check_identifier(value)` raises ValueError -/
def mkKey (t : KeyType) (v : Str) : Except Err Key :=
  if validIdentifier v then .ok ⟨t, v⟩ else .error .valueError

/-- a constructed ModelReference: key tuple and `type_` -/
structure MRef where
  keys : List Key
  type : Cls
deriving DecidableEq, Repr

/-- the loop `for pk, k in zip(key, key[1:])` of `ModelReference.__init__` (AASd-127, AASd-128) -/
def checkPairs : List Key → Option Nat
  | pk :: k :: r =>
    if k.type = .fragmentReference ∧ ¬(pk.type = .blob ∨ pk.type = .file) then some 127
    else if pk.type = .submodelElementList ∧ !isNumeric k.value then some 128
    else checkPairs (k :: r)
  | _ => none

/-- `ModelReference.__init__(key, type_)` (incl. `Reference.__init__`) -/
def mkModelReference (keys : List Key) (type : Cls) : Except Err MRef :=
  match keys with
  | [] => .error .valueError
  | k0 :: rest =>
    if !k0.type.isAasIdentifiable then .error (.aascv 123)
    else if rest.any (fun k => !k.type.isFragmentKeyElement) then .error (.aascv 125)
    else if (Basyx.Gen.TreeCfg.aasd126Strict || !((keys.getLast?.map (·.type.isGenericFragmentKey)).getD false))
         && keys.dropLast.any (fun k => k.type.isGenericFragmentKey) then .error (.aascv 126)
    else match checkPairs keys with
      | some n => .error (.aascv n)
      | none => .ok ⟨keys, type⟩

/-! ### trees -/

inductive Tree where
  | node (kind : Kind) (ident : Str) (idShort : Option Str) (source : Str) (children : List Tree)
deriving Repr

namespace Tree
def kind : Tree → Kind | .node k _ _ _ _ => k
/-- `Identifiable.id` (meaningful for identifiable kinds only) -/
def ident : Tree → Str | .node _ i _ _ _ => i
def idShort : Tree → Option Str | .node _ _ s _ _ => s
def source : Tree → Str | .node _ _ _ s _ => s
def children : Tree → List Tree | .node _ _ _ _ cs => cs
end Tree

/-- the node at a path -/
def sub : Tree → Path → Option Tree
  | t, [] => some t
  | t, i :: p => match t.children[i]? with
    | none => none
    | some c => sub c p

/-- `Namespace._get_object(Referable, "id_short", s)`: first hit over all namespace sets -/
def findChild (cs : List Tree) (s : Str) : Option Nat := cs.findIdx? (fun c => c.idShort == some s)

/-- `UniqueIdShortNamespace.get_referable(self, id_short_path)`; the result is the path relative to `t` -/
def getReferable : Tree → List Str → Except Err Path
  | _, [] => .ok []
  | t, s :: rest =>
    if !isNamespace t.kind then .error .typeError
    else if t.kind = .list then
      match pyInt s with
      | none => .error .valueError                       -- int() raised ValueError
      | some i =>
        if i < 0 then .error .keyError                    -- IndexError raised by the fix → KeyError
        else match t.children[i.toNat]? with
          | none => .error .keyError                      -- IndexError → KeyError
          | some c => (getReferable c rest).map (i.toNat :: ·)
    else match findChild t.children s with
      | none => .error .keyError
      | some k => match t.children[k]? with
        | none => .error .keyError
        | some c => (getReferable c rest).map (k :: ·)

/-- the two argument forms of `get_referable(id_short)`: a bare `NameType` string, or an iterable of segments
    (`if isinstance(id_short, NameType): id_short = [id_short]`) -/
inductive PathArg where
  | single (s : Str)
  | many (ss : List Str)

def getReferableArg (t : Tree) : PathArg → Except Err Path
  | .single s => getReferable t [s]
  | .many ss => getReferable t ss

/-- following a path from `t` one segment at a time, each step a call with the bare-string form
    (`obj = root; for seg in path: obj = obj.get_referable(seg)`) -/
def followStepwise : Tree → List Str → Except Err Path
  | _, [] => .ok []
  | t, s :: rest =>
    match getReferableArg t (.single s) with
    | .error e => .error e
    | .ok p => match sub t p with
      | none => .error .noNode
      | some c => (followStepwise c rest).map (p ++ ·)

/-! ### providers -/

/-- a DictObjectStore: (uid of the object, the identifiable); looked up by id -/
abbrev Store := List (Nat × Tree)

def storeGet (s : Store) (i : Str) : Option (Nat × Tree) := s.find? (fun e => e.2.ident == i)

/-- `ObjectProviderMultiplexer.get_identifiable`: the first provider that knows the identifier.
    A single store is the one-element multiplexer. -/
def muxGet : List Store → Str → Option (Nat × Tree)
  | [], _ => none
  | s :: r, i => match storeGet s i with
    | some x => some x
    | none => muxGet r i

/-- `ModelReference.resolve(provider)` → (uid of the root object, path of the resolved element) -/
def resolve (prov : List Store) (r : MRef) : Except Err (Nat × Path) :=
  match r.keys with
  | [] => .error .assertion
  | k0 :: rest =>
    if !k0.type.isAasIdentifiable then .error .assertion          -- get_identifier() is None
    else match muxGet prov k0.value with
      | none => .error .keyError
      | some (u, root) =>
        match getReferable root (rest.map (·.value)) with
        | .error e => .error e
        | .ok p => match sub root p with
          | none => .error .noNode
          | some n => if isInstance n.kind r.type then .ok (u, p) else .error .unexpectedType

/-! ### from_referable -/

/-- one link of the parent chain: the node, and (parent, position in the parent) if it has a parent -/
structure Link where
  parent : Option (Tree × Nat)
  node : Tree
  path : Path

/-- the parent chain of the node at `p`, deepest node first (what `.parent` navigation sees) -/
def chainUp : Option (Tree × Nat) → Tree → Path → Path → List Link → Option (List Link)
  | par, t, here, [], acc => some (⟨par, t, here⟩ :: acc)
  | par, t, here, i :: p, acc => match t.children[i]? with
    | none => none
    | some c => chainUp (some (t, i)) c (here ++ [i]) p (⟨par, t, here⟩ :: acc)

/-- `Key.from_referable(referable)` -/
def keyOf (l : Link) : Except Err Key :=
  if isIdentifiable l.node.kind then mkKey (keyTypeOf l.node.kind) l.node.ident
  else
    let viaIdShort : Except Err Key := match l.node.idShort with
      | none => .error .valueError
      | some s => mkKey (keyTypeOf l.node.kind) s
    match l.parent with
    | some (p, i) => if p.kind = .list then mkKey (keyTypeOf l.node.kind) (natStr i) else viaIdShort
    | none => viaIdShort

/-- the `while True` loop of `ModelReference.from_referable`; `acc` = keys collected so far (already reversed) -/
def walkUp : List Link → List Key → Except Err (List Key)
  | [], _ => .error .valueError          -- "not embedded within an Identifiable object"
  | l :: up, acc =>
    match keyOf l with
    | .error e => .error e
    | .ok k => if isIdentifiable l.node.kind then .ok (k :: acc) else walkUp up (k :: acc)

/-- `ModelReference.from_referable(node at p)` -/
def fromReferable (root : Tree) (p : Path) : Except Err MRef :=
  match chainUp none root [] p [] with
  | none | some [] => .error .noNode
  | some (l :: up) =>
    match walkUp (l :: up) [] with
    | .error e => .error e
    | .ok ks => mkModelReference ks (refTypeOf l.node.kind)

/-! ### update() / commit() -/

/-- one backend invocation the walk wants to make -/
structure Call where
  src : Str                     -- `store_object.source`
  store : Path                  -- store object
  obj : Path                    -- updated / committed object
  rel : List (Option Str)       -- relative_path
deriving DecidableEq, Repr

/-- `Referable._path_segment()` (fixes/C17-list-index-path-segment.patch): position under a list, id_short otherwise -/
def segOf (l : Link) : Option Str :=
  match l.parent with
  | some (p, i) => if p.kind = .list then some (natStr i) else l.node.idShort
  | none => l.node.idShort

mutual
/-- `_direct_source_commit()` and `update(recursive=True, _indirect_source=False)` have the same shape:
    own source first, then every child of every id_short namespace set, recursively. `p` = path of `t`. -/
def directWalk : Tree → Path → List Call
  | .node k _ _ src cs, p =>
    (if src ≠ [] then [⟨src, p, p, []⟩] else []) ++ (if isNamespace k then directWalkL cs p 0 else [])
def directWalkL : List Tree → Path → Nat → List Call
  | [], _, _ => []
  | c :: cs, p, i => directWalk c (p ++ [i]) ++ directWalkL cs p (i + 1)
end

/-- children part of `update(recursive=True)` / of `_direct_source_commit` -/
def childrenWalk (t : Tree) (p : Path) : List Call :=
  if isNamespace t.kind then directWalkL t.children p 0 else []

/-- the `while current_ancestor:` loop of `commit()`; `rel` = relative_path so far -/
def commitUp (obj : Path) : List Link → List (Option Str) → List Call
  | [], _ => []
  | a :: up, rel =>
    (if a.node.source ≠ [] then [⟨a.node.source, a.path, obj, rel⟩] else []) ++ commitUp obj up (segOf a :: rel)

/-- calls `commit()` of the node at `p` wants to make, in order -/
def commitIntents (root : Tree) (p : Path) : Option (List Call) :=
  match chainUp none root [] p [] with
  | none | some [] => none
  | some (self :: up) => some (commitUp p up [segOf self] ++ directWalk self.node p)

/-- `find_source()`; `below` = segments of the nodes visited so far (deepest last) -/
def findSourceUp : List Link → List (Option Str) → Option (Link × List (Option Str))
  | [], _ => none
  | l :: up, below =>
    if l.node.source ≠ [] then some (l, segOf l :: below) else findSourceUp up (segOf l :: below)

/-- calls `update(recursive)` of the node at `p` wants to make, in order -/
def updateIntents (root : Tree) (p : Path) (recursive : Bool) : Option (List Call) :=
  match chainUp none root [] p [] with
  | none | some [] => none
  | some (self :: up) =>
    let own : List Call :=
      if self.node.source ≠ [] then [⟨self.node.source, p, p, []⟩]
      else match findSourceUp (self :: up) [] with
        | some (st, rel) => [⟨st.node.source, st.path, p, rel⟩]
        | none => []
    some (own ++ (if recursive then childrenWalk self.node p else []))

/-! ### backends.get_backend -/

def isAlpha (c : Char) : Bool := ('a' ≤ c && c ≤ 'z') || ('A' ≤ c && c ≤ 'Z')
def schemeChar (c : Char) : Bool := isAlpha c || c = '+' || c = '-' || c = '.'

/-- `RE_URI_SCHEME = ^([a-zA-Z][a-zA-Z+\-\.]*):` -/
def scheme? : Str → Option Str
  | [] => none
  | c :: r =>
    if isAlpha c then
      match r.dropWhile schemeChar with
      | d :: _ => if d = ':' then some (c :: r.takeWhile schemeChar) else none
      | [] => none
    else none

/-- `get_backend(url)` against the registry (= list of registered schemes); returns the scheme whose backend is used -/
def getBackend (reg : List Str) (url : Str) : Except Err Str :=
  match scheme? url with
  | none => .error .valueError
  | some sc => if reg.contains sc then .ok sc else .error .unknownBackend

/-- perform the intended calls in order until `get_backend` raises: (calls that reached a backend, the error) -/
def runCalls (reg : List Str) : List Call → List (Str × Call) × Option Err
  | [] => ([], none)
  | c :: r =>
    match getBackend reg c.src with
    | .error e => ([], some e)
    | .ok sc => let (done, e) := runCalls reg r; ((sc, c) :: done, e)

/-! ### value objects: equality, hash, attribute assignment -/

inductive RefCls where | external | model
deriving DecidableEq, Repr

/-- a Reference value with `referred_semantic_id` (recursive) -/
inductive RefV where
  | mk (cls : RefCls) (keys : List Key) (type : Cls) (rsi : Option RefV)
deriving Repr

/-- `Key.__eq__` -/
def keyEq (a b : Key) : Bool := a.value == b.value && a.type == b.type
/-- what `Key.__hash__` hashes -/
def keyHashArg (a : Key) : Str × KeyType := (a.value, a.type)

/-- `all(k1 == k2 for k1, k2 in zip(self.key, other.key))` -/
def keysEqZip : List Key → List Key → Bool
  | a :: as, b :: bs => keyEq a b && keysEqZip as bs
  | _, _ => true

mutual
/-- `Reference.__eq__` between two distinct objects (both orders return NotImplemented when classes differ ⇒ False) -/
def refEq : RefV → RefV → Bool
  | .mk c1 k1 _ r1, .mk c2 k2 _ r2 =>
    if c1 ≠ c2 then false
    else if k1.length ≠ k2.length then false
    else keysEqZip k1 k2 && optRefEq r1 r2
def optRefEq : Option RefV → Option RefV → Bool
  | none, none => true
  | some a, some b => refEq a b
  | _, _ => false
end

/-- what `Reference.__hash__` hashes: `(self.__class__, self.key)`; the tuple hashes each key through `Key.__hash__` -/
def refHashArg : RefV → RefCls × List (Str × KeyType)
  | .mk c ks _ _ => (c, ks.map keyHashArg)

structure Sai where
  name : Str
  value : Str
  externalSubjectId : Option RefV
  semanticId : Option RefV
  supplemental : List RefV

def refsEq : List RefV → List RefV → Bool
  | [], [] => true
  | a :: as, b :: bs => refEq a b && refsEq as bs
  | _, _ => false

/-- `SpecificAssetId.__eq__` -/
def saiEq (a b : Sai) : Bool :=
  a.name == b.name && a.value == b.value && optRefEq a.externalSubjectId b.externalSubjectId
  && optRefEq a.semanticId b.semanticId && refsEq a.supplemental b.supplemental

/-- what `SpecificAssetId.__hash__` hashes: `(name, value, external_subject_id)` -/
def saiHashArg (a : Sai) : Str × Str × Option (RefCls × List (Str × KeyType)) :=
  (a.name, a.value, a.externalSubjectId.map refHashArg)

inductive SetOutcome where | assigned | attributeError
deriving DecidableEq, Repr

/-- `Key.__setattr__` -/
def keySetattr (_name : Str) : SetOutcome := .attributeError
/-- `Reference.__setattr__` -/
def refSetattr (_name : Str) : SetOutcome := .attributeError
def nmSemanticId : Str := "_semantic_id".toList
def nmSupplementalSemanticId : Str := "_supplemental_semantic_id".toList
def nmParent : Str := "parent".toList

/-- `SpecificAssetId.__setattr__(key, value)`: what it lets through -/
def saiSetattr (name : Str) (valueIsNone : Bool) : SetOutcome :=
  if name = nmSemanticId || name = nmSupplementalSemanticId || (name = nmParent && valueIsNone)
  then .assigned else .attributeError

/-- `sai.supplemental_semantic_id.append(r)`: the ConstrainedList is handed out and is mutable; only the AASd-118 hook
    guards it -/
def saiAppendSupplemental (s : Sai) (r : RefV) : Except Err Sai :=
  match s.semanticId with
  | none => .error (.aascv 118)
  | some _ => .ok { s with supplemental := s.supplemental ++ [r] }

end Basyx.Tree
