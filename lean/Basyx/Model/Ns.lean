/-
  Model of namespace containment in `basyx.aas.model.base` / `submodel` (property C01).

  Transcribed branch by branch (raise points and rollback paths included) from
    NamespaceSet            add / _validate_namespace_constraints / hooks / remove / remove_by_id / discard / pop / clear /
                            __contains__ / __len__ / __iter__ / get / __init__ (rollback)
    OrderedNamespaceSet     add / remove / pop / clear / insert / __getitem__ / __setitem__ (int, slice) / __delitem__ /
                            append, extend (MutableSequence mix-ins)
    Referable._set_id_short, Qualifier.type, Extension.name, HasSemantics.semantic_id   (discard + re-add re-keying)
    Namespace._add_object / _remove_object / _get_object
    SubmodelElementList     _generate_id_short / _unset_id_short / _check_constraints hooks, value setter, __init__
    the constructors of the nine namespace kinds (order in which their NamespaceSets are registered and filled).

  Representation.
    * elements are handles `e : Nat` into `St.elems`; an element carries its ONE identifying attribute (`key`: id_short for
      Referables, type for Qualifiers, name for Extensions), its `parent` link (a namespace id), and the three tags the
      SubmodelElementList hook looks at (`cls` = Python class, `sem` = semantic_id, `vt` = value_type).
    * every NamespaceSet of every namespace lives in one global list `St.sets`; `NSet.ns` is the owning namespace,
      so `parent.namespace_element_sets` is "the sets with `ns = n`, in list order" (registration order).
      `backend` is the dict (insertion ordered association list), `order` the `_order` list of an OrderedNamespaceSet,
      `hooks` the SubmodelElementList configuration when the three item hooks are installed.
    * all NamespaceSets of the SDK's classes have one, case-sensitive attribute; `hasattr(element, attr)` is `kind = attr`.
    * the uuid-based generated id_short is `Key.gen ctr` with a counter (assumed fresh; named in the trusted base).
    * `OrderedNamespaceSet.__setitem__(slice)` is modelled AFTER fixes/C01-setitem-slice.patch (the iterable is materialised,
      extended slices need equal lengths).
-/
import Basyx.Model.AList
namespace Basyx.Ns

inductive Kind where
  | ref | qual | ext
deriving DecidableEq, Repr

inductive Key where
  | user (s : String)
  | gen (n : Nat)
deriving DecidableEq, Repr

structure Elem where
  kind : Kind
  key : Option Key
  parent : Option Nat
  sem : Option Nat
  cls : Nat
  vt : Nat
deriving DecidableEq, Repr

/-- `type_value_list_element`, `semantic_id_list_element`, `value_type_list_element` of a SubmodelElementList
    (class tags: 0 = Property, 1 = Range, others ≥ 2). -/
structure ListCfg where
  cls : Nat
  sem : Option Nat
  vt : Option Nat
deriving DecidableEq, Repr

structure NSet where
  ns : Nat
  attr : Kind
  backend : List (Key × Nat)
  order : Option (List Nat)
  hooks : Option ListCfg
deriving DecidableEq, Repr

structure St where
  elems : List Elem
  sets : List NSet
  nsCount : Nat
  ctr : Nat
deriving DecidableEq, Repr

def init : St := ⟨[], [], 0, 0⟩

inductive Exc where
  | keyError | valueError | indexError
  | aascv (n : Nat)
deriving DecidableEq, Repr

inductive Out where
  | ok
  | elem (e : Nat)        -- `pop` returns the element
  | raise (x : Exc)
  | bad                   -- outside the typed API (wrong element kind for the set, unknown handle): state unchanged
deriving DecidableEq, Repr

/-! ### state primitives -/

def updElem (s : St) (e : Nat) (f : Elem → Elem) : St := { s with elems := s.elems.modify e f }
def updSet (s : St) (g : Nat) (f : NSet → NSet) : St := { s with sets := s.sets.modify g f }

/-- indices (into `St.sets`) of `parent.namespace_element_sets` for namespace `n`, in registration order -/
def setsOf (s : St) (n : Nat) : List Nat :=
  (List.range s.sets.length).filter (fun g => match s.sets[g]? with | some S => S.ns = n | none => false)

/-- `ns.namespace_element_sets[j]` -/
def resolve (s : St) (n j : Nat) : Option Nat := (setsOf s n)[j]?

/-! ### views of one set (`__iter__`, `__len__`, `__contains__`, `get`, `__getitem__`) -/

def vals (S : NSet) : List Nat := S.backend.map Prod.snd

/-- `iter(set)`: the `_order` list of an ordered set, else the dict's values -/
def iterOf (S : NSet) : List Nat := match S.order with | some o => o | none => vals S

/-- `len(set)` = size of the backend dict (also for ordered sets: `__len__` is not overridden) -/
def lenOf (S : NSet) : Nat := S.backend.length

/-- `set.get(attr, k)` / `get_object_by_attribute` -/
def lookup (S : NSet) (k : Key) : Option Nat := AList.get k S.backend

/-- `x in set`: `backend.get(getattr(x, attr)) is x` (a `None` key finds nothing; a foreign kind has no such attribute) -/
def containsE (S : NSet) (e : Nat) (el : Elem) : Bool :=
  decide (el.kind = S.attr) && (match el.key with | some k => decide (lookup S k = some e) | none => false)

/-- Python list index normalisation for `l[i]`, `l.pop(i)`: negative indices count from the end -/
def normIdx (i : Int) (len : Nat) : Option Nat :=
  if 0 ≤ i then (if i.toNat < len then some i.toNat else none)
  else (if (-i).toNat ≤ len then some (len - (-i).toNat) else none)

/-- `list.insert(i, x)` position: negative counts from the end, clamped to `[0, len]` -/
def clampIns (i : Int) (len : Nat) : Nat :=
  if 0 ≤ i then min i.toNat len else len - min (-i).toNat len

/-- `set[i]` of an ordered set -/
def posOf (S : NSet) (i : Int) : Option Nat :=
  match S.order with
  | some o => (normIdx i o.length).bind (fun j => o[j]?)
  | none => none

/-! ### Python slices -/

structure Slice where
  start : Option Int
  stop : Option Int
  step : Option Int
deriving DecidableEq, Repr

/-- `slice.indices(len)` bound for step > 0 : clamp into `[0, len]` -/
def clampPos (i : Int) (len : Nat) : Nat :=
  if 0 ≤ i then min i.toNat len else len - min (-i).toNat len

/-- `slice.indices(len)` for step > 0: `(start, stop)` as naturals in `[0, len]` -/
def boundsPos (sl : Slice) (len : Nat) : Nat × Nat :=
  ((match sl.start with | some a => clampPos a len | none => 0),
   (match sl.stop with | some b => clampPos b len | none => len))

/-- for step < 0 bounds live in `[-1, len-1]`; encoded +1 as naturals in `[0, len]` (so `0` means `-1`) -/
def clampNeg (i : Int) (len : Nat) : Nat :=
  if 0 ≤ i then min (i.toNat + 1) len else len - min ((-i).toNat - 1) len

def boundsNeg (sl : Slice) (len : Nat) : Nat × Nat :=
  ((match sl.start with | some a => clampNeg a len | none => len),
   (match sl.stop with | some b => clampNeg b len | none => 0))

/-- the positions selected by a slice, in selection order (`range(*slice.indices(len))`); `none` for step 0.
    Stated declaratively (filter of `range len`), so that the positions are in range and duplicate free by construction. -/
def sliceIdxs (sl : Slice) (len : Nat) : Option (List Nat) :=
  match sl.step.getD 1 with
  | .ofNat 0 => none
  | .ofNat (st + 1) =>
    let (a, b) := boundsPos sl len
    some ((List.range len).filter (fun i => decide (a ≤ i) && decide (i < b) && decide ((i - a) % (st + 1) = 0)))
  | .negSucc st =>
    -- start' = a - 1, stop' = b - 1 (may be -1); selected: stop' < i ≤ start', (start' - i) % (st+1) = 0; descending
    let (a, b) := boundsNeg sl len
    some ((List.range len).filter (fun i => decide (b ≤ i) && decide (i + 1 ≤ a) && decide ((a - 1 - i) % (st + 1) = 0))).reverse

def isStep1 (sl : Slice) : Bool := sl.step.getD 1 = 1

/-- `l[slice]` -/
def sliceGet (l : List Nat) (sl : Slice) : Option (List Nat) :=
  if isStep1 sl then
    let (a, b) := boundsPos sl l.length
    some ((l.take b).drop a)
  else (sliceIdxs sl l.length).map (fun ps => ps.filterMap (fun i => l[i]?))

/-- remove the given positions -/
def delPositions (l : List Nat) (ps : List Nat) : List Nat :=
  (l.zipIdx.filter (fun p => !ps.contains p.2)).map Prod.fst

/-- `del l[slice]` -/
def sliceDel (l : List Nat) (sl : Slice) : Option (List Nat) :=
  if isStep1 sl then
    let (a, b) := boundsPos sl l.length
    some (l.take a ++ l.drop (max a b))
  else (sliceIdxs sl l.length).map (delPositions l)

/-- pointwise replacement at the given positions -/
def assignPositions (l : List Nat) (ps new : List Nat) : List Nat :=
  l.zipIdx.map (fun p => match (ps.zip new).lookup p.2 with | some y => y | none => p.1)

/-- `l[slice] = new` (for an extended slice the caller has checked the lengths) -/
def sliceAssign (l : List Nat) (sl : Slice) (new : List Nat) : Option (List Nat) :=
  if isStep1 sl then
    let (a, b) := boundsPos sl l.length
    some (l.take a ++ new ++ l.drop (max a b))
  else (sliceIdxs sl l.length).map (fun ps => assignPositions l ps new)

/-! ### string constraints of the identifying attributes (decision only; the constraints themselves are C02's) -/

def aasd130 (c : Char) : Bool :=
  c.val = 0x09 || c.val = 0x0A || c.val = 0x0D || (0x20 ≤ c.val && c.val ≤ 0xD7FF) || (0xE000 ≤ c.val && c.val ≤ 0xFFFD)
    || (0x10000 ≤ c.val && c.val ≤ 0x10FFFF)

def isAsciiLetter (c : Char) : Bool := ('a' ≤ c && c ≤ 'z') || ('A' ≤ c && c ≤ 'Z')
def isIdChar (c : Char) : Bool := isAsciiLetter c || ('0' ≤ c && c ≤ '9') || c = '_'

/-- `check_name_type` / `check_qualifier_type`: length 1..128 and AASd-130 → ValueError -/
def checkName (k : String) : Option Exc :=
  let cs := k.toList
  if cs.length < 1 ∨ cs.length > 128 ∨ !cs.all aasd130 then some .valueError else none

/-- `Referable.validate_id_short` -/
def checkIdShort (k : String) : Option Exc :=
  match checkName k with
  | some x => some x
  | none =>
    let cs := k.toList
    if !cs.all isIdChar then some (.aascv 2)
    else match cs with
      | c :: _ => if isAsciiLetter c then none else some (.aascv 2)
      | [] => some (.aascv 2)

/-! ### `NamespaceSet.add` -/

def cidOf : Kind → Nat
  | .ref => 22 | .qual => 21 | .ext => 77

/-- `_check_attr_is_not_none` -/
def noneExc : Kind → Exc
  | .ref => .aascv 117 | _ => .valueError

/-- `_validate_namespace_constraints`: walk all sets of the namespace; a set whose attribute the element has
    must not hold the element's key; a `None` key is rejected at the first such set. -/
def validateAux (el : Elem) (n : Nat) : List NSet → Option Exc
  | [] => none
  | S :: r =>
    if S.ns = n ∧ S.attr = el.kind then
      match el.key with
      | none => some (noneExc el.kind)
      | some k => if AList.has k S.backend then some (.aascv (cidOf el.kind)) else validateAux el n r
    else validateAux el n r

/-- `SubmodelElementList._check_constraints` (AASd-108, 107, 109, 114) on the tags; `existing` = semantic ids of `iter(self)` -/
def hookCheck (cfg : ListCfg) (el : Elem) (existing : List (Option Nat)) : Option Exc :=
  if el.cls ≠ cfg.cls then some (.aascv 108)
  else if cfg.sem.isSome ∧ el.sem.isSome ∧ el.sem ≠ cfg.sem then some (.aascv 107)
  else if cfg.cls ≤ 1 ∧ some el.vt ≠ cfg.vt then some (.aascv 109)
  else if el.sem.isSome ∧ cfg.sem.isNone ∧ existing.any (fun x => x.isSome && decide (x ≠ el.sem)) then some (.aascv 114)
  else none

def semsOf (s : St) (l : List Nat) : List (Option Nat) :=
  l.map (fun e => match s.elems[e]? with | some el => el.sem | none => none)

/-- the successful end of `add`: `element.parent = self.parent; backend[key] = element` -/
def commit (s : St) (g e : Nat) (n : Nat) (k : Key) : St :=
  updSet (updElem s e (fun x => { x with parent := some n })) g (fun S => { S with backend := AList.set k e S.backend })

/-- `NamespaceSet.add` (without the `_order` bookkeeping of the ordered subclass) -/
def baseAdd (s : St) (g e : Nat) : St × Out :=
  match s.sets[g]?, s.elems[e]? with
  | some S, some el =>
    if el.kind ≠ S.attr then (s, .bad)
    else if el.parent.isSome ∧ el.parent ≠ some S.ns then (s, .raise .valueError)
    else match S.hooks with
      | none =>
        match validateAux el S.ns s.sets with
        | some x => (s, .raise x)
        | none =>
          match el.key with
          | none => (s, .bad)          -- unreachable: `validateAux` rejects a `None` key at set `g` itself
          | some k => (commit s g e S.ns k, .ok)
      | some cfg =>
        -- item_id_set_hook = _generate_id_short: elements with an id_short are refused; `new.id_short = …` on an element
        -- whose parent is (already) the list is refused by `_set_id_short`
        if el.key.isSome ∨ el.parent.isSome then (s, .raise (.aascv 120))
        else
          let k := Key.gen s.ctr
          let s1 : St := { updElem s e (fun x => { x with key := some k }) with ctr := s.ctr + 1 }
          match validateAux { el with key := some k } S.ns s1.sets with
          | some x => (s1, .raise x)   -- unreachable while generated keys are fresh
          | none =>
            -- item_add_hook = _check_constraints (runs with the id_short temporarily unset); on failure
            -- `_execute_item_del_hook`: parent := None, id_short := None
            match hookCheck cfg el (semsOf s1 (iterOf S)) with
            | some x => (updElem s1 e (fun y => { y with key := none, parent := none }), .raise x)
            | none => (commit s1 g e S.ns k, .ok)
  | _, _ => (s, .bad)

/-- `_execute_item_del_hook`: `parent = None`, then (SubmodelElementList) `_unset_id_short` -/
def delHook (s : St) (hooked : Bool) (e : Nat) : St :=
  updElem s e (fun x => { x with parent := none, key := if hooked then none else x.key })

/-- `NamespaceSet.remove(item)` -/
def baseRemove (s : St) (g e : Nat) : St × Out :=
  match s.sets[g]?, s.elems[e]? with
  | some S, some el =>
    if el.kind ≠ S.attr then (s, .bad)
    else match el.key with
      | none => (s, .raise .keyError)                       -- `backend_dict[None]`
      | some k =>
        match AList.get k S.backend with
        | none => (s, .raise .keyError)
        | some e' =>
          if e' ≠ e then (s, .raise .keyError)              -- another object under that key: `item_found` stays False
          else (delHook (updSet s g (fun S => { S with backend := AList.erase k S.backend })) S.hooks.isSome e, .ok)
  | _, _ => (s, .bad)

/-! ### the public (virtual) set operations -/

def setOrder (s : St) (g : Nat) (f : List Nat → List Nat) : St :=
  updSet s g (fun S => { S with order := S.order.map f })

def isOrdered (s : St) (g : Nat) : Bool := match s.sets[g]? with | some S => S.order.isSome | none => false

def orderOf (s : St) (g : Nat) : List Nat := match s.sets[g]? with | some S => S.order.getD [] | none => []

/-- `add` (OrderedNamespaceSet: `super().add(e); self._order.append(e)`) -/
def setAdd (s : St) (g e : Nat) : St × Out :=
  match baseAdd s g e with
  | (s1, .ok) => (setOrder s1 g (fun o => o ++ [e]), .ok)
  | r => r

/-- `list.remove(x)`: ValueError when absent -/
def orderRemove (s : St) (g e : Nat) : St × Out :=
  if isOrdered s g then
    (if e ∈ orderOf s g then (setOrder s g (fun o => o.erase e), .ok) else (s, .raise .valueError))
  else (s, .ok)

/-- `remove(item)` (OrderedNamespaceSet: `super().remove(item); self._order.remove(item)`) -/
def setRemove (s : St) (g e : Nat) : St × Out :=
  match baseRemove s g e with
  | (s1, .ok) => orderRemove s1 g e
  | r => r

/-- `remove((attr, key))` of an ordered set / `remove_by_id(attr, key)`: look the object up (KeyError), then `remove` -/
def setRemoveKey (s : St) (g : Nat) (k : Key) : St × Out :=
  match s.sets[g]? with
  | some S =>
    match lookup S k with
    | none => (s, .raise .keyError)
    | some e => setRemove s g e
  | none => (s, .bad)

def containsAt (s : St) (g e : Nat) : Bool :=
  match s.sets[g]?, s.elems[e]? with
  | some S, some el => containsE S e el
  | _, _ => false

/-- `discard(x)`: `if x not in self: return; self.remove(x)` -/
def setDiscard (s : St) (g e : Nat) : St × Out :=
  match s.sets[g]?, s.elems[e]? with
  | some _, some _ => if containsAt s g e then setRemove s g e else (s, .ok)
  | _, _ => (s, .bad)

/-- `pop()`: `backend.popitem()` (KeyError when empty; last inserted item), del hook, `value.parent = None`;
    ordered: `self._order.remove(value)` -/
def setPop (s : St) (g : Nat) : St × Out :=
  match s.sets[g]? with
  | some S =>
    match S.backend.getLast? with
    | none => (s, .raise .keyError)
    | some (_, e) =>
      let s1 := delHook (updSet s g (fun S => { S with backend := S.backend.dropLast })) S.hooks.isSome e
      match orderRemove s1 g e with
      | (s2, .ok) => (s2, .elem e)
      | r => r
  | none => (s, .bad)

/-- `pop(i)` of an ordered set: `value = self._order.pop(i)` (IndexError), `super().remove(value)` -/
def setPopAt (s : St) (g : Nat) (i : Int) : St × Out :=
  match s.sets[g]? with
  | some S =>
    match S.order with
    | none => (s, .bad)
    | some o =>
      match normIdx i o.length with
      | none => (s, .raise .indexError)
      | some j =>
        match o[j]? with
        | none => (s, .raise .indexError)
        | some e =>
          match baseRemove (setOrder s g (fun o => o.eraseIdx j)) g e with
          | (s2, .ok) => (s2, .elem e)
          | r => r
  | none => (s, .bad)

/-- `clear()`: del hook for every value, `backend.clear()`; ordered: `_order.clear()` -/
def setClear (s : St) (g : Nat) : St × Out :=
  match s.sets[g]? with
  | some S =>
    let s1 := (vals S).foldl (fun acc e => delHook acc S.hooks.isSome e) s
    (updSet s1 g (fun S => { S with backend := [], order := S.order.map (fun _ => []) }), .ok)
  | none => (s, .bad)

/-- `insert(index, object)`: `super().add(object); self._order.insert(index, object)` -/
def setInsert (s : St) (g : Nat) (i : Int) (e : Nat) : St × Out :=
  if isOrdered s g then
    match baseAdd s g e with
    | (s1, .ok) => (setOrder s1 g (fun o => o.insertIdx (clampIns i o.length) e), .ok)
    | r => r
  else (s, .bad)

/-- `append(x)` (MutableSequence): `self.insert(len(self), x)` -/
def setAppend (s : St) (g e : Nat) : St × Out :=
  match s.sets[g]? with
  | some S => setInsert s g (Int.ofNat (lenOf S)) e
  | none => (s, .bad)

/-- `set[i] = o` (int): `deleted = [self._order[i]]` (IndexError); `super().add(o)`; `self._order[i] = o`;
    `super().remove(deleted)` -/
def setSetItem (s : St) (g : Nat) (i : Int) (e : Nat) : St × Out :=
  match s.sets[g]? with
  | some S =>
    match S.order with
    | none => (s, .bad)
    | some o =>
      match normIdx i o.length with
      | none => (s, .raise .indexError)
      | some j =>
        match o[j]? with
        | none => (s, .raise .indexError)
        | some old =>
          match baseAdd s g e with
          | (s1, .ok) => baseRemove (setOrder s1 g (fun o => o.set j e)) g old
          | r => r
  | none => (s, .bad)

/-- `for o in items: super().remove(o)`; stops at the first exception -/
def removeAll (s : St) (g : Nat) : List Nat → St × Out
  | [] => (s, .ok)
  | e :: r =>
    match baseRemove s g e with
    | (s1, .ok) => removeAll s1 g r
    | x => x

/-- `del set[slice]`: `for o in self._order[i]: super().remove(o)`; `del self._order[i]` -/
def setDelSlice (s : St) (g : Nat) (sl : Slice) : St × Out :=
  match s.sets[g]? with
  | some S =>
    match S.order with
    | none => (s, .bad)
    | some o =>
      match sliceGet o sl, sliceDel o sl with
      | some deleted, some o' =>
        (match removeAll s g deleted with
         | (s1, .ok) => (setOrder s1 g (fun _ => o'), .ok)
         | r => r)
      | _, _ => (s, .raise .valueError)       -- slice step cannot be zero
  | none => (s, .bad)

/-- `del set[i]` (int; after fix 3c1b869): `super().remove(self._order[i])` (IndexError like a list: negative indices
    count from the end, out of range raises); `del self._order[i]`.  Expressed through the slice deletion of the one
    normalised position. -/
def setDelItem (s : St) (g : Nat) (i : Int) : St × Out :=
  match s.sets[g]? with
  | some S =>
    match S.order with
    | none => (s, .bad)
    | some o =>
      match normIdx i o.length with
      | none => (s, .raise .indexError)
      | some j => setDelSlice s g ⟨some (Int.ofNat j), some (Int.ofNat j + 1), none⟩
  | none => (s, .bad)

/-- `for i in new_items: super().add(i); successful.append(i)`: returns the successfully added prefix -/
def addAll (s : St) (g : Nat) : List Nat → St × List Nat × Out
  | [] => (s, [], .ok)
  | e :: r =>
    match baseAdd s g e with
    | (s1, .ok) => let (s2, done, o) := addAll s1 g r; (s2, e :: done, o)
    | (s1, x) => (s1, [], x)

/-- `set[slice] = iterable` (after fixes/C01-setitem-slice.patch) -/
def setSetSlice (s : St) (g : Nat) (sl : Slice) (new : List Nat) : St × Out :=
  match s.sets[g]? with
  | some S =>
    match S.order with
    | none => (s, .bad)
    | some o =>
      match sliceGet o sl, sliceAssign o sl new with
      | some deleted, some o' =>
        if !isStep1 sl ∧ new.length ≠ deleted.length then (s, .raise .valueError)
        else
          match addAll s g new with
          | (s1, _, .ok) => removeAll (setOrder s1 g (fun _ => o')) g deleted
          | (s1, done, x) =>
            -- rollback: `for i in successful_new_items: super().remove(i)`; then re-raise
            (match removeAll s1 g done with
             | (s2, .ok) => (s2, x)
             | r => r)
      | _, _ => (s, .raise .valueError)
  | none => (s, .bad)

/-- `extend(values)` (MutableSequence): `for v in values: self.append(v)` -/
def setExtend (s : St) (g : Nat) : List Nat → St × Out
  | [] => (s, .ok)
  | e :: r =>
    match setAppend s g e with
    | (s1, .ok) => setExtend s1 g r
    | x => x

/-- the `_value` set of SubmodelElementList `n` -/
def listSetOf (s : St) (n : Nat) : Option Nat :=
  (setsOf s n).find? (fun g => match s.sets[g]? with | some S => S.hooks.isSome | none => false)

/-- `SubmodelElementList.value = values`: `del self._value[:]; self._value.extend(values)` -/
def setValue (s : St) (n : Nat) (es : List Nat) : St × Out :=
  match listSetOf s n with
  | some g =>
    (match setDelSlice s g ⟨none, none, none⟩ with
     | (s1, .ok) => setExtend s1 g es
     | r => r)
  | none => (s, .bad)

/-! ### re-keying setters: `_set_id_short`, `Qualifier.type`, `Extension.name`, `HasSemantics.semantic_id` -/

/-- `for set_ in parent.namespace_element_sets: if self in set_: set_add_list.append(set_); set_.discard(self)` -/
def discardAll (s : St) (e : Nat) : List Nat → St × List Nat × Out
  | [] => (s, [], .ok)
  | g :: r =>
    if containsAt s g e then
      match setRemove s g e with
      | (s1, .ok) => let (s2, l, o) := discardAll s1 e r; (s2, g :: l, o)
      | (s1, x) => (s1, [], x)
    else discardAll s e r

/-- `for set_ in set_add_list: set_.add(self)` -/
def readdAll (s : St) (e : Nat) : List Nat → St × Out
  | [] => (s, .ok)
  | g :: r =>
    match setAdd s g e with
    | (s1, .ok) => readdAll s1 e r
    | x => x

/-- discard from every set of the parent that contains the element, change the attribute, add again -/
def relink (s : St) (e n : Nat) (f : Elem → Elem) : St × Out :=
  match discardAll s e (setsOf s n) with
  | (s1, gs, .ok) =>
    (match readdAll (updElem s1 e f) e gs with
     | (s2, .ok) => (updElem s2 e f, .ok)
     | r => r)
  | (s1, _, x) => (s1, x)

/-- `set_.contains_id(attr, key)` for some set of namespace `n` -/
def anyHas (s : St) (n : Nat) (a : Kind) (k : Key) : Bool :=
  s.sets.any (fun S => decide (S.ns = n) && decide (S.attr = a) && AList.has k S.backend)

/-- `isinstance(parent, SubmodelElementList)` -/
def isList (s : St) (n : Nat) : Bool := (listSetOf s n).isSome

/-- the setter of the identifying attribute; `none` only for id_short -/
def rename (s : St) (e : Nat) (nk : Option String) : St × Out :=
  match s.elems[e]? with
  | none => (s, .bad)
  | some el =>
    let newKey := nk.map Key.user
    let f : Elem → Elem := fun x => { x with key := newKey }
    match el.kind with
    | .ref =>
      if newKey = el.key then (s, .ok)                                       -- `if id_short == self.id_short: return`
      else match nk.bind checkIdShort with
        | some x => (s, .raise x)
        | none =>
          match el.parent with
          | none => (updElem s e f, .ok)
          | some n =>
            match newKey with
            | none => (s, .raise (.aascv 117))
            | some k =>
              if isList s n then (s, .raise (.aascv 120))
              else if anyHas s n .ref k then (s, .raise (.aascv 22))
              else relink s e n f
    | kd =>
      match nk with
      | none => (s, .bad)                                                    -- `len(None)`: TypeError, outside the typed API
      | some str =>
        match checkName str with
        | some x => (s, .raise x)
        | none =>
          match el.parent with
          | none => (updElem s e f, .ok)
          | some n =>
            if anyHas s n kd (.user str) then (s, .raise .keyError)
            else relink s e n f

/-- `HasSemantics.semantic_id = sem` (no set of the SDK is keyed by semantic_id, so the collision check finds nothing;
    the discard + re-add still happens, and the re-add runs the list hooks) -/
def setSem (s : St) (e : Nat) (sem : Option Nat) : St × Out :=
  match s.elems[e]? with
  | none => (s, .bad)
  | some el =>
    let f : Elem → Elem := fun x => { x with sem := sem }
    match el.parent with
    | none => (updElem s e f, .ok)
    | some n => relink s e n f

/-! ### namespace level: `_add_object`, `_remove_object`, `_get_object` -/

/-- `add_referable` / `add_qualifier` / `add_extension`: the first set with that attribute; ValueError if there is none -/
def nsAdd (s : St) (n e : Nat) : St × Out :=
  match s.elems[e]? with
  | none => (s, .bad)
  | some el =>
    match (setsOf s n).find? (fun g => match s.sets[g]? with | some S => S.attr = el.kind | none => false) with
    | some g => setAdd s g e
    | none => (s, .raise .valueError)

def nsRemoveAux (s : St) (a : Kind) (k : Key) : List Nat → St × Out
  | [] => (s, .raise .keyError)
  | g :: r =>
    match s.sets[g]? with
    | some S =>
      if S.attr = a then
        match setRemoveKey s g k with
        | (s1, .raise .keyError) => nsRemoveAux s1 a k r          -- `except KeyError: continue`
        | x => x
      else nsRemoveAux s a k r
    | none => nsRemoveAux s a k r

/-- `remove_referable` / `remove_qualifier_by_type` / `remove_extension_by_name` -/
def nsRemove (s : St) (n : Nat) (a : Kind) (k : Key) : St × Out :=
  nsRemoveAux s a k (setsOf s n)

/-- `get_referable(k)` / `get_qualifier_by_type` / `get_extension_by_name`: first set that knows the key.
    (`get_object_by_attribute` raises KeyError for a set with another attribute name, which `_get_object` skips.) -/
def nsLookup (s : St) (n : Nat) (a : Kind) (k : Key) : Option Nat :=
  (setsOf s n).findSome? (fun g => match s.sets[g]? with
    | some S => if S.attr = a then lookup S k else none
    | none => none)

/-! ### construction -/

def mkElem (s : St) (el : Elem) : St := { s with elems := s.elems ++ [el] }

inductive NsKind where
  | submodel | smc | sml | entity | arel | op | holder | aas | cd
deriving DecidableEq, Repr

/-- attribute of each NamespaceSet in the order the constructor registers them; the bool marks the list's `_value` -/
def nsLayout : NsKind → List (Kind × Bool)
  | .submodel => [(.ref, false), (.qual, false), (.ext, false)]
  | .smc | .entity | .arel => [(.qual, false), (.ext, false), (.ref, false)]
  | .sml => [(.qual, false), (.ext, false), (.ref, true)]
  | .op => [(.qual, false), (.ext, false), (.ref, false), (.ref, false), (.ref, false)]
  | .holder => [(.qual, false), (.ext, false)]
  | .aas | .cd => [(.ext, false)]

/-- class tag of the namespace object when it is itself a SubmodelElement -/
def nsElemCls : NsKind → Option Nat
  | .smc => some 4 | .sml => some 5 | .entity => some 6 | .arel => some 7 | .op => some 8 | .holder => some 0
  | _ => none

/-- `for i in items: self.add(i)` with `except: self.clear(); raise` -/
def fillSet (s : St) (g : Nat) : List Nat → St × Out
  | [] => (s, .ok)
  | e :: r =>
    match setAdd s g e with
    | (s1, .ok) => fillSet s1 g r
    | (s1, x) => ((setClear s1 g).1, x)

/-- register and fill the sets one after the other; the first failure aborts the constructor -/
def buildSets (s : St) (n : Nat) (cfg : ListCfg) : List (Kind × Bool) → List (List Nat) → St × Out
  | [], _ => (s, .ok)
  | (a, isVal) :: r, items =>
    if isVal ∧ cfg.cls ≤ 1 ∧ cfg.vt.isNone then (s, .raise (.aascv 109))
    else
      let g := s.sets.length
      let S : NSet := ⟨n, a, [], if isVal then some [] else none, if isVal then some cfg else none⟩
      match fillSet { s with sets := s.sets ++ [S] } g (items.headD []) with
      | (s1, .ok) => buildSets s1 n cfg r items.tail
      | x => x

/-- a model class constructor with initial items per set.  The namespace id is allocated in any case (a half-built object
    stays reachable through the parent link of children that were added before the failure). -/
def construct (s : St) (kind : NsKind) (key : Option String) (items : List (List Nat)) (cfg : ListCfg) : St × Out :=
  let n := s.nsCount
  let s0 : St := { s with nsCount := n + 1 }
  match (if (nsElemCls kind).isSome then key.bind checkIdShort else none) with
  | some x => (s0, .raise x)
  | none =>
    match buildSets s0 n cfg (nsLayout kind) items with
    | (s1, .ok) =>
      (match nsElemCls kind with
       | some c => (mkElem s1 ⟨.ref, key.map Key.user, none, none, c, 0⟩, .ok)
       | none => (s1, .ok))
    | x => x

/-! ### one operation -/

inductive Op where
  | mk (kind : Kind) (key : Option String) (sem : Option Nat) (cls vt : Nat)
  | construct (kind : NsKind) (key : Option String) (items : List (List Nat)) (cfg : ListCfg)
  | add (n j e : Nat)
  | remove (n j e : Nat)
  | removeKey (n j : Nat) (k : Key)
  | discard (n j e : Nat)
  | pop (n j : Nat)
  | popAt (n j : Nat) (i : Int)
  | clear (n j : Nat)
  | insert (n j : Nat) (i : Int) (e : Nat)
  | append (n j e : Nat)
  | setItem (n j : Nat) (i : Int) (e : Nat)
  | delItem (n j : Nat) (i : Int)
  | setSlice (n j : Nat) (sl : Slice) (es : List Nat)
  | delSlice (n j : Nat) (sl : Slice)
  | extend (n j : Nat) (es : List Nat)
  | setValue (n : Nat) (es : List Nat)
  | rename (e : Nat) (k : Option String)
  | setSem (e : Nat) (sem : Option Nat)
  | nsAdd (n e : Nat)
  | nsRemove (n : Nat) (a : Kind) (k : Key)
deriving Repr

def onSet (s : St) (n j : Nat) (f : Nat → St × Out) : St × Out :=
  match resolve s n j with
  | some g => f g
  | none => (s, .bad)

def step (s : St) : Op → St × Out
  | .mk kind key sem cls vt => (mkElem s ⟨kind, key.map Key.user, none, sem, cls, vt⟩, .ok)
  | .construct kind key items cfg => construct s kind key items cfg
  | .add n j e => onSet s n j (fun g => setAdd s g e)
  | .remove n j e => onSet s n j (fun g => setRemove s g e)
  | .removeKey n j k => onSet s n j (fun g => setRemoveKey s g k)
  | .discard n j e => onSet s n j (fun g => setDiscard s g e)
  | .pop n j => onSet s n j (fun g => setPop s g)
  | .popAt n j i => onSet s n j (fun g => setPopAt s g i)
  | .clear n j => onSet s n j (fun g => setClear s g)
  | .insert n j i e => onSet s n j (fun g => setInsert s g i e)
  | .append n j e => onSet s n j (fun g => setAppend s g e)
  | .setItem n j i e => onSet s n j (fun g => setSetItem s g i e)
  | .delItem n j i => onSet s n j (fun g => setDelItem s g i)
  | .setSlice n j sl es => onSet s n j (fun g => setSetSlice s g sl es)
  | .delSlice n j sl => onSet s n j (fun g => setDelSlice s g sl)
  | .extend n j es => onSet s n j (fun g => setExtend s g es)
  | .setValue n es => setValue s n es
  | .rename e k => rename s e k
  | .setSem e sem => setSem s e sem
  | .nsAdd n e => nsAdd s n e
  | .nsRemove n a k => nsRemove s n a k

/-- run a history -/
def run (s : St) (ops : List Op) : St := ops.foldl (fun acc op => (step acc op).1) s

end Basyx.Ns
