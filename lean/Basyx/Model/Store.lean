/-
  Model of `basyx.aas.model.provider` (DictObjectStore incl. the `MutableSet` mix-ins it inherits from
  `collections.abc`, ObjectProviderMultiplexer) and `basyx.aas.util.identification.NamespaceIRIGenerator`
  (property C13).

  An object is `(uid, id)`: `uid` stands for Python identity (`is`), `id` for `Identifiable.id`.
  `_backend : Dict[Identifier, obj]` ↦ insertion-ordered association list `id ↦ uid`.
-/
import Basyx.Model.AList
import Basyx.Model.Fmt
namespace Basyx.Store
open Basyx.Fmt (pad4)

abbrev Id := List Char
abbrev Uid := Nat

structure Obj where
  uid : Uid
  id : Id
deriving Repr, DecidableEq

abbrev St := List (Id × Uid)

inductive Out where
  | unit
  | obj (u : Uid)                 -- the very object (identity)
  | none                          -- `get(id)` default
  | bool (b : Bool)
  | nat (n : Nat)
  | objs (us : List Uid)          -- iteration order
  | keyError
  | fuel
deriving Repr, DecidableEq

/-- `add`: `if x.id in backend and backend.get(x.id) is not x: raise KeyError` else `backend[x.id] = x` -/
def add (s : St) (x : Obj) : St × Out :=
  match AList.get x.id s with
  | some u => if u ≠ x.uid then (s, .keyError) else (AList.set x.id x.uid s, .unit)
  | none => (AList.set x.id x.uid s, .unit)

/-- `discard`: `if backend.get(x.id) is x: del backend[x.id]` -/
def discard (s : St) (x : Obj) : St × Out :=
  if AList.get x.id s = some x.uid then (AList.erase x.id s, .unit) else (s, .unit)

/-- `__contains__` for an Identifiable argument -/
def containsObj (s : St) (x : Obj) : Bool := AList.get x.id s = some x.uid
/-- `__contains__` for an Identifier (str) argument -/
def containsId (s : St) (i : Id) : Bool := AList.has i s

/-- `MutableSet.remove`: `if value not in self: raise KeyError(value)`; `self.discard(value)` -/
def remove (s : St) (x : Obj) : St × Out :=
  if containsObj s x then discard s x else (s, .keyError)

/-- `MutableSet.pop`: first element of the iteration, discarded; KeyError when empty -/
def pop (s : St) : St × Out :=
  match s with
  | [] => (s, .keyError)
  | (i, u) :: _ => ((discard s ⟨u, i⟩).1, .obj u)

/-- `MutableSet.clear`: `try: while True: self.pop() except KeyError: pass` (fuel = |s| + 1) -/
def clearLoop : Nat → St → St × Out
  | 0, s => (s, .fuel)
  | f + 1, s =>
    match pop s with
    | (_, .keyError) => (s, .unit)
    | (s', _) => clearLoop f s'

def clear (s : St) : St × Out := clearLoop (s.length + 1) s

/-- `update(other)`: `for x in other: self.add(x)` — stops at the first KeyError, earlier adds stay -/
def update (s : St) : List Obj → St × Out
  | [] => (s, .unit)
  | x :: r =>
    match add s x with
    | (s', .unit) => update s' r
    | (s', o) => (s', o)

def getIdentifiable (s : St) (i : Id) : Out :=
  match AList.get i s with
  | some u => .obj u
  | none => .keyError

/-- `get(identifier, default=None)` -/
def getDefault (s : St) (i : Id) : Out :=
  match getIdentifiable s i with
  | .keyError => .none
  | o => o

def iter (s : St) : List Uid := s.map Prod.snd

inductive Op where
  | add (x : Obj) | discard (x : Obj) | remove (x : Obj) | pop | clear | update (xs : List Obj)
  | get (i : Id) | getDefault (i : Id) | containsObj (x : Obj) | containsId (i : Id) | len | iter
deriving Repr, DecidableEq

def step (s : St) : Op → St × Out
  | .add x => add s x
  | .discard x => discard s x
  | .remove x => remove s x
  | .pop => pop s
  | .clear => clear s
  | .update xs => update s xs
  | .get i => (s, getIdentifiable s i)
  | .getDefault i => (s, getDefault s i)
  | .containsObj x => (s, .bool (containsObj s x))
  | .containsId i => (s, .bool (containsId s i))
  | .len => (s, .nat s.length)
  | .iter => (s, .objs (iter s))

def run (s : St) : List Op → St × List Out
  | [] => (s, [])
  | op :: r =>
    let (s', o) := step s op
    let (s'', os) := run s' r
    (s'', o :: os)

/-! ### ObjectProviderMultiplexer -/

/-- `for provider in providers: try: return provider.get_identifiable(id) except KeyError: pass`; KeyError at the end -/
def muxGet : List St → Id → Out
  | [], _ => .keyError
  | p :: ps, i =>
    match getIdentifiable p i with
    | .keyError => muxGet ps i
    | o => o

/-! ### NamespaceIRIGenerator -/

/-- `_quote_iri_segment`: `str.translate` with the module's table — reserved characters are percent-encoded,
    U+0000..U+001E and U+007F are deleted (`range(0, 0x1f)` leaves U+001F alone). -/
def quotedChars : List Char :=
  [':', '[', ']', '@', '!', '$', '\'', '(', ')', '*', '+', ',', ';', ' ', '"', '<', '>', '\\', '^', '`', '{', '|', '}']

def hexDigit (n : Nat) : Char := if n < 10 then Char.ofNat (48 + n) else Char.ofNat (55 + n)

def quoteChar (c : Char) : List Char :=
  if c.toNat < 0x1f ∨ c.toNat = 0x7f then []
  else if c ∈ quotedChars then ['%', hexDigit (c.toNat / 16), hexDigit (c.toNat % 16)]
  else [c]

def quote (s : List Char) : List Char := s.flatMap quoteChar

/-- the IRI tried for `counter` -/
def iri (ns prop : List Char) (counter : Nat) : List Char :=
  if counter ≠ 0 ∨ prop = [] then
    ns ++ (prop ++ ((if prop = [] then [] else ['_']) ++ pad4 counter))
  else ns ++ prop

structure Gen where
  ns : List Char
  cache : List (List Char × Nat)
deriving Repr, DecidableEq

def genLoop (ns prop : List Char) (known : List Id) : Nat → Nat → Option (Nat × Id)
  | 0, _ => none
  | f + 1, c => if iri ns prop c ∈ known then genLoop ns prop known f (c + 1) else some (c, iri ns prop c)

/-- `generate_id(proposal)` against a provider that knows exactly the identifiers `known` -/
def generate (g : Gen) (known : List Id) (proposal : Option (List Char)) : Gen × Option Id :=
  let prop := quote (proposal.getD [])
  let c0 := (AList.get prop g.cache).getD 0
  match genLoop g.ns prop known (known.length + 2) c0 with
  | some (c, i) => ({ g with cache := AList.set prop c g.cache }, some i)
  | none => (g, none)

end Basyx.Store
