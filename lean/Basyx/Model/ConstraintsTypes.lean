/-
  C02 — vocabulary shared by the constraint model (`Model/Constraints.lean`) and the specification
  (`Spec/Constraints.lean`): strings as code-point lists, outcome kinds, small enums.  Types only, no behaviour.
-/
import Basyx.Gen.KeyTypes
namespace Basyx.Constraints

/-- A Python `str` as its list of code points (`ord` of each character; lone surrogates are representable,
    which `Char` could not do). `len(s)` = `List.length`. -/
abbrev Str := List Nat

/-- Exception kinds the anchored code raises. `aascv n` = `AASConstraintViolation` with `constraint_id = n`. -/
inductive Err where
  | valueError | typeError | keyError | indexError | attributeError
  | aascv (n : Nat)
  deriving DecidableEq, Repr

abbrev Res (α : Type) := Except Err α

inductive EntityType where | coManaged | selfManaged
  deriving DecidableEq, Repr

inductive Direction where | input | output
  deriving DecidableEq, Repr

/-- A `Key` as far as the reference constraints look at it: its type and whether its value denotes a
    non-negative integer (every character has the Unicode property Decimal, string non-empty). -/
structure Key where
  type : Gen.KT
  isInt : Bool
  deriving DecidableEq, Repr

/-- The `tzinfo` view of an aware `datetime`: UTC offset in seconds and whether `tzname()` is the string "UTC". -/
structure Tz where
  offset : Int
  namedUTC : Bool
  deriving DecidableEq, Repr

/-- `last_update` argument: `none` = Python `None`; `some none` = naive datetime; `some (some tz)` = aware. -/
abbrev Stamp := Option (Option Tz)

/-- A Python value offered to / stored in a typed slot, as far as `trivial_cast` distinguishes values
    (`str hasCtl`: the string contains CR, LF or TAB). -/
inductive PyVal where
  | int (n : Int) | bool (b : Bool) | float | str (hasCtl : Bool) | bytes | date | datetime | other
  deriving DecidableEq, Repr

instance {α : Type} [DecidableEq α] : DecidableEq (Res α) := fun a b =>
  match a, b with
  | .ok x, .ok y => if h : x = y then isTrue (by rw [h]) else isFalse (by intro e; cases e; exact h rfl)
  | .error e, .error f => if h : e = f then isTrue (by rw [h]) else isFalse (by intro x; cases x; exact h rfl)
  | .ok _, .error _ => isFalse (by intro x; cases x)
  | .error _, .ok _ => isFalse (by intro x; cases x)

end Basyx.Constraints
