/-
  C06 model — the type dispatch of `xsd_repr` / `from_xsd` over ALL value types at once.

  `from_xsd(value, type_)` is an `if type_ is …` chain that selects the parser of the type, `xsd_repr(value)` an
  `isinstance` chain that selects the printer by the Python class of the value.  `TV` is the disjoint union of the
  per-type value representations of `Lex/*.lean`; the driver (`Driver/Lex.lean`) runs `parse` / `repr` / `valid`
  through the three functions below, so the dispatch itself is under the correspondence check of C06.
-/
import Basyx.Model.Lex
namespace Basyx.Lex

/-- a typed value as `Property.value`, `Range.min/max`, `Qualifier.value` and `Extension.value` hold it -/
inductive TV where
  | int (τ : Ty) (v : Int)          -- the 13 bounded integer classes and `int` (xs:integer)
  | bool (b : Bool)
  | str (τ : Ty) (s : Str)          -- xs:string, xs:anyURI, xs:normalizedString
  | date (v : DateV) | time (v : TimeV) | dateTime (v : DateTimeV)
  | gYear (v : GYearV) | gMonth (v : GMonthV) | gDay (v : GDayV)
  | gYearMonth (v : GYearMonthV) | gMonthDay (v : GMonthDayV)
  | hex (bs : Bytes) | b64 (bs : Bytes)
  | dur (d : Dur)
  | dec (r : DecR)
  | flt (τ : Ty) (v : FloatV)       -- xs:float / xs:double
deriving DecidableEq, Repr

/-- the value type under which the value is announced (`value_type`) -/
def TV.ty : TV → Ty
  | .int τ _ => τ | .bool _ => .boolean | .str τ _ => τ
  | .date _ => .date | .time _ => .time | .dateTime _ => .dateTime
  | .gYear _ => .gYear | .gMonth _ => .gMonth | .gDay _ => .gDay
  | .gYearMonth _ => .gYearMonth | .gMonthDay _ => .gMonthDay
  | .hex _ => .hexBinary | .b64 _ => .base64Binary | .dur _ => .duration | .dec _ => .decimal | .flt τ _ => τ

/-- `xsd_repr(value)`; `none` = ValueError -/
def reprTV : TV → Option Str
  | .int _ v => some (intRepr v)
  | .bool b => some (reprBool b)
  | .str _ s => some s
  | .date v => some (reprDate v)
  | .time v => some (reprTime v)
  | .dateTime v => some (reprDateTime v)
  | .gYear v => reprGYear v
  | .gMonth v => some (reprGMonth v)
  | .gDay v => some (reprGDay v)
  | .gYearMonth v => reprGYearMonth v
  | .gMonthDay v => some (reprGMonthDay v)
  | .hex bs => some (hexEncode bs)
  | .b64 bs => some (b64encode bs)
  | .dur d => reprDur d
  | .dec r => some (reprDecR r)
  | .flt _ v => some (reprFloat v)

/-- `from_xsd(value, type_)`; `none` = ValueError.  `rng τ` is the interval check of the integer class `τ`.
    For xs:float / xs:double only the special literals are the SDK's own (see `Lex/Misc.lean`): `none` there means
    "not a special literal" (CPython's `float()` decides). -/
def parseTV (rng : Ty → Range) (τ : Ty) (s : Str) : Option TV :=
  match τ with
  | .duration => (parseDur s).map .dur
  | .dateTime => (parseDateTime s).map .dateTime
  | .date => (parseDate s).map .date
  | .time => (parseTime s).map .time
  | .gYearMonth => (parseGYearMonth s).map .gYearMonth
  | .gYear => (parseGYear s).map .gYear
  | .gMonthDay => (parseGMonthDay s).map .gMonthDay
  | .gMonth => (parseGMonth s).map .gMonth
  | .gDay => (parseGDay s).map .gDay
  | .boolean => (parseBool s).map .bool
  | .base64Binary => (b64decode s).map .b64
  | .hexBinary => (fromHex s).map .hex
  | .float => (parseFloatSpecial s).map (.flt .float)
  | .double => (parseFloatSpecial s).map (.flt .double)
  | .decimal => (parseDec s).map .dec
  | .anyURI => some (.str .anyURI s)
  | .string => some (.str .string s)
  | .normalizedString => (parseNormalized s).map (.str .normalizedString)
  | τ => (parseInt (rng τ) s).map (.int τ)

/-- SPEC side: membership of a string in the lexical space of the type (XML Schema part 2) -/
def validTV (τ : Ty) (s : Str) : Bool :=
  match τ with
  | .duration => validDur s
  | .dateTime => validDateTime s
  | .date => validDate s
  | .time => validTime s
  | .gYearMonth => validGYearMonth s
  | .gYear => validGYear s
  | .gMonthDay => validGMonthDay s
  | .gMonth => validGMonth s
  | .gDay => validGDay s
  | .boolean => validBool s
  | .base64Binary => validB64 s
  | .hexBinary => validHex s
  | .float | .double => validFloat s
  | .decimal => validDecimal s
  | .anyURI | .string => true
  | .normalizedString => validNormalized s
  | _ => validInt s

end Basyx.Lex
