/-
  Generic table-driven codec: the model of the SDK's JSON (and XML) serialisers and deserialisers
  (properties C03, C04, C18, C09, C05).

  * `Val`   — abstract metamodel value (canonical object graph; leaves are lexical tokens + Python truthiness).
  * `Wire`  — abstract document tree: JSON value / XML element tree in "wire normal form" (the harness moves
              `modelType` / reference `type` / the XML tag of a polymorphic element into `tag`).
  * `Row`   — one (member ↔ attribute) line of a class: how the WRITER guards and renders it and how the READER
              looks it up (present? required? default? stripped?), merged by member name by the translator
              from `*_to_json` and `_construct_*` (see `Basyx/Gen/JsonTable.lean`), plus the SPEC-side domain of
              the attribute (`optional`, `noFalsy`, `enumVals`) from the hand-written metamodel table.
  * `enc` / `dec` interpret a table.  They are what the correspondence check runs against the real adapters.
-/
namespace Basyx.Codec

inductive Val where
  | none
  | tok (s : String) (falsy : Bool)
  | list (xs : List Val)
  | node (cls : String) (fs : List Val)
deriving Repr, Inhabited

inductive Wire where
  | tok (s : String) (falsy : Bool)
  | arr (xs : List Wire)
  | obj (tag : Option String) (ms : List (String × Wire))
deriving Repr, Inhabited

/-- Writer-side guard of a member (`if <guard>: data[member] = …`). -/
inductive Guard where
  | always
  | notNone             -- `obj.x is not None`
  | truthy              -- `if obj.x:` / `len(obj.x) > 0` / `obj.x != set()`
  | isTok (t : String)  -- `obj.kind is ModellingKind.TEMPLATE`
deriving Repr, DecidableEq

/-- How an attribute value is rendered. -/
inductive Kind where
  | leaf
  | node (cls : String)            -- embedded object of a statically known class
  | poly (classes : List String)   -- class given by the tag on the wire (modelType / reference type / XML tag)
  | list (k : Kind)
deriving Repr

/-- What the reader does with a leaf member whose text is empty (XML: `<value/>` has `.text is None`):
    keep it as the empty token, treat the member as absent, or raise. JSON readers always keep. -/
inductive EmptyText where
  | exact | asNone | asError
deriving Repr, DecidableEq

structure Row where
  member : String
  attr : String
  guard : Guard
  encStrip : Bool      -- writer omits it in stripped mode
  decReads : Bool      -- reader looks the member up at all
  decRequired : Bool   -- reader raises KeyError when absent
  decStrip : Bool      -- reader ignores it in stripped mode
  kind : Kind
  optional : Bool      -- SPEC: attribute may be None
  noFalsy : Bool       -- SPEC: no falsy non-None member in the domain (min-length-1 string, non-empty lang set …)
  enumVals : List String   -- SPEC: enum tokens ([] = not an enum)
  dflt : Val           -- what the reader leaves in the attribute when the member is absent
  emptyText : EmptyText := .exact   -- reader's treatment of an empty leaf text
  canBeEmpty : Bool := false        -- SPEC: the attribute's lexical token may be the empty string
deriving Repr

structure ClassTable where
  cls : String
  tag : Option String          -- the tag written on the wire (modelType), none for helper classes
  rows : List Row
deriving Repr

abbrev Table := List ClassTable

def rowsOf (T : Table) (c : String) : List Row :=
  match T.find? (fun ct => ct.cls = c) with
  | some ct => ct.rows
  | none => []

def tagOf (T : Table) (c : String) : Option String :=
  match T.find? (fun ct => ct.cls = c) with
  | some ct => ct.tag
  | none => none

def classOfTag (T : Table) (t : String) : Option String :=
  match T.find? (fun ct => ct.tag = some t) with
  | some ct => some ct.cls
  | none => none

/-- Python truthiness of an attribute value. -/
def truthyVal : Val → Bool
  | .none => false
  | .tok _ f => !f
  | .list xs => !xs.isEmpty
  | .node _ _ => true

def isNone : Val → Bool
  | .none => true
  | _ => false

def guardPass (g : Guard) (v : Val) : Bool :=
  match g with
  | .always => true
  | .notNone => !isNone v
  | .truthy => truthyVal v
  | .isTok t => match v with | .tok s _ => s == t | _ => false

inductive Err where
  | keyError (member : String)      -- required member missing
  | typeError (what : String)       -- wrong JSON type / unknown tag
deriving Repr, DecidableEq

/-- does the writer emit this row for value `v`? -/
def emits (stripped : Bool) (r : Row) (v : Val) : Bool :=
  !(stripped && r.encStrip) && guardPass r.guard v

mutual
def enc (T : Table) (stripped : Bool) : Val → Wire
  | .none => .tok "" true                       -- never reached for conforming values
  | .tok s f => .tok s f
  | .list xs => .arr (encList T stripped xs)
  | .node c fs => .obj (tagOf T c) (encFields T stripped (rowsOf T c) fs)
def encList (T : Table) (stripped : Bool) : List Val → List Wire
  | [] => []
  | v :: r => enc T stripped v :: encList T stripped r
def encFields (T : Table) (stripped : Bool) : List Row → List Val → List (String × Wire)
  | r :: rows, v :: fs =>
    if emits stripped r v then (r.member, enc T stripped v) :: encFields T stripped rows fs
    else encFields T stripped rows fs
  | _, _ => []
end

def findRow (rows : List Row) (name : String) : Option Row := rows.find? (fun r => r.member = name)

inductive EmptyAction where
  | keep | drop | fail
deriving Repr, DecidableEq

def isEmptyTok : Val → Bool
  | .tok s _ => s == ""
  | _ => false

def emptyAction (r : Row) (v : Val) : EmptyAction :=
  if isEmptyTok v then
    match r.emptyText with
    | .exact => .keep
    | .asNone => .drop
    | .asError => .fail
  else .keep

def lookupV (name : String) : List (String × Val) → Option Val
  | [] => none
  | (k, v) :: r => if k = name then some v else lookupV name r

/-- reader-side: does the reader consult this row in this mode? -/
def reads (stripped : Bool) (r : Row) : Bool := r.decReads && !(stripped && r.decStrip)

/-- Build the attribute list of an object from the decoded members (reader side). -/
def assemble (stripped : Bool) (decoded : List (String × Val)) : List Row → Except Err (List Val)
  | [] => .ok []
  | r :: rows =>
    match (if reads stripped r then lookupV r.member decoded else none) with
    | some v => (assemble stripped decoded rows).map (v :: ·)
    | none =>
      if r.decRequired && reads stripped r then .error (.keyError r.member)
      else (assemble stripped decoded rows).map (r.dflt :: ·)

mutual
def dec (T : Table) (stripped : Bool) : Kind → Wire → Except Err Val
  | .leaf, .tok s f => .ok (.tok s f)
  | .list k, .arr ws => (decList T stripped k ws).map .list
  | .node c, .obj _ ms =>
    match decMembers T stripped (rowsOf T c) ms with
    | .ok d => (assemble stripped d (rowsOf T c)).map (.node c)
    | .error e => .error e
  | .poly cs, .obj (some t) ms =>
    match classOfTag T t with
    | some c =>
      if cs.contains c then
        match decMembers T stripped (rowsOf T c) ms with
        | .ok d => (assemble stripped d (rowsOf T c)).map (.node c)
        | .error e => .error e
      else .error (.typeError t)
    | none => .error (.typeError t)
  | _, _ => .error (.typeError "shape")
def decList (T : Table) (stripped : Bool) (k : Kind) : List Wire → Except Err (List Val)
  | [] => .ok []
  | w :: r =>
    match dec T stripped k w with
    | .ok v => (decList T stripped k r).map (v :: ·)
    | .error e => .error e
/-- decode every member the reader consults (unknown or unread members are ignored, as `dict` access does) -/
def decMembers (T : Table) (stripped : Bool) (rows : List Row) : List (String × Wire) → Except Err (List (String × Val))
  | [] => .ok []
  | (name, w) :: r =>
    match findRow rows name with
    | some row =>
      if reads stripped row then
        match dec T stripped row.kind w with
        | .ok v =>
          match emptyAction row v with
          | .keep => (decMembers T stripped rows r).map ((name, v) :: ·)
          | .drop => decMembers T stripped rows r
          | .fail => .error (.keyError name)
        | .error e => .error e
      else decMembers T stripped rows r
    | none => decMembers T stripped rows r
end

-- What "stripped" means on values: in stripped mode detachable attributes are reset to the reader's default,
-- at every depth (`s = false`: identity).
mutual
def strip (T : Table) (s : Bool) : Val → Val
  | .none => .none
  | .tok t f => .tok t f
  | .list xs => .list (stripList T s xs)
  | .node c fs => .node c (stripFields T s (rowsOf T c) fs)
def stripList (T : Table) (s : Bool) : List Val → List Val
  | [] => []
  | v :: r => strip T s v :: stripList T s r
def stripFields (T : Table) (s : Bool) : List Row → List Val → List Val
  | r :: rows, v :: fs => (if s && r.encStrip then r.dflt else strip T s v) :: stripFields T s rows fs
  | _, fs => fs
end

-- "The full rendering minus exactly the members that hold detachable parts", at every depth: the operation on
-- documents that the stripped writer is compared with (C18).  Directed by the kind, as the reader is.
mutual
def stripW (T : Table) : Kind → Wire → Wire
  | .list k, .arr ws => .arr (stripWL T k ws)
  | .node c, .obj t ms => .obj t (stripWM T (rowsOf T c) ms)
  | .poly _, .obj (some t) ms =>
    match classOfTag T t with
    | some c => .obj (some t) (stripWM T (rowsOf T c) ms)
    | none => .obj (some t) ms
  | _, w => w
def stripWL (T : Table) (k : Kind) : List Wire → List Wire
  | [] => []
  | w :: r => stripW T k w :: stripWL T k r
def stripWM (T : Table) (rows : List Row) : List (String × Wire) → List (String × Wire)
  | [] => []
  | (n, w) :: r =>
    match findRow rows n with
    | some row => if row.encStrip then stripWM T rows r else (n, stripW T row.kind w) :: stripWM T rows r
    | none => (n, w) :: stripWM T rows r
end

/-! ### Well-formedness of a table (decidable; `decide`d on the regenerated tables on every run) -/

def simpleDflt : Val → Bool
  | .none => true
  | .tok _ _ => true
  | .list [] => true
  | _ => false

def isListKind : Kind → Bool
  | .list _ => true
  | _ => false
def isLeafKind : Kind → Bool
  | .leaf => true
  | _ => false

/-- The writer's guard loses nothing on the attribute's SPEC domain: every value the guard suppresses is the value
    the reader restores when the member is absent. -/
def losslessB (r : Row) : Bool :=
  match r.guard with
  | .always => !r.optional
  | .notNone => !r.optional || isNone r.dflt
  | .truthy =>
    if isListKind r.kind then
      (if r.optional then r.noFalsy && isNone r.dflt else (match r.dflt with | .list [] => true | _ => false))
    else if isLeafKind r.kind then
      r.noFalsy && (!r.optional || isNone r.dflt)
    else !r.optional || isNone r.dflt
  | .isTok t =>
    !r.optional && isLeafKind r.kind && !r.enumVals.isEmpty &&
    (match r.dflt with
     | .tok d false => r.enumVals.all (fun m => m == t || m == d)
     | _ => false)

def guardIsAlways : Guard → Bool
  | .always => true
  | _ => false

def isNodeKind : Kind → Bool
  | .node _ => true
  | .poly _ => true
  | _ => false

/-- the writer's guard passes on every value of the attribute's SPEC domain (so the reader may insist on the member) -/
def alwaysPassesB (r : Row) : Bool :=
  match r.guard with
  | .always => true
  | .notNone => !r.optional
  | .truthy => !r.optional && ((isLeafKind r.kind && r.noFalsy) || isNodeKind r.kind)
  | .isTok _ => false

def wfRowB (r : Row) : Bool :=
  r.decReads && (!r.decRequired || alwaysPassesB r) && losslessB r && (r.encStrip == r.decStrip) &&
  (!r.encStrip || !guardPass r.guard r.dflt) && simpleDflt r.dflt && (!r.encStrip || !r.decRequired) &&
  (!r.canBeEmpty || r.emptyText == .exact)

def nodupB : List String → Bool
  | [] => true
  | x :: r => !r.contains x && nodupB r

def wfClassB (T : Table) (ct : ClassTable) : Bool :=
  ct.rows.all wfRowB && nodupB (ct.rows.map (·.member)) &&
  (match ct.tag with
   | some t => classOfTag T t == some ct.cls
   | none => true)

def wfTableB (T : Table) : Bool := T.all (wfClassB T)

end Basyx.Codec
