/-
  Model of `basyx.aas.backend.local_file` (LocalFileObjectStore, LocalFileBackend) together with the
  parts of `Referable.update()/commit()` that reach it (properties C14 and C15).

  The model follows the tree WITH the proposed repairs fixes/C14-*.patch and fixes/C15-*.patch applied
  (BUILDING.md rule 6); the behaviour of the pinned tree is kept beside it as `Variant.pinned`
  (two-thread semantics, write protocol) so that the defects are provable as negation witnesses.

  Three parts:
   A. sequential world: directory + heap of Python objects + one weak cache per store instance   (C14)
   B. the I/O step sequence of one add()/commit() with an injected fault                          (C15)
   C. two threads of one store instance, small-step, at the yield points lock/cache operations    (C14)

  Abstractions (named in the assumptions of the checks):
   * sha256 is injective: files are keyed by the identifier itself;
   * a document's content is a version number `Ver` (the harness stores it in a Property value); equality of
     all metamodel attributes after a JSON round trip is property C03's theorem;
   * `source` is `""` or this directory's URI for the object's id: a `Bool` (all instances share one directory);
   * `WeakValueDictionary`: an entry disappears at a `gc` step once the application holds no reference
     (`live = false`); the objects have reference cycles, so nothing disappears before a collection.
-/
import Basyx.Model.AList
namespace Basyx.FileStore

abbrev Id := List Char
abbrev Ref := Nat
abbrev Ver := Nat

/-! ## A. Sequential world -/

/-- A Python `Identifiable` on the heap. -/
structure Obj where
  id : Id
  ver : Ver          -- the payload ("every metamodel attribute")
  bound : Bool       -- `source` is the file URI of `id` in the store directory (`false`: `source == ""`)
  live : Bool        -- the application holds a strong reference
deriving Repr, DecidableEq

structure W where
  disk : List (Id × Ver)               -- `<dir>/<sha256(id)>.json` ↦ document, in creation order
  heap : List Obj                      -- `Ref` = position
  caches : List (List (Id × Ref))      -- `_object_cache` of store instance k (instances never used: empty)
deriving Repr, DecidableEq

def init : W := ⟨[], [], []⟩

def getAt {α : Type} (l : List (List α)) (k : Nat) : List α := (l[k]?).getD []

def setAt {α : Type} : List (List α) → Nat → List α → List (List α)
  | [], 0, v => [v]
  | [], k + 1, v => [] :: setAt [] k v
  | _ :: t, 0, v => v :: t
  | h :: t, k + 1, v => h :: setAt t k v

def cacheOf (w : W) (k : Nat) : List (Id × Ref) := getAt w.caches k

/-- the object behind a reference the application still holds -/
def liveObj (w : W) (r : Ref) : Option Obj :=
  match w.heap[r]? with
  | some o => if o.live then some o else none
  | none => none

def isLive (w : W) (r : Ref) : Bool := (liveObj w r).isSome

inductive Out where
  | unit
  | obj (r : Ref)
  | objs (rs : List Ref)
  | bool (b : Bool)
  | nat (n : Nat)
  | keyError
  | fileNotFound
  | badRef                 -- the harness named an object it does not hold (never sent)
deriving Repr, DecidableEq

/-- `get_identifiable` / `get_identifiable_by_hash` through instance `k`:
    load the document (`KeyError` when there is none), then under the lock: if a replica is cached and its
    source is this store's, refresh it with `update_from` and return it; else cache and return the new object. -/
def get (w : W) (k : Nat) (i : Id) : W × Out :=
  match AList.get i w.disk with
  | none => (w, .keyError)
  | some v =>
    let c := cacheOf w k
    let fresh : W × Out :=
      ({ w with heap := w.heap ++ [⟨i, v, true, true⟩],
                caches := setAt w.caches k (AList.set i w.heap.length c) }, .obj w.heap.length)
    match AList.get i c with
    | none => fresh
    | some r =>
      match w.heap[r]? with
      | none => fresh
      | some o =>
        if o.bound then ({ w with heap := w.heap.set r { o with ver := v, live := true } }, .obj r)
        else fresh

/-- `add(x)` through instance `k` (lock held throughout): existence check, atomic document write, cache, set source. -/
def add (w : W) (k : Nat) (r : Ref) : W × Out :=
  match liveObj w r with
  | none => (w, .badRef)
  | some o =>
    if AList.has o.id w.disk then (w, .keyError)
    else ({ disk := AList.set o.id o.ver w.disk,
            heap := w.heap.set r { o with bound := true },
            caches := setAt w.caches k (AList.set o.id r (cacheOf w k)) }, .unit)

/-- `discard(x)` through instance `k`: unlink (`KeyError` when there is no document), drop the cache entry of the
    id if there is one, clear the source. -/
def discard (w : W) (k : Nat) (r : Ref) : W × Out :=
  match liveObj w r with
  | none => (w, .badRef)
  | some o =>
    if AList.has o.id w.disk then
      ({ disk := AList.erase o.id w.disk,
         heap := w.heap.set r { o with bound := false },
         caches := setAt w.caches k (AList.erase o.id (cacheOf w k)) }, .unit)
    else (w, .keyError)

/-- `x.commit()` of a top-level identifiable: with a source, (re)write the document — creating it when it is gone. -/
def commit (w : W) (r : Ref) : W × Out :=
  match liveObj w r with
  | none => (w, .badRef)
  | some o => if o.bound then ({ w with disk := AList.set o.id o.ver w.disk }, .unit) else (w, .unit)

/-- `x.update()`: with a source, load the document and `update_from` it (`FileNotFoundError` when it is gone). -/
def update (w : W) (r : Ref) : W × Out :=
  match liveObj w r with
  | none => (w, .badRef)
  | some o =>
    if o.bound then
      match AList.get o.id w.disk with
      | none => (w, .fileNotFound)
      | some v => ({ w with heap := w.heap.set r { o with ver := v } }, .unit)
    else (w, .unit)

/-- `__iter__`: one `get_identifiable_by_hash` per listed document. -/
def iterIds (w : W) (k : Nat) : List Id → W × Option (List Ref)
  | [] => (w, some [])
  | i :: rest =>
    match get w k i with
    | (w', .obj r) =>
      match iterIds w' k rest with
      | (w'', some rs) => (w'', some (r :: rs))
      | (w'', none) => (w'', none)
    | (w', _) => (w', none)

def iter (w : W) (k : Nat) : W × Out :=
  match iterIds w k (AList.keys w.disk) with
  | (w', some rs) => (w', .objs rs)
  | (w', none) => (w', .keyError)

/-- a garbage collection: every weak cache loses the entries whose object the application no longer holds -/
def gc (w : W) : W :=
  { w with caches := w.caches.map (fun c => c.filter (fun e => isLive w e.2)) }

inductive Op where
  | new (i : Id) (v : Ver)          -- the application constructs an object (not stored anywhere yet)
  | setver (r : Ref) (v : Ver)      -- local modification of a live object
  | drop (r : Ref)                  -- the application forgets its reference
  | gc
  | add (k : Nat) (r : Ref)
  | get (k : Nat) (i : Id)
  | discard (k : Nat) (r : Ref)
  | commit (r : Ref)
  | update (r : Ref)
  | containsId (k : Nat) (i : Id)
  | containsObj (k : Nat) (r : Ref)
  | len (k : Nat)
  | iter (k : Nat)
deriving Repr, DecidableEq

def step (w : W) : Op → W × Out
  | .new i v => ({ w with heap := w.heap ++ [⟨i, v, false, true⟩] }, .obj w.heap.length)
  | .setver r v =>
    match liveObj w r with
    | some o => ({ w with heap := w.heap.set r { o with ver := v } }, .unit)
    | none => (w, .badRef)
  | .drop r =>
    match liveObj w r with
    | some o => ({ w with heap := w.heap.set r { o with live := false } }, .unit)
    | none => (w, .badRef)
  | .gc => (gc w, .unit)
  | .add k r => add w k r
  | .get k i => get w k i
  | .discard k r => discard w k r
  | .commit r => commit w r
  | .update r => update w r
  | .containsId _ i => (w, .bool (AList.has i w.disk))
  | .containsObj _ r =>
    match liveObj w r with
    | some o => (w, .bool (AList.has o.id w.disk))
    | none => (w, .badRef)
  | .len _ => (w, .nat w.disk.length)
  | .iter k => iter w k

def run (w : W) : List Op → W
  | [] => w
  | op :: r => run (step w op).1 r

/-- `AbstractObjectStore.update(other)`, inherited by the file store: `for x in other: self.add(x)` - one `add` after the
    other, the first exception ends the loop and is the caller's -/
def addMany : W → Nat → List Ref → W × Out
  | w, _, [] => (w, .unit)
  | w, k, r :: rs =>
    match add w k r with
    | (w', .unit) => addMany w' k rs
    | (w', o) => (w', o)

/-! ## B. The write protocol of add()/commit() as a sequence of I/O steps, with faults (C15) -/

inductive Variant where
  | pinned      -- the tree as pinned: open(target, "w") first, streaming json.dump; get() inserts outside the lock
  | fixed       -- with fixes/C14-*, fixes/C15-* applied (this is what `Variant`-less definitions above follow)
deriving Repr, DecidableEq

inductive FName where
  | doc (i : Id)       -- `<sha256(i)>.json`
  | tmp (i : Id)       -- `<sha256(i)>.json.tmp`
deriving Repr, DecidableEq

/-- File content: the first `n` bytes of serialisation number `doc`, which has `total` bytes. -/
structure Cnt where
  doc : Nat
  n : Nat
  total : Nat
deriving Repr, DecidableEq

def Cnt.complete (c : Cnt) : Bool := c.n == c.total

abbrev FS := List (FName × Cnt)

inductive Kind where
  | add | commit
deriving Repr, DecidableEq

/-- What is being written. `ok = false`: the encoder rejects the object (raises `ValueError`), on the pinned tree
    after having emitted `chunks` already. -/
structure Payload where
  doc : Nat
  total : Nat
  ok : Bool
  chunks : List Nat := []      -- pinned tree only: sizes of the `write` calls json.dump issues (before the error, if any)
deriving Repr, DecidableEq

inductive Step where
  | existsCheck                     -- os.path.exists(target)            (add)
  | serialise                       -- json.dumps(...) into memory; raises for a rejected payload
  | openW (n : FName)               -- open(n, "w"): create or truncate
  | write (k : Nat)                 -- file.write of k bytes
  | close
  | replace (src dst : FName)       -- os.replace
  | cacheInsert                     -- self._object_cache[x.id] = x      (add)
  | setSource                       -- self.generate_source(x)           (add)
deriving Repr, DecidableEq

/-- the number of steps that are I/O or serialisation (fault points of the property) -/
def Step.isIO : Step → Bool
  | .cacheInsert => false
  | .setSource => false
  | _ => true

/-- The step sequence of `add`/`commit` on the tree the model follows (`_write_document`). -/
def program (k : Kind) (i : Id) (p : Payload) : List Step :=
  (match k with | .add => [Step.existsCheck] | .commit => []) ++
  [.serialise, .openW (.tmp i), .write p.total, .close, .replace (.tmp i) (.doc i)] ++
  (match k with | .add => [Step.cacheInsert, .setSource] | .commit => [])

/-- The step sequence on the pinned tree: truncate first, stream the chunks, bookkeeping inside the `with` block. -/
def programPinned (k : Kind) (i : Id) (p : Payload) : List Step :=
  (match k with | .add => [Step.existsCheck] | .commit => []) ++
  [.openW (.doc i)] ++ p.chunks.map .write ++ (if p.ok then [] else [.serialise]) ++
  (match k with | .add => [Step.cacheInsert, .setSource] | .commit => []) ++ [.close]

inductive Exc where
  | keyError | valueError | osError | crashed
deriving Repr, DecidableEq

structure X where
  fs : FS
  cur : Option FName := none     -- the file this call has opened for writing and not yet moved into place
  isOpen : Bool := false
  cached : Bool := false
  bound : Bool := false
  raised : Option Exc := none
deriving Repr, DecidableEq

inductive Fault where
  | none
  | raise (k : Nat) (part : Nat)      -- step k raises (a `write` may have written `part` bytes before)
  | crash (k : Nat) (pre : Nat)       -- the process dies before step k; of the file being written only the first `pre` bytes survive
deriving Repr, DecidableEq

def bump (n : FName) (k : Nat) (fs : FS) : FS :=
  match AList.get n fs with
  | some c => AList.set n { c with n := c.n + k } fs
  | none => fs

/-- one step without fault; `some e`: the step raises by itself -/
def stepIO (i : Id) (p : Payload) (x : X) : Step → X × Option Exc
  | .existsCheck => if AList.has (.doc i) x.fs then (x, some .keyError) else (x, none)
  | .serialise => if p.ok then (x, none) else (x, some .valueError)
  | .openW n => ({ x with fs := AList.set n ⟨p.doc, 0, p.total⟩ x.fs, cur := some n, isOpen := true }, none)
  | .write k =>
    match x.cur with
    | some n => ({ x with fs := bump n k x.fs }, none)
    | none => (x, some .osError)
  | .close => ({ x with isOpen := false }, none)
  | .replace a b =>
    match AList.get a x.fs with
    | some c => ({ x with fs := AList.set b c (AList.erase a x.fs), cur := none }, none)
    | none => (x, some .osError)
  | .cacheInsert => ({ x with cached := true }, none)
  | .setSource => ({ x with bound := true }, none)

/-- The exception handlers the code runs when step `s` raised: the `with` block closes the file; the repaired
    `_write_document` additionally removes its temporary file (`try: os.remove(tmp) except OSError: pass`). -/
def cleanup (v : Variant) (i : Id) (s : Step) (x : X) : X :=
  match v with
  | .pinned => { x with isOpen := false }
  | .fixed =>
    match s with
    | .openW _ | .write _ | .close | .replace _ _ =>
      { x with isOpen := false, fs := AList.erase (.tmp i) x.fs, cur := none }
    | _ => x

def partialEffect (x : X) (part : Nat) : Step → X
  | .write k => match x.cur with
    | some n => { x with fs := bump n (min part k) x.fs }
    | none => x
  | _ => x

/-- of the file being written only a prefix survives the death of the process -/
def crashTrunc (pre : Nat) (x : X) : X :=
  match x.cur with
  | some n =>
    match AList.get n x.fs with
    | some c => { x with fs := AList.set n { c with n := min pre c.n } x.fs, raised := some .crashed }
    | none => { x with raised := some .crashed }
  | none => { x with raised := some .crashed }

/-- run the steps from index `idx` on, with the fault -/
def exec (v : Variant) (i : Id) (p : Payload) (f : Fault) : Nat → X → List Step → X
  | _, x, [] => x
  | idx, x, s :: rest =>
    let normal : X :=
      match stepIO i p x s with
      | (x', none) => exec v i p f (idx + 1) x' rest
      | (x', some e) => { cleanup v i s x' with raised := some e }
    match f with
    | .none => normal
    | .raise k part =>
      if idx = k then { cleanup v i s (partialEffect x part s) with raised := some .osError } else normal
    | .crash k pre => if idx = k then crashTrunc pre x else normal

/-- one `add`/`commit` of payload `p` under identifier `i` on file system `fs`, on the tree the model follows -/
def write (k : Kind) (i : Id) (p : Payload) (f : Fault) (fs : FS) : X :=
  exec .fixed i p f 0 { fs := fs } (program k i p)

def writePinned (k : Kind) (i : Id) (p : Payload) (f : Fault) (fs : FS) : X :=
  exec .pinned i p f 0 { fs := fs } (programPinned k i p)

/-- `__len__` / `__iter__` list the documents only (names ending in `.json`) -/
def listing (fs : FS) : List Id :=
  fs.filterMap (fun e => match e.1 with | .doc i => some i | .tmp _ => none)

/-- the pinned tree lists every directory entry -/
def listingPinned (fs : FS) : List FName := AList.keys fs

/-- loading every listed document succeeds (`__iter__` does not raise) -/
def iterOk (fs : FS) : Bool :=
  (listing fs).all (fun i => match AList.get (.doc i) fs with | some c => c.complete | none => false)

/-! ## C. Two threads on one store instance (C14) — finite abstraction

  All objects that can occur when two threads each run one `get_identifiable(id)` or one `add(x)` for the
  same identifier are named symbolically.  A thread advances from one yield point (lock acquire / release,
  cache `__contains__` / `__getitem__` / `__setitem__`) to the next; a schedule is a list of thread numbers
  (a blocked or finished thread that is scheduled stutters). -/

namespace Conc

inductive CRef where
  | r0            -- the replica cached before the two calls start
  | l0 | l1       -- the object thread 0 / 1 loads from the file
  | x0 | x1       -- the object thread 0 / 1 adds
deriving Repr, DecidableEq

inductive Prog where
  | get | add
deriving Repr, DecidableEq

inductive Res where
  | none
  | ref (r : CRef)
  | unit
  | keyError
deriving Repr, DecidableEq

inductive PC where
  | start        -- get: before loading; add: before anything
  | acq          -- at the lock's acquire
  | contains     -- get: at `obj.id in cache`
  | getitem      -- get: at `cache[obj.id]`
  | setitem      -- at `cache[id] = obj`   (under the lock; pinned get: after releasing it)
  | rel          -- at the lock's release
  | source       -- add, `AddProto.sourceAfterRelease` only: at `generate_source(x)`, after the `with` block
  | done
deriving Repr, DecidableEq

structure Th where
  prog : Prog
  pc : PC := .start
  pend : Res := .none      -- value/exception decided inside the `with` block, delivered after the release
  res : Res := .none
deriving Repr, DecidableEq

structure S where
  file : Bool               -- the document exists
  cache : Option CRef
  lock : Option Bool        -- holder (thread 0 = false, thread 1 = true)
  bound0 : Bool             -- r0.source is this store's URI
  fresh0 : Bool             -- r0 holds the document's content
  boundX0 : Bool
  boundX1 : Bool
  t0 : Th
  t1 : Th
deriving Repr, DecidableEq

def loaded (t : Bool) : CRef := if t then .l1 else .l0
def added (t : Bool) : CRef := if t then .x1 else .x0

def boundOf (s : S) : CRef → Bool
  | .r0 => s.bound0
  | .l0 => true
  | .l1 => true
  | .x0 => s.boundX0
  | .x1 => s.boundX1

def thOf (s : S) (t : Bool) : Th := if t then s.t1 else s.t0
def setTh (s : S) (t : Bool) (th : Th) : S := if t then { s with t1 := th } else { s with t0 := th }

def refresh (s : S) : CRef → S
  | .r0 => { s with fresh0 := true }
  | _ => s

/-- thread `t` advances to its next yield point -/
def stepT (v : Variant) (s : S) (t : Bool) : S :=
  let th := thOf s t
  match th.prog, th.pc with
  | _, .done => s
  -- get_identifiable_by_hash ------------------------------------------------------------------
  | .get, .start =>
    if s.file then setTh s t { th with pc := .acq }
    else setTh s t { th with pc := .done, res := .keyError }
  | .get, .acq =>
    match s.lock with
    | some _ => s
    | none => setTh { s with lock := some t } t { th with pc := .contains }
  | .get, .contains =>
    match s.cache with
    | some _ => setTh s t { th with pc := .getitem }
    | none => setTh s t { th with pc := match v with | .fixed => .setitem | .pinned => .rel }
  | .get, .getitem =>
    match s.cache with
    | some old =>
      if boundOf s old then setTh (refresh s old) t { th with pend := .ref old, pc := .rel }
      else setTh s t { th with pc := match v with | .fixed => .setitem | .pinned => .rel }
    | none => setTh s t { th with pend := .keyError, pc := .rel }
  | .get, .setitem =>
    match v with
    | .fixed => setTh { s with cache := some (loaded t) } t { th with pend := .ref (loaded t), pc := .rel }
    | .pinned => setTh { s with cache := some (loaded t) } t { th with pc := .done, res := .ref (loaded t) }
  | .get, .rel =>
    match th.pend with
    | .none => setTh { s with lock := none } t { th with pc := .setitem }     -- pinned: falls out of the `with` block
    | r => setTh { s with lock := none } t { th with pc := .done, res := r }
  | .get, .source => s                                    -- not a point of a retrieval
  -- add (repaired: the whole body under the lock) ------------------------------------------------
  | .add, .start => setTh s t { th with pc := .acq }
  | .add, .acq =>
    match s.lock with
    | some _ => s
    | none =>
      if s.file then setTh { s with lock := some t } t { th with pend := .keyError, pc := .rel }
      else setTh { s with lock := some t, file := true, fresh0 := false } t { th with pc := .setitem }
  | .add, .setitem =>
    let s' := { s with cache := some (added t) }
    let s'' := if t then { s' with boundX1 := true } else { s' with boundX0 := true }
    setTh s'' t { th with pend := .unit, pc := .rel }
  | .add, .rel => setTh { s with lock := none } t { th with pc := .done, res := th.pend }
  | .add, _ => s

/-- Where `add()` binds the object's source.  In the code it is the last statement INSIDE the `with lock:` block - and has to
    be: `get_identifiable_by_hash` reuses a cached replica only if its source is this store's.  `sourceAfterRelease` is the
    protocol with that statement moved behind the block (one dedent); between the harness' yield points the two cannot be told
    apart, so the finer variant exists in the model (and as a finer scheduler in the oracle) only. -/
inductive AddProto where
  | sourceUnderLock
  | sourceAfterRelease
deriving Repr, DecidableEq

/-- thread `t` advances one step under the given `add` protocol (retrievals and everything else as `stepT .fixed`) -/
def stepA (a : AddProto) (s : S) (t : Bool) : S :=
  match a with
  | .sourceUnderLock => stepT .fixed s t
  | .sourceAfterRelease =>
    let th := thOf s t
    match th.prog, th.pc with
    | .add, .setitem => setTh { s with cache := some (added t) } t { th with pend := .unit, pc := .rel }
    | .add, .rel =>
      match th.pend with
      | .unit => setTh { s with lock := none } t { th with pc := .source }
      | r => setTh { s with lock := none } t { th with pc := .done, res := r }
    | .add, .source =>
      let s' := if t then { s with boundX1 := true } else { s with boundX0 := true }
      setTh s' t { th with pc := .done, res := .unit }
    | _, _ => stepT .fixed s t

def runA (a : AddProto) (s : S) : List Bool → S
  | [] => s
  | t :: r => runA a (stepA a s t) r

def runS (v : Variant) (s : S) : List Bool → S
  | [] => s
  | t :: r => runS v (stepT v s t) r

/-- let both threads run to completion (thread 0, then thread 1, then thread 0 again in case it was blocked) -/
def finishSched : List Bool :=
  List.replicate 8 false ++ List.replicate 8 true ++ List.replicate 8 false

def finish (v : Variant) (s : S) : S := runS v s finishSched

def mk (file : Bool) (cache : Option CRef) (bound0 fresh0 : Bool) (p0 p1 : Prog) : S :=
  ⟨file, cache, none, bound0, fresh0, false, false, { prog := p0 }, { prog := p1 }⟩

def bools : List Bool := [false, true]
def progs : List Prog := [.get, .add]

/-- every way two calls for one identifier can start: document present or not; nothing cached, or a replica `r0`
    cached whose source is / is not this store's and whose content is / is not current -/
def inits : List S :=
  bools.flatMap fun file => progs.flatMap fun p0 => progs.flatMap fun p1 =>
    mk file none false false p0 p1 ::
    (bools.flatMap fun b => bools.map fun f => mk file (some .r0) b f p0 p1)

def bothDone (s : S) : Bool := s.t0.pc == .done && s.t1.pc == .done

def resOk (s : S) (th : Th) : Bool :=
  match th.res with
  | .ref r => s.cache == some r && (r != .r0 || s.fresh0)
  | _ => true

/-- the coherence clause: whatever a retrieval returned is the one replica the cache holds (so two retrievals
    returned the same object), refreshed; a retrieval of an existing document does not fail -/
def coherent (init s : S) : Bool :=
  resOk s s.t0 && resOk s s.t1 &&
  (!(init.file) || ((s.t0.prog != .get || s.t0.res != .keyError) && (s.t1.prog != .get || s.t1.res != .keyError)))

/-- an `add()` that returned normally made ITS object the live one: the cache holds it, it is bound to the store, and a
    retrieval that returned an object returned that one -/
def addedLive (s : S) : Bool :=
  bools.all (fun t =>
    (thOf s t).res != .unit ||
    (s.cache == some (added t) && boundOf s (added t) &&
      (match (thOf s (!t)).res with
       | .ref r => r == added t
       | _ => true)))

end Conc

end Basyx.FileStore
