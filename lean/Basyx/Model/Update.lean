/-
  Model of `Referable.update_from` / `NamespaceSet.update_nss_from` (basyx/aas/model/base.py), property C12.
  The tree modelled is the pinned tree WITH fixes/C12-update-nss-complete.patch applied (matched
  Qualifier/Extension objects are updated in place, vanished objects are removed before new ones are
  added, a matched Referable of another class is replaced).

  Objects carry an identity tag (`uid` = Python `id()`), their class, the dispatch kind used by
  `update_nss_from` (`isinstance` Referable / Qualifier / Extension), an explicit `parent` pointer, the
  current value of their identifying attribute (`_id_short` / `_type` / `_name`), all other `vars()` in
  `vars()` order as abstract values `PVal` (identity of the value object, owner of a ConstrainedList's
  hooks, canonical content) and their NamespaceSets in `vars()` order; a NamespaceSet is its backend
  dict `key ↦ child`.

  Abstractions (stated in design/C12.md): (1) plain attributes are copied before the sets are merged
  (the code interleaves them in `vars()` order; only the partial state after a raise differs);
  (2) the iteration order of an *unordered* NamespaceSet is left open: the model enumerates the result
  in the order of `other` (the harness compares unordered sets sorted by key); (3) the add hook of
  SubmodelElementList (AASd-107/108/109/114) is not modelled; (4) a generated list id_short is `gen uid`.
-/
import Basyx.Model.AList
namespace Basyx.Update

abbrev Uid := Nat

inductive Key where
  | none
  | str (s : String)
  | gen (u : Nat)
deriving DecidableEq, Repr

inductive Kind where
  | referable | qualifier | extension | other
deriving DecidableEq, Repr

inductive Err where
  | keyError | attributeError | typeError | valueError | aascv (n : Nat)
deriving DecidableEq, Repr

structure PVal where
  ref : Nat
  hook : Option Uid
  val : String
deriving DecidableEq, Repr

structure SetHdr where
  name : String
  keyAttr : String
  isList : Bool
deriving DecidableEq, Repr

structure Hdr where
  uid : Uid
  cls : String
  kind : Kind
  parent : Option Uid
  key : Key
  plain : List (String × PVal)
deriving DecidableEq, Repr

inductive Node where
  | mk (h : Hdr) (sets : List (SetHdr × List (Key × Node)))

abbrev Items := List (Key × Node)
abbrev Sets := List (SetHdr × Items)

def Node.hdr : Node → Hdr
  | .mk h _ => h
def Node.sets : Node → Sets
  | .mk _ s => s
def Node.setHdr (f : Hdr → Hdr) : Node → Node
  | .mk h s => .mk (f h) s

/-- the identifying attribute `update_nss_from` / `_validate_namespace_constraints` use for an object -/
def attrOf : Kind → String
  | .referable => "id_short"
  | .qualifier => "type"
  | .extension => "name"
  | .other => ""

/-- `ATTRIBUTES_CONSTRAINT_IDS.get(attr_name, 0)` -/
def cidOf (a : String) : Nat :=
  if a = "id_short" then 22 else if a = "type" then 21 else if a = "name" then 77 else 0

/-- `for name, var in vars(other).items(): … vars(self)[name] = var` on the plain attributes:
    `source` is skipped unless asked (`parent`, `namespace_element_sets` are not part of `plain`). -/
def copyVars (us : Bool) : List (String × PVal) → List (String × PVal) → List (String × PVal)
  | l, [] => l
  | l, (n, v) :: r => if n = "source" ∧ us = false then copyVars us l r else copyVars us (AList.set n v l) r

/-- the plain part of `update_from` (also copies the identifying attribute, which is a plain `vars()` entry) -/
def copyPlain (lh oh : Hdr) (us : Bool) : Hdr :=
  { lh with key := oh.key, plain := copyVars us lh.plain oh.plain }

/-- fixed code: `_update_item_attributes(item, other_item)` — every `vars()` entry except `parent` -/
def copyItem (l o : Node) : Node :=
  l.setHdr (fun lh => { lh with key := o.hdr.key, plain := copyVars true lh.plain o.hdr.plain })

def findSet (name : String) : Sets → Option (SetHdr × Items)
  | [] => none
  | (h, it) :: r => if h.name = name then some (h, it) else findSet name r

def replaceSet (name : String) (it : Items) : Sets → Sets
  | [] => []
  | (h, i) :: r => if h.name = name then (h, it) :: r else (h, i) :: replaceSet name it r

/-- keys present in the sets of the namespace that `_validate_namespace_constraints` consults for attribute `a`,
    other than the set `name` itself -/
def sibKeys (a : String) (name : String) : Sets → List Key
  | [] => []
  | (h, it) :: r => if h.keyAttr = a ∧ h.name ≠ name then AList.keys it ++ sibKeys a name r else sibKeys a name r

inductive Slot where
  | keep (k : Key) (n : Node)     -- matched live object (updated in place)
  | add (o : Node)                -- object of `other` to be moved into the live set

structure R where
  live : Node
  det : List Node
  err : Option Err

structure MatchRes where
  slots : List Slot
  retyped : List Key
  det : List Node
  err : Option Err

structure SetsRes where
  sets : Sets
  det : List Node
  err : Option Err

/-- `NamespaceSet.remove` effect on the removed object: `parent = None`, list del hook unsets the id_short -/
def detach (isList : Bool) (n : Node) : Node :=
  n.setHdr (fun h => { h with parent := none, key := if isList then Key.none else h.key })

/-- `other.remove(o); self.add(o)`: returns the backend key and the adopted object, or the exception -/
def adopt (puid : Uid) (lsh osh : SetHdr) (present : List Key) (o : Node) : Except Err (Key × Node) :=
  let o1 := detach osh.isList o
  -- `add`: "Object has already a parent" (cannot fire after `other.remove`)
  if o1.hdr.parent ≠ none ∧ o1.hdr.parent ≠ some puid then .error .valueError else
  -- `_execute_item_id_set_hook` (SubmodelElementList._generate_id_short)
  if lsh.isList ∧ o1.hdr.key ≠ Key.none then .error (.aascv 120) else
  let k := if lsh.isList then Key.gen o.hdr.uid else o1.hdr.key
  -- `_validate_namespace_constraints`
  if attrOf o.hdr.kind ≠ lsh.keyAttr then .error .attributeError else
  if k = Key.none then .error (if lsh.keyAttr = "id_short" then .aascv 117 else .valueError) else
  if k ∈ present then .error (.aascv (cidOf lsh.keyAttr)) else
  .ok (k, o1.setHdr (fun h => { h with parent := some puid, key := k }))

/-- live backend with the matched objects replaced (partial state of loop 1) -/
def applyKeeps (l : Items) : List Slot → Items
  | [] => l
  | .keep k n :: r => applyKeeps (AList.set k n l) r
  | .add _ :: r => applyKeeps l r

def keepKeys : List Slot → List Key
  | [] => []
  | .keep k _ :: r => k :: keepKeys r
  | .add _ :: r => keepKeys r

def keepItems (rm : List Key) : List Slot → Items
  | [] => []
  | .keep k n :: r => if k ∈ rm then keepItems rm r else (k, n) :: keepItems rm r
  | .add _ :: r => keepItems rm r

/-- loop 3 (after the removals): the objects to add are adopted one by one, in the order of `other` -/
def resolve (puid : Uid) (lsh osh : SetHdr) (sib rm : List Key) : List Key → List Slot → Items × Option Err
  | _, [] => ([], none)
  | cur, .keep k n :: r =>
    if k ∈ rm then resolve puid lsh osh sib rm cur r
    else let (xs, e) := resolve puid lsh osh sib rm cur r; ((k, n) :: xs, e)
  | cur, .add o :: r =>
    match adopt puid lsh osh (cur ++ sib) o with
    | .error e => (keepItems rm r, some e)
    | .ok (k, o') => let (xs, e) := resolve puid lsh osh sib rm (k :: cur) r; ((k, o') :: xs, e)

structure SetRes where
  items : Items
  det : List Node
  err : Option Err

/-- `update_nss_from` after loop 1: loop 2 (what to remove), the removals, loop 3 (the additions) -/
def finishSet (puid : Uid) (lsh osh : SetHdr) (sib : List Key) (litems oitems : Items) (m : MatchRes) : SetRes :=
  let base := applyKeeps litems m.slots
  match m.err with
  | some e => ⟨base, m.det, some e⟩
  | none =>
    -- loop 2: objects of self that `other` does not have, and the retyped ones
    let okeys := AList.keys oitems
    let rm := m.retyped ++ (if lsh.keyAttr = osh.keyAttr then (AList.keys litems).filter (fun k => k ∉ okeys) else [])
    let removed := (base.filter (fun p => p.1 ∈ rm)).map (fun p => detach lsh.isList p.2)
    let stay := base.filter (fun p => p.1 ∉ rm ∧ p.1 ∉ keepKeys m.slots)
    let cur := (AList.keys base).filter (fun k => k ∉ rm)
    let x := resolve puid lsh osh sib rm cur m.slots
    ⟨stay ++ x.1, m.det ++ removed, x.2⟩

def addSlot (o : Node) (rt : List Key) (m : MatchRes) : MatchRes :=
  ⟨.add o :: m.slots, rt ++ m.retyped, m.det, m.err⟩

/-- one iteration of loop 1 of `update_nss_from` for the object `o` of `other`; `upd l` is `l.update_from(o, True)`,
    `m` the result of the remaining iterations (unused when this iteration raises) -/
def matchStep (lsh : SetHdr) (litems : Items) (o : Node) (upd : Node → R) (m : MatchRes) : MatchRes :=
  if o.hdr.kind = Kind.other then ⟨[], [], [], some .typeError⟩ else
  if attrOf o.hdr.kind ≠ lsh.keyAttr then addSlot o [] m       -- `self._backend[...]` KeyError → caught
  else match AList.get o.hdr.key litems with
    | none => addSlot o [] m
    | some l =>
      if o.hdr.kind = Kind.referable then
        if l.hdr.cls ≠ o.hdr.cls then addSlot o [o.hdr.key] m
        else
          let r := upd l
          match r.err with
          | none => ⟨.keep o.hdr.key r.live :: m.slots, m.retyped, r.det ++ m.det, m.err⟩
          | some e =>
            if e = Err.keyError then      -- `except KeyError:` also catches a KeyError of the nested update
              ⟨.keep o.hdr.key r.live :: .add o :: m.slots, m.retyped, r.det ++ m.det, m.err⟩
            else ⟨[.keep o.hdr.key r.live], [], r.det, some e⟩
      else ⟨.keep o.hdr.key (copyItem l o) :: m.slots, m.retyped, m.det, m.err⟩

/-- continuation of `update_from` after one NamespaceSet attribute has been merged -/
def afterSet (name : String) (lsets : Sets) (s : SetRes) (next : Sets → SetsRes) : SetsRes :=
  let lsets' := replaceSet name s.items lsets
  match s.err with
  | some e => ⟨lsets', s.det, some e⟩
  | none => let r2 := next lsets'; ⟨r2.sets, s.det ++ r2.det, r2.err⟩

mutual
/-- `Referable.update_from(self=live, other, update_source=us)` -/
def updateFrom (live : Node) (other : Node) (us : Bool) : R :=
  match other with
  | .mk oh osets =>
    let lh := copyPlain live.hdr oh us
    let r := updateSets lh.uid (lh.plain.map Prod.fst) live.sets osets
    ⟨.mk lh r.sets, r.det, r.err⟩

/-- the NamespaceSet entries of `vars(other)`, in order: `vars(self)[name].update_nss_from(var)` -/
def updateSets (puid : Uid) (plainNames : List String) (lsets : Sets) : Sets → SetsRes
  | [] => ⟨lsets, [], none⟩
  | (osh, oitems) :: rest =>
    match findSet osh.name lsets with
    | none => ⟨lsets, [], some (if osh.name ∈ plainNames then .attributeError else .keyError)⟩
    | some (lsh, litems) =>
      afterSet osh.name lsets
        (finishSet puid lsh osh (sibKeys lsh.keyAttr lsh.name lsets) litems oitems (matchLoop lsh litems oitems))
        (fun lsets' => updateSets puid plainNames lsets' rest)

/-- loop 1 of `update_nss_from`: match every object of `other` by its identifying attribute -/
def matchLoop (lsh : SetHdr) (litems : Items) : Items → MatchRes
  | [] => ⟨[], [], [], none⟩
  | (_, o) :: rest => matchStep lsh litems o (fun l => updateFrom l o true) (matchLoop lsh litems rest)
end

/-! ### observations -/

inductive CTree where
  | mk (cls : String) (key : Key) (plain : List (String × String)) (sets : List (String × List CTree))

def canonPlain (p : List (String × PVal)) : List (String × String) :=
  (p.filter (fun x => x.1 ≠ "source")).map (fun x => (x.1, x.2.val))

mutual
/-- every metamodel attribute at every depth: class, identifying attribute (not for children of a list, whose
    id_short is generated), plain attribute contents (not `source`, not `parent`), children per set -/
def canon (inList : Bool) : Node → CTree
  | .mk h sets => .mk h.cls (if inList then Key.none else h.key) (canonPlain h.plain) (canonSets sets)
def canonSets : Sets → List (String × List CTree)
  | [] => []
  | (sh, it) :: r => (sh.name, canonItems sh.isList it) :: canonSets r
def canonItems (isList : Bool) : Items → List CTree
  | [] => []
  | (_, n) :: r => canon isList n :: canonItems isList r
end

def source (n : Node) : Option PVal := AList.get "source" n.hdr.plain

/-- the child stored under `key` in the set `name` -/
def child (n : Node) (name : String) (key : Key) : Option Node :=
  match findSet name n.sets with
  | some (_, it) => AList.get key it
  | none => none

end Basyx.Update
