/-
  Model of `basyx.aas.backend.couchdb` (property C16): `CouchDBBackend.do_request` (response classification),
  `update_object` / `commit_object`, the module-level revision store, `CouchDBObjectStore` (add, get_identifiable(_by_couchdb_id),
  discard(safe_delete), __contains__, __len__, __iter__, _transform_id, generate_source) — transcribed branch by branch —
  together with the *trusted specification* of the CouchDB document API subset the client uses (MVCC rules).

  Representation choices
  * `Ident`  : the UTF-8 bytes of an `Identifier` (Python `str`).  `Quoted` : ASCII codes of `urllib.parse.quote(id, safe='')`.
  * A document URL `"{url}/{db}/{quoted}"` is represented by its last segment (`Quoted`); the fixed prefix is glue of the driver.
    Hence `_revision_store : Dict[url, rev]` is `revs : List (Quoted × Rev)` and `Referable.source` is `Option Quoted`
    (`none` = `""`).
  * `Rev` n stands for the revision string `"<n>-r"`; the server keeps the per-document revision counter across deletions
    (CouchDB keeps a tombstone), so a revision never names two different states of one document.
  * `Data` n stands for the payload (the harness uses a Submodel whose idShort is `"v<n>"`).
  * Python objects are handles (`Nat`) into `objs`; the weak-value cache is `cache : id ↦ handle`, `drop` models the last
    strong reference going away.
  * Fault injection: every client request consumes one entry of `plan`; `none` = the server answers, `some f` = the response
    `f.kind` is delivered instead, the request reaching the server iff `f.processed`.
-/
import Basyx.Model.AList
namespace Basyx.Couch

abbrev Byte := Fin 256
abbrev Ident := List Byte
abbrev Quoted := List Nat
abbrev Rev := Nat
abbrev Data := Nat

/-! ### `_transform_id` = `urllib.parse.quote(identifier, safe='')` (bytewise over UTF-8) and its inverse on the server side -/

/-- `A-Z a-z 0-9 _ . - ~` — the characters `quote` never escapes -/
def unreserved (b : Nat) : Bool :=
  (65 ≤ b && b ≤ 90) || (97 ≤ b && b ≤ 122) || (48 ≤ b && b ≤ 57) || b == 95 || b == 46 || b == 45 || b == 126

def hexDigit (n : Nat) : Nat := if n < 10 then 48 + n else 55 + n

def quoteByte (b : Byte) : List Nat :=
  if unreserved b.val then [b.val] else [37, hexDigit (b.val / 16), hexDigit (b.val % 16)]

def quote : Ident → Quoted
  | [] => []
  | b :: r => quoteByte b ++ quote r

def hexVal (c : Nat) : Option Nat :=
  if 48 ≤ c ∧ c ≤ 57 then some (c - 48)
  else if 65 ≤ c ∧ c ≤ 70 then some (c - 55)
  else if 97 ≤ c ∧ c ≤ 102 then some (c - 87)
  else none

/-- percent-decoding as the server does it; a `%` not followed by two hex digits is kept literally; codes ≥ 256 cannot occur
    in a URL and are dropped -/
def lit (c : Nat) (r : Ident) : Ident := if c < 256 then Fin.ofNat 256 c :: r else r

def unquote : Quoted → Ident
  | [] => []
  | c :: a :: b :: r =>
    if c = 37 then
      match hexVal a, hexVal b with
      | some x, some y => Fin.ofNat 256 (x * 16 + y) :: unquote r
      | _, _ => lit c (unquote (a :: b :: r))
    else lit c (unquote (a :: b :: r))
  | c :: t => lit c (unquote t)

/-- `del d[k]` / `d.pop(k, None)` on a dict: no binding of `k` remains (bindings of other keys keep their order) -/
def eraseKey {κ ν : Type} [DecidableEq κ] (k : κ) (l : List (κ × ν)) : List (κ × ν) := l.filter (fun p => p.1 ≠ k)

/-! ### The server: CouchDB's MVCC rules for the document API subset (trusted specification) -/

structure Doc where
  gen : Nat                 -- number of the latest revision of this document id (tombstones included)
  body : Option Data        -- `none` = deleted
deriving Repr, DecidableEq

structure Server where
  docs : List (Ident × Doc) := []   -- in order of first creation
deriving Repr, DecidableEq

inductive Method where | GET | HEAD | PUT | DELETE
deriving Repr, DecidableEq

inductive Target where
  | db                       -- "{url}/{db}"
  | allDocs                  -- "{url}/{db}/_all_docs"
  | doc (q : Quoted)         -- "{url}/{db}/{q}"
deriving Repr, DecidableEq

structure Req where
  method : Method
  target : Target
  rev : Option Rev := none       -- `_rev` member of a PUT body / `?rev=` of a DELETE
  data : Option Data := none     -- `data` member of a PUT body
deriving Repr, DecidableEq

inductive Body where
  | doc (id : Ident) (rev : Rev) (data : Data)     -- {"_id", "_rev", "data"}
  | written (id : Ident) (rev : Rev)               -- {"ok": true, "id", "rev"}
  | dbInfo (count : Nat)                           -- {"db_name", "doc_count"}
  | rows (ids : List Ident)                        -- {"total_rows", "rows": [{"id"}…]}
  | error                                          -- {"error": …, "reason": …}
  | empty                                          -- no body (HEAD)
  | notJson                                        -- bytes that are not a JSON document
deriving Repr, DecidableEq

structure Resp where
  status : Nat
  json : Bool                  -- Content-type header is exactly `application/json`
  body : Body
  etag : Option Rev := none
deriving Repr, DecidableEq

def lookup (sv : Server) (i : Ident) : Option Doc := AList.get i sv.docs
/-- revision counter of a document id (0 = never existed) -/
def genOf (sv : Server) (i : Ident) : Nat := match lookup sv i with | some d => d.gen | none => 0
/-- the live document: current revision and payload -/
def live (sv : Server) (i : Ident) : Option (Rev × Data) :=
  match lookup sv i with
  | some ⟨g, some d⟩ => some (g, d)
  | _ => none

/-- a new revision of document `i` with body `b` (`none` = tombstone) -/
def write (sv : Server) (i : Ident) (b : Option Data) : Server :=
  { docs := AList.set i ⟨genOf sv i + 1, b⟩ sv.docs }

def liveIds (sv : Server) : List Ident :=
  (sv.docs.filter (fun p => p.2.body.isSome)).map Prod.fst

def err (status : Nat) : Resp := ⟨status, true, .error, none⟩

/-- requests addressed to document `i` -/
def serveDoc (sv : Server) (i : Ident) (rq : Req) : Server × Resp :=
  match rq.method with
  | .GET =>
    match live sv i with
    | some (g, d) => (sv, ⟨200, true, .doc i g d, some g⟩)
    | none => (sv, err 404)
  | .HEAD =>
    match live sv i with
    | some (g, _) => (sv, ⟨200, true, .empty, some g⟩)
    | none => (sv, ⟨404, true, .empty, none⟩)
  | .PUT =>
    match rq.data with
    | none => (sv, err 400)
    | some d =>
      match live sv i with
      | some (g, _) =>
        if rq.rev = some g then (write sv i (some d), ⟨201, true, .written i (g + 1), some (g + 1)⟩)
        else (sv, err 409)
      | none =>
        if rq.rev = none then (write sv i (some d), ⟨201, true, .written i (genOf sv i + 1), some (genOf sv i + 1)⟩)
        else (sv, err 409)
  | .DELETE =>
    match live sv i with
    | some (g, _) =>
      if rq.rev = some g then (write sv i none, ⟨200, true, .written i (g + 1), some (g + 1)⟩)
      else (sv, err 409)
    | none => (sv, err 404)

def serve (sv : Server) (rq : Req) : Server × Resp :=
  match rq.target with
  | .db =>
    match rq.method with
    | .GET => (sv, ⟨200, true, .dbInfo (liveIds sv).length, none⟩)
    | .HEAD => (sv, ⟨200, true, .empty, none⟩)
    | _ => (sv, err 405)
  | .allDocs =>
    match rq.method with
    | .GET => (sv, ⟨200, true, .rows (liveIds sv), none⟩)
    | _ => (sv, err 405)
  | .doc q =>
    if 47 ∈ q then (sv, err 404)           -- "/db/a/b" is an attachment path: not found
    else serveDoc sv (unquote q) rq

/-! ### The external writer: another well-behaved CouchDB client that wins its race (acts on the server directly) -/

/-- reads the current revision and writes `d` (create or update) -/
def extPut (sv : Server) (i : Ident) (d : Data) : Server :=
  (serve sv ⟨.PUT, .doc (quote i), (live sv i).map Prod.fst, some d⟩).1

/-- reads the current revision and deletes (no effect if absent) -/
def extDelete (sv : Server) (i : Ident) : Server :=
  (serve sv ⟨.DELETE, .doc (quote i), (live sv i).map Prod.fst, none⟩).1

/-! ### `CouchDBBackend.do_request`: classification of what came back -/

inductive Transport where
  | timeout        -- urllib3.exceptions.TimeoutError
  | ssl            -- urllib3.exceptions.SSLError
  | protocol       -- urllib3.exceptions.ProtocolError (dropped connection)
  | otherHttp      -- any other urllib3.exceptions.HTTPError (e.g. MaxRetryError)
deriving Repr, DecidableEq

inductive Wire where
  | resp (r : Resp)
  | fail (k : Transport)
deriving Repr, DecidableEq

inductive Outcome where
  | ok (b : Body)                 -- parsed JSON data returned
  | headers (etag : Option Rev)   -- HEAD: the response headers returned
  | serverError (code : Nat)      -- CouchDBServerError(code)
  | responseError                 -- CouchDBResponseError
  | connectionError               -- CouchDBConnectionError
  | keyError                      -- `data['error']` on a non-2xx JSON body that is not error-shaped (escapes as KeyError)
deriving Repr, DecidableEq

def classify (m : Method) : Wire → Outcome
  | .fail .timeout => .connectionError
  | .fail .ssl => .connectionError
  | .fail .protocol => .connectionError
  | .fail .otherHttp => .responseError
  | .resp r =>
    if ¬ (200 ≤ r.status ∧ r.status < 300) then
      if r.json = false then .responseError
      else if m = .HEAD then .serverError r.status
      else match r.body with
        | .notJson => .responseError
        | .empty => .responseError
        | .error => .serverError r.status
        | _ => .keyError
    else if m = .HEAD then .headers r.etag
    else if r.json = false then .responseError
    else match r.body with
      | .notJson => .responseError
      | .empty => .responseError
      | b => .ok b

/-! ### Faults -/

inductive FaultKind where
  | status (code : Nat) (jsonType : Bool) (jsonBody : Bool)   -- answered with this status; body = CouchDB error JSON or junk text
  | transport (k : Transport)
deriving Repr, DecidableEq

structure Fault where
  kind : FaultKind
  processed : Bool            -- the request reached the server and was executed before the response was replaced/lost
deriving Repr, DecidableEq

def faultWire : FaultKind → Wire
  | .status c jt jb => .resp ⟨c, jt, if jb then .error else .notJson, none⟩
  | .transport k => .fail k

/-! ### The client -/

structure Obj where
  id : Ident
  data : Data
  source : Option Quoted := none
deriving Repr, DecidableEq

structure Client where
  revs : List (Quoted × Rev) := []     -- couchdb._revision_store
  cache : List (Ident × Nat) := []     -- store._object_cache  (id ↦ handle, weak)
  objs : List (Nat × Obj) := []        -- objects the application holds
  next : Nat := 0
deriving Repr, DecidableEq

inductive Exc where
  | keyError | conflict | serverError (code : Nat) | responseError | connectionError
deriving Repr, DecidableEq

inductive Out where
  | unit
  | handle (h : Nat)
  | bool (b : Bool)
  | nat (n : Nat)
  | handles (hs : List Nat) (stopped : Option Exc)    -- iteration: objects yielded, and the exception that ended it early
  | raise (e : Exc)
  | badHandle                                          -- harness error (no such object); never produced on generated histories
deriving Repr, DecidableEq

structure W where
  cl : Client := {}
  sv : Server := {}
  plan : List (Option Fault) := []
  log : List (Req × Wire) := []
deriving Repr, DecidableEq

/-- one `do_request` call: consume a plan entry, let the server (or the fault) answer, classify -/
def request (w : W) (rq : Req) : W × Outcome :=
  match w.plan with
  | some f :: rest =>
    let sv' := if f.processed then (serve w.sv rq).1 else w.sv
    ({ w with sv := sv', plan := rest, log := w.log ++ [(rq, faultWire f.kind)] }, classify rq.method (faultWire f.kind))
  | none :: rest =>
    let r := serve w.sv rq
    ({ w with sv := r.1, plan := rest, log := w.log ++ [(rq, .resp r.2)] }, classify rq.method (.resp r.2))
  | [] =>
    let r := serve w.sv rq
    ({ w with sv := r.1, log := w.log ++ [(rq, .resp r.2)] }, classify rq.method (.resp r.2))

/-- how a `do_request` failure that no caller handles specially propagates -/
def excOf : Outcome → Exc
  | .serverError c => .serverError c
  | .responseError => .responseError
  | .connectionError => .connectionError
  | _ => .keyError

def setRev (w : W) (q : Quoted) (r : Rev) : W := { w with cl := { w.cl with revs := AList.set q r w.cl.revs } }
def getObj (w : W) (h : Nat) : Option Obj := AList.get h w.cl.objs
def setObj (w : W) (h : Nat) (x : Obj) : W := { w with cl := { w.cl with objs := AList.set h x w.cl.objs } }

/-- a new local replica: `self._object_cache[obj.id] = obj; return obj` -/
def freshObj (w : W) (i : Ident) (d : Data) : W × Out :=
  ({ w with cl := { w.cl with objs := AList.set w.cl.next ⟨i, d, some (quote i)⟩ w.cl.objs,
                               cache := AList.set i w.cl.next w.cl.cache, next := w.cl.next + 1 } }, .handle w.cl.next)

/-- the cache part of `get_identifiable_by_couchdb_id`: a live replica with the right source is updated and returned,
    otherwise the decoded object becomes the replica -/
def adopt (w : W) (i : Ident) (d : Data) : W × Out :=
  match AList.get i w.cl.cache with
  | some h =>
    match getObj w h with
    | some old =>
      if old.source = some (quote i) then (setObj w h { old with id := i, data := d }, .handle h)   -- old_obj.update_from(obj)
      else freshObj w i d
    | none => freshObj w i d
  | none => freshObj w i d

/-- `get_identifiable_by_couchdb_id` -/
def getByCouchId (w : W) (cid : Ident) : W × Out :=
  match request w ⟨.GET, .doc (quote cid), none, none⟩ with
  | (w, .ok (.doc i rev d)) =>
    -- obj = data['data'] (an Identifiable with id i); generate_source(obj); set_couchdb_revision(url, data['_rev'])
    adopt (setRev w (quote cid) rev) i d
  | (w, .ok _) => (w, .raise .keyError)                       -- data['data'] missing
  | (w, .serverError 404) => (w, .raise .keyError)
  | (w, o) => (w, .raise (excOf o))

/-- `add` -/
def add (w : W) (h : Nat) : W × Out :=
  match getObj w h with
  | none => (w, .badHandle)
  | some x =>
    match request w ⟨.PUT, .doc (quote x.id), none, some x.data⟩ with
    | (w, .ok (.written _ rev)) =>
      (setObj { setRev w (quote x.id) rev with cl := { (setRev w (quote x.id) rev).cl with
                  cache := AList.set x.id h (setRev w (quote x.id) rev).cl.cache } } h { x with source := some (quote x.id) }, .unit)
    | (w, .ok _) => (w, .raise .keyError)                     -- response["rev"] missing
    | (w, .serverError 409) => (w, .raise .keyError)
    | (w, o) => (w, .raise (excOf o))

/-- `Referable.commit()` on a top-level Identifiable → `CouchDBBackend.commit_object` -/
def commit (w : W) (h : Nat) : W × Out :=
  match getObj w h with
  | none => (w, .badHandle)
  | some x =>
    match x.source with
    | none => (w, .unit)                                       -- no source: commit() does nothing
    | some q =>
      match AList.get q w.cl.revs with
      | none => (w, .raise .conflict)                          -- "No revision found for the given object"
      | some rev =>
        match request w ⟨.PUT, .doc q, some rev, some x.data⟩ with
        | (w, .ok (.written _ rev')) => (setRev w q rev', .unit)
        | (w, .ok _) => (w, .raise .keyError)
        | (w, .serverError 409) => (w, .raise .conflict)
        | (w, .serverError 404) => (w, .raise .keyError)
        | (w, o) => (w, .raise (excOf o))

/-- `Referable.update()` on a top-level Identifiable → `CouchDBBackend.update_object` -/
def update (w : W) (h : Nat) : W × Out :=
  match getObj w h with
  | none => (w, .badHandle)
  | some x =>
    match x.source with
    | none => (w, .unit)
    | some q =>
      match request w ⟨.GET, .doc q, none, none⟩ with
      | (w, .ok (.doc i rev d)) =>
        (setObj (setRev w q rev) h { x with id := i, data := d }, .unit)      -- store_object.update_from(data['data'])
      | (w, .ok _) => (w, .raise .keyError)
      | (w, .serverError 404) => (w, .raise .keyError)
      | (w, o) => (w, .raise (excOf o))

/-- the tail of `discard` after the revision to delete has been determined.
    `fixed = true`: bookkeeping with `dict.pop(key, None)` (fixes/C16-discard-bookkeeping.patch);
    `fixed = false`: the pinned tree (`del d[key]` raises KeyError after the server-side delete). -/
def discardWith (fixed : Bool) (w : W) (h : Nat) (x : Obj) (q : Quoted) (rev : Rev) : W × Out :=
  match request w ⟨.DELETE, .doc q, some rev, none⟩ with
  | (w, .ok _) =>
    if !fixed && (AList.get q w.cl.revs).isNone then (w, .raise .keyError)     -- delete_couchdb_revision: del _revision_store[url]
    else if !fixed && (AList.get x.id w.cl.cache).isNone then                  -- del self._object_cache[x.id]
      ({ w with cl := { w.cl with revs := eraseKey q w.cl.revs } }, .raise .keyError)
    else
      (setObj { w with cl := { w.cl with revs := eraseKey q w.cl.revs, cache := eraseKey x.id w.cl.cache } } h
         { x with source := none }, .unit)
  | (w, .serverError 404) => (w, .raise .keyError)
  | (w, .serverError 409) => (w, .raise .conflict)
  | (w, o) => (w, .raise (excOf o))

/-- `discard(x, safe_delete)` -/
def discardG (fixed : Bool) (w : W) (h : Nat) (safe : Bool) : W × Out :=
  match getObj w h with
  | none => (w, .badHandle)
  | some x =>
    match AList.get (quote x.id) w.cl.revs, safe with
    | some rev, true => discardWith fixed w h x (quote x.id) rev
    | none, true => (w, .raise .conflict)                      -- "No CouchDBRevision found for the object"
    | _, false =>
      match request w ⟨.HEAD, .doc (quote x.id), none, none⟩ with
      | (w, .headers (some rev)) => discardWith fixed w h x (quote x.id) rev
      | (w, .headers none) => (w, .raise .keyError)            -- headers['ETag'] missing
      | (w, .serverError 404) => (w, .raise .keyError)
      | (w, o) => (w, .raise (excOf o))

def discard := discardG true
def discardPinned := discardG false

/-- `identifier in store` -/
def contains (w : W) (i : Ident) : W × Out :=
  match request w ⟨.HEAD, .doc (quote i), none, none⟩ with
  | (w, .headers _) => (w, .bool true)
  | (w, .serverError 404) => (w, .bool false)
  | (w, o) => (w, .raise (excOf o))

/-- `len(store)` -/
def len (w : W) : W × Out :=
  match request w ⟨.GET, .db, none, none⟩ with
  | (w, .ok (.dbInfo n)) => (w, .nat n)
  | (w, .ok _) => (w, .raise .keyError)
  | (w, o) => (w, .raise (excOf o))

def iterLoop (w : W) : List Ident → List Nat → W × Out
  | [], acc => (w, .handles acc.reverse none)
  | cid :: rest, acc =>
    match getByCouchId w cid with
    | (w', .handle h) => iterLoop w' rest (h :: acc)
    | (w', .raise e) => (w', .handles acc.reverse (some e))
    | (w', _) => (w', .handles acc.reverse (some .keyError))

/-- `list(store)`: `_all_docs`, then one `get_identifiable_by_couchdb_id` per row -/
def iter (w : W) : W × Out :=
  match request w ⟨.GET, .allDocs, none, none⟩ with
  | (w, .ok (.rows ids)) => iterLoop w ids []
  | (w, .ok _) => (w, .raise .keyError)
  | (w, o) => (w, .raise (excOf o))

/-- the application creates a local object (not yet in any store) -/
def mk (w : W) (i : Ident) (d : Data) : W × Out :=
  ({ w with cl := { w.cl with objs := AList.set w.cl.next ⟨i, d, none⟩ w.cl.objs, next := w.cl.next + 1 } }, .handle w.cl.next)

/-- local modification of an object -/
def modify (w : W) (h : Nat) (d : Data) : W × Out :=
  match getObj w h with
  | none => (w, .badHandle)
  | some x => (setObj w h { x with data := d }, .unit)

/-- the application drops its last reference: the object dies, its weak cache entry disappears -/
def drop (w : W) (h : Nat) : W × Out :=
  ({ w with cl := { w.cl with objs := eraseKey h w.cl.objs, cache := w.cl.cache.filter (fun p => p.2 ≠ h) } }, .unit)

inductive COp where
  | mk (i : Ident) (d : Data) | modify (h : Nat) (d : Data) | drop (h : Nat)
  | add (h : Nat) | get (i : Ident) | commit (h : Nat) | update (h : Nat) | discard (h : Nat) (safe : Bool)
  | contains (i : Ident) | len | iter
deriving Repr, DecidableEq

inductive Op where
  | client (op : COp) (plan : List (Option Fault))     -- an SDK call, with the fault plan of its requests
  | extPut (i : Ident) (d : Data)                      -- the external writer
  | extDelete (i : Ident)
deriving Repr, DecidableEq

def cstep (w : W) : COp → W × Out
  | .mk i d => mk w i d
  | .modify h d => modify w h d
  | .drop h => drop w h
  | .add h => add w h
  | .get i => getByCouchId w i
  | .commit h => commit w h
  | .update h => update w h
  | .discard h s => discard w h s
  | .contains i => contains w i
  | .len => len w
  | .iter => iter w

def step (w : W) : Op → W × Out
  | .client op plan => cstep { w with plan := plan, log := [] } op
  | .extPut i d => ({ w with sv := extPut w.sv i d, plan := [], log := [] }, .unit)
  | .extDelete i => ({ w with sv := extDelete w.sv i, plan := [], log := [] }, .unit)

def run (w : W) : List Op → W
  | [] => w
  | op :: r => run (step w op).1 r

def init : W := {}

end Basyx.Couch
