/-
  C06 — model of `basyx.aas.model.datatypes`: the 31 XSD simple types, `trivial_cast`, and (in the `Lex/*` files)
  `xsd_repr` / `from_xsd` per type.  See `Lex/Basic.lean` for the conventions.
-/
import Basyx.Model.Lex.Basic
import Basyx.Model.Lex.Int
import Basyx.Model.Lex.DateTime
import Basyx.Model.Lex.Binary
import Basyx.Model.Lex.Duration
import Basyx.Model.Lex.Misc
namespace Basyx.Lex

/-- the 30 value types of the AAS specification plus xs:normalizedString, in the order of `AnyXSDType` -/
inductive Ty where
  | duration | dateTime | date | time | gYearMonth | gYear | gMonthDay | gMonth | gDay | boolean
  | base64Binary | hexBinary | float | double | decimal | integer | long | int | short | byte
  | nonPositiveInteger | negativeInteger | nonNegativeInteger | positiveInteger
  | unsignedLong | unsignedInt | unsignedShort | unsignedByte | anyURI | string | normalizedString
deriving DecidableEq, Repr

def Ty.all : List Ty :=
  [.duration, .dateTime, .date, .time, .gYearMonth, .gYear, .gMonthDay, .gMonth, .gDay, .boolean,
   .base64Binary, .hexBinary, .float, .double, .decimal, .integer, .long, .int, .short, .byte,
   .nonPositiveInteger, .negativeInteger, .nonNegativeInteger, .positiveInteger,
   .unsignedLong, .unsignedInt, .unsignedShort, .unsignedByte, .anyURI, .string, .normalizedString]

/-- the identifier under which `datatypes.py` defines the type -/
def Ty.pyName : Ty → String
  | .duration => "Duration" | .dateTime => "DateTime" | .date => "Date" | .time => "Time"
  | .gYearMonth => "GYearMonth" | .gYear => "GYear" | .gMonthDay => "GMonthDay" | .gMonth => "GMonth"
  | .gDay => "GDay" | .boolean => "Boolean" | .base64Binary => "Base64Binary" | .hexBinary => "HexBinary"
  | .float => "Float" | .double => "Double" | .decimal => "Decimal" | .integer => "Integer" | .long => "Long"
  | .int => "Int" | .short => "Short" | .byte => "Byte" | .nonPositiveInteger => "NonPositiveInteger"
  | .negativeInteger => "NegativeInteger" | .nonNegativeInteger => "NonNegativeInteger"
  | .positiveInteger => "PositiveInteger" | .unsignedLong => "UnsignedLong" | .unsignedInt => "UnsignedInt"
  | .unsignedShort => "UnsignedShort" | .unsignedByte => "UnsignedByte" | .anyURI => "AnyURI"
  | .string => "String" | .normalizedString => "NormalizedString"

/-- Python base class relevant for `trivial_cast` -/
inductive Base where
  | int | float | str | bytearray | date | other
deriving DecidableEq, Repr

def Ty.base : Ty → Base
  | .boolean | .integer | .long | .int | .short | .byte | .nonPositiveInteger | .negativeInteger
  | .nonNegativeInteger | .positiveInteger | .unsignedLong | .unsignedInt | .unsignedShort | .unsignedByte => .int
  | .float | .double => .float
  | .anyURI | .string | .normalizedString => .str
  | .base64Binary | .hexBinary => .bytearray
  | .date => .date
  | _ => .other

/-- a Python value handed to `trivial_cast` (plain built-in objects, as a user writes them) -/
inductive PyVal where
  | int (i : Int)
  | bool (b : Bool)
  | float
  | str (s : Str)
  | bytes
  | date (y m d : Nat)           -- `datetime.date`
  | datetime (y m d : Nat)       -- `datetime.datetime` (a subclass of `datetime.date`)
  | none
deriving DecidableEq, Repr

inductive CastR where
  | same                         -- `return value`
  | newInt (i : Int)             -- `type_(value)` of an int class
  | newBool (b : Bool)
  | newFloat
  | newStr (s : Str)
  | newBytes
  | newDate (y m d : Nat)        -- `Date(value.year, value.month, value.day)`
  | valueError
  | typeError
deriving DecidableEq, Repr

/-- `trivial_cast(value, type_)`; `rng τ` is the range check of the integer class `τ` -/
def trivialCast (rng : Ty → Range) (v : PyVal) (τ : Ty) : CastR :=
  -- isinstance(value, type_)
  let inst : Bool := match v, τ with
    | .int _, .integer => true
    | .bool _, .boolean => true          -- a bool is an `int` instance, but only `Boolean` keeps it (fix 0ee0d87)
    | .float, .double => true
    | .str _, .string => true
    | .datetime _ _ _, .dateTime => true
    | _, _ => false
  if inst then .same
  else match v, τ.base with
    | .int i, .int =>
      if τ = .boolean then .newBool (i ≠ 0)
      else (match construct (rng τ) i with | some j => .newInt j | none => .valueError)
    | .bool b, .int =>
      (match construct (rng τ) (if b then 1 else 0) with | some j => .newInt j | none => .valueError)
    | .float, .float => .newFloat
    | .str s, .str =>
      if τ = .normalizedString then (match parseNormalized s with | some t => .newStr t | none => .valueError)
      else .newStr s
    | .bytes, .bytearray => .newBytes
    | .date y m d, .date => .newDate y m d
    | .datetime y m d, .date => .newDate y m d
    | _, _ => .typeError

end Basyx.Lex
